import Proofs.C06.Watch
import Proofs.C06.Wire
import Proofs.C06.Prefix
import Proofs.C06.Wf
import Proofs.C06.More
import Proofs.C06.Delete
/-!
# C06 — a gossiping KV cluster converges after any loss, reordering or partition (property theorems)

Model: `Model/C06.lean` — node = store (`key ↦ value, version, deleted, updateTime`) + the two
broadcast queues with the invalidation rule + delayed notifications + watcher cells; cluster =
nodes + messages in flight + one clock; events `cas / gossipTick / deliver / drop / dup / pushPull /
corrupt / watch / watcherRun / notifyTick / restart / tick` (`C06.stepC`). The node model is generic
in the replicated value (`MergeVal`); the theorems instantiate it at ring descriptors (`V = Desc`,
merge = `C03.merge`, proved a CRDT in `Props/C03.lean`). The correspondence check runs the same
definitions at `V = Val` (ring descriptor or partition ring) against the real `memberlist.KV`.

Provisos made explicit (they are the property's, cf. `Props/C03.lean`):
* `Univ U`, `TombClosed U` — one content per (instance, timestamp, tombstone-ness), no token claimed by
  two instances, and the tombstone of an entry is the tombstone content (static fields per instance);
* `GoodRun` — every CAS function writes values drawn from `U` whose timestamps are ≥ 1 and not above
  the global clock of the step (`GoodFn`);
* `cfg.lit = 0` — no tombstone reaches the retention (`LeftIngestersTimeout`) during the history;
  keys are not deleted (`KV.Delete` is outside this model's events);
* convergence is stated for non-empty keys: a pair with an empty key is invalid on both receive paths,
  so a value written locally under key "" is never replicated.
`Inv U c` holds in every state reachable from `initC n clock` by ANY finite sequence of events of a
`GoodRun` (`reachable_inv`), i.e. after any loss, duplication, reordering, delay, partition, restart.
Liveness is claimed for the explicit sequence `syncEvents` (heal + two full-state sync passes), not
for memberlist's probabilistic schedule.
-/
namespace PC06
open Ring C03 C06 PfC03 PfC06

variable {U : String → Int → Bool → Inst}

/-- the invariant holds in every reachable state, whatever the schedule -/
theorem reachable_inv (hU : Univ U) (hT : TombClosed U) {cfg : Cfg} (hcfg : cfg.lit = 0) (n : Nat) {clock : Int}
    (hclock : clock ≥ 1) (evs : List (Event Desc)) (hevs : GoodRun U cfg (initC n clock) evs) :
    Inv U (runC cfg (initC n clock) evs) :=
  inv_run hU hT hcfg (inv_init n hclock) evs hevs

/-- every event except a restart of node `i` itself weakly increases node `i`'s value (per key, per instance) in the
merge order -/
theorem store_monotone (hU : Univ U) (hT : TombClosed U) {cfg : Cfg} (hcfg : cfg.lit = 0) {c : Cluster Desc}
    (hinv : Inv U c) (ev : Event Desc) (hev : GoodEv U c.clock ev) (i : Nat) (hnr : notRestartOf i ev) (key : String) :
    Le (nval c i key) (nval (stepC cfg c ev) i key) :=
  step_mono hU hT hcfg hinv ev hev i hnr key

/-- after node `b` merged the full state of node `a` its value is the join of both, for every key;
no other node changes -/
theorem pushpull_joins (hU : Univ U) {cfg : Cfg} (hcfg : cfg.lit = 0) {c : Cluster Desc} (hinv : Inv U c) (a b : Nat)
    (hb : b < c.nodes.length) (key : String) (hkey : key ≠ "") :
    Eqv (nval (stepC cfg c (.pushPull a b)) b key) (mergeState (nval c b key) (nval c a key)) ∧
    ∀ i, i ≠ b → (stepC cfg c (.pushPull a b)).nodes[i]? = c.nodes[i]? :=
  ⟨(pushPull_spec hU hcfg hinv a b hb).2.1 key hkey, (pushPull_spec hU hcfg hinv a b hb).1⟩

/-- **convergence**: from ANY state satisfying the invariant the two sync passes make every node's
value, for every key, equal to the join of all values held before -/
theorem sync_converges (hU : Univ U) (hT : TombClosed U) {cfg : Cfg} (hcfg : cfg.lit = 0) {c : Cluster Desc}
    (hinv : Inv U c) (h0 : 0 < c.nodes.length) (i : Nat) (hi : i < c.nodes.length) (key : String) (hkey : key ≠ "") :
    Eqv (nval (runC cfg c (syncEvents Desc (c.nodes.length - 1))) i key)
      (joinAll ((List.range c.nodes.length).map fun j => nval c j key)) :=
  PfC06.sync_converges hU hT hcfg hinv h0 i hi key hkey

/-- ... hence all nodes expose the same content -/
theorem sync_agree (hU : Univ U) (hT : TombClosed U) {cfg : Cfg} (hcfg : cfg.lit = 0) {c : Cluster Desc}
    (hinv : Inv U c) (h0 : 0 < c.nodes.length) (i j : Nat) (hi : i < c.nodes.length) (hj : j < c.nodes.length) (key : String)
    (hkey : key ≠ "") :
    Eqv (nval (runC cfg c (syncEvents Desc (c.nodes.length - 1))) i key)
      (nval (runC cfg c (syncEvents Desc (c.nodes.length - 1))) j key) :=
  (PfC06.sync_converges hU hT hcfg hinv h0 i hi key hkey).trans (PfC06.sync_converges hU hT hcfg hinv h0 j hj key hkey).symm

/-- an acknowledged CAS leaves its output contained in the node's store (`Le` is per instance: it says nothing
about instances the CAS REMOVED — for those see `PC04.removal_forwarded`: the removal is stored as a tombstone
stamped with the clock and queued) ... -/
theorem cas_ack_stored (hU : Univ U) (hT : TombClosed U) {cfg : Cfg} (hcfg : cfg.lit = 0) {clock : Int} (hclock : clock ≥ 1)
    (nowMs : Int) {nd : Node Desc} {key : String} {f : Option Desc → Option Desc} (hnd : GoodNode U clock nd)
    (hf : GoodFn U clock f) (out : Desc) (hout : f (nd.get key).1 = some out)
    (hok : (cas cfg clock nowMs nd key f).2 = .ok) : Le out (sval (cas cfg clock nowMs nd key f).1.store key) :=
  (cas_spec hU hT hcfg hclock nowMs hnd hf).acked out hout hok

/-- ... it stays there (`store_monotone`), and whatever any node holds before the sync is contained
in every node's value after it: every acknowledged CAS becomes visible, merged, everywhere -/
theorem acked_visible (hU : Univ U) (hT : TombClosed U) {cfg : Cfg} (hcfg : cfg.lit = 0) {c : Cluster Desc}
    (hinv : Inv U c) (h0 : 0 < c.nodes.length) (i j : Nat) (hi : i < c.nodes.length) (hj : j < c.nodes.length) (key : String)
    (hkey : key ≠ "") : Le (nval c j key) (nval (runC cfg c (syncEvents Desc (c.nodes.length - 1))) i key) :=
  PfC06.acked_visible hU hT hcfg hinv h0 i j hi hj key hkey

/-- **end to end**: node `i` acknowledges a CAS whose function returned `out`; then ANY good events follow in
which node `i` itself is not restarted (loss, duplication, reordering, partitions, restarts of OTHER nodes,
further updates anywhere); then the two sync passes run: every node's value for the key contains `out`.
(If node `i` restarts before anything it sent was merged elsewhere the update is lost with the node — the
model and the code agree; the judge keeps such an acknowledgement only if another node already held it.) -/
theorem acked_eventually_visible (hU : Univ U) (hT : TombClosed U) {cfg : Cfg} (hcfg : cfg.lit = 0) {c : Cluster Desc}
    (hinv : Inv U c) (i : Nat) (key : String) (hkey : key ≠ "") (f : Option Desc → Option Desc) (hf : GoodFn U c.clock f)
    (nd : Node Desc) (hnd : c.nodes[i]? = some nd) (out : Desc) (hout : f (nd.get key).1 = some out)
    (hok : (cas cfg c.clock (c.clock * 1000) nd key f).2 = .ok)
    (mid : List (Event Desc)) (hmid : GoodRun U cfg (stepC cfg c (.cas i key f)) mid) (hnr : ∀ e ∈ mid, notRestartOf i e)
    (j : Nat) (hj : j < c.nodes.length) :
    Le out (nval (runC cfg (runC cfg (stepC cfg c (.cas i key f)) mid) (syncEvents Desc (c.nodes.length - 1))) j key) :=
  PfC06.acked_eventually_visible hU hT hcfg hinv i key hkey f hf nd hnd out hout hok mid hmid hnr j hj

/-- "once messages flow again (rebroadcasts …)": a gossiped delta that is delivered makes the receiver's value
the join of its value and the delta; no other node changes -/
theorem deliver_joins (hU : Univ U) {cfg : Cfg} (hcfg : cfg.lit = 0) {c : Cluster Desc} (hinv : Inv U c) (n m : Nat)
    (msg : Msg Desc) (hm : c.net[m]? = some msg) (hk : msg.key ≠ "") (hn : n < c.nodes.length) :
    Eqv (nval (stepC cfg c (.deliver n m)) n msg.key) (mergeState (nval c n msg.key) msg.val) ∧
    ∀ i, i ≠ n → (stepC cfg c (.deliver n m)).nodes[i]? = c.nodes[i]? :=
  PfC06.deliver_joins hU hcfg hinv n m msg hm hk hn

/-- a CAS either changes nothing (store and queues as before) or queues exactly one broadcast in the queue of
locally generated updates: for the key, with the bumped version, a good change made of the node's current entries -/
theorem cas_enqueues (hU : Univ U) (hT : TombClosed U) {cfg : Cfg} (hcfg : cfg.lit = 0) {clock : Int} (hclock : clock ≥ 1)
    (nowMs : Int) {nd : Node Desc} {key : String} {f : Option Desc → Option Desc} (hnd : GoodNode U clock nd)
    (hf : GoodFn U clock f) : LocalQueueStep U clock key nd (cas cfg clock nowMs nd key f).1 :=
  (cas_spec hU hT hcfg hclock nowMs hnd hf).queue

/-- "all nodes EXPOSE the same value": after the sync the values handed to readers (`KV.Get`, CAS functions,
watchers: stored value minus tombstones) agree on every node -/
theorem sync_agree_exposed (hU : Univ U) (hT : TombClosed U) {cfg : Cfg} (hcfg : cfg.lit = 0) {c : Cluster Desc}
    (hinv : Inv U c) (h0 : 0 < c.nodes.length) (i j : Nat) (hi : i < c.nodes.length) (hj : j < c.nodes.length) (key : String)
    (hkey : key ≠ "") :
    Eqv (exposed (runC cfg c (syncEvents Desc (c.nodes.length - 1))) i key)
        (exposed (runC cfg c (syncEvents Desc (c.nodes.length - 1))) j key) := by
  have hinv' : Inv U (runC cfg c (syncEvents Desc (c.nodes.length - 1))) := by
    apply inv_run hU hT hcfg hinv
    -- the sync events are push/pulls: nothing to assume about them
    have : ∀ (evs : List (Event Desc)) (c : Cluster Desc), (∀ e ∈ evs, ∃ a b, e = .pushPull a b) → GoodRun U cfg c evs := by
      intro evs
      induction evs with
      | nil => intro _ _; trivial
      | cons e es ih =>
        intro c h
        obtain ⟨a, b, rfl⟩ := h e (by simp)
        exact ⟨trivial, ih _ (fun x hx => h x (by simp [hx]))⟩
    apply this
    intro e he
    simp only [syncEvents, List.mem_append, List.mem_map] at he
    rcases he with ⟨k, _, rfl⟩ | ⟨k, _, rfl⟩ <;> exact ⟨_, _, rfl⟩
  exact eqv_strip (nval_drawn hinv' i key).1.nodup (nval_drawn hinv' j key).1.nodup
    (sync_agree hU hT hcfg hinv h0 i j hi hj key hkey)

/-- the exposed value is what `Node.get` (the model of `KV.get`) returns -/
theorem exposed_is_get (c : Cluster Desc) (i : Nat) (key : String) (nd : Node Desc) (hn : c.nodes[i]? = some nd) :
    ((nd.get key).1).getD [] = exposed c i key := exposed_eq_get c i key nd hn

/-- the invalidation rule: same key, the old content is contained in the new one, not older -/
theorem invalidates_spec (nk : String) (nc : List String) (nv : Nat) (ok : String) (oc : List String) (ov : Nat) :
    invalidates nk nc nv ok oc ov = true ↔ nk = ok ∧ (∀ x ∈ oc, x ∈ nc) ∧ nv ≥ ov :=
  invalidates_iff nk nc nv ok oc ov

/-- **a queued update is superseded only by an update that contains it** (forwarding queue): if
receiving `m` removes `b` from the queue then the queue now holds `b'` of the same key with
`b ≤ b'`, and on any replica `x` merging `b'` alone equals merging `b` then `b'` -/
theorem invalidate_sound (hU : Univ U) {cfg : Cfg} (hcfg : cfg.lit = 0) {clock : Int} (now : Int) {nd : Node Desc}
    {m : Msg Desc} (hnd : GoodNode U clock nd) (hm : GoodMsg U clock m) (b : Bcast Desc) (hb : b ∈ nd.gossipQ)
    (hgone : b ∉ (deliver cfg now nd m).gossipQ) :
    ∃ b' ∈ (deliver cfg now nd m).gossipQ, b'.key = b.key ∧ Le b.change b'.change ∧
      ∀ x, Drawn U x → Eqv (mergeState (mergeState x b.change) b'.change) (mergeState x b'.change) :=
  invalidate_sound_gossip hU hcfg now hnd hm b hb hgone

/-- the same for the queue of locally generated updates (CAS) -/
theorem invalidate_sound_cas (hU : Univ U) (hT : TombClosed U) {cfg : Cfg} (hcfg : cfg.lit = 0) {clock : Int}
    (hclock : clock ≥ 1) (nowMs : Int) {nd : Node Desc} {key : String} {f : Option Desc → Option Desc}
    (hnd : GoodNode U clock nd) (hf : GoodFn U clock f) (b : Bcast Desc) (hb : b ∈ nd.localQ)
    (hgone : b ∉ (cas cfg clock nowMs nd key f).1.localQ) :
    ∃ b' ∈ (cas cfg clock nowMs nd key f).1.localQ, b'.key = b.key ∧ Le b.change b'.change ∧
      ∀ x, Drawn U x → Eqv (mergeState (mergeState x b.change) b'.change) (mergeState x b'.change) :=
  invalidate_sound_local hU hT hcfg hclock nowMs hnd hf b hb hgone

/-- a malformed message — one that does not decode (truncated, corrupted, unknown codec) or decodes to a
pair with an empty key — changes nothing ... -/
theorem corrupt_noop {V R : Type} [MergeVal V] (dec : R → Option (Msg V)) (cfg : Cfg) (now : Int) (nd : Node V) (raw : R)
    (h : Malformed dec raw) : receive dec cfg now nd raw = nd :=
  PfC06.corrupt_noop dec cfg now nd raw h

/-- ... also as a pair inside a full-state (push/pull) message: malformed pairs are skipped and the
remaining pairs are merged exactly as if the malformed ones were not there -/
theorem corrupt_pairs_noop {V R : Type} [MergeVal V] (dec : R → Option (Msg V)) (cfg : Cfg) (now : Int) (nd : Node V)
    (raws : List R) (bad : R → Bool) (hbad : ∀ r, bad r = true → Malformed dec r) :
    receiveState dec cfg now nd raws = receiveState dec cfg now nd (raws.filter fun r => !bad r) :=
  PfC06.corrupt_pairs_noop dec cfg now nd raws bad hbad

/-- a full-state message made of malformed pairs only changes nothing -/
theorem corrupt_state_noop {V R : Type} [MergeVal V] (dec : R → Option (Msg V)) (cfg : Cfg) (now : Int) (nd : Node V)
    (raws : List R) (h : ∀ r ∈ raws, Malformed dec r) : receiveState dec cfg now nd raws = nd :=
  PfC06.corrupt_state_noop dec cfg now nd raws h

/-! ### every value in the cluster is well-formed (the C05 invariant, at cluster level)

`KV.computeNewValue` stores the FIRST value of a key verbatim — no normalisation, no conflict
resolution — so well-formedness of a memberlist replica is not a per-replica induction over merges
from the empty descriptor. It is an invariant of the whole cluster: for ANY configuration (any
retention), ANY schedule of the events of `stepC` (loss, duplication, reordering, partitions, restarts,
full-state exchanges), if every function passed to CAS returns a well-formed descriptor whenever its
input is well-formed or absent (`WfFn`; `PfC05.WF` = unique ids, strictly sorted token lists, no tokens
on tombstones, no token in two entries), then every stored value (tombstones included), every queued
broadcast and every message in flight is well-formed. -/
theorem cluster_values_wf (cfg : Cfg) (n : Nat) (clock : Int) (evs : List (Event Desc)) (hevs : WfRun evs) :
    (∀ nd ∈ (runC cfg (initC n clock) evs).nodes,
      (∀ p ∈ nd.store, PfC05.WF p.2.val) ∧ (∀ b ∈ nd.localQ, PfC05.WF b.change) ∧ (∀ b ∈ nd.gossipQ, PfC05.WF b.change)) ∧
    (∀ m ∈ (runC cfg (initC n clock) evs).net, PfC05.WF m.val) :=
  ⟨(wf_run cfg evs (wf_init n clock) hevs).nodes, (wf_run cfg evs (wf_init n clock) hevs).net⟩

/-- the ingredients: a change reported by a merge into a well-formed state is well-formed, and so is
every sub-descriptor (unique ids, entries taken from it) of a well-formed descriptor -/
theorem change_wf (cas : Bool) (now : Int) (this other : Desc) (hw : PfC05.WF this) (ho : (ids other).Nodup)
    (ch : Desc) (hch : (C03.merge cas now this other).change = some ch) : PfC05.WF ch :=
  merge_change_wf cas now this other hw ho ch hch

theorem sub_descriptor_wf {st ch : Desc} (hw : PfC05.WF st) (hn : (ids ch).Nodup) (hmem : ∀ e ∈ ch, e ∈ st) : PfC05.WF ch :=
  wf_of_sub hw hn hmem

/-- the proviso is needed (witness): an ill-formed FIRST message — unsorted and duplicated tokens, token 1
claimed by two instances, tokens on a tombstone — is stored as is by a node that has no value for the
key, and re-queued as is; a node that already holds the key normalises and resolves it -/
theorem illformed_first_value_stored_verbatim :
    let bad : Desc := [{ id := "a", ts := 5, tokens := [5, 1, 5] }, { id := "b", ts := 5, tokens := [1] },
                       { id := "c", ts := 5, state := .LEFT, tokens := [9] }]
    let fresh := deliver (V := Desc) {} 10 {} { key := "r", val := bad }
    let holder := deliver (V := Desc) {} 10 { store := [("r", { val := [{ id := "d", ts := 4, tokens := [7] }], version := 1 })] }
                    { key := "r", val := bad }
    sval fresh.store "r" = bad ∧ C03.wf bad = false ∧ fresh.gossipQ.map (·.change) = [bad] ∧
    C03.wf (sval holder.store "r") = true := by decide

/-! ### the receive paths on raw bytes (framing + `KeyValuePair` fields + codec lookup + value decoding)

`unm` (protobuf unmarshal of one `KeyValuePair`) and `codecs` (registry: codec id ↦ value decoder) are
arbitrary functions: the theorems hold whatever these libraries do with arbitrary bytes. The framing
(`framesOf`: 4-byte big-endian length prefixes) is modelled and checked against the implementation on
every corrupted / truncated / garbage full-state message of the correspondence run. -/
section wire
open Common
variable {V : Type} [MergeVal V] (unm : Bytes → Option RawPair) (codecs : String → Option (Bytes → Option V))

/-- **`MergeRemoteState` on ARBITRARY bytes** changes the node exactly by `mergeRemoteState` of the pairs
that pass the whole validation, in order, up to the first frame that does not unmarshal — no other part
of the byte stream has any effect on store, queues or watchers -/
theorem state_bytes_only_merges (cfg : Cfg) (now : Int) (nd : Node V) (data : Bytes) :
    mergeRemoteBytes unm codecs cfg now nd data =
      mergeRemoteState cfg now nd (stateMsgs unm codecs (framesOf data).1) :=
  PfC06.state_bytes_only_merges unm codecs cfg now nd data

/-- every merged pair comes from a complete frame that unmarshals, has a non-empty key, a registered codec
and a value that codec decodes -/
theorem merged_pairs_valid (data : Bytes) (m : Msg V) (hm : m ∈ stateMsgs unm codecs (framesOf data).1) :
    ∃ f ∈ (framesOf data).1, ∃ p, unm f = some p ∧ decodePair codecs p = some m ∧ m.key ≠ "" :=
  stateMsgs_valid unm codecs _ m hm

/-- bytes that contain no such pair (garbage, truncated header, unknown codecs, empty keys, undecodable
values, …) leave the node untouched -/
theorem state_bytes_noop (cfg : Cfg) (now : Int) (nd : Node V) (data : Bytes)
    (h : stateMsgs unm codecs (framesOf data).1 = []) : mergeRemoteBytes unm codecs cfg now nd data = nd :=
  PfC06.state_bytes_noop unm codecs cfg now nd data h

/-- a full-state message cut at ANY byte merges a prefix of the pairs the complete message merges -/
theorem truncated_state_prefix (data : Bytes) (k : Nat) :
    stateMsgs unm codecs (framesOf (data.take k)).1 <+: stateMsgs unm codecs (framesOf data).1 :=
  PfC06.truncated_state_prefix unm codecs data k

/-- **`NotifyMsg` on ARBITRARY bytes**: nothing happens, or exactly one validated pair is merged -/
theorem notify_bytes_only_merges (cfg : Cfg) (now : Int) (nd : Node V) (data : Bytes) :
    notifyBytes unm codecs cfg now nd data = nd ∨
    ∃ p m, unm data = some p ∧ decodePair codecs p = some m ∧ notifyBytes unm codecs cfg now nd data = deliver cfg now nd m :=
  PfC06.notify_bytes_only_merges unm codecs cfg now nd data

end wire

-- non-vacuity of the framing: two frames (lengths 2 and 0), then an incomplete third one
example : C06.framesOf [0, 0, 0, 2, 7, 8, 0, 0, 0, 0, 0, 0, 0, 5, 1] = ([[7, 8], []], false) := by decide
example : C06.framesOf [0, 0, 0, 2, 7, 8, 0, 0, 0, 0] = ([[7, 8], []], true) := by decide
-- a toy unmarshaller / codec: frame [k, v] is the pair (key "r" if k = 1 else "", value [v]); codec "c" decodes [v] with v ≠ 9
def toyUnm : Common.Bytes → Option RawPair
  | [k, v] => some { key := if k = 1 then "r" else "", codec := "c", value := [v] }
  | _ => none
def toyCodecs : String → Option (Common.Bytes → Option Desc)
  | "c" => some fun b => match b with | [v] => if v = 9 then none else some [{ id := "a", ts := v.toNat }] | _ => none
  | _ => none
-- frames: valid pair, empty-key pair (skipped), undecodable value (skipped), valid pair, non-unmarshalling frame (stop), valid pair (never reached)
example : (mergeRemoteBytes toyUnm toyCodecs {} 10 ({} : Node Desc)
    [0,0,0,2,1,5, 0,0,0,2,0,6, 0,0,0,2,1,9, 0,0,0,2,1,7, 0,0,0,1,3, 0,0,0,2,1,8]).store.map (fun x => (x.1, x.2.val, x.2.version)) =
    [("r", [{ id := "a", ts := 7 }], 2)] := by decide

/-- only merges that changed the store enqueue a broadcast -/
theorem no_gossip_without_change (hU : Univ U) {cfg : Cfg} (hcfg : cfg.lit = 0) {clock : Int} (now : Int) {nd : Node Desc}
    {m : Msg Desc} (hnd : GoodNode U clock nd) (hm : GoodMsg U clock m)
    (hsame : ∀ k, getE (deliver cfg now nd m).store k = getE nd.store k) :
    (deliver cfg now nd m).gossipQ = nd.gossipQ ∧ (deliver cfg now nd m).localQ = nd.localQ :=
  PfC06.no_gossip_without_change hU hcfg now hnd hm hsame


/-- **watchers** (`WatchKey`), in every reachable state of a run without tombstone retention: at
quiescence of a node (empty watcher channels, no delayed notifications) every watcher has seen the
node's current version of its key, and the value its function was last called with is the current
value as readers see it; a watcher that was never called saw no change since registration.
Named `_partial` because of the guard `cfg.lit = 0`: when a tombstone older than the retention is
collected inside a merge that reports no change, the value changes without any notification
(`watcher_missed_when_tombstone_collected` below; finding F2 on the real code).
What the full statement needs beyond `lit = 0`: (a) `mergeValueForKey` must not change the stored value
without a version bump and `notifyWatchers` — i.e. in the early return after `RemoveTombstones(limit)`
(change emptied by the retention) the in-place merged-and-collected value has to be either discarded
or published; then every step is `WStep.quiet` or `WStep.changed` also for `lit > 0` and `winv_step`
applies unchanged; (b) for `WatchPrefix` watchers the buffered channel (`WatchPrefixBufferSize`) must
never be full when a notification is sent (the code documents that such notifications are lost);
the invariant `WOk` then holds per matched key instead of for the single watched key. -/
theorem watchers_caught_up_partial (hU : Univ U) (hT : TombClosed U) {cfg : Cfg} (hcfg : cfg.lit = 0) (n : Nat) {clock : Int}
    (hclock : clock ≥ 1) (evs : List (Event Desc)) (hevs : GoodRun U cfg (initC n clock) evs)
    (nd : Node Desc) (hnd : nd ∈ (runC cfg (initC n clock) evs).nodes)
    (hq : ∀ w ∈ nd.watchers, w.pending = []) (hn : nd.notifs = [])
    (w : Watcher Desc) (hw : w ∈ nd.watchers) (hp : w.isPrefix = false) :
    verOf nd.store w.key = seenOf w w.key ∧
    ∀ v, lookL w.last w.key = some v → ∃ e, getE nd.store w.key = some e ∧ v = removeTombstones none e.val :=
  caught_up (winv_run hU hT hcfg evs (inv_init n hclock) (winv_init n clock) hevs nd hnd) hq hn w hw hp

/-- **settling establishes the quiescence `watchers_caught_up_partial` assumes**: `settle` (flush the delayed
notifications, let every watcher drain its channel — a finite sequence of `notifyTick` / `watcherRun` steps)
leaves every channel and the delayed-notification set empty, and every `WatchKey` watcher has then seen the
current version and was last called with the current exposed value. After the sync passes that value is the
common value of all nodes (`sync_agree_exposed`). -/
theorem settle_caught_up {cfg : Cfg} {nd : Node Desc} (h : WInv nd) (hn : cfg.ni = false → nd.notifs = []) :
    (∀ w ∈ (settle cfg nd).watchers, w.pending = []) ∧ (settle cfg nd).notifs = [] ∧
    ∀ w ∈ (settle cfg nd).watchers, w.isPrefix = false →
      verOf (settle cfg nd).store w.key = seenOf w w.key ∧
      ∀ v, lookL w.last w.key = some v → ∃ e, getE (settle cfg nd).store w.key = some e ∧ v = removeTombstones none e.val :=
  PfC06.settle_caught_up h hn

/-! ### `WatchPrefix`: the bounded channel, exactly

One watcher (`Watcher.notify`: non-blocking send on a channel of capacity `WatchPrefixBufferSize`, only
keys with the prefix, DROP when full; `Watcher.run`: take the oldest notification, read the CURRENT value
of that key, call `f`) against a trace `PEv` of version bumps and watcher runs (`pstep`, the node model
applies `notify` to every watcher of the node on each change: `notifySync`). Ghost: `lost` = keys whose
latest notification was dropped while the key was not queued; `consumed` = keys `f` was called for. -/

/-- overflow or not: once the channel is empty, the watcher has seen the current version of every watched
key that is not in `lost`, and the value `f` was last called with for it is the current value -/
theorem prefix_caught_up (st : Store Desc) (p : Bool) (key : String) (cap : Nat) (evs : List PEv)
    (hb : BumpOk (freshP st p key cap) evs) (hq : (prun (freshP st p key cap) evs).w.pending = []) (k : String)
    (hm : (prun (freshP st p key cap) evs).w.matches k = true) (hk : k ∉ (prun (freshP st p key cap) evs).lost) :
    verOf (prun (freshP st p key cap) evs).st k = seenOf (prun (freshP st p key cap) evs).w k ∧
    ∀ v, lookL (prun (freshP st p key cap) evs).w.last k = some v →
      ∃ e, getE (prun (freshP st p key cap) evs).st k = some e ∧ v = removeTombstones none e.val :=
  PfC06.prefix_caught_up st p key cap evs hb hq k hm hk

/-- if no notification is dropped for good (the channel had room, or the key was already queued) nothing is lost -/
theorem prefix_nothing_lost (st : Store Desc) (p : Bool) (key : String) (cap : Nat) (evs : List PEv)
    (h : NoDrop (freshP st p key cap) evs) : (prun (freshP st p key cap) evs).lost = [] :=
  lost_nil_of_noDrop evs rfl h

/-- without overflow every change is delivered, in order: callbacks so far followed by the channel
content = the watched keys that changed, in the order of the changes -/
theorem prefix_in_order (evs : List PEv) {s : PSt} (h : NoOverflow s evs) :
    (prun s evs).consumed ++ (prun s evs).w.pending = s.consumed ++ s.w.pending ++ changedKeys s.w evs :=
  prefix_fifo evs h

/-- what the code does NOT guarantee (witness, capacity 1, prefix ""): `a` and `b` change while the watcher
is not reading; the notification for `b` is dropped; after the watcher drained its channel it has seen
`a` but never learns that `b` changed (version 2 vs. seen 1) — until `b` changes again -/
theorem prefix_overflow_loses :
    let e1 : Entry Desc := { val := [], version := 1 }
    let e2 : Entry Desc := { val := [{ id := "x", ts := 5 }], version := 2 }
    let s := prun (freshP [("a", e1), ("b", e1)] true "" 1) [.upd "a" e2, .upd "b" e2, .run]
    s.w.pending = [] ∧ s.lost = ["b"] ∧ s.consumed = ["a"] ∧ seenOf s.w "a" = 2 ∧ seenOf s.w "b" = 1 ∧ verOf s.st "b" = 2 := by
  decide +kernel

/-- … and a later change of `b`, notified after the overflow ended, heals it -/
theorem prefix_overflow_heals :
    let e1 : Entry Desc := { val := [], version := 1 }
    let e2 : Entry Desc := { val := [{ id := "x", ts := 5 }], version := 2 }
    let e3 : Entry Desc := { val := [{ id := "x", ts := 6 }], version := 3 }
    let s := prun (freshP [("a", e1), ("b", e1)] true "" 1) [.upd "a" e2, .upd "b" e2, .run, .upd "b" e3, .run]
    s.w.pending = [] ∧ s.lost = [] ∧ s.consumed = ["a", "b"] ∧ lookL s.w.last "b" = some [{ id := "x", ts := 6 }] := by
  decide +kernel

/-- a pending watcher that runs is called with the current value (tombstones stripped) -/
theorem watcher_run_current (nd : Node Desc) (w : Watcher Desc) (k : String) (rest : List String) (e : Entry Desc)
    (hp : w.pending = k :: rest) (hg : getE nd.store k = some e) :
    lookL (w.run nd.store).last k = some (removeTombstones none e.val) := by
  unfold Watcher.run; rw [hp]; simp only; rw [hg]; simp only; rw [lookL_setLast, if_pos rfl]; rfl

/-! ### Findings on the real code, as witnesses on the model (checked by evaluation) -/

/- F1 (history, fixed in /repo by 25b62af): `NotifyMsg` dropped a pair with an empty key but
`MergeRemoteState` merged it, stored it under key "" and re-gossiped it. The model of that code had
`mergeRemoteState = foldl deliver` and the witness
`empty_key_merged_by_pushpull : (mergeRemoteState {} 10 {} [{key := "", val := [a@5]}]).store.map (·.1) = [""]`.
Both paths now share `notifyMsg`; `corrupt_noop` / `corrupt_pairs_noop` cover the empty-key pair. -/
theorem empty_key_dropped_everywhere :
    (notifyMsg (V := Desc) {} 10 {} { key := "", val := [{ id := "a", ts := 5 }] }).store = [] ∧
    (mergeRemoteState (V := Desc) {} 10 {} [{ key := "", val := [{ id := "a", ts := 5 }] }, { key := "r", val := [{ id := "a", ts := 5 }] }]).store.map (·.1) = ["r"] := by
  decide

/-- F2: retention 2 s, clock 100: node holds `a@1` (version 1) with a watcher that has seen it; the
tombstone `a@5` arrives: the entry disappears from the stored value, but the version stays 1, the
watcher's channel stays empty and nothing is queued for gossip -/
theorem watcher_missed_when_tombstone_collected :
    let w : Watcher Desc := { id := 0, isPrefix := false, key := "r", cap := 1, last := [("r", [{ id := "a", ts := 1 }])], seen := [("r", 1)] }
    let nd : Node Desc := { store := [("r", { val := [{ id := "a", ts := 1 }], version := 1 })], watchers := [w] }
    let nd' := deliver { lit := 2 } 100 nd { key := "r", val := [{ id := "a", ts := 5, state := .LEFT }] }
    (nd.get "r").1 = some [{ id := "a", ts := 1 }] ∧ (nd'.get "r").1 = some [] ∧
    (nd'.get "r").2 = 1 ∧ nd'.watchers.map (·.pending) = [[]] ∧ nd'.notifs = [] ∧ nd'.gossipQ.length = 0 := by decide

/-! ### Why the clash proviso is needed (witness, checked by evaluation)
Two replicas that resolved a token clash while `a` was in different states: same (id, timestamp)
pairs, different token lists; neither accepts anything from the other, so a mutual full-state
exchange changes nothing and they never agree until an owner heartbeats again (DESIGN O3). -/
def R1 : Desc := [{ id := "a", ts := 2, state := .LEAVING, tokens := [1, 2] }, { id := "b", ts := 1, tokens := [3] }]
def R7 : Desc := [{ id := "a", ts := 2, state := .LEAVING, tokens := [1] }, { id := "b", ts := 1, tokens := [2, 3] }]

theorem sync_converges_clash_witness : mergeState R1 R7 = R1 ∧ mergeState R7 R1 = R7 ∧ R1 ≠ R7 := by decide

/-! ### Non-vacuity: a concrete universe, a concrete history with loss, duplication, a removal and a restart -/

def U1 (id : String) (ts : Int) (l : Bool) : Inst :=
  { id := id, ts := ts, state := if l then .LEFT else (if ts = 8 then .JOINING else .ACTIVE),
    tokens := if l then [] else if id = "a" then [1, 5] else if id = "b" then [2, 4294967295] else [] }

theorem U1_univ : Univ U1 := by
  refine ⟨fun _ _ _ => rfl, fun _ _ _ => rfl, ?_, ?_, fun _ _ => rfl, ?_⟩
  · intro id ts l; cases l <;> simp [U1]; split <;> simp
  · intro id ts l
    cases l
    · by_cases ha : id = "a"
      · simp [U1, ha, sortedStrict]
      · by_cases hb : id = "b" <;> simp [U1, ha, hb, sortedStrict]
    · simp [U1, sortedStrict]
  · intro id ts l id' ts' l' hne t ht
    cases l
    · cases l'
      · by_cases ha : id = "a" <;> by_cases hb : id = "b" <;> by_cases ha' : id' = "a" <;>
          by_cases hb' : id' = "b" <;> simp_all [U1] <;> omega
      · simp [U1]
    · simp [U1] at ht

theorem U1_tomb : TombClosed U1 := by intro id ts now; simp [tomb, U1]

def cfg0 : Cfg := { lit := 0, lim := 2 }
def fWrite (d : Desc) : Option Desc → Option Desc := fun _ => some d

theorem goodFn_write {clock : Int} {d : Desc} (h : GoodVal U1 clock d) : GoodFn U1 clock (fWrite d) := by
  intro v out ho; simp [fWrite] at ho; rw [← ho]; exact h

theorem good_a8 : GoodVal U1 10 [U1 "a" 8 false] :=
  ⟨⟨by decide, by intro e he; simp at he; subst he; simp [U1], by intro e he; simp at he; subst he; simp [U1]⟩,
   by intro e he; simp at he; subst he; simp [U1]⟩

/-- node 0 registers `a`, gossips; node 1 receives it twice, then forgets `a` (CAS without it);
the first message is lost for node 2, which restarts; the clock ticks -/
def evs0 : List (Event Desc) :=
  [.cas 0 "r1" (fWrite [U1 "a" 8 false]), .gossipTick 0, .deliver 1 0, .deliver 1 0, .cas 1 "r1" (fWrite []),
   .gossipTick 1, .drop 0, .restart 2, .tick, .corrupt 2]

theorem evs0_good : GoodRun U1 cfg0 (initC 3 10) evs0 := by
  refine ⟨goodFn_write good_a8, trivial, trivial, trivial, goodFn_write (goodVal_nil _), trivial, trivial, trivial, trivial, trivial, trivial⟩

example : Inv U1 (runC cfg0 (initC 3 10) evs0) := reachable_inv U1_univ U1_tomb rfl 3 (by decide) evs0 evs0_good

-- before the sync the three nodes disagree; afterwards all hold the tombstone stamped with the removal time
example : (nval (runC cfg0 (initC 3 10) evs0) 0 "r1", nval (runC cfg0 (initC 3 10) evs0) 1 "r1",
           nval (runC cfg0 (initC 3 10) evs0) 2 "r1") = ([U1 "a" 8 false], [U1 "a" 10 true], []) := by decide
example : (List.range 3).map (fun i => nval (runC cfg0 (runC cfg0 (initC 3 10) evs0) (syncEvents Desc 2)) i "r1") =
    [[U1 "a" 10 true], [U1 "a" 10 true], [U1 "a" 10 true]] := by decide


/-- a history with a watcher: registered on node 1 before the update arrives, notified by the delivery, then run -/
def evs1 : List (Event Desc) :=
  [.watch 1 false "r1", .cas 0 "r1" (fWrite [U1 "a" 8 false]), .gossipTick 0, .deliver 1 0, .watcherRun 1 0]

theorem evs1_good : GoodRun U1 cfg0 (initC 2 10) evs1 :=
  ⟨trivial, goodFn_write good_a8, trivial, trivial, trivial, trivial⟩

-- after the delivery the watcher is pending; after its run the channel is empty and it holds the current value
example : ((runC cfg0 (initC 2 10) (evs1.take 4)).nodes[1]?.map fun nd => nd.watchers.map fun w => (w.pending, lookL w.last "r1")) =
    some [(["r1"], none)] := by decide
example : ((runC cfg0 (initC 2 10) evs1).nodes[1]?.map fun nd => nd.watchers.map fun w => (w.pending, lookL w.last "r1", seenOf w "r1")) =
    some [([], some [U1 "a" 8 false], 1)] := by decide

-- non-vacuity of `cluster_values_wf`: the history `evs0` (defined above) writes well-formed values only
example : WfRun evs0 := by
  intro ev hev
  simp only [evs0, List.mem_cons, List.mem_nil_iff, or_false] at hev
  rcases hev with rfl | rfl | rfl | rfl | rfl | rfl | rfl | rfl | rfl | rfl <;> try trivial
  · intro v _ out ho; simp [fWrite] at ho; rw [← ho]; exact (PfC05.wf_iff _).1 (by decide)
  · intro v _ out ho; simp [fWrite] at ho; rw [ho]; exact wf_nil


-- the hypothesis `hgone` of `invalidate_sound` is satisfiable: node 1 holds the queued update (r1,[a],v1); the next
-- delivered update of `a` replaces it by (r1,[a],v2); a re-delivery changes nothing (`no_gossip_without_change`)
example :
    let c1 := runC cfg0 (initC 2 10) [.cas 0 "r1" (fWrite [U1 "a" 7 false]), .gossipTick 0, .deliver 1 0]
    let c2 := runC cfg0 c1 [.cas 0 "r1" (fWrite [U1 "a" 9 false]), .gossipTick 0, .deliver 1 1]
    let c3 := runC cfg0 c2 [.deliver 1 1]
    (c1.nodes[1]?.map fun nd => nd.gossipQ.map fun b => (b.key, b.content, b.version)) = some [("r1", ["a"], 1)] ∧
    (c2.nodes[1]?.map fun nd => nd.gossipQ.map fun b => (b.key, b.content, b.version)) = some [("r1", ["a"], 2)] ∧
    (c3.nodes[1]?.map fun nd => nd.gossipQ.map fun b => (b.key, b.content, b.version)) = some [("r1", ["a"], 2)] := by decide

/-! ### Key-level `Delete`, the `Deleted` flag on both receive paths, `cleanupObsoleteEntries`, re-creation
Generic in the replicated value, for ANY store (deleted keys included, no `GoodStore`), any retention unless `hcfg` is
listed. They describe `C06.delete` / `C06.deliver` / `C06.cleanupObsolete` / `C06.cas`, which the delete, cleanup and
re-create correspondence streams compare with the code after every event. What is NOT proved: convergence /
acked_visible / watcher theorems for clusters holding deleted keys (`GoodStore` still requires `deleted = false`). -/
section Delete
variable {W : Type} [MergeVal W]

/-- `Delete` of a live key: value re-merged with itself, key marked deleted at the call's time, version bumped, and a
broadcast carrying the flag queued for gossip -/
theorem delete_marks (cfg : Cfg) (hcfg : cfg.lit = 0) (now nowMs : Int) (nd : Node W) (key : String) (e : Entry W)
    (res : W) (ch : Option W) (hk : getE nd.store key = some e) (hd : e.deleted = false)
    (hm : MergeVal.merge false now e.val e.val = some (res, ch))
    (hnz : nowMs ≠ 0) (hnew : e.updateTime = 0 ∨ nowMs > e.updateTime) :
    getE (delete cfg now nowMs nd key).store key
        = some { val := res, version := e.version + 1, deleted := true, updateTime := nowMs } ∧
    ∃ b ∈ (delete cfg now nowMs nd key).gossipQ,
        b.key = key ∧ b.deleted = true ∧ b.version = e.version + 1 ∧ b.updateTime = nowMs :=
  PfC06.delete_marks cfg hcfg now nowMs nd key e res ch hk hd hm hnz hnew

/-- `Delete` of an absent or already deleted key does nothing (no version bump, no second broadcast) -/
theorem delete_noop (cfg : Cfg) (now nowMs : Int) (nd : Node W) (key : String)
    (h : getE nd.store key = none ∨ ∃ e, getE nd.store key = some e ∧ e.deleted = true) :
    delete cfg now nowMs nd key = nd := by
  rcases h with h | ⟨e, h, hd⟩
  · exact PfC06.delete_absent cfg now nowMs nd key h
  · exact PfC06.delete_idem cfg now nowMs nd key e h hd

/-- a deleted pair (gossip or push/pull) never creates the key on a node that does not hold it -/
theorem deleted_pair_not_revived (cfg : Cfg) (now : Int) (nd : Node W) (m : Msg W)
    (hk : getE nd.store m.key = none) (hd : m.deleted = true) :
    notifyMsg cfg now nd m = nd ∧ deliver cfg now nd m = nd :=
  ⟨PfC06.notifyMsg_deleted_absent cfg now nd m hk hd, PfC06.deliver_deleted_absent cfg now nd m hk hd⟩

/-- a deleted pair with a newer update time marks a live key deleted with the SENDER's time and is gossiped on -/
theorem deliver_deleted_marks (cfg : Cfg) (hcfg : cfg.lit = 0) (now : Int) (nd : Node W) (m : Msg W) (c : Entry W)
    (res : W) (ch : Option W) (hk : getE nd.store m.key = some c) (hc : c.deleted = false) (hd : m.deleted = true)
    (hm : MergeVal.merge false now c.val m.val = some (res, ch))
    (hnz : m.updateTime ≠ 0) (hnew : c.updateTime = 0 ∨ m.updateTime > c.updateTime) :
    getE (deliver cfg now nd m).store m.key
        = some { val := res, version := c.version + 1, deleted := true, updateTime := m.updateTime } ∧
    ∃ b ∈ (deliver cfg now nd m).gossipQ,
        b.key = m.key ∧ b.deleted = true ∧ b.version = c.version + 1 ∧ b.updateTime = m.updateTime :=
  PfC06.deliver_deleted_marks cfg hcfg now nd m c res ch hk hc hd hm hnz hnew

/-- a pair that is not deleted, or whose deletion is unstamped / not newer, leaves the key-level flag and time alone
(any retention, any stored entry - deleted ones included: no message un-deletes a key) -/
theorem stale_pair_keeps_flag (cfg : Cfg) (now : Int) (nd : Node W) (m : Msg W) (c : Entry W)
    (hk : getE nd.store m.key = some c)
    (hold : m.deleted = false ∨ m.updateTime = 0 ∨ (c.updateTime ≠ 0 ∧ m.updateTime ≤ c.updateTime)) :
    ∃ e, getE (deliver cfg now nd m).store m.key = some e ∧ e.deleted = c.deleted ∧ e.updateTime = c.updateTime :=
  PfC06.deliver_stale_delete_keeps_flag cfg now nd m c hk hold

/-- `cleanupObsoleteEntries` removes exactly the pairs marked deleted for longer than the timeout -/
theorem cleanup_exact (cfg : Cfg) (nowMs : Int) (nd : Node W) (p : String × Entry W) :
    p ∈ (cleanupObsolete cfg nowMs nd).store ↔ p ∈ nd.store ∧ ¬ PfC06.Obsolete cfg nowMs p.2 :=
  PfC06.cleanup_mem cfg nowMs nd p

/-- … and lookups of the surviving keys are unchanged (live keys are never touched) -/
theorem cleanup_keeps (cfg : Cfg) (nowMs : Int) (nd : Node W) (k : String) (e : Entry W)
    (hk : getE nd.store k = some e) (hno : ¬ PfC06.Obsolete cfg nowMs e) :
    getE (cleanupObsolete cfg nowMs nd).store k = some e :=
  PfC06.cleanup_getE_kept cfg nowMs nd k e hk hno

/-- once the key is gone, the next CAS stores its value as a FIRST value: version 1 again, not deleted, acknowledged -/
theorem recreate_after_cleanup (cfg : Cfg) (hcfg : cfg.lit = 0) (now nowMs : Int) (nd : Node W) (key : String)
    (f : Option W → Option W) (v : W) (hk : getE nd.store key = none) (hf : f none = some v)
    (hne : (MergeVal.names v).isEmpty = false) :
    (cas cfg now nowMs nd key f).2 = .ok ∧
    getE (cas cfg now nowMs nd key f).1.store key = some { val := v, version := 1 } :=
  PfC06.recreate_after_cleanup cfg hcfg now nowMs nd key f v hk hf hne

end Delete

/-- a concrete history meeting the hypotheses above (V = ring descriptor, obsolete-entries timeout 500 ms): node 0
writes `a`, node 1 pulls it, node 0 deletes the key (clock 10), node 1 pulls the deletion (`deliver_deleted_marks`),
node 2 - which never had the key - pulls it too and stays empty (`deleted_pair_not_revived`); one second later both
holders clean up (`cleanup_exact`), node 0 writes again: version 1 (`recreate_after_cleanup`) -/
def cfgD : Cfg := { lit := 0, lim := 2, obs := 500 }
def evsD : List (Event Desc) :=
  [.cas 0 "r1" (fWrite [U1 "a" 8 false]), .pushPull 0 1, .delete 0 "r1", .pushPull 0 1, .pushPull 0 2]
def evsD2 : List (Event Desc) := [.tick, .cleanup 0, .cleanup 1, .cas 0 "r1" (fWrite [U1 "a" 11 false])]

def cD1 : Cluster Desc := runC cfgD (initC 3 10) evsD
def cD2 : Cluster Desc := runC cfgD cD1 evsD2

theorem delete_history_witness :
    (cD1.nodes.map fun nd => nd.store.map fun p => (p.1, p.2.version, p.2.deleted, p.2.updateTime)) =
      [[("r1", 2, true, 10000)], [("r1", 2, true, 10000)], []] ∧
    (cD2.nodes.map fun nd => nd.store.map fun p => (p.1, p.2.version, p.2.deleted, p.2.updateTime)) =
      [[("r1", 1, false, 0)], [], []] ∧
    (cD2.nodes.map fun nd => nd.store.map fun p => p.2.val) = [[[U1 "a" 11 false]], [], []] :=
  ⟨by decide, by decide, by decide⟩

end PC06
