import Model.C20
import Generated.C20
import Proofs.C20
/-!
# C20 — property theorems (statements only; helper lemmas live in `Proofs/C20.lean`)

Every theorem quantifies over **all** byte strings / all hop chains.
-/
namespace PC20
open Common C20

/-! ### The regenerated tables equal the model's tables (re-proved on every run). -/

theorem generated_tenant_table :
    Generated.C20.validTenantTable = (List.range 256).map (fun i => validChar (UInt8.ofNat i)) := by
  decide +kernel

theorem generated_meta_table :
    Generated.C20.validMetaTable = (List.range 256).map (fun i => validMetaChar (UInt8.ofNat i)) := by
  decide +kernel

theorem generated_limits :
    Generated.C20.maxTenantIDLength = maxTenantIDLength ∧ Generated.C20.maxMetadataLength = maxMetadataLength := by
  decide

/-! ### Accepted identifiers are safe. -/

/-- the documented character set, written out independently of `validChar`. -/
def documented (c : UInt8) : Prop :=
  (97 ≤ c ∧ c ≤ 122) ∨ (65 ≤ c ∧ c ≤ 90) ∨ (48 ≤ c ∧ c ≤ 57) ∨
  c = 33 ∨ c = 45 ∨ c = 95 ∨ c = 46 ∨ c = 42 ∨ c = 39 ∨ c = 40 ∨ c = 41

/-- An accepted identifier consists of documented characters only, is at most 150 bytes long and
is neither `.` nor `..`. -/
theorem valid_chars (s : Bytes) (h : validTenantID s = .ok ()) :
    (∀ c ∈ s, documented c) ∧ s.length ≤ 150 ∧ s ≠ [46] ∧ s ≠ [46, 46] :=
  PfC20.valid_chars s h

/-- Hence it never carries a path separator, the tenant-list separator, the metadata separator,
NUL or a non-ASCII byte. -/
theorem no_separator (s : Bytes) (h : validTenantID s = .ok ()) :
    ∀ c ∈ s, c ≠ 47 ∧ c ≠ 92 ∧ c ≠ 124 ∧ c ≠ 58 ∧ c ≠ 61 ∧ c ≠ 0 ∧ c < 128 :=
  PfC20.no_separator s h

/-- Conversely the validator accepts exactly those strings (so the guard above is satisfiable and
the validator is not vacuously strict). -/
theorem valid_iff (s : Bytes) :
    validTenantID s = .ok () ↔ ((∀ c ∈ s, validChar c = true) ∧ s.length ≤ 150 ∧ s ≠ [46] ∧ s ≠ [46, 46]) :=
  PfC20.valid_iff s

/-! ### Single- and multi-tenant resolution. -/

/-- Single-tenant resolution succeeds only if all supplied identifiers (metadata ignored) denote
the same, valid tenant. -/
theorem tenantID_sound (s t : Bytes) (h : tenantID s = .ok t) :
    validTenantID t = .ok () ∧ ∀ p ∈ splitOn sepTenants s, trimMeta p = t :=
  PfC20.tenantID_sound s t h

/-- ... and it does succeed whenever they do. -/
theorem tenantID_complete (s t : Bytes) (hv : validTenantID t = .ok ())
    (hall : ∀ p ∈ splitOn sepTenants s, trimMeta p = t) : tenantID s = .ok t :=
  PfC20.tenantID_complete s t hv hall

/-- Multi-tenant resolution returns the strictly sorted (hence duplicate-free) list of exactly the
supplied tenants, each valid. -/
theorem tenantIDs_exact (s : Bytes) (l : List Bytes) (h : tenantIDs s = .ok l) :
    l.Pairwise (fun a b => bytesLt a b = true) ∧
    (∀ x, x ∈ l ↔ x ∈ (splitOn sepTenants s).map trimMeta) ∧
    (∀ x ∈ l, validTenantID x = .ok ()) :=
  PfC20.tenantIDs_exact s l h

/-- No string passes one resolver and not the other. -/
theorem resolvers_agree (s t : Bytes) : tenantID s = .ok t ↔ tenantIDs s = .ok [t] :=
  PfC20.resolvers_agree s t

/-- The metadata-aware parser accepts only valid tenants, agrees with the single-tenant resolver
and returns well-formed metadata (≤ 64 bytes, only metadata characters, sorted unique keys). -/
theorem parseWithMetadata_sound (s t m : Bytes) (h : parseWithMetadata s = .ok (t, m)) :
    validTenantID t = .ok () ∧ tenantID s = .ok t ∧ m.length ≤ 64 ∧ (∀ c ∈ m, validMetaChar c = true) ∧
    (m ≠ [] → m.head? = some sepMeta ∧ checkSegments [] (metaSegments m) = true) :=
  PfC20.parseWithMetadata_sound s t m h

/-! ### Transport. -/

/-- Any chain of hops through HTTP headers and gRPC metadata, of any length and with any
pre-existing header values, delivers the injected identifier unchanged or fails. -/
theorem transport_identity (id : Bytes) (hops : List Hop) (i : Nat) (c : Ctx)
    (h : chain (some id) hops i = .ok c) : c = some id :=
  PfC20.transport_identity id hops i c h

/-- A request without an identifier is rejected at the first hop, never given a default. -/
theorem no_default (h : Hop) : hop none h = .error .noOrgID := by
  cases h <;> rfl

theorem no_default_chain (h : Hop) (hs : List Hop) (i : Nat) :
    chain none (h :: hs) i = .error (.noOrgID, i) := by
  cases h <;> rfl

/-- An empty header value is never accepted by HTTP extraction. -/
theorem http_rejects_empty (recv : Ctx) : extractHTTP recv [] = .error .noOrgID := rfl

/-- whatever identifier the receiving side's context already holds never replaces (or stands in
for) the transported one -/
theorem extraction_ignores_receiver (recv recv' : Ctx) (h : Bytes) (v : List Bytes) :
    extractHTTP recv h = extractHTTP recv' h ∧ extractGRPC recv v = extractGRPC recv' v := ⟨rfl, rfl⟩

/-! ### Non-vacuity: the hypotheses above are met by concrete, non-trivial inputs. -/

-- "t:a|t" resolves to "t" with the single resolver; "b|a:k|b" to ["a","b"] with the multi resolver
example : tenantID [116, 58, 97, 124, 116] = .ok [116] := by decide
example : tenantIDs [98, 124, 97, 58, 107, 124, 98] = .ok [[97], [98]] := by decide
-- "t:a=b:c=d"
example : parseWithMetadata [116, 58, 97, 61, 98, 58, 99, 61, 100] = .ok ([116], [58, 97, 61, 98, 58, 99, 61, 100]) := by decide
example : chain (some [97]) [.http [] none, .grpc none (some [120]), .http [97] (some [120]), .grpc (some [[97]]) none] 0 = .ok (some [97]) := by decide
example : chain (some [97]) [.http [98] none] 0 = .error (.differentOrg, 0) := by decide

end PC20
