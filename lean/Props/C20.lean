import Model.C20
import Generated.C20
import Proofs.C20
import Model.C20X
import Proofs.C20X
/-!
# C20 — property theorems (statements only; helper lemmas live in `Proofs/C20.lean`)

Every theorem quantifies over **all** byte strings / all hop chains.
-/
namespace PC20
open Common C20

/-! ### The regenerated tables equal the model's tables (re-proved on every run). -/

theorem generated_tenant_table :
    Generated.C20.validTenantTable = (List.range 256).map (fun i => validChar (UInt8.ofNat i)) := by
  decide +kernel

theorem generated_meta_table :
    Generated.C20.validMetaTable = (List.range 256).map (fun i => validMetaChar (UInt8.ofNat i)) := by
  decide +kernel

theorem generated_limits :
    Generated.C20.maxTenantIDLength = maxTenantIDLength ∧ Generated.C20.maxMetadataLength = maxMetadataLength := by
  decide

/-! ### Accepted identifiers are safe. -/

/-- the documented character set, written out independently of `validChar`. -/
def documented (c : UInt8) : Prop :=
  (97 ≤ c ∧ c ≤ 122) ∨ (65 ≤ c ∧ c ≤ 90) ∨ (48 ≤ c ∧ c ≤ 57) ∨
  c = 33 ∨ c = 45 ∨ c = 95 ∨ c = 46 ∨ c = 42 ∨ c = 39 ∨ c = 40 ∨ c = 41

/-- An accepted identifier consists of documented characters only, is at most 150 bytes long and
is neither `.` nor `..`. -/
theorem valid_chars (s : Bytes) (h : validTenantID s = .ok ()) :
    (∀ c ∈ s, documented c) ∧ s.length ≤ 150 ∧ s ≠ [46] ∧ s ≠ [46, 46] :=
  PfC20.valid_chars s h

/-- Hence it never carries a path separator, the tenant-list separator, the metadata separator,
NUL or a non-ASCII byte. -/
theorem no_separator (s : Bytes) (h : validTenantID s = .ok ()) :
    ∀ c ∈ s, c ≠ 47 ∧ c ≠ 92 ∧ c ≠ 124 ∧ c ≠ 58 ∧ c ≠ 61 ∧ c ≠ 0 ∧ c < 128 :=
  PfC20.no_separator s h

/-- Conversely the validator accepts exactly those strings (so the guard above is satisfiable and
the validator is not vacuously strict). -/
theorem valid_iff (s : Bytes) :
    validTenantID s = .ok () ↔ ((∀ c ∈ s, validChar c = true) ∧ s.length ≤ 150 ∧ s ≠ [46] ∧ s ≠ [46, 46]) :=
  PfC20.valid_iff s

/-! ### Single- and multi-tenant resolution. -/

/-- Single-tenant resolution succeeds only if all supplied identifiers (metadata ignored) denote
the same, valid tenant. -/
theorem tenantID_sound (s t : Bytes) (h : tenantID s = .ok t) :
    validTenantID t = .ok () ∧ ∀ p ∈ splitOn sepTenants s, trimMeta p = t :=
  PfC20.tenantID_sound s t h

/-- ... and it does succeed whenever they do. -/
theorem tenantID_complete (s t : Bytes) (hv : validTenantID t = .ok ())
    (hall : ∀ p ∈ splitOn sepTenants s, trimMeta p = t) : tenantID s = .ok t :=
  PfC20.tenantID_complete s t hv hall

/-- Multi-tenant resolution returns the strictly sorted (hence duplicate-free) list of exactly the
supplied tenants, each valid. -/
theorem tenantIDs_exact (s : Bytes) (l : List Bytes) (h : tenantIDs s = .ok l) :
    l.Pairwise (fun a b => bytesLt a b = true) ∧
    (∀ x, x ∈ l ↔ x ∈ (splitOn sepTenants s).map trimMeta) ∧
    (∀ x ∈ l, validTenantID x = .ok ()) :=
  PfC20.tenantIDs_exact s l h

/-- ... and it succeeds exactly when every supplied identifier (metadata ignored) is valid:
multi-tenant resolution is complete, not only sound. -/
theorem tenantIDs_complete (s : Bytes) :
    (∃ l, tenantIDs s = .ok l) ↔ ∀ p ∈ splitOn sepTenants s, validTenantID (trimMeta p) = .ok () :=
  PfC20.tenantIDs_ok_iff s

/-- No string passes one resolver and not the other. -/
theorem resolvers_agree (s t : Bytes) : tenantID s = .ok t ↔ tenantIDs s = .ok [t] :=
  PfC20.resolvers_agree s t

/-- The metadata-aware parser accepts only valid tenants, agrees with the single-tenant resolver
and returns well-formed metadata (≤ 64 bytes, only metadata characters, sorted unique keys).
One direction only, by design of the code: the metadata-aware parser is STRICTER than the resolvers
(which ignore metadata without validating it) — see `parseWithMetadata_stricter_witness`. "Ignoring
attached metadata consistently" is the statement about the two resolvers (`tenantID_sound/complete`,
`tenantIDs_exact/complete`, `resolvers_agree`, all phrased with `trimMeta`). -/
theorem parseWithMetadata_sound (s t m : Bytes) (h : parseWithMetadata s = .ok (t, m)) :
    validTenantID t = .ok () ∧ tenantID s = .ok t ∧ m.length ≤ 64 ∧ (∀ c ∈ m, validMetaChar c = true) ∧
    (m ≠ [] → m.head? = some sepMeta ∧ checkSegments [] (metaSegments m) = true) :=
  PfC20.parseWithMetadata_sound s t m h

/-- the converse of `parseWithMetadata_sound` is false: `a:x=1|a:y=2` (same tenant, different
metadata) and `b:@@` (malformed metadata) resolve with the single-tenant resolver but are rejected
by the metadata-aware parser. -/
theorem parseWithMetadata_stricter_witness :
    tenantID [97, 58, 120, 61, 49, 124, 97, 58, 121, 61, 50] = .ok [97] ∧
    parseWithMetadata [97, 58, 120, 61, 49, 124, 97, 58, 121, 61, 50] = .error .tooMany ∧
    tenantID [98, 58, 64, 64] = .ok [98] ∧ parseWithMetadata [98, 58, 64, 64] = .error .metaBadChar := by
  decide

/-! ### Transport. -/

/-- Any chain of hops through HTTP headers and gRPC metadata, of any length, with any pre-existing
header values and whatever the receiving sides' contexts already hold: if it succeeds, the context
at the end yields the identifier the first context held, unchanged. -/
theorem transport_identity (c : Ctx) (id : Bytes) (hc : extractOrgID c = .ok id) (hops : List Hop) (i : Nat) (c' : Ctx)
    (h : chain c hops i = .ok c') : extractOrgID c' = .ok id :=
  PfC20.transport_identity c id hc hops i c' h

/-- ... and it DOES arrive: a chain whose carriers hold no conflicting value (no pre-existing header
/ metadata value, or the same one) succeeds and delivers the identifier. The identifier must be
non-empty to travel in an HTTP header (`hopClean`; see `empty_identifier_witness`). -/
theorem transport_chain_succeeds (c : Ctx) (id : Bytes) (hc : extractOrgID c = .ok id) (hops : List Hop) (i : Nat)
    (hclean : ∀ h ∈ hops, hopClean id h = true) :
    ∃ c', chain c hops i = .ok c' ∧ extractOrgID c' = .ok id := by
  obtain ⟨c', h⟩ := (PfC20.transport_succeeds_iff c id hc hops i).2 hclean
  exact ⟨c', h, PfC20.transport_identity c id hc hops i c' h⟩

/-- Exactly: a chain succeeds if and only if every carrier is clean; a failure is reported at the
first hop whose carrier holds a conflicting value (or, for an empty identifier, the first HTTP hop). -/
theorem transport_succeeds_iff (c : Ctx) (id : Bytes) (hc : extractOrgID c = .ok id) (hops : List Hop) (i : Nat) :
    (∃ c', chain c hops i = .ok c') ↔ ∀ h ∈ hops, hopClean id h = true :=
  PfC20.transport_succeeds_iff c id hc hops i

theorem transport_fails_at_first_conflict (c : Ctx) (id : Bytes) (hc : extractOrgID c = .ok id) (hops : List Hop) (i : Nat)
    (e : Err) (n : Nat) (h : chain c hops i = .error (e, n)) :
    ∃ j, n = i + j ∧ (∀ h ∈ hops.take j, hopClean id h = true) ∧ ∃ hp, hops[j]? = some hp ∧ hopClean id hp = false :=
  PfC20.transport_fails_at c id hc hops i e n h

/-- HTTP injection OVERWRITES the header: whatever values the request already carried (absent, present
with an empty first value — what a proxy copying `Header.Get` of an unauthenticated request produces
—, the same identifier, further values behind it), after a successful injection the header has
exactly one value, the identifier; so the receiver, which reads the first value, finds it. -/
theorem http_injection_sets_single_value (c : Ctx) (hdr h' : List Bytes) (h : injectHTTP c hdr = .ok h') :
    ∃ id, extractOrgID c = .ok id ∧ h' = [id] := by
  unfold injectHTTP at h
  cases hc : extractOrgID c with
  | error e => simp [hc] at h
  | ok id =>
    simp only [hc] at h
    split at h
    · simp at h
    · injection h with h; exact ⟨id, rfl, h.symm⟩

/-- a present-but-empty header, alone or followed by another value, does not stop the identifier. -/
example : (chain [(.org, [97])] [.http [[]] [], .http [[], [98]] [], .http [[97], [98]] []] 0).map extractOrgID = .ok (.ok [97]) ∧
    chain [(.org, [97])] [.http [[98], [97]] []] 0 = .error (.differentOrg, 0) := by decide

/-- A request whose context holds no identifier is rejected at the first hop, never given a default
(sending side: `Inject…` fails). -/
theorem no_default (c : Ctx) (hc : c.value .org = none) (h : Hop) : hop c h = .error .noOrgID :=
  PfC20.no_default c hc h

theorem no_default_chain (c : Ctx) (hc : c.value .org = none) (h : Hop) (hs : List Hop) (i : Nat) :
    chain c (h :: hs) i = .error (.noOrgID, i) := by
  simp [chain, PfC20.no_default c hc h]

/-- Receiving side: an absent header, a header whose first value is empty, and absent or multiple metadata values, are rejected
whatever the receiving context already holds (a stale identifier there is not used as a default). -/
theorem receiver_rejects_missing (recv : Ctx) (a b : Bytes) (l : List Bytes) :
    extractHTTP recv [] = .error .noOrgID ∧ extractHTTP recv ([] :: l) = .error .noOrgID ∧ extractGRPC recv [] = .error .noOrgID ∧
    extractGRPC recv (a :: b :: l) = .error .noOrgID := ⟨rfl, rfl, rfl, rfl⟩

/-- The resolvers on a context without an identifier: `ErrNoOrgID`, no default tenant. -/
theorem resolver_rejects_missing (c : Ctx) (hc : c.value .org = none) :
    resolveTenantID c = .error .noOrgID ∧ resolveTenantIDs c = .error .noOrgID ∧
    resolveWithMetadata c = .error .noOrgID := by
  simp [resolveTenantID, resolveTenantIDs, resolveWithMetadata, extractOrgID, hc]

/-- The context produced by an extraction is DERIVED from the receiving request's context: the
extracted identifier is bound on top of it, so it overrides whatever identifier the receiver held
(for any receiving context, e.g. one carrying a stale identifier), while the receiver's other values
(here: the user id) stay visible. -/
theorem extraction_overrides_receiver (recv : Ctx) (h x : Bytes) (more : List Bytes) (hne : h ≠ []) :
    (∃ c, extractHTTP recv (h :: more) = .ok c ∧ extractOrgID c = .ok h ∧ c.value .user = recv.value .user) ∧
    (∃ c, extractGRPC recv [x] = .ok c ∧ extractOrgID c = .ok x ∧ c.value .user = recv.value .user) :=
  ⟨⟨injectOrgID recv h, by simp [extractHTTP, headerGet, hne], PfC20.extract_inject recv h, PfC20.value_inject_user recv h⟩,
   ⟨injectOrgID recv x, rfl, PfC20.extract_inject recv x, PfC20.value_inject_user recv x⟩⟩

/-- a receiver holding the stale identifier `x` and user `u`: after extraction of `a` the context
yields `a`, and still the user `u`. -/
example : (extractHTTP [(.user, [117]), (.org, [120])] [[97]]).map (fun c => (extractOrgID c, c.value .user)) =
    .ok (.ok [97], some [117]) := by decide

/-! ### The empty identifier -/

/-- What the code does with an EMPTY identifier (documented, not excluded by the property text,
which constrains characters, length and the dot names only; `tenant/resolver_test.go` lists the
case "empty" with result `[""]`): the validator and both resolvers accept it (`a|` resolves to the
two tenants `""` and `a`); it passes a gRPC hop unchanged (one metadata value, empty); it cannot
pass an HTTP hop — an empty header is an absent one, so the request counts as one without an
identifier and is rejected, not defaulted. Non-emptiness of accepted identifiers is therefore NOT
guaranteed by this library. -/
theorem empty_identifier_witness :
    validTenantID [] = .ok () ∧ tenantID [] = .ok [] ∧ tenantIDs [97, 124] = .ok [[], [97]] ∧
    (chain [(.org, [])] [.grpc none []] 0).map extractOrgID = .ok (.ok []) ∧
    chain [(.org, [])] [.http [] []] 0 = .error (.noOrgID, 0) ∧
    hopClean [] (.grpc none []) = true ∧ hopClean [] (.http [] []) = false := by
  decide

/-! ### Interceptor chains (Model/C20X.lean): every real entry point, tunnelling through httpgrpc. -/

/-- Any chain of stages — HTTP hops received by `ExtractOrgIDFromHTTPRequest`,
`tenant.ExtractTenantIDFromHTTPRequest` or `AuthenticateUser`; gRPC hops sent by
`InjectIntoGRPCRequest` or the unary / stream client interceptor and received by
`ExtractFromGRPCRequest` or the unary / stream server interceptor; HTTP requests tunnelled through
gRPC by httpgrpc — of any length, any pre-existing carrier values, any receiver contexts: if it
succeeds, the identifier at the end is the one placed at the start. Induction on the chain. -/
theorem ichain_identity (c : Ctx) (id : Bytes) (hc : extractOrgID c = .ok id) (ss : List Stage) (i : Nat) (c' : Ctx)
    (h : ichain c ss i = .ok c') : extractOrgID c' = .ok id :=
  PfC20.ichain_identity c id hc ss i c' h

/-- ... and it arrives exactly when every stage is clean (no conflicting carrier value; for the
single-tenant HTTP entry point the identifier must also denote one valid tenant). -/
theorem ichain_succeeds_iff (c : Ctx) (id : Bytes) (hc : extractOrgID c = .ok id) (ss : List Stage) (i : Nat) :
    (∃ c', ichain c ss i = .ok c' ∧ extractOrgID c' = .ok id) ↔ ∀ s ∈ ss, stageClean id s = true := by
  rw [← PfC20.ichain_succeeds_iff c id hc ss i]
  constructor
  · rintro ⟨c', h, _⟩; exact ⟨c', h⟩
  · rintro ⟨c', h⟩; exact ⟨c', h, PfC20.ichain_identity c id hc ss i c' h⟩

/-- a failure is reported at the first stage that is not clean. -/
theorem ichain_fails_at_first_unclean (c : Ctx) (id : Bytes) (hc : extractOrgID c = .ok id) (ss : List Stage) (i : Nat)
    (e : Err) (n : Nat) (h : ichain c ss i = .error (e, n)) :
    ∃ j, n = i + j ∧ (∀ s ∈ ss.take j, stageClean id s = true) ∧ ∃ s, ss[j]? = some s ∧ stageClean id s = false :=
  PfC20.ichain_fails_at c id hc ss i e n h

/-- no default through any entry point: from a context without identifier every stage, hence every
non-empty chain, fails with "no org id" at its first stage. -/
theorem ichain_no_default (c : Ctx) (hc : c.value .org = none) (s : Stage) (ss : List Stage) (i : Nat) :
    stage c s = .error .noOrgID ∧ ichain c (s :: ss) i = .error (.noOrgID, i) := by
  have h := PfC20.stage_no_default c hc s
  exact ⟨h, by simp [ichain, h]⟩

/-- one stage, exactly: clean → the new context is some receiver context with the identifier bound on
top; not clean → an error. -/
theorem stage_spec (c : Ctx) (id : Bytes) (hc : extractOrgID c = .ok id) (s : Stage) :
    (stageClean id s = true → ∃ recv, stage c s = .ok (injectOrgID recv id)) ∧
    (stageClean id s = false → ∃ e, stage c s = .error e) :=
  PfC20.stage_spec c id hc s

/-- the interceptors add nothing to the plain functions: whichever of the nine sender/receiver entry
point combinations performs a gRPC hop, the result is that of `hop`. -/
theorem grpc_interceptors_transparent (c : Ctx) (ex : Option (List Bytes)) (recv : Ctx) (s : GSend) (r : GRecv) :
    stage c (.grpc ex recv s r) = hop c (.grpc ex recv) :=
  PfC20.stage_grpc_eq_hop c ex recv s r

/-- the interceptors run their continuation (invoker / streamer / handler / next) exactly when
injection / extraction succeeds, on the context carrying the identifier; otherwise they return the
error and the continuation's result is not used — for EVERY continuation `k`. -/
theorem interceptors_guard_continuation {α} (c recv : Ctx) (md : Option (List Bytes)) (vals hdr : List Bytes)
    (k2 : Ctx → List Bytes → Except Err α) (k1 : Ctx → Except Err α) :
    ((∀ e, injectGRPC c md = .error e → clientInterceptor c md k2 = .error e) ∧
     (∀ v, injectGRPC c md = .ok v → clientInterceptor c md k2 = k2 c v)) ∧
    ((vals.length ≠ 1 → serverInterceptor recv vals k1 = .error .noOrgID) ∧
     (∀ x, vals = [x] → serverInterceptor recv vals k1 = k1 (injectOrgID recv x))) ∧
    ((headerGet hdr = [] → authenticateUser recv hdr k2 = .error .noOrgID) ∧
     (headerGet hdr ≠ [] → authenticateUser recv hdr k2 = k2 (injectOrgID recv (headerGet hdr)) hdr)) :=
  ⟨PfC20.clientInterceptor_spec c md k2, PfC20.serverInterceptor_spec recv vals k1, PfC20.authenticateUser_spec recv hdr k2⟩

/-- tunnelling (httpgrpc): the identifier of the request's CONTEXT travels in the gRPC metadata, the
header is copied as it is, and the inner handler authenticates from the HEADER on top of the gRPC
server context. -/
theorem tunnel_spec (c : Ctx) (id : Bytes) (hc : extractOrgID c = .ok id) (h : List Bytes) (recv : Ctx) (inner : HRecv) :
    tunnel c h recv inner = recvHTTP inner (injectOrgID recv id) h :=
  PfC20.tunnel_of c id hc h recv inner

/-- ... so a request whose header was NOT injected from its context (header `b`, context `a`)
arrives as `b`: behind a tunnel the header wins over the context; and a context without identifier
cannot be tunnelled at all even when the header holds one (the client interceptor refuses). -/
theorem tunnel_header_wins_witness :
    (tunnel [(.org, [97])] [[98]] [] .auth).map extractOrgID = .ok (.ok [98]) ∧
    tunnel [] [[98]] [] .auth = .error .noOrgID ∧
    tunnel [(.org, [97])] [] [] .auth = .error .noOrgID := by
  decide

/-- the two context keys of user/id.go do not interfere, and the user id does NOT travel with the
org id: after any stage the user id is the receiving side's own. -/
theorem user_id_independent (c : Ctx) (o u : Bytes) (s : Stage) (c' : Ctx) (h : stage c s = .ok c') :
    extractOrgID (injectUserID c u) = extractOrgID c ∧ extractUserID (injectOrgID c o) = extractUserID c ∧
    extractUserID (injectUserID c u) = .ok u ∧
    extractUserID c' = extractUserID (match s with | .http _ recv _ => recv | .grpc _ recv _ _ => recv | .httpgrpc _ recv _ => recv) :=
  ⟨PfC20.org_after_injectUser c u, PfC20.user_after_injectOrg c o, PfC20.user_extract_inject c u, PfC20.stage_user c s c' h⟩

/-- `LogWith` appends exactly the identifiers the context holds (user id, then org id) and nothing
for a missing one. -/
theorem logWith_spec (c : Ctx) (kvs : List (String × Bytes)) :
    logWith c kvs = kvs ++ (match c.value .user with | some u => [("userID", u)] | none => [])
      ++ (match c.value .org with | some o => [("orgID", o)] | none => []) :=
  PfC20.logWith_spec c kvs

-- non-vacuity for the interceptor-chain theorems: a clean chain over all three kinds of stage
example : (ichain [(.org, [97])] [.http [] [] .tenant, .grpc none [(.org, [120])] .stream .unary, .httpgrpc [[97]] [(.org, [120])] .auth,
    .grpc (some [[97]]) [] .unary .stream] 0).map extractOrgID = .ok (.ok [97]) := by decide
example : ∀ s ∈ [Stage.http [] [] .tenant, .grpc none [(.org, [120])] .stream .unary, .httpgrpc [[97]] [(.org, [120])] .auth,
    .grpc (some [[97]]) [] .unary .stream], stageClean [97] s = true := by decide
-- "a|b" passes the plain receiver but is refused by the single-tenant entry point, at stage 1
example : ichain [(.org, [97, 124, 98])] [.http [] [] .auth, .httpgrpc [] [] .tenant] 0 = .error (.tooMany, 1) := by decide
example : stage [(.user, [117])] (.grpc none [] .unary .unary) = .error .noOrgID := by decide
example : logWith [(.org, [97]), (.user, [117])] [] = [("userID", [117]), ("orgID", [97])] := by decide

/-! ### Non-vacuity: the hypotheses above are met by concrete, non-trivial inputs. -/

-- "t:a|t" resolves to "t" with the single resolver; "b|a:k|b" to ["a","b"] with the multi resolver
example : tenantID [116, 58, 97, 124, 116] = .ok [116] := by decide
example : tenantIDs [98, 124, 97, 58, 107, 124, 98] = .ok [[97], [98]] := by decide
-- "t:a=b:c=d"
example : parseWithMetadata [116, 58, 97, 61, 98, 58, 99, 61, 100] = .ok ([116], [58, 97, 61, 98, 58, 99, 61, 100]) := by decide
-- a clean chain with stale receivers delivers "a"; the hypotheses of `transport_chain_succeeds` hold on it
example : (chain [(.org, [97])] [.http [] [], .grpc none [(.org, [120])], .http [[97]] [(.org, [120])], .grpc (some [[97]]) []] 0).map extractOrgID
    = .ok (.ok [97]) := by decide
example : ∀ h ∈ [Hop.http [] [], .grpc none [(.org, [120])], .http [[97]] [(.org, [120])], .grpc (some [[97]]) []], hopClean [97] h = true := by decide
example : chain [(.org, [97])] [.http [[98]] []] 0 = .error (.differentOrg, 0) := by decide

end PC20
