import Model.C19
import Proofs.C19
import Proofs.C19.Extra
import Proofs.C19.Sort
import Proofs.C19.Multi
import Proofs.C19.Multi2
import Proofs.C19.Cap
/-!
# C19 — property theorems (statements only; proofs live in `Proofs/C19.lean`, `Proofs/C19/*.lean`)

The cache theorems quantify over **every** stack of wrappers with at most one in-memory layer
(`oneLru`; versioned and compression layers may repeat, in any order), every codec with
`dec (enc b) = some b` (snappy, trusted by contract), every operation sequence of a sequential
client (`OpOk`: multi-sets have distinct keys as Go maps do, clocks do not run backwards), every
realised Go map iteration order (the `hints` attached to each operation) and every initial clock
reading. `final cd ls v0 w0 ops` is the pair (model state, judge state) after the run; the judge state
is the map-with-expiry that the correspondence harness also runs against the real implementation
(`jstep` / `checkRead` are the very functions the oracle executes).
-/
namespace PC19
open Common C19

/-! ### Keys written under different versions never alias -/

/-- Two versioned keys are equal only if both the version and the key are: `"<v>@" ++ k` is
injective in `(v, k)` — the digits of a version never contain `@`. For every version and every key
(including keys that themselves look like a version prefix). -/
theorem versions_never_alias (v v' : Nat) (k k' : Key) (h : addVersion v k = addVersion v' k') :
    v = v' ∧ k = k' :=
  PfC19.addVersion_inj h

/-- Stripping the prefix from a versioned key gives the key back. -/
theorem removeVersion_addVersion (v : Nat) (k : Key) : removeVersion v (addVersion v k) = k :=
  PfC19.removeVersion_addVersion v k

example : addVersion 1 [50, 64, 97] = [49, 64, 50, 64, 97] ∧ addVersion 12 [97] ≠ addVersion 1 [50, 64, 97] := by
  simp [addVersion, versionPrefix, digits, atSign]

/-- Clients whose stacks differ in one version layer above a shared lower part (whatever private
layers they put on top) never name the same backend entry: no key of one client aliases any key of
the other, so neither can read, overwrite or delete what the other stored. (The run-level theorem
for two interleaved clients is `two_clients_isolated` below.) -/
theorem split_clients_disjoint_backend_keys (up up' low : List Layer) (a b : Nat) (hab : a ≠ b) (k k' : Key) :
    phys (up ++ .ver a :: low) k ≠ phys (up' ++ .ver b :: low) k' :=
  PfC19.phys_split_disjoint up up' low a b hab k k'

example : phys ([.lru 2 5 [], .ver 1] ++ .ver 12 :: [.snap, .ver 7]) [97] = [55, 64, 49, 50, 64, 49, 64, 97] := by
  simp [phys, addVersion, versionPrefix, digits, atSign]

/-! ### What the judge remembers (the meaning of "most recently stored") -/

/-- A store makes its value the remembered one, with the TTL deadline on both clocks and no back-fill. -/
theorem judge_records_store (cfg : JCfg) (held : List Key) (j : JSt) (k : Key) (v : Bytes) (ttl : Int) (obs : Obs) :
    (jstep cfg held j (.set k v ttl) obs).1.spec.get k = .present v (j.V + ttl) (j.W + ttl) none ∧
    ∀ k', k' ≠ k → (jstep cfg held j (.set k v ttl) obs).1.spec.get k' = j.spec.get k' :=
  ⟨by simp [jstep, PfC19.get_aPut], fun k' h => by simp [jstep, PfC19.get_aPut, h]⟩

/-- A delete is remembered as such. -/
theorem judge_records_delete (cfg : JCfg) (held : List Key) (j : JSt) (k : Key) (obs : Obs) :
    (jstep cfg held j (.del k) obs).1.spec.get k = .deleted :=
  by simp [jstep, PfC19.get_aPut]

/-- A refused `Add` changes nothing; an accepted one is a store. -/
theorem judge_records_add (cfg : JCfg) (held : List Key) (j : JSt) (k : Key) (v : Bytes) (ttl : Int) :
    (jstep cfg held j (.add k v ttl) (.added false)).1 = j ∧
    (jstep cfg held j (.add k v ttl) (.added true)).1.spec.get k = .present v (j.V + ttl) (j.W + ttl) none :=
  ⟨rfl, by simp [jstep, PfC19.get_aPut]⟩

/-- The outcome of `Add` is judged: it has to be refused exactly when the last stored entry of the
key is within its TTL on the backend's clock. -/
theorem judge_checks_add_outcome (cfg : JCfg) (held : List Key) (j : JSt) (k : Key) (v : Bytes) (ttl : Int) (ok : Bool) :
    (jstep cfg held j (.add k v ttl) (.added ok)).2 = [] ↔ ok = !liveV j k := by
  cases ok <;> cases h : liveV j k <;> simp [jstep, h]

/-- A returned read re-arms the in-memory deadline only when the entry came from below: if the
in-memory layer holds the key within its deadline (`servedLocally`) the judge's entry is left as it
is — reading does not prolong the retention; otherwise, if the entry is within its TTL, the
in-memory layer has taken a copy whose deadline is now + default retention, and the time of that
back-fill is remembered. -/
theorem judge_rearms_only_on_backfill (cfg : JCfg) (held : List Key) (j : JSt) (keys : List Key) (k : Key) (v val : Bytes)
    (dV dW : Int) (fl : Option Int) (e : Bool) (hp : j.spec.get k = .present val dV dW fl) :
    (servedLocally cfg held j.W dW k = true →
      (jstep cfg held j (.get keys) (.got [(k, v)] e)).1.spec.get k = .present val dV dW fl) ∧
    (cfg.hasLru = true → servedLocally cfg held j.W dW k = false → j.V < dV →
      (jstep cfg held j (.get keys) (.got [(k, v)] e)).1.spec.get k = .present val dV (j.W + cfg.dttl) (some j.W)) := by
  constructor
  · intro h
    simp [jstep, refill, hp, h]
  · intro h1 h2 h3
    simp [jstep, refill, hp, h1, h2, h3, PfC19.get_aPut]

/-- The judge is not trivially satisfied: a wrong value, a read after delete and a read after the
deadline are all rejected; a copy the in-memory layer does not hold (`held = []`) does not excuse a
read after the TTL; and an in-memory hit at time 2 does NOT prolong the entry (stored at 0 with TTL
3, retention 5): returning it at time 4 is rejected ("sliding expiration"). -/
example :
    (jstep ⟨false, 0, []⟩ [] ⟨[([1], .present [7] 5 5 none)], 0, 0⟩ (.get [[1]]) (.got [([1], [8])] false)).2 = ["read-not-last-stored"] ∧
    (jstep ⟨true, 9, []⟩ [[1]] ⟨[([1], .deleted)], 0, 0⟩ (.get [[1]]) (.got [([1], [8])] false)).2 = ["read-after-delete"] ∧
    (jstep ⟨true, 9, []⟩ [[1]] ⟨[([1], .present [7] 5 6 none)], 5, 6⟩ (.get [[1]]) (.got [([1], [7])] false)).2 = ["read-after-deadline"] ∧
    (jstep ⟨true, 9, []⟩ [[1]] ⟨[([1], .present [7] 5 6 none)], 5, 5⟩ (.get [[1]]) (.got [([1], [7])] false)).2 = [] ∧
    (jstep ⟨true, 9, []⟩ [] ⟨[([1], .present [7] 5 6 none)], 5, 5⟩ (.get [[1]]) (.got [([1], [7])] false)).2 = ["read-after-deadline"] ∧
    (let j1 := (jstep ⟨true, 5, []⟩ [[1]] ⟨[([1], .present [7] 3 3 none)], 2, 2⟩ (.get [[1]]) (.got [([1], [7])] false)).1
     j1.spec.get [1] = .present [7] 3 3 none ∧
     (jstep ⟨true, 5, []⟩ [[1]] { j1 with V := 4, W := 4 } (.get [[1]]) (.got [([1], [7])] false)).2 = ["read-after-deadline"]) := by
  decide

/-! ### Reads through any stack -/

/-- The judge — the executable statement of the property, the same function that is run on the
implementation's observations — raises nothing on any run of the model (reads: value, deletion,
deadlines; `Add`: outcome). -/
theorem judge_accepts_every_run (cd : Codec) (hcd : ∀ b, cd.dec (cd.enc b) = some b) (ls : List Layer)
    (h1 : oneLru ls) (h2 : emptyLrus ls) (v0 w0 : Int) (ops : List (Op × List (List Key)))
    (hok : ∀ o ∈ ops, OpOk o.1) :
    runJudge cd (cfgOf ls) (St.fresh ls v0 w0) (JSt.fresh v0 w0) ops = [] :=
  PfC19.run_judge cd hcd ls h1 h2 v0 w0 ops hok

/-- After any run, a read returns for a key only the value most recently stored under it and not
deleted since — byte for byte — and only requested keys. -/
theorem read_is_last_stored (cd : Codec) (hcd : ∀ b, cd.dec (cd.enc b) = some b) (ls : List Layer)
    (h1 : oneLru ls) (h2 : emptyLrus ls) (v0 w0 : Int) (ops : List (Op × List (List Key)))
    (hok : ∀ o ∈ ops, OpOk o.1) (keys : List Key) (hs : List (List Key)) :
    ∀ kv ∈ (final cd ls v0 w0 ops).1.read cd keys hs,
      kv.1 ∈ keys ∧ ∃ dV dW fl, (final cd ls v0 w0 ops).2.spec.get kv.1 = .present kv.2 dV dW fl :=
  fun kv hkv =>
    let ⟨hk, dV, dW, fl, hg, _⟩ := PfC19.run_read cd hcd ls h1 h2 v0 w0 ops hok keys hs kv hkv
    ⟨hk, dV, dW, fl, hg⟩

/-- A deleted (or never stored) key is not returned. -/
theorem no_read_after_delete (cd : Codec) (hcd : ∀ b, cd.dec (cd.enc b) = some b) (ls : List Layer)
    (h1 : oneLru ls) (h2 : emptyLrus ls) (v0 w0 : Int) (ops : List (Op × List (List Key)))
    (hok : ∀ o ∈ ops, OpOk o.1) (keys : List Key) (hs : List (List Key)) (k : Key)
    (hd : (final cd ls v0 w0 ops).2.spec.get k = .deleted ∨ (final cd ls v0 w0 ops).2.spec.get k = .never) :
    ∀ kv ∈ (final cd ls v0 w0 ops).1.read cd keys hs, kv.1 ≠ k :=
  PfC19.run_no_read_after_delete cd hcd ls h1 h2 v0 w0 ops hok keys hs k hd

/-- Two clocks (backend and in-memory layer may be stepped separately): an entry is not returned
once the backend's clock has passed its TTL deadline `dV` and either the in-memory layer does not
hold the key at all or that layer's clock has passed `dW` (= the store's TTL deadline, or the
latest back-fill + default retention); without an in-memory layer `dV` alone decides. -/
theorem no_read_after_deadline (cd : Codec) (hcd : ∀ b, cd.dec (cd.enc b) = some b) (ls : List Layer)
    (h1 : oneLru ls) (h2 : emptyLrus ls) (v0 w0 : Int) (ops : List (Op × List (List Key)))
    (hok : ∀ o ∈ ops, OpOk o.1) (keys : List Key) (hs : List (List Key)) (k : Key) (v : Bytes) (dV dW : Int)
    (fl : Option Int)
    (hp : (final cd ls v0 w0 ops).2.spec.get k = .present v dV dW fl) (hV : dV ≤ (final cd ls v0 w0 ops).2.V)
    (hW : holds (final cd ls v0 w0 ops).1.layers k = false ∨ dW ≤ (final cd ls v0 w0 ops).2.W) :
    ∀ kv ∈ (final cd ls v0 w0 ops).1.read cd keys hs, kv.1 ≠ k :=
  PfC19.run_no_read_after_deadline cd hcd ls h1 h2 v0 w0 ops hok keys hs k v dV dW fl hp hV hW

/-- **The property's literal deadline.** On one clock, an entry that has not been back-filled since
it was stored (`fill = none`: every copy, in the backend and in the in-memory layer, is the store's
own) is returned only within its TTL: `V < dV`, where `dV` = time of the store + TTL
(`judge_records_store`). In particular never after the later of its TTL and the default retention
counted from the store: for any `t`, `ttl` with `dV = t + ttl`, `V < t + max ttl defaultTTL`.
Reading it from the in-memory layer does not prolong it. -/
theorem no_read_after_ttl_without_backfill (cd : Codec) (hcd : ∀ b, cd.dec (cd.enc b) = some b) (ls : List Layer)
    (h1 : oneLru ls) (h2 : emptyLrus ls) (v0 w0 : Int) (ops : List (Op × List (List Key)))
    (hok : ∀ o ∈ ops, OpOk o.1) (hc : ∀ o ∈ ops, Coupled o.1) (keys : List Key) (hs : List (List Key)) :
    ∀ kv ∈ (final cd ls v0 w0 ops).1.read cd keys hs, ∀ dV dW,
      (final cd ls v0 w0 ops).2.spec.get kv.1 = .present kv.2 dV dW none →
      (final cd ls v0 w0 ops).2.V < dV ∧
      ∀ t ttl, dV = t + ttl → (final cd ls v0 w0 ops).2.V < t + max ttl (cfgOf ls).dttl := by
  intro kv hkv dV dW hp
  have h := PfC19.run_ttl_without_backfill cd hcd ls h1 h2 v0 w0 ops hok hc keys hs kv hkv dV dW hp
  refine ⟨h, fun t ttl he => ?_⟩
  have := Int.le_max_left ttl (cfgOf ls).dttl
  omega

/-- **The general deadline.** On one clock, whatever a read returns is within its TTL, or the
in-memory layer took it from the layers below at a time `b` (backend clock `b + (v0 - w0)`) at which
it was still within its TTL, and less than the default retention has passed since that back-fill.
(`fill` is the time of the LATEST back-fill since the store.) -/
theorem no_read_after_backfill_retention (cd : Codec) (hcd : ∀ b, cd.dec (cd.enc b) = some b) (ls : List Layer)
    (h1 : oneLru ls) (h2 : emptyLrus ls) (v0 w0 : Int) (ops : List (Op × List (List Key)))
    (hok : ∀ o ∈ ops, OpOk o.1) (hc : ∀ o ∈ ops, Coupled o.1) (keys : List Key) (hs : List (List Key)) :
    ∀ kv ∈ (final cd ls v0 w0 ops).1.read cd keys hs,
      ∃ dV dW fl, (final cd ls v0 w0 ops).2.spec.get kv.1 = .present kv.2 dV dW fl ∧
        ((final cd ls v0 w0 ops).2.V < dV ∨
          ∃ b, fl = some b ∧ b + (v0 - w0) < dV ∧ (final cd ls v0 w0 ops).2.V < b + (v0 - w0) + (cfgOf ls).dttl) :=
  PfC19.run_backfill_retention cd hcd ls h1 h2 v0 w0 ops hok hc keys hs

/-- Hence, on one clock, nothing is returned `max defaultTTL 0` or more after the TTL of its last
store ran out, however often it is read or back-filled. -/
theorem no_read_after_hard_deadline (cd : Codec) (hcd : ∀ b, cd.dec (cd.enc b) = some b) (ls : List Layer)
    (h1 : oneLru ls) (h2 : emptyLrus ls) (v0 w0 : Int) (ops : List (Op × List (List Key)))
    (hok : ∀ o ∈ ops, OpOk o.1) (hc : ∀ o ∈ ops, Coupled o.1) (keys : List Key) (hs : List (List Key)) :
    ∀ kv ∈ (final cd ls v0 w0 ops).1.read cd keys hs,
      ∃ dV dW fl, (final cd ls v0 w0 ops).2.spec.get kv.1 = .present kv.2 dV dW fl ∧
        (final cd ls v0 w0 ops).2.V < dV + max (cfgOf ls).dttl 0 :=
  PfC19.run_hard_deadline cd hcd ls h1 h2 v0 w0 ops hok hc keys hs

/-- The hypotheses are satisfiable and the statements are not vacuous: LRU (size 1, default TTL 5)
over versioned over compression, codec `enc b = 0 :: b`. -/
def exCodec : Codec := ⟨fun b => 0 :: b, fun b => match b with | 0 :: r => some r | _ => none⟩
def exStack : List Layer := [.lru 1 5 [], .ver 3, .snap]
/-- store `a` with TTL 3, push it out of the in-memory layer by storing `b`, read `a` at time 2 (back-fill). -/
def exOps : List (Op × List (List Key)) :=
  [(.set [97] [1, 2] 3, []), (.set [98] [3] 3, []), (.advBoth 2, []), (.get [[97]], [])]
/-- store `a` with TTL 3, read it at time 2 from the in-memory layer (no back-fill). -/
def exOpsHit : List (Op × List (List Key)) :=
  [(.set [97] [1, 2] 3, []), (.advBoth 2, []), (.get [[97]], [])]

example : (∀ b, exCodec.dec (exCodec.enc b) = some b) ∧ exCodec.dec [1] = none ∧ oneLru exStack ∧ emptyLrus exStack ∧
    (∀ o ∈ exOps, OpOk o.1) ∧ (∀ o ∈ exOps, Coupled o.1) ∧ (∀ o ∈ exOpsHit, OpOk o.1) ∧ (∀ o ∈ exOpsHit, Coupled o.1) :=
  ⟨fun _ => rfl, rfl, trivial, ⟨rfl, trivial⟩, by simp [exOps, OpOk], by simp [exOps, Coupled],
   by simp [exOpsHit, OpOk], by simp [exOpsHit, Coupled]⟩

/-- The "no back-fill" hypothesis of `no_read_after_ttl_without_backfill` is necessary (the
reviewer's run): stored at 0 with TTL 3 under retention 5, evicted, back-filled by the read at time
2 — the judge records `fill = some 2`, in-memory deadline 7 — the entry is still served at time 6,
after store + max(3, 5) = 5, and no longer at time 7 = back-fill + retention. This is what
`cache/lru.go` does (`ExpiresAt: now.Add(l.defaultTTL)` in the back-fill). -/
theorem backfill_outlives_literal_bound_witness :
    (final exCodec exStack 0 0 exOps).2.spec.get [97] = .present [1, 2] 3 7 (some 2) ∧
    (final exCodec exStack 0 0 (exOps ++ [(.advBoth 4, [])])).2.V = 6 ∧
    (final exCodec exStack 0 0 (exOps ++ [(.advBoth 4, [])])).1.read exCodec [[97]] [] = [([97], [1, 2])] ∧
    (final exCodec exStack 0 0 (exOps ++ [(.advBoth 5, [])])).1.read exCodec [[97]] [] = [] := by
  simp [final, runTo, exOps, exStack, step, jstep, setL, getL, St.read, St.fresh, JSt.fresh, PfC19.addVersion_three,
    PfC19.removeVersion_three, lruAdd, aPut, aDel, Backend.set, exCodec, lruScan, aGet, Backend.getMulti,
    Backend.live, Backend.advance, orderBy, rank, lruAddAll, decodeAll, cfgOf, firstLru,
    refill, servedLocally, lruKey, heldKeys, upVers, Spec.get]

/-- ... whereas a read served by the in-memory layer re-arms nothing: stored at 0 with TTL 3 under
retention 5 and read at time 2 from the in-memory layer (`fill` stays `none`), the entry is served
at time 2 and gone at time 3 = store + TTL, well before store + retention. -/
theorem lru_hit_does_not_rearm_witness :
    (final exCodec exStack 0 0 exOpsHit).2.spec.get [97] = .present [1, 2] 3 3 none ∧
    (final exCodec exStack 0 0 exOpsHit).1.read exCodec [[97]] [] = [([97], [1, 2])] ∧
    (final exCodec exStack 0 0 (exOpsHit ++ [(.advBoth 1, [])])).1.read exCodec [[97]] [] = [] := by
  simp [final, runTo, exOpsHit, exStack, step, jstep, setL, getL, St.read, St.fresh, JSt.fresh, PfC19.addVersion_three,
    lruAdd, aPut, aDel, Backend.set, exCodec, lruScan, aGet, Backend.getMulti,
    Backend.live, Backend.advance, orderBy, rank, lruAddAll, decodeAll, cfgOf, firstLru,
    refill, servedLocally, lruKey, heldKeys, upVers, Spec.get]

/-- The statements above are safety statements; they are not met by a cache that never returns
anything: through ANY stack (any number and order of layers, any contents, any in-memory size
including 0) a store with a positive TTL is readable at once, byte for byte. -/
theorem store_is_readable (cd : Codec) (hcd : ∀ b, cd.dec (cd.enc b) = some b) (wall : Int) (ls : List Layer)
    (be : Backend) (k : Key) (v : Bytes) (ttl : Int) (hs : List (List Key)) (httl : 0 < ttl) :
    (getL cd wall (setL cd wall ls be k v ttl).1 (setL cd wall ls be k v ttl).2 [k] hs).2.1 = [(k, v)] :=
  PfC19.read_your_write cd hcd wall ls be k v ttl hs httl

/-! ### ANY stack: any number and any order of in-memory, versioned and compression layers

No `oneLru` hypothesis: induction over the layer list with an invariant on every copy in every layer
(`PfC19.MInv`). With several in-memory layers each may take a copy from the one below while that
still serves it, so the retentions add up: `slack ls` = sum of the non-negative parts of the default
retentions of all in-memory layers of the stack (for one layer: `max defaultTTL 0`, the bound of
`no_read_after_hard_deadline`). -/

/-- Any stack, any run, both clocks free: a read returns only requested keys, each with the value
most recently stored under it and not deleted since, byte for byte. -/
theorem read_is_last_stored_any_stack (cd : Codec) (hcd : ∀ b, cd.dec (cd.enc b) = some b) (ls : List Layer)
    (h2 : emptyLrus ls) (v0 w0 : Int) (ops : List (Op × List (List Key)))
    (hok : ∀ o ∈ ops, OpOk o.1) (keys : List Key) (hs : List (List Key)) :
    ∀ kv ∈ (final cd ls v0 w0 ops).1.read cd keys hs,
      kv.1 ∈ keys ∧ ∃ dV dW fl, (final cd ls v0 w0 ops).2.spec.get kv.1 = .present kv.2 dV dW fl :=
  PfC19.mrun_read cd hcd ls h2 v0 w0 ops hok keys hs

/-- Any stack: a deleted (or never stored) key is not returned, whichever layers held copies. -/
theorem no_read_after_delete_any_stack (cd : Codec) (hcd : ∀ b, cd.dec (cd.enc b) = some b) (ls : List Layer)
    (h2 : emptyLrus ls) (v0 w0 : Int) (ops : List (Op × List (List Key)))
    (hok : ∀ o ∈ ops, OpOk o.1) (keys : List Key) (hs : List (List Key)) (k : Key)
    (hd : (final cd ls v0 w0 ops).2.spec.get k = .deleted ∨ (final cd ls v0 w0 ops).2.spec.get k = .never) :
    ∀ kv ∈ (final cd ls v0 w0 ops).1.read cd keys hs, kv.1 ≠ k := by
  intro kv hkv he
  obtain ⟨_, dV, dW, fl, hg⟩ := PfC19.mrun_read cd hcd ls h2 v0 w0 ops hok keys hs kv hkv
  rw [he] at hg
  rcases hd with hd | hd <;> rw [hd] at hg <;> simp at hg

/-- Any stack, one clock: nothing is returned `slack ls` or more after the TTL of its last store ran
out, however many in-memory layers copied it from each other. -/
theorem no_read_after_hard_deadline_any_stack (cd : Codec) (hcd : ∀ b, cd.dec (cd.enc b) = some b) (ls : List Layer)
    (h2 : emptyLrus ls) (v0 w0 : Int) (ops : List (Op × List (List Key)))
    (hok : ∀ o ∈ ops, OpOk o.1) (hc : ∀ o ∈ ops, Coupled o.1) (keys : List Key) (hs : List (List Key)) :
    ∀ kv ∈ (final cd ls v0 w0 ops).1.read cd keys hs,
      ∃ dV dW fl, (final cd ls v0 w0 ops).2.spec.get kv.1 = .present kv.2 dV dW fl ∧
        (final cd ls v0 w0 ops).2.V < dV + slack ls :=
  PfC19.mrun_deadline cd hcd ls h2 v0 w0 ops hok hc keys hs

/-- The judge used for stacks with several in-memory layers (`jstepM`, the function the oracle runs
on the implementation's observations) raises nothing on a read of any model run. -/
theorem judgeM_accepts_every_read (cd : Codec) (hcd : ∀ b, cd.dec (cd.enc b) = some b) (ls : List Layer)
    (h2 : emptyLrus ls) (v0 w0 : Int) (ops : List (Op × List (List Key)))
    (hok : ∀ o ∈ ops, OpOk o.1) (coupled : Bool) (hc : coupled = true → ∀ o ∈ ops, Coupled o.1)
    (keys : List Key) (hs : List (List Key)) (e : Bool) :
    (jstepM (slack ls) coupled (final cd ls v0 w0 ops).2 (.get keys)
      (.got ((final cd ls v0 w0 ops).1.read cd keys hs) e)).2 = [] := by
  simp only [jstepM, List.flatMap_eq_nil_iff]
  intro kv hkv
  obtain ⟨hk, dV, dW, fl, hg⟩ := PfC19.mrun_read cd hcd ls h2 v0 w0 ops hok keys hs kv hkv
  unfold checkReadM
  rw [hg]
  cases hcp : coupled with
  | false => simp [hk]
  | true =>
    obtain ⟨dV', dW', fl', hg', hlt⟩ := PfC19.mrun_deadline cd hcd ls h2 v0 w0 ops hok (hc hcp) keys hs kv hkv
    rw [hg] at hg'
    simp only [JEnt.present.injEq] at hg'
    obtain ⟨_, rfl, _, _⟩ := hg'
    simp [hk, hlt]

/-- three in-memory layers, interleaved with a versioned and a compression layer; `slack` = 5 + 4 + 0. -/
def exStackM : List Layer := [.lru 1 5 [], .ver 3, .lru 2 4 [], .snap, .lru 1 (-1) []]

example : emptyLrus exStackM ∧ ¬ oneLru exStackM ∧ slack exStackM = 9 ∧ lruCount exStackM = 3 ∧
    (∀ o ∈ exOps, OpOk o.1) ∧ (∀ o ∈ exOps, Coupled o.1) :=
  ⟨⟨rfl, rfl, rfl, trivial⟩, by simp [exStackM, oneLru, noLru], by decide, rfl, by simp [exOps, OpOk], by simp [exOps, Coupled]⟩

/-- the multi-layer judge is not trivially satisfied. -/
example :
    (jstepM 9 true ⟨[([1], .present [7] 5 5 none)], 0, 0⟩ (.get [[1]]) (.got [([1], [8])] false)).2 = ["read-not-last-stored"] ∧
    (jstepM 9 true ⟨[([1], .deleted)], 0, 0⟩ (.get [[1]]) (.got [([1], [8])] false)).2 = ["read-after-delete"] ∧
    (jstepM 9 true ⟨[([1], .present [7] 5 5 none)], 14, 14⟩ (.get [[1]]) (.got [([1], [7])] false)).2 = ["read-after-hard-deadline"] ∧
    (jstepM 9 true ⟨[([1], .present [7] 5 5 none)], 13, 13⟩ (.get [[1]]) (.got [([1], [7])] false)).2 = [] ∧
    (jstepM 9 true ⟨[([1], .present [7] 5 5 none)], 3, 3⟩ (.add [1] [8] 3) (.added true)).2 = ["add-accepted-over-live-entry"] := by
  decide

/-! ### Two interleaved clients with different versions over shared lower layers

Client A goes through `upA ++ .ver a :: low`, client B through `upB ++ .ver b :: low`, `a ≠ b`;
`upA`, `upB`, `low` are ARBITRARY stacks (in-memory layers of `low` are shared with their contents).
`run2 cd a b me s j evs` runs any interleaving `evs` of operations of both clients (`false` = A,
`true` = B) and alongside the map-with-expiry `j` of client `me`, which is fed with `me`'s own
operations and outcomes and with the clock steps only — nothing the other client does enters it. -/

/-- **Isolation.** After any interleaved run, whatever client `me` reads under a key is the value
`me` itself stored there last (and did not delete) — byte for byte, only requested keys — whatever the
other client stored, added, deleted, multi-set or read (and thereby back-filled into shared
in-memory layers) under the same or any other logical key in between. A client of version `a` never
reads what a client of version `b ≠ a` stored. Both clocks free. -/
theorem two_clients_isolated (cd : Codec) (hcd : ∀ x, cd.dec (cd.enc x) = some x) (a b : Nat) (hab : a ≠ b) (me : Bool)
    (upA upB low : List Layer) (hA : emptyLrus upA) (hB : emptyLrus upB) (hL : emptyLrus low) (v0 w0 : Int)
    (evs : List (Bool × Op × List (List Key))) (hok : ∀ e ∈ evs, OpOk e.2.1) (keys : List Key) (hs : List (List Key)) :
    ∀ kv ∈ (getL cd (run2 cd a b me (S2.fresh upA upB low v0 w0) (JSt.fresh v0 w0) evs).1.wall
        ((run2 cd a b me (S2.fresh upA upB low v0 w0) (JSt.fresh v0 w0) evs).1.path a b me)
        (run2 cd a b me (S2.fresh upA upB low v0 w0) (JSt.fresh v0 w0) evs).1.be keys hs).2.1,
      kv.1 ∈ keys ∧ ∃ dV dW fl,
        (run2 cd a b me (S2.fresh upA upB low v0 w0) (JSt.fresh v0 w0) evs).2.spec.get kv.1 = .present kv.2 dV dW fl :=
  PfC19.run2_read cd hcd a b hab me upA upB low hA hB hL v0 w0 evs hok keys hs

/-- ... in particular a key `me` deleted (or never stored) is not returned to `me`, even if the other
client stored the same logical key afterwards. -/
theorem two_clients_no_read_after_delete (cd : Codec) (hcd : ∀ x, cd.dec (cd.enc x) = some x) (a b : Nat) (hab : a ≠ b)
    (me : Bool) (upA upB low : List Layer) (hA : emptyLrus upA) (hB : emptyLrus upB) (hL : emptyLrus low) (v0 w0 : Int)
    (evs : List (Bool × Op × List (List Key))) (hok : ∀ e ∈ evs, OpOk e.2.1) (keys : List Key) (hs : List (List Key))
    (k : Key)
    (hd : (run2 cd a b me (S2.fresh upA upB low v0 w0) (JSt.fresh v0 w0) evs).2.spec.get k = .deleted ∨
          (run2 cd a b me (S2.fresh upA upB low v0 w0) (JSt.fresh v0 w0) evs).2.spec.get k = .never) :
    ∀ kv ∈ (getL cd (run2 cd a b me (S2.fresh upA upB low v0 w0) (JSt.fresh v0 w0) evs).1.wall
        ((run2 cd a b me (S2.fresh upA upB low v0 w0) (JSt.fresh v0 w0) evs).1.path a b me)
        (run2 cd a b me (S2.fresh upA upB low v0 w0) (JSt.fresh v0 w0) evs).1.be keys hs).2.1, kv.1 ≠ k := by
  intro kv hkv he
  obtain ⟨_, dV, dW, fl, hg⟩ := PfC19.run2_read cd hcd a b hab me upA upB low hA hB hL v0 w0 evs hok keys hs kv hkv
  rw [he] at hg
  rcases hd with hd | hd <;> rw [hd] at hg <;> simp at hg

/-- An operation of the other client (not a clock step) leaves `me`'s map-with-expiry as it is:
operations of the two clients commute on each other's view. (What is NOT claimed and does not hold
over a shared in-memory layer: that `me`'s reads return as much as without the other client — the
other client's entries can push `me`'s copies out of a shared in-memory layer, after which a read
that the layer would still have served past the backend's TTL comes back empty. Safety is
unaffected: `two_clients_isolated`.) -/
theorem other_client_leaves_view (cd : Codec) (a b : Nat) (me c : Bool) (hc : c ≠ me) (s : S2) (j : JSt) (op : Op)
    (hop : op.isClock = false) (hs : List (List Key)) (rest : List (Bool × Op × List (List Key))) :
    run2 cd a b me s j ((c, op, hs) :: rest) = run2 cd a b me (s.apply cd a b c op hs).1 j rest := by
  simp [run2, hc, hop]

/-- the hypotheses are satisfiable: A = LRU over `3@` over a SHARED LRU over compression, B = `12@`
directly over the shared part; B stores under A's logical key between A's store and A's read. -/
def exEvs : List (Bool × Op × List (List Key)) :=
  [(false, .set [97] [1, 2] 3, []), (true, .set [97] [9] 3, []), (true, .get [[97]], []), (false, .get [[97]], [])]

example : (3 : Nat) ≠ 12 ∧ emptyLrus [.lru 1 5 []] ∧ emptyLrus ([] : List Layer) ∧ emptyLrus [.lru 2 4 [], .snap] ∧
    (∀ e ∈ exEvs, OpOk e.2.1) :=
  ⟨by decide, ⟨rfl, trivial⟩, trivial, ⟨rfl, trivial⟩, by simp [exEvs, OpOk]⟩

/-! ### Capacity of the in-memory layers -/

/-- After any run through any stack, every in-memory layer holds at most `size` entries, under
pairwise distinct keys (`capOk`): `lru.Add` evicts from the old end, the scan of `GetMulti` only
moves or removes entries, the back-fill goes through `lru.Add`. (The recency ORDER is the model's
list order, compared with the implementation's list after every operation.) -/
theorem lru_capacity_invariant (cd : Codec) (ls : List Layer) (h2 : emptyLrus ls) (v0 w0 : Int)
    (ops : List (Op × List (List Key))) : PfC19.capOk (final cd ls v0 w0 ops).1.layers :=
  PfC19.runTo_cap cd _ ops _ _ (PfC19.capOk_init ls h2)

/-- one `lru.Add`: the new entry is the most recent one, the layer stays within its size, and an
entry other than the oldest ones survives (here: everything that fits). -/
theorem lru_add_front_and_bound (sz : Nat) (hsz : 1 ≤ sz) (k : Key) (it : Item) (e : KV) :
    (lruAdd sz k it e).head? = some (k, it) ∧ (lruAdd sz k it e).length ≤ sz := by
  constructor
  · cases sz with
    | zero => omega
    | succ n => simp [lruAdd, aPut]
  · simp only [lruAdd, List.length_take]; omega

example : PfC19.capOk [.lru 2 5 [([1], ⟨[7], 3⟩), ([2], ⟨[8], 3⟩)], .ver 3, .lru 1 0 []] ∧
    ¬ PfC19.capOk [.lru 1 5 [([1], ⟨[7], 3⟩), ([2], ⟨[8], 3⟩)]] := by
  simp [PfC19.capOk, PfC19.entsOk]

/-! ### Add -/

/-- `Add` through any stack is refused exactly when the backend holds a live entry under the key's
physical name; then no layer changes (in particular the in-memory layer does not take the value). -/
theorem add_respects_existing (cd : Codec) (wall : Int) (ls : List Layer) (be : Backend) (k : Key) (v x : Bytes)
    (ttl : Int) (h : be.live (phys ls k) = some x) : addL cd wall ls be k v ttl = (ls, be, false) := by
  rcases PfC19.addL_cases cd wall ls be k v ttl with ⟨_, h2⟩ | ⟨h1, _⟩
  · exact h2
  · rw [h] at h1; simp at h1

/-- ... and otherwise it stores exactly as `Set` does. -/
theorem add_stores_when_absent (cd : Codec) (wall : Int) (ls : List Layer) (be : Backend) (k : Key) (v : Bytes)
    (ttl : Int) (h : be.live (phys ls k) = none) :
    addL cd wall ls be k v ttl = ((setL cd wall ls be k v ttl).1, (setL cd wall ls be k v ttl).2, true) := by
  rcases PfC19.addL_cases cd wall ls be k v ttl with ⟨h1, _⟩ | ⟨_, h2⟩
  · rw [h] at h1; simp at h1
  · exact h2

/-- After any run, `Add` through the stack is refused exactly when the judge's entry for the key is
within its TTL on the backend's clock (`liveV`): a refusal is always justified by a live entry the
client stored, and an acceptance never overwrites one. -/
theorem add_refused_iff_live (cd : Codec) (hcd : ∀ b, cd.dec (cd.enc b) = some b) (ls : List Layer)
    (h1 : oneLru ls) (h2 : emptyLrus ls) (v0 w0 : Int) (ops : List (Op × List (List Key)))
    (hok : ∀ o ∈ ops, OpOk o.1) (k : Key) (v : Bytes) (ttl : Int) :
    (step cd (final cd ls v0 w0 ops).1 (.add k v ttl) []).2 = .added (!liveV (final cd ls v0 w0 ops).2 k) := by
  simp only [step]
  rw [PfC19.run_add cd hcd ls h1 h2 v0 w0 ops hok k v ttl]

/-! ### Corrupt entries -/

/-- Through a compression layer only decodings of what the layers below returned come back; an
entry that does not decode is dropped and an error is reported. -/
theorem corrupt_entry_dropped (cd : Codec) (wall : Int) (ls : List Layer) (be : Backend) (keys : List Key)
    (hs : List (List Key)) :
    (∀ kv ∈ (getL cd wall (.snap :: ls) be keys hs).2.1,
      ∃ ev, (kv.1, ev) ∈ (getL cd wall ls be keys hs.tail).2.1 ∧ cd.dec ev = some kv.2) ∧
    ((∃ kv ∈ (getL cd wall ls be keys hs.tail).2.1, cd.dec kv.2 = none) →
      (getL cd wall (.snap :: ls) be keys hs).2.2 = true) :=
  PfC19.snap_get cd wall ls be keys hs

/-- In particular a live backend entry that does not decode reads as a miss with an error. -/
theorem corrupt_backend_entry (cd : Codec) (wall : Int) (be : Backend) (k : Key) (g : Bytes) (hs : List (List Key))
    (hl : be.live k = some g) (hg : cd.dec g = none) : getL cd wall [.snap] be [k] hs = ([.snap], [], true) :=
  PfC19.corrupt_backend_entry cd wall be k g hs hl hg

/-- ... also underneath an in-memory layer that does not hold the key: the read goes through to the
backend, the undecodable entry is dropped, the error is passed up, and nothing is back-filled. -/
theorem corrupt_backend_entry_under_lru (cd : Codec) (wall : Int) (sz : Nat) (d : Int) (e : KV) (be : Backend) (k : Key)
    (g : Bytes) (hs : List (List Key)) (hm : aGet k e = none) (hl : be.live k = some g) (hg : cd.dec g = none) :
    getL cd wall [.lru sz d e, .snap] be [k] hs = ([.lru sz d e, .snap], [], true) :=
  PfC19.corrupt_backend_entry_under_lru cd wall sz d e be k g hs hm hl hg

/-! ### Server placement is stable -/

/-- The jump hash answers a bucket in range. For **any** `next` that makes progress
(`b < next key b`; the float expression of the code satisfies it as `2^31 / ((key>>33)+1) ≥ 1`). -/
theorem jump_in_range (next : UInt64 → Int → Int) (hnext : ∀ k b, b < next k b) (key : UInt64) (n : Nat)
    (hn : 1 ≤ n) : 0 ≤ jump next key n ∧ jump next key n < n :=
  PfC19.jump_range next hnext key n hn

/-- Consistency: going from `n` to `n+1` buckets moves a key only to the new bucket `n`, if at all. -/
theorem jump_consistent (next : UInt64 → Int → Int) (hnext : ∀ k b, b < next k b) (key : UInt64) (n : Nat)
    (hn : 1 ≤ n) : jump next key (n + 1) = jump next key n ∨ jump next key (n + 1) = n :=
  PfC19.jump_consistent next hnext key n hn

/-- `PickServer` always answers one of the configured servers. -/
theorem pick_some {α} (next : UInt64 → Int → Int) (hnext : ∀ k b, b < next k b) (servers : List α)
    (hash : UInt64) (hne : servers ≠ []) : ∃ a ∈ servers, pick next servers hash = some a :=
  PfC19.pick_mem next hnext servers hash hne

/-- Appending one server at the end of the (sorted) list moves a key only to the new server, if at
all — including the 1 → 2 servers step where the code bypasses the hash. -/
theorem pick_stable {α} (next : UInt64 → Int → Int) (hnext : ∀ k b, b < next k b) (servers : List α) (s : α)
    (hash : UInt64) (hne : servers ≠ []) :
    pick next (servers ++ [s]) hash = pick next servers hash ∨ pick next (servers ++ [s]) hash = some s :=
  PfC19.pick_stable next hnext servers s hash hne

/-- the hypothesis on `next` is satisfiable and the loop is not vacuous: with `next k b = b + 2`
the buckets for n = 1..5 are 0,0,2,2,4. -/
example : (List.range 5).map (fun i => jump (fun _ b => b + 2) 7 (i + 1)) = [0, 0, 2, 2, 4] := by decide

/-- the multiplier of the float expression is at least 1 in exact arithmetic:
`(key >> 33) + 1 ≤ 2^31`, so `(b + 1) * (2^31 / ((key >> 33) + 1)) ≥ b + 1 > b` (the IEEE rounding of
the expression itself is executed in the oracle only and is not part of any proof). -/
theorem jump_multiplier_ge_one (key : UInt64) : (key >>> 33).toNat + 1 ≤ 2 ^ 31 :=
  PfC19.shift33_le key

/-! ### The naturally sorted server list -/

/-- `SetServers` sorts a permutation of what it was given. -/
theorem natSort_is_permutation (l : List Bytes) : (natSort l).Perm l := PfC19.natSort_perm l

/-- natsort's comparison is not a strict order: `Compare a a = true`, and names that differ only in
leading zeros of a digit run compare "less" both ways — the sorted order of `s1`, `s01` then depends
on the order in which they were given, and so does the placement. -/
theorem natural_order_not_strict_witness :
    natLess [115, 49] [115, 49] = true ∧
    natLess [115, 49] [115, 48, 49] = true ∧ natLess [115, 48, 49] [115, 49] = true ∧
    natSort [[115, 49], [115, 48, 49]] ≠ natSort [[115, 48, 49], [115, 49]] ∧
    natOrdered [[115, 49], [115, 48, 49]] = false := by
  decide

/-- On every name list on which `natLess` relates two distinct names in exactly one direction and
is transitive (`natOrdered`, decidable), the sorted list is the same for every order in which the
names are given (duplicates allowed) ... -/
theorem natSort_order_independent (l l' : List Bytes) (h : natOrdered l = true) (hp : l.Perm l') :
    natSort l = natSort l' :=
  PfC19.natSort_order_independent h hp

/-- ... hence the server chosen for a key is a function of the key and the SET of configured
names, not of the order in the configuration. -/
theorem placement_order_independent (next : UInt64 → Int → Int) (l l' : List Bytes) (h : natOrdered l = true)
    (hp : l.Perm l') (hash : UInt64) : pick next (natSort l) hash = pick next (natSort l') hash := by
  rw [PfC19.natSort_order_independent h hp]

/-- the condition holds on ordinary name lists: `s10`, `s2`, `s1`, `s2` (a duplicate = double weight)
is ordered, and sorts to `s1, s2, s2, s10` from either order. -/
example : natOrdered [[115, 49, 48], [115, 50], [115, 49], [115, 50]] = true ∧
    natSort [[115, 49, 48], [115, 50], [115, 49], [115, 50]] = [[115, 49], [115, 50], [115, 50], [115, 49, 48]] ∧
    natSort [[115, 50], [115, 49], [115, 50], [115, 49, 48]] = [[115, 49], [115, 50], [115, 50], [115, 49, 48]] := by
  decide

end PC19
