import Model.C19
import Proofs.C19
import Proofs.C19.Extra
/-!
# C19 — property theorems (statements only; proofs live in `Proofs/C19.lean`, `Proofs/C19/*.lean`)

The cache theorems quantify over **every** stack of wrappers with at most one in-memory layer
(`oneLru`; versioned and compression layers may repeat, in any order), every codec with
`dec (enc b) = some b` (snappy, trusted by contract), every operation sequence of a sequential
client (`OpOk`: multi-sets have distinct keys as Go maps do, clocks do not run backwards), every
realised Go map iteration order (the `hints` attached to each operation) and every initial clock
reading. `final cd ls v0 w0 ops` is the pair (model state, judge state) after the run; the judge state
is the map-with-expiry that the correspondence harness also runs against the real implementation
(`jstep` / `checkRead` are the very functions the oracle executes).
-/
namespace PC19
open Common C19

/-! ### Keys written under different versions never alias -/

/-- Two versioned keys are equal only if both the version and the key are: `"<v>@" ++ k` is
injective in `(v, k)` — the digits of a version never contain `@`. For every version and every key
(including keys that themselves look like a version prefix). -/
theorem versions_never_alias (v v' : Nat) (k k' : Key) (h : addVersion v k = addVersion v' k') :
    v = v' ∧ k = k' :=
  PfC19.addVersion_inj h

/-- Stripping the prefix from a versioned key gives the key back. -/
theorem removeVersion_addVersion (v : Nat) (k : Key) : removeVersion v (addVersion v k) = k :=
  PfC19.removeVersion_addVersion v k

example : addVersion 1 [50, 64, 97] = [49, 64, 50, 64, 97] ∧ addVersion 12 [97] ≠ addVersion 1 [50, 64, 97] := by
  simp [addVersion, versionPrefix, digits, atSign]

/-! ### What the judge remembers (the meaning of "most recently stored") -/

/-- A store makes its value the remembered one, with the TTL deadline on both clocks. -/
theorem judge_records_store (cfg : JCfg) (j : JSt) (k : Key) (v : Bytes) (ttl : Int) (obs : Obs) :
    (jstep cfg j (.set k v ttl) obs).1.spec.get k = .present v (j.V + ttl) (j.W + ttl) ∧
    ∀ k', k' ≠ k → (jstep cfg j (.set k v ttl) obs).1.spec.get k' = j.spec.get k' :=
  ⟨by simp [jstep, PfC19.get_aPut], fun k' h => by simp [jstep, PfC19.get_aPut, h]⟩

/-- A delete is remembered as such. -/
theorem judge_records_delete (cfg : JCfg) (j : JSt) (k : Key) (obs : Obs) :
    (jstep cfg j (.del k) obs).1.spec.get k = .deleted :=
  by simp [jstep, PfC19.get_aPut]

/-- A refused `Add` changes nothing; an accepted one is a store. -/
theorem judge_records_add (cfg : JCfg) (j : JSt) (k : Key) (v : Bytes) (ttl : Int) :
    (jstep cfg j (.add k v ttl) (.added false)).1 = j ∧
    (jstep cfg j (.add k v ttl) (.added true)).1.spec.get k = .present v (j.V + ttl) (j.W + ttl) :=
  ⟨rfl, by simp [jstep, PfC19.get_aPut]⟩

/-- The judge is not trivially satisfied: a wrong value, a read after delete and a read after the
deadline are all rejected. -/
example :
    (jstep ⟨false, 0⟩ ⟨[([1], .present [7] 5 5)], 0, 0⟩ (.get [[1]]) (.got [([1], [8])] false)).2 = ["read-not-last-stored"] ∧
    (jstep ⟨true, 9⟩ ⟨[([1], .deleted)], 0, 0⟩ (.get [[1]]) (.got [([1], [8])] false)).2 = ["read-after-delete"] ∧
    (jstep ⟨true, 9⟩ ⟨[([1], .present [7] 5 6)], 5, 6⟩ (.get [[1]]) (.got [([1], [7])] false)).2 = ["read-after-deadline"] ∧
    (jstep ⟨true, 9⟩ ⟨[([1], .present [7] 5 6)], 5, 5⟩ (.get [[1]]) (.got [([1], [7])] false)).2 = [] := by
  decide

/-! ### Reads through any stack -/

/-- The judge — the executable statement of the property, the same function that is run on the
implementation's observations — raises nothing on any run of the model. -/
theorem judge_accepts_every_run (cd : Codec) (hcd : ∀ b, cd.dec (cd.enc b) = some b) (ls : List Layer)
    (h1 : oneLru ls) (h2 : emptyLrus ls) (v0 w0 : Int) (ops : List (Op × List (List Key)))
    (hok : ∀ o ∈ ops, OpOk o.1) :
    runJudge cd (cfgOf ls) (St.fresh ls v0 w0) (JSt.fresh v0 w0) ops = [] :=
  PfC19.run_judge cd hcd ls h1 h2 v0 w0 ops hok

/-- After any run, a read returns for a key only the value most recently stored under it and not
deleted since — byte for byte — and only requested keys. -/
theorem read_is_last_stored (cd : Codec) (hcd : ∀ b, cd.dec (cd.enc b) = some b) (ls : List Layer)
    (h1 : oneLru ls) (h2 : emptyLrus ls) (v0 w0 : Int) (ops : List (Op × List (List Key)))
    (hok : ∀ o ∈ ops, OpOk o.1) (keys : List Key) (hs : List (List Key)) :
    ∀ kv ∈ (final cd ls v0 w0 ops).1.read cd keys hs,
      kv.1 ∈ keys ∧ ∃ dV dW, (final cd ls v0 w0 ops).2.spec.get kv.1 = .present kv.2 dV dW :=
  fun kv hkv =>
    let ⟨hk, dV, dW, hg, _⟩ := PfC19.run_read cd hcd ls h1 h2 v0 w0 ops hok keys hs kv hkv
    ⟨hk, dV, dW, hg⟩

/-- A deleted (or never stored) key is not returned. -/
theorem no_read_after_delete (cd : Codec) (hcd : ∀ b, cd.dec (cd.enc b) = some b) (ls : List Layer)
    (h1 : oneLru ls) (h2 : emptyLrus ls) (v0 w0 : Int) (ops : List (Op × List (List Key)))
    (hok : ∀ o ∈ ops, OpOk o.1) (keys : List Key) (hs : List (List Key)) (k : Key)
    (hd : (final cd ls v0 w0 ops).2.spec.get k = .deleted ∨ (final cd ls v0 w0 ops).2.spec.get k = .never) :
    ∀ kv ∈ (final cd ls v0 w0 ops).1.read cd keys hs, kv.1 ≠ k :=
  PfC19.run_no_read_after_delete cd hcd ls h1 h2 v0 w0 ops hok keys hs k hd

/-- An entry is not returned once the backend's clock has passed its TTL deadline `dV` and the
in-memory layer's clock has passed `dW` = the later of its TTL deadline and the latest back-fill
(a read that returned it while its TTL was running) plus the default retention; without an
in-memory layer `dV` alone decides. -/
theorem no_read_after_deadline (cd : Codec) (hcd : ∀ b, cd.dec (cd.enc b) = some b) (ls : List Layer)
    (h1 : oneLru ls) (h2 : emptyLrus ls) (v0 w0 : Int) (ops : List (Op × List (List Key)))
    (hok : ∀ o ∈ ops, OpOk o.1) (keys : List Key) (hs : List (List Key)) (k : Key) (v : Bytes) (dV dW : Int)
    (hp : (final cd ls v0 w0 ops).2.spec.get k = .present v dV dW) (hV : dV ≤ (final cd ls v0 w0 ops).2.V)
    (hW : (cfgOf ls).hasLru = false ∨ dW ≤ (final cd ls v0 w0 ops).2.W) :
    ∀ kv ∈ (final cd ls v0 w0 ops).1.read cd keys hs, kv.1 ≠ k :=
  PfC19.run_no_read_after_deadline cd hcd ls h1 h2 v0 w0 ops hok keys hs k v dV dW hp hV hW

/-- On one clock (backend and in-memory layer advance together) the retention cannot be stretched by
reading: nothing is returned `max defaultTTL 0` or more after the TTL of its last store ran out
(`dV` = time of the store + TTL). -/
theorem no_read_after_hard_deadline (cd : Codec) (hcd : ∀ b, cd.dec (cd.enc b) = some b) (ls : List Layer)
    (h1 : oneLru ls) (h2 : emptyLrus ls) (v0 w0 : Int) (ops : List (Op × List (List Key)))
    (hok : ∀ o ∈ ops, OpOk o.1) (hc : ∀ o ∈ ops, Coupled o.1) (keys : List Key) (hs : List (List Key)) :
    ∀ kv ∈ (final cd ls v0 w0 ops).1.read cd keys hs,
      ∃ dV dW, (final cd ls v0 w0 ops).2.spec.get kv.1 = .present kv.2 dV dW ∧
        (final cd ls v0 w0 ops).2.V < dV + max (cfgOf ls).dttl 0 :=
  PfC19.run_hard_deadline cd hcd ls h1 h2 v0 w0 ops hok hc keys hs

/-- The hypotheses are satisfiable and the statements are not vacuous: LRU (size 1, default TTL 5)
over versioned over compression, codec `enc b = 0 :: b`; store, evict by another store, step both
clocks past the TTL of the first store... the first key reads back through the back-fill before
that, and no longer afterwards. -/
def exCodec : Codec := ⟨fun b => 0 :: b, fun b => match b with | 0 :: r => some r | _ => none⟩
def exStack : List Layer := [.lru 1 5 [], .ver 3, .snap]
def exOps : List (Op × List (List Key)) :=
  [(.set [97] [1, 2] 2, []), (.set [98] [3] 2, []), (.advBoth 1, []), (.get [[97]], [])]

example : (∀ b, exCodec.dec (exCodec.enc b) = some b) ∧ exCodec.dec [1] = none ∧ oneLru exStack ∧ emptyLrus exStack ∧
    (∀ o ∈ exOps, OpOk o.1) ∧ (∀ o ∈ exOps, Coupled o.1) :=
  ⟨fun _ => rfl, rfl, trivial, ⟨rfl, trivial⟩, by simp [exOps, OpOk], by simp [exOps, Coupled]⟩

/-- ... on that run: the back-filled copy is served until its default retention (fill time 1 + 5) ends,
although the backend's entry expired at 2; from time 6 on nothing is returned. -/
example : (final exCodec exStack 0 0 (exOps ++ [(.advBoth 4, [])])).1.read exCodec [[97]] [] = [([97], [1, 2])] ∧
    (final exCodec exStack 0 0 (exOps ++ [(.advBoth 5, [])])).1.read exCodec [[97]] [] = [] := by
  simp [final, runTo, exOps, exStack, step, jstep, setL, getL, St.read, St.fresh, JSt.fresh, addVersion,
    versionPrefix, digits, atSign, lruAdd, aPut, aDel, Backend.set, exCodec, lruScan, aGet, Backend.getMulti,
    Backend.live, Backend.advance, orderBy, rank, lruAddAll, removeVersion, trimPrefix, decodeAll, cfgOf, firstLru,
    bump, Spec.get]

/-! ### Add -/

/-- `Add` through any stack is refused exactly when the backend holds a live entry under the key's
physical name; then no layer changes (in particular the in-memory layer does not take the value). -/
theorem add_respects_existing (cd : Codec) (wall : Int) (ls : List Layer) (be : Backend) (k : Key) (v x : Bytes)
    (ttl : Int) (h : be.live (phys ls k) = some x) : addL cd wall ls be k v ttl = (ls, be, false) := by
  rcases PfC19.addL_cases cd wall ls be k v ttl with ⟨_, h2⟩ | ⟨h1, _⟩
  · exact h2
  · rw [h] at h1; simp at h1

/-- ... and otherwise it stores exactly as `Set` does. -/
theorem add_stores_when_absent (cd : Codec) (wall : Int) (ls : List Layer) (be : Backend) (k : Key) (v : Bytes)
    (ttl : Int) (h : be.live (phys ls k) = none) :
    addL cd wall ls be k v ttl = ((setL cd wall ls be k v ttl).1, (setL cd wall ls be k v ttl).2, true) := by
  rcases PfC19.addL_cases cd wall ls be k v ttl with ⟨h1, _⟩ | ⟨_, h2⟩
  · rw [h] at h1; simp at h1
  · exact h2

/-! ### Corrupt entries -/

/-- Through a compression layer only decodings of what the layers below returned come back; an
entry that does not decode is dropped and an error is reported. -/
theorem corrupt_entry_dropped (cd : Codec) (wall : Int) (ls : List Layer) (be : Backend) (keys : List Key)
    (hs : List (List Key)) :
    (∀ kv ∈ (getL cd wall (.snap :: ls) be keys hs).2.1,
      ∃ ev, (kv.1, ev) ∈ (getL cd wall ls be keys hs.tail).2.1 ∧ cd.dec ev = some kv.2) ∧
    ((∃ kv ∈ (getL cd wall ls be keys hs.tail).2.1, cd.dec kv.2 = none) →
      (getL cd wall (.snap :: ls) be keys hs).2.2 = true) :=
  PfC19.snap_get cd wall ls be keys hs

/-- In particular a live backend entry that does not decode reads as a miss with an error. -/
theorem corrupt_backend_entry (cd : Codec) (wall : Int) (be : Backend) (k : Key) (g : Bytes) (hs : List (List Key))
    (hl : be.live k = some g) (hg : cd.dec g = none) : getL cd wall [.snap] be [k] hs = ([.snap], [], true) :=
  PfC19.corrupt_backend_entry cd wall be k g hs hl hg

/-! ### Server placement is stable -/

/-- The jump hash answers a bucket in range. For **any** `next` that makes progress
(`b < next key b`; the float expression of the code satisfies it as `2^31 / ((key>>33)+1) ≥ 1`). -/
theorem jump_in_range (next : UInt64 → Int → Int) (hnext : ∀ k b, b < next k b) (key : UInt64) (n : Nat)
    (hn : 1 ≤ n) : 0 ≤ jump next key n ∧ jump next key n < n :=
  PfC19.jump_range next hnext key n hn

/-- Consistency: going from `n` to `n+1` buckets moves a key only to the new bucket `n`, if at all. -/
theorem jump_consistent (next : UInt64 → Int → Int) (hnext : ∀ k b, b < next k b) (key : UInt64) (n : Nat)
    (hn : 1 ≤ n) : jump next key (n + 1) = jump next key n ∨ jump next key (n + 1) = n :=
  PfC19.jump_consistent next hnext key n hn

/-- `PickServer` always answers one of the configured servers. -/
theorem pick_some {α} (next : UInt64 → Int → Int) (hnext : ∀ k b, b < next k b) (servers : List α)
    (hash : UInt64) (hne : servers ≠ []) : ∃ a ∈ servers, pick next servers hash = some a :=
  PfC19.pick_mem next hnext servers hash hne

/-- Appending one server at the end of the (sorted) list moves a key only to the new server, if at
all — including the 1 → 2 servers step where the code bypasses the hash. -/
theorem pick_stable {α} (next : UInt64 → Int → Int) (hnext : ∀ k b, b < next k b) (servers : List α) (s : α)
    (hash : UInt64) (hne : servers ≠ []) :
    pick next (servers ++ [s]) hash = pick next servers hash ∨ pick next (servers ++ [s]) hash = some s :=
  PfC19.pick_stable next hnext servers s hash hne

/-- the hypothesis on `next` is satisfiable and the loop is not vacuous: with `next k b = b + 2`
the buckets for n = 1..5 are 0,0,2,2,4. -/
example : (List.range 5).map (fun i => jump (fun _ b => b + 2) 7 (i + 1)) = [0, 0, 2, 2, 4] := by decide

end PC19
