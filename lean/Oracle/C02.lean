import Model.C02
import Oracle.C01
/-!
Oracle handler for C02.

`C02.rw  cfg now desc key | ringTokens  Wids WmaxErrors Werr  Rids RmaxErrors RmaxUnavailableZones Rzone Rerr`
(`W` = `Ring.Get(key, Write)`, `R` = `Ring.GetReplicationSetForOperation(Read)` on the same ring).
* diff : the model's two lookups on the realised token circle against the observation.
* judge: the property statement evaluated on the implementation's own numbers — every minimal
  acknowledging subset of `W` (size `len − MaxErrors`) against every minimal answering subset of `R`
  (instances: size `len − MaxErrors`; zone-aware: every choice of `zones − MaxUnavailableZones` whole
  zones) must share an instance. Plain enumeration, no arithmetic shortcut.
-/
namespace OracleC02
open Common Ring C01 C02

def subsetsOfSize : Nat → List α → List (List α)
  | 0, _ => [[]]
  | _ + 1, [] => []
  | k + 1, x :: xs => (subsetsOfSize k xs).map (x :: ·) ++ subsetsOfSize (k + 1) xs

def idsOf (s : String) : List String := if s == "-" then [] else s.splitOn ","

def dedupS : List String → List String
  | [] => []
  | x :: xs => x :: (dedupS xs).filter (· != x)

def judgeRW (d : Desc) (wIds : List String) (wMe : Nat) (rIds : List String) (rMe rMuz : Nat) (rZa : Bool) : List String :=
  let a := wIds.length - wMe
  let as := subsetsOfSize a wIds
  let bs : List (List String) :=
    if rZa then
      let zoneOf (id : String) : String := match d.get? id with | some i => i.zone | none => "?"
      let zs := dedupS (rIds.map zoneOf)
      (subsetsOfSize (zs.length - rMuz) zs).map fun Zs => rIds.filter fun id => Zs.contains (zoneOf id)
    else subsetsOfSize (rIds.length - rMe) rIds
  let unknown := (wIds ++ rIds).any fun id => (d.get? id).isNone
  (if unknown then ["replication-set-member-not-registered"] else []) ++
  (if as.all fun A => bs.all fun B => A.any fun x => B.contains x then [] else ["write-and-read-quorums-disjoint"])

def handleRW (f : List String) : String × String × String :=
  match f with
  | [cfgS, nowS, descS, keyS, toksS, wIdsS, wMeS, wErrS, rIdsS, rMeS, rMuzS, rZaS, rErrS] =>
    match OracleC01.parseCfg cfgS, nowS.toInt?, parseDesc descS, keyS.toNat?, natList? toksS, wMeS.toNat?, rMeS.toNat?, rMuzS.toNat? with
    | some cfg, some now, some d, some key, some toks, some wMe, some rMe, some rMuz =>
      let tokOk := OracleC01.tokensAccepted d toks
      let (mW, mWme, mWerr) := match get cfg d toks key opWrite now with
        | .ok r => (OracleC01.showIds r.instances, r.maxErrors, "ok")
        | .error e => ("-", 0, e.name)
      let (mR, mRme, mRmuz, mRza, mRerr) := match getAll cfg d toks opRead now with
        | .ok r => (let ids := OracleC01.sortS (r.instances.map (showStr ·.id)); (if ids.isEmpty then "-" else ",".intercalate ids),
                    r.maxErrors, r.maxUnavailableZones, (if r.zoneAware then "1" else "0"), "ok")
        | .error e => ("-", 0, 0, "0", e.name)
      let diffs :=
        (if tokOk then [] else ["ringTokens-not-a-GetTokens-result"]) ++
        (if mW == wIdsS && mWme == wMe && mWerr == wErrS then [] else [s!"modelW={mW}|{mWme}|{mWerr}"]) ++
        (if mR == rIdsS && mRme == rMe && mRmuz == rMuz && mRza == rZaS && mRerr == rErrS then []
         else [s!"modelR={mR}|{mRme}|{mRmuz}|{mRza}|{mRerr}"])
      let diff := if diffs.isEmpty then "-" else " ".intercalate diffs
      let both := wErrS == "ok" && rErrS == "ok"
      let wIds := idsOf wIdsS
      let rIds := idsOf rIdsS
      let j := if both then judgeRW d wIds wMe rIds rMe rMuz (rZaS == "1") else []
      let judge := if j.isEmpty then "-" else ",".intercalate j
      let nz := (ringZones d).length
      let tags := s!"rw za={cfg.zoneAware} rf={cfg.rf} zones={nz} n={OracleC01.bucket d.length} both={both} " ++
        s!"W={min wIds.length 6} slackW={min wMe 3} R={min rIds.length 6} slackR={min (if rZaS == "1" then rMuz else rMe) 3} " ++
        s!"zcmp={if nz < cfg.rf then "lt" else if nz == cfg.rf then "eq" else "gt"}"
      (diff, judge, tags)
    | _, _, _, _, _, _, _, _ => ("bad-input", "-", "-")
  | _ => ("bad-fields", "-", "-")

def handle (cmd : String) (f : List String) : String × String × String :=
  if cmd == "C02.rw" then handleRW f
  else ("unknown-cmd", "-", "-")

end OracleC02
