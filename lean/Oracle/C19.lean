import Model.C19
/-! Oracle handlers for C19: model output (correspondence) and judge (property on impl output). -/
namespace OracleC19
open Common C19

/-! ### parsing helpers -/

def splitNE (sep : String) (s : String) : List String := if s == "" then [] else s.splitOn sep

def hexList? (s : String) : Option (List Bytes) :=
  if s == "~" ∨ s == "" then some [] else (s.splitOn ",").mapM hexDecode

def int? (s : String) : Option Int := s.toInt?

/-- compact value names (see `c19Namer` in the harness). -/
structure Names where
  vals : List Bytes
  encs : List (Bytes × Bytes)   -- (plain, encoded) pairs of the encoder table

def Names.render (n : Names) (b : Bytes) : String :=
  match n.vals.idxOf? b with
  | some i => "#" ++ toString i
  | none =>
    match (n.encs.map (·.2)).idxOf? b with
    | some j => "e" ++ toString j
    | none => hexEncode b

def Names.parse (n : Names) (s : String) : Option Bytes :=
  if s.startsWith "#" then (s.drop 1).toString.toNat? >>= fun i => n.vals[i]?
  else if s.startsWith "e" then (s.drop 1).toString.toNat? >>= fun j => (n.encs[j]?).map (·.2)
  else hexDecode s

def parseEncs (s : String) : Option (List (Bytes × Bytes)) :=
  if s == "-" then some [] else
  (s.splitOn ",").mapM fun p =>
    match p.splitOn "=" with
    | [a, b] => do let x ← hexDecode a; let y ← hexDecode b; pure (x, y)
    | _ => none

/-- the oracle's codec: snappy.Encode's answers as observed (table), the real block decoder. -/
def codecOf (n : Names) : Codec :=
  { enc := fun b => match n.encs.find? (fun p => p.1 == b) with
                    | some p => p.2
                    | none => b
    dec := snappyDecode }

inductive Tok
  | lru (size : Nat) (d : Int)
  | ver (a : Nat) (b : Option Nat)
  | snap

def parseTok (s : String) : Option Tok :=
  if s == "S" then some .snap
  else if s.startsWith "L" then
    match (s.drop 1).toString.splitOn ":" with
    | [a, b] => do let x ← a.toNat?; let y ← int? b; pure (.lru x y)
    | _ => none
  else if s.startsWith "V" then
    match (s.drop 1).toString.splitOn ":" with
    | [a] => do let x ← a.toNat?; pure (.ver x none)
    | [a, b] => do let x ← a.toNat?; let y ← b.toNat?; pure (.ver x (some y))
    | _ => none
  else none

def Tok.layer (c : Nat) : Tok → Layer
  | .lru s d => .lru s d []
  | .ver a none => .ver a
  | .ver a (some b) => .ver (if c = 0 then a else b)
  | .snap => .snap

def Tok.isSplit : Tok → Bool
  | .ver _ (some _) => true
  | _ => false

def mkSys (toks : List Tok) : Sys :=
  match toks.findIdx? Tok.isSplit with
  | some i =>
    let up := toks.take (i + 1)
    { ups := [up.map (Tok.layer 0), up.map (Tok.layer 1)], low := (toks.drop (i + 1)).map (Tok.layer 0), be := ⟨[], 0⟩, wall := 0 }
  | none => { ups := [toks.map (Tok.layer 0)], low := [], be := ⟨[], 0⟩, wall := 0 }

def isSnap : Layer → Bool
  | .snap => true
  | _ => false

/-! ### operations -/

def parseKV (n : Names) (s : String) : Option Res :=
  if s == "" then some [] else
  (s.splitOn ",").mapM fun p =>
    match p.splitOn "=" with
    | [a, b] => do let k ← hexDecode a; let v ← n.parse b; pure (k, v)
    | _ => none

/-- `(client, op, kindLetter)` -/
def parseOp (n : Names) (s : String) : Option (Nat × Op × String) :=
  match s.splitOn ":" with
  | [h, a] =>
    if h == "tv" then (int? a).map fun d => (0, .advV d, "tv")
    else if h == "tw" then (int? a).map fun d => (0, .advW d, "tw")
    else if h == "tb" then (int? a).map fun d => (0, .advBoth d, "tb")
    else
      let kind := (h.take 1).toString
      match (h.drop 1).toString.toNat? with
      | none => none
      | some c =>
        if kind == "g" ∨ kind == "G" then (hexList? a).map fun ks => (c, .get ks, kind)
        else if kind == "x" then (hexDecode a).map fun k => (c, .del k, kind)
        else none
  | [h, a, b] =>
    if h.startsWith "m" then do
      let c ← (h.drop 1).toString.toNat?
      let d ← parseKV n a
      let t ← int? b
      pure (c, .setMulti d t, "m")
    else none
  | [h, a, b, t] => do
    let kind := (h.take 1).toString
    let c ← (h.drop 1).toString.toNat?
    let k ← hexDecode a
    let v ← n.parse b
    let ttl ← int? t
    if kind == "s" then pure (c, .set k v ttl, kind)
    else if kind == "a" then pure (c, .setAsync k v ttl, kind)
    else if kind == "d" then pure (c, .add k v ttl, kind)
    else none
  | [h, a, p, b, t] => do
    let c ← (h.drop 1).toString.toNat?
    let k ← hexDecode a
    let ph ← hexDecode p
    let v ← hexDecode b
    let ttl ← int? t
    if h.startsWith "r" then pure (c, .raw k ph v ttl, "r") else none
  | _ => none

/-! ### rendering the model's observation -/

def sortRes (r : Res) : Res := r.mergeSort fun a b => bytesLe a.1 b.1

def renderRes (n : Names) (r : Res) : String :=
  if r.isEmpty then "-" else ",".intercalate ((sortRes r).map fun kv => hexEncode kv.1 ++ "=" ++ n.render kv.2)

def renderKeys (ks : List Key) : String :=
  if ks.isEmpty then "~" else ",".intercalate (ks.map hexEncode)

def lruOrders (p : List Layer) : List String :=
  p.filterMap fun l => match l with
    | .lru _ _ e => some (renderKeys (e.map (·.1)).reverse)
    | _ => none

def renderHints (p : List Layer) : String :=
  let o := lruOrders p
  if o.isEmpty then "-" else "/".intercalate o

def renderObs (n : Names) (kind : String) (o : Obs) (p : List Layer) : String :=
  let res := match o with
    | .none => "-"
    | .added ok => if ok then "ok" else "ns"
    | .got r e => renderRes n r ++ "!" ++ (if kind == "G" then "?" else if e then "1" else "0")
  res ++ "^" ++ renderHints p

def renderItems (n : Names) (e : KV) : String :=
  ",".intercalate (e.map fun kv => hexEncode kv.1 ++ "=" ++ n.render kv.2.data ++ "@" ++ toString kv.2.exp)

def renderDump (n : Names) (s : Sys) : String :=
  let be := "be:" ++ renderItems n (s.be.items.mergeSort fun a b => bytesLe a.1 b.1)
  let nUp := (s.ups.getD 0 []).length
  let lowParts := ((s.low.zipIdx).reverse).filterMap fun (l, i) => match l with
    | .lru _ _ e => some (s!"low{i + nUp}:" ++ renderItems n e.reverse)
    | _ => none
  let upParts := (s.ups.zipIdx).flatMap fun (up, c) =>
    ((up.zipIdx).reverse).filterMap fun (l, i) => match l with
      | .lru _ _ e => some (s!"c{c}l{i}:" ++ renderItems n e.reverse)
      | _ => none
  "|".intercalate (be :: lowParts ++ upParts)

/-! ### judge state for several clients (shared clocks), plus corrupt foreign writes -/

structure MJ where
  specs : List Spec
  V : Int
  W : Int
  taint : List ((Nat × Key) × Int)   -- latest physical write under (client, key) is an undecodable foreign blob; its V-deadline

def MJ.untaint (m : MJ) (c : Nat) (k : Key) : MJ := { m with taint := m.taint.filter fun t => !(t.1.1 == c && t.1.2 == k) }

def parseGot (n : Names) (s : String) : Option (Res × String) :=
  match s.splitOn "!" with
  | [r, e] => (if r == "-" then some [] else parseKV n r).map fun x => (x, e)
  | _ => none

/-- one step of the judge on the implementation's own observation; `held` = the keys the client's
in-memory layer held just before the operation (the layer's key list as last observed). -/
def judgeStep (cfgs : List JCfg) (snaps : List Bool) (multi : List (Option (Int × Bool))) (m : MJ) (c : Nat) (held : List Key) (op : Op) (obsRes : String) (n : Names) : MJ × List String :=
  let cfg := cfgs.getD c ⟨false, 0, []⟩
  -- a path with several in-memory layers is judged by `jstepM` (value, deletion, Add outcome, hard deadline)
  let jstep := fun (cfg : JCfg) (held : List Key) (j : JSt) (op : Op) (obs : Obs) =>
    match multi.getD c none with
    | some (sl, coupled) => jstepM sl coupled j op obs
    | none => jstep cfg held j op obs
  let j : JSt := ⟨m.specs.getD c [], m.V, m.W⟩
  let fin (q : JSt × List String) (m : MJ) : MJ × List String :=
    ({ m with specs := m.specs.set c q.1.spec, V := q.1.V, W := q.1.W }, q.2)
  match op with
  | .get keys =>
    match parseGot n obsRes with
    | none => (m, ["unparsable-get-result"])
    | some (res, e) =>
      let q := jstep cfg held j op (.got res (e == "1"))
      -- corrupt entries: dropped and reported. A read reaches the corrupt backend entry when the
      -- in-memory layer (if any) does not answer it from a copy the client stored.
      let isLocal (k : Key) : Bool := match j.spec.get k with
        | .present _ _ dW _ => servedLocally cfg held j.W dW k
        | _ => false
      let tainted := keys.filter fun k => m.taint.any fun t => t.1.1 == c && t.1.2 == k
      let reached := keys.filter fun k => !isLocal k && m.taint.any fun t => t.1.1 == c && t.1.2 == k && m.V < t.2
      let r1 := if snaps.getD c false ∧ reached.any (fun k => (aGet k res).isSome) then ["corrupt-entry-returned"] else []
      let r2 := if snaps.getD c false ∧ !reached.isEmpty ∧ e == "0" then ["corrupt-entry-not-reported"] else []
      let r3 := if e == "1" ∧ tainted.isEmpty then ["error-without-corrupt-entry"] else []
      fin (q.1, q.2 ++ r1 ++ r2 ++ r3) m
  | .add k _ _ =>
    -- a foreign blob written over the key decides whether the backend holds a live entry
    let live := match m.taint.find? (fun t => t.1.1 == c && t.1.2 == k) with
      | some t => decide (m.V < t.2)
      | none => liveV j k
    if obsRes == "ok" then
      fin ((jstep cfg held j op (.added true)).1, if live then ["add-accepted-over-live-entry"] else []) (m.untaint c k)
    else if obsRes == "ns" then (m, if live then [] else ["add-refused-without-live-entry"])
    else (m, ["add-unexpected-error"])
  | .set k _ _ | .setAsync k _ _ | .del k =>
    let r := if obsRes == "-" then [] else ["unexpected-error"]
    let q := jstep cfg held j op .none
    fin (q.1, q.2 ++ r) (m.untaint c k)
  | .setMulti data _ =>
    fin (jstep cfg held j op .none) (data.foldl (fun m kv => m.untaint c kv.1) m)
  | .raw k _ bytes ttl =>
    let m' := m.untaint c k
    if (snappyDecode bytes).isNone then ({ m' with taint := ((c, k), m.V + ttl) :: m'.taint }, [])
    else (m', ["raw-write-decodable(harness)"])
  | _ => fin (jstep cfg held j op .none) m

/-! ### C19.ops -/

structure Acc where
  sys : Sys
  mj : MJ
  held : List (List Key)   -- per client: keys of its in-memory layer as last observed on the implementation
  diff : Option String
  judge : List String
  hits : Nat
  gets : Nat
  idx : Nat

def handleOps (f : List String) : String × String × String :=
  match f with
  | [f1, opsS, encS, obsS, dumpS] =>
    match f1.splitOn "|" with
    | [stackS, valsS] =>
      let toks? := if stackS == "-" then some [] else (stackS.splitOn ",").mapM parseTok
      match toks?, hexList? valsS, parseEncs encS with
      | some toks, some vals, some encs =>
        let n : Names := ⟨vals, encs⟩
        let cd := codecOf n
        let sys0 := mkSys toks
        let nCl := sys0.ups.length
        let cfgs := (List.range nCl).map fun c => cfgOf (sys0.path c)
        let snaps := (List.range nCl).map fun c => (sys0.path c).any isSnap
        let ops := opsS.splitOn ";"
        let obs := obsS.splitOn ";"
        let oneClock := !((ops.any (·.startsWith "tv")) || (ops.any (·.startsWith "tw")))
        let multi : List (Option (Int × Bool)) := (List.range nCl).map fun c =>
          if lruCount (sys0.path c) ≥ 2 then some (slack (sys0.path c), oneClock) else none
        let nLru := lruCount (sys0.path 0)
        if ops.length != obs.length then ("bad-obs-count", "-", "-") else
        let lruShared := sys0.low.any isLru
        -- two "different" versions that are equal: the clients share their keys by construction and
        -- the single-client clauses do not apply (never generated; judged as not applicable)
        let sameVer := toks.any fun t => match t with | .ver a (some b) => a == b | _ => false
        let acc0 : Acc := ⟨sys0, ⟨List.replicate nCl [], 0, 0, []⟩, List.replicate nCl [], none, [], 0, 0, 0⟩
        let acc := (ops.zip obs).foldl (fun (a : Acc) (oo : String × String) =>
          match parseOp n oo.1 with
          | none => { a with diff := a.diff <|> some s!"op{a.idx}:unparsable", idx := a.idx + 1 }
          | some (c, op, kind) =>
            let (resS, hintS) := match oo.2.splitOn "^" with
              | [r, h] => (r, h)
              | _ => (oo.2, "-")
            let hs : List (List Key) := if hintS == "-" ∧ !((a.sys.path c).any isLru) then [] else
              (hintS.splitOn "/").map fun h => (hexList? h).getD []
            let r := a.sys.apply cd c op hs
            let isClock := kind == "tv" ∨ kind == "tw" ∨ kind == "tb"
            let mObs := if isClock then "-" else renderObs n kind r.2 (r.1.path c)
            let d := if mObs == oo.2 then a.diff else a.diff <|> some s!"op{a.idx}:model={mObs}"
            let jq := judgeStep cfgs snaps multi a.mj c (a.held.getD c []) op resS n
            let held' := if isClock then a.held
              else if lruShared then a.held.map fun _ => hs.headD []
              else a.held.set c (hs.headD [])
            let isHit := match r.2 with | .got res _ => !res.isEmpty | _ => false
            let isGet := match r.2 with | .got _ _ => true | _ => false
            { sys := r.1, mj := jq.1, held := held', diff := d, judge := a.judge ++ jq.2.map (fun x => s!"op{a.idx}:{x}"),
              hits := a.hits + (if isHit then 1 else 0), gets := a.gets + (if isGet then 1 else 0), idx := a.idx + 1 }) acc0
        let mDump := renderDump n acc.sys
        let diff := acc.diff <|> (if mDump == dumpS then none else some ("dump:model=" ++ mDump))
        -- codec contract on the observed encoder table
        let diff := diff <|> (if encs.all (fun p => snappyDecode p.2 == some p.1) then none else some "codec:dec(enc v)≠v")
        let kinds := String.ofList (toks.map fun t => match t with | .lru .. => 'L' | .ver .. => 'V' | .snap => 'S')
        let clk := if (ops.any (·.startsWith "tv")) ∨ (ops.any (·.startsWith "tw")) then "split" else if ops.any (·.startsWith "tb") then "one" else "none"
        let tags := s!"ops stack={if kinds == "" then "none" else kinds} cl={nCl} n={if ops.length < 10 then "<10" else if ops.length < 40 then "<40" else "40+"} hits={min acc.hits 3} clk={clk} lru={nLru}"
        (diff.getD "-", if acc.judge.isEmpty ∨ sameVer then "-" else ",".intercalate acc.judge, tags)
      | _, _, _ => ("bad-input", "-", "-")
    | _ => ("bad-field1", "-", "-")
  | _ => ("bad-fields", "-", "-")

/-! ### C19.pick -/

inductive Chunk
  | num (n : Nat)
  | str (s : Bytes)
  deriving DecidableEq

/-- judge-side natural order, written independently of `natLess`: compare digit runs by value and
everything else bytewise, chunk by chunk; a proper prefix sorts first. -/
def specChunks (s : Bytes) : List Bytes :=
  let rec go : Bytes → Bytes → Bool → List Bytes
    | [], cur, _ => if cur.isEmpty then [] else [cur.reverse]
    | c :: cs, cur, d =>
      let dc := (48 ≤ c && c ≤ 57)
      if cur.isEmpty then go cs [c] dc
      else if dc == d then go cs (c :: cur) d
      else cur.reverse :: go cs [c] dc
  go s [] false

def numVal (s : Bytes) : Option Nat :=
  if !s.isEmpty ∧ s.all (fun c => 48 ≤ c && c ≤ 57) then some (s.foldl (fun a c => a * 10 + (c.toNat - 48)) 0) else none

def specLeChunks : List Bytes → List Bytes → Bool
  | [], _ => true
  | _ :: _, [] => false
  | a :: as, b :: bs =>
    match numVal a, numVal b with
    | some x, some y => if x < y then true else if y < x then false else specLeChunks as bs
    | _, _ => if bytesLt a b then true else if bytesLt b a then false else specLeChunks as bs

def specNatLe (a b : Bytes) : Bool := specLeChunks (specChunks a) (specChunks b)

def sortedBy (le : Bytes → Bytes → Bool) : List Bytes → Bool
  | [] => true
  | [_] => true
  | a :: b :: r => le a b && sortedBy le (b :: r)

def isPerm (a b : List Bytes) : Bool :=
  a.length == b.length && a.all (fun x => a.count x == b.count x)

/-- `natOrdered` of the model with the n² comparisons computed once (the model's definition is the
specification used in the theorems; it recomputes `natLess` in its triple loop). The handler
cross-checks the two on every list of at most 6 names. -/
def natOrderedFast (l : List Bytes) : Bool :=
  let cs := (l.map chunkify).toArray
  let n := cs.size
  let t : Array (Array Bool) := cs.map fun a => cs.map fun b => natLessChunks a b
  let names := l.toArray
  (List.range n).all fun i => (List.range n).all fun j =>
    let lij := t[i]![j]!
    (names[i]! == names[j]! || (lij != t[j]![i]!)) &&
    (!lij || (List.range n).all fun k => !t[j]![k]! || names[i]! == names[k]! || t[i]![k]!)

set_option linter.unusedVariables false in
def handlePick (f : List String) : String × String × String :=
  match f with
  | [srv, keysS, hashS, s1S, s2S, s3S, p1S, p3S] =>
    match srv.splitOn "|" with
    | [aS, bS, xS] =>
      match hexList? aS, hexList? bS, hexDecode xS, hexList? keysS, (hashS.splitOn ",").mapM String.toNat?,
            hexList? s1S, hexList? s2S, hexList? s3S with
      | some a, some b, some x, some keys, some hashes, some s1, some s2, some s3 =>
        -- model: natural sort + jump hash. When natsort's comparison does not order the names
        -- (`natOrdered` false: names equal up to leading zeros) the order among such names is sort.Sort's
        -- business, not the model's: then the sorted lists are compared as multisets and the picks are
        -- recomputed on the order the implementation produced.
        let ord1 := natOrderedFast a
        let ord3 := natOrderedFast (b ++ [x])
        let fastOk := a.length > 6 ∨ (ord1 == natOrdered a ∧ ord3 == natOrdered (b ++ [x]))
        let mSorted := if ord1 then natSort a else s1
        let mSorted2 := if ord1 then natSort b else s2
        let mSorted3 := if ord3 then natSort (b ++ [x]) else s3
        let pk (l : List Bytes) (h : Nat) : String := match pick nextFloat l (UInt64.ofNat h) with | some s => hexEncode s | none => "err"
        let mp1 := hashes.map fun h => let u := pk mSorted h; let v := pk mSorted2 h; if u == v then u else u ++ "/" ++ v
        let mp3 := hashes.map fun h => pk mSorted3 h
        let rk (l : List Bytes) : String := (renderKeys l).replace "~" "-"
        let model := [rk mSorted, rk mSorted2, rk mSorted3, ",".intercalate mp1, ",".intercalate mp3]
        let permOk := isPerm s1 a ∧ isPerm s2 b ∧ isPerm s3 (b ++ [x])
        let diff := if !fastOk then "oracle:natOrderedFast≠natOrdered"
          else if model == [s1S, s2S, s3S, p1S, p3S] ∧ permOk then "-" else "model=" ++ " ".intercalate model
        -- judge
        let p1 := p1S.splitOn ","
        let p3 := p3S.splitOn ","
        let appended := s3 == s1 ++ [x]
        -- "the naturally sorted server list" is well defined when no two distinct names are equal in
        -- natural order (same text up to the value of digit runs); only then is the order, and hence the
        -- choice, required to be independent of the input order
        let tie := a.any fun u => a.any fun v => u != v && specNatLe u v && specNatLe v u
        let bad : List String :=
          (if isPerm s1 a then [] else ["sorted-not-a-permutation-of-input"]) ++
          (if isPerm s3 (b ++ [x]) then [] else ["sorted-ext-not-a-permutation-of-input"]) ++
          (if sortedBy specNatLe s1 ∧ sortedBy specNatLe s3 then [] else ["not-in-natural-order"]) ++
          (if s1 == s2 ∨ tie then [] else ["order-depends-on-input-order"]) ++
          (if p1.any (fun p => p.contains '/') ∧ !tie then ["choice-depends-on-input-order"] else []) ++
          (if p1.all (fun p => (p.splitOn "/").all fun q => (s1.map hexEncode).contains q) then [] else ["pick-not-a-configured-server"]) ++
          (if p3.all (fun p => (s3.map hexEncode).contains p) then [] else ["pick-ext-not-a-configured-server"]) ++
          (if appended ∧ !tie ∧ !((p1.zip p3).all fun (p, q) => q == p ∨ q == hexEncode x) then ["append-moved-key-to-old-server"] else [])
        let moved := (p1.zip p3).countP fun (p, q) => p != q
        let tags := s!"pick n={if a.length ≤ 1 then "1" else if a.length ≤ 8 then "2-8" else if a.length ≤ 32 then "9-32" else "33-64"} append={if appended then "last" else "mid"} moved={min moved 2} unix={a.any (·.head? == some 47)} tie={tie}"
        (diff, if bad.isEmpty then "-" else ",".intercalate bad, tags)
      | _, _, _, _, _, _, _, _ => ("bad-input", "-", "-")
    | _ => ("bad-field1", "-", "-")
  | _ => ("bad-fields", "-", "-")

/-! ### C19.jump -/

def handleJump (f : List String) : String × String × String :=
  match f with
  | [keyS, rangeS, resS] =>
    match keyS.toNat?, (rangeS.splitOn ":").mapM String.toNat?, (resS.splitOn ",").mapM String.toInt? with
    | some key, some [n0, cnt], some res =>
      let k := UInt64.ofNat key
      let model := (List.range cnt).map fun i => jump nextFloat k (n0 + i)
      let diff := if model == res then "-" else "model=" ++ ",".intercalate (model.map toString)
      -- judge: 0 ≤ r(n) < n and r(n+1) ∈ {r(n), n}
      let inRange := (res.zipIdx).all fun (r, i) => 0 ≤ r ∧ r < (n0 + i : Nat)
      let rec cons : List Int → Nat → Bool
        | a :: b :: rest, n => (b == a || b == (n : Int)) && cons (b :: rest) (n + 1)
        | _, _ => true
      let bad := (if inRange then [] else ["bucket-out-of-range"]) ++ (if cons res n0 then [] else ["not-consistent"])
      let moves := (res.zip res.tail).countP fun (a, b) => a != b
      (diff, if bad.isEmpty then "-" else ",".intercalate bad, s!"jump n0={if n0 ≤ 8 then "1-8" else if n0 ≤ 70 then "9-70" else "big"} moves={min moves 2}")
    | _, _, _ => ("bad-input", "-", "-")
  | _ => ("bad-fields", "-", "-")

/-! ### snappy codec tie -/

def handleSnapDec (f : List String) : String × String × String :=
  match f with
  | [bS, origin, resS] =>
    match hexDecode bS with
    | some b =>
      let m := match snappyDecode b with | some o => "ok:" ++ hexEncode o | none => "err"
      (if m == resS then "-" else "model=" ++ (m.take 80).toString, "-", s!"snapdec origin={origin} res={(resS.take 2).toString}")
    | none => ("bad-input", "-", "-")
  | _ => ("bad-fields", "-", "-")

def handleSnapEnc (f : List String) : String × String × String :=
  match f with
  | [pS, _, eS] =>
    match hexDecode pS, hexDecode eS with
    | some p, some e =>
      -- "returns a stored value byte for byte" needs dec (enc v) = v
      let ok := snappyDecode e == some p
      (if ok then "-" else "model=dec(enc v)≠v", "-", s!"snapenc len={if p.length < 100 then "<100" else if p.length < 5000 then "<5000" else "big"} ratio={if e.length < p.length then "compressed" else "stored"}")
    | _, _ => ("bad-input", "-", "-")
  | _ => ("bad-fields", "-", "-")

def handle (cmd : String) (f : List String) : String × String × String :=
  if cmd == "C19.ops" then handleOps f
  else if cmd == "C19.pick" then handlePick f
  else if cmd == "C19.jump" then handleJump f
  else if cmd == "C19.snapdec" then handleSnapDec f
  else if cmd == "C19.snapenc" then handleSnapEnc f
  else ("unknown-cmd", "-", "-")

end OracleC19
