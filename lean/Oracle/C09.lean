import Oracle.C08
import Model.C09
/-!
Oracle handlers for C09. The step replay (model diff) is the one of C08; the judge evaluates the C09
statements on the recorded history: what the ring and the tokens file held when the process died, what
the restarted process remembered and published, what a heartbeat re-inserted after the key was lost.
-/
namespace OracleC09
open Common Ring C08 OracleC08

def localState (loc : String) : String := (loc.splitOn "/").headD "?"
def localTokens (loc : String) : String := ((loc.splitOn "/").drop 1).headD "-"

/-- remembered state / tokens of either kind from the recorded getter string -/
def memOf (c : Cfg) (loc : String) : Option (State × List Nat) :=
  match c.kind with
  | .LC => do
    let st ← State.ofCode (localState loc)
    let t ← natList? (localTokens loc)
    pure (st, t)
  | .BLC => if loc == "-" then some (.PENDING, []) else (parseInst loc).map fun i => (i.state, i.tokens)

def entryOf (store : Option Desc) (id : String) : Option Inst := (store.getD []).get? id

/-- judge one node's history (steps in chronological order) -/
def judgeNode (c : Cfg) (i : Nat) (log : List Rec) (mustBeActive : Bool) : List String := Id.run do
  let mut bad : List String := []
  let arr := log.toArray
  let n := arr.size
  -- (a) every death of the process followed by a restart
  for p in [0:n] do
    let r := arr[p]!
    if r.idx == i && (r.ev == "crash" || r.fault == "cb" || r.fault == "ca") then
      let entry := entryOf r.after c.id
      -- the next init of this node
      let mut q := p + 1
      while q < n && !(arr[q]!.idx == i && arr[q]!.ev == "init") do q := q + 1
      if q < n then
        let ri := arr[q]!
        -- nobody else touched the entry in between (scenarios keep it so); use the entry the restart saw
        let seen := entryOf ri.before c.id
        if seen == entry && ri.fault == "n" then
          match entry with
          | some e =>
            if c.kind == .LC && e.state == .JOINING && localState ri.loc != "P" then bad := "restart-joining-not-pending" :: bad
            if c.kind == .LC && e.state == .LEAVING && localState ri.loc != "A" then bad := "restart-leaving-not-active" :: bad
            -- registration time and tokens are kept in every later version
            -- ... until the entry is lost (wipe, removal): a later re-registration is legitimately fresh
            let mut present := true
            for k in [q:n] do
              if present then
                match entryOf arr[k]!.after c.id with
                | some e' =>
                  if e'.regTs != e.regTs then bad := "restart-registration-changed" :: bad
                | none => present := false
            match entryOf arr[n-1]!.after c.id with
            | some ef =>
              if e.tokens.length ≤ c.numTokens && !(e.tokens.all (ef.tokens.contains ·)) then bad := "restart-tokens-lost" :: bad
            | none => pure ()
          | none => pure ()
  -- (b) the ring (or the own entry) was lost while the lifecycler runs: its FIRST accepted write that finds the entry
  -- missing — whichever handler gets there first: heartbeat, observe timer, join timer, a request — re-inserts the
  -- remembered state and tokens with a fresh registration time. (The property names the heartbeat as the vehicle; if
  -- another handler re-inserts first, the later heartbeat finds the entry and never refreshes anything, so the
  -- outcome the clause promises has to hold for that write.) Keys carry the handler when it is not the heartbeat.
  for q in [0:n] do
    let rq := arr[q]!
    if rq.idx == i && rq.committed && rq.ev != "init" && (entryOf rq.before c.id).isNone then
      -- the last (re)start of this process and whether the ring was lost since
      let mut start := 0
      for k in [0:q] do
        if arr[k]!.idx == i && arr[k]!.ev == "init" then start := k
      let lost := (List.range q).any fun k => k > start && (arr[k]!.ev == "wipe" || arr[k]!.ev == "set") &&
        (entryOf arr[k]!.before c.id).isSome && (entryOf arr[k]!.after c.id).isNone
      -- what the lifecycler remembers when the handler starts = getters after its previous step
      let mut mem : Option (State × List Nat) := none
      for k in [start:q] do
        if arr[k]!.idx == i && arr[k]!.loc != "dead" then mem := memOf c arr[k]!.loc
      if lost then
        let sfx := if rq.ev == "hb" then "" else ":" ++ rq.ev
        match entryOf rq.after c.id, mem with
        | some e, some (st, toks) =>
          -- the join timer and a state change legitimately publish a new state / the first tokens
          if e.state != st && rq.ev != "join" && rq.ev != "cs" && rq.ev != "stopd" then bad := s!"reregister-state{sfx}" :: bad
          if !toks.isEmpty && e.tokens != toks && rq.ev != "claim" then bad := s!"reregister-tokens{sfx}" :: bad
          if e.regTs != rq.now then bad := s!"reregister-not-fresh{sfx}" :: bad
        | none, _ => if rq.ev == "hb" then bad := "reregister-missing" :: bad
        | _, none => pure ()
  -- (b, cont.) ... and a heartbeat the store ACCEPTS never leaves the own entry missing, whatever the state the lifecycler is in
  -- (in particular LEAVING: a wipe during a slow shutdown must be healed, the next incarnation resumes from the entry)
  for q in [0:n] do
    let rq := arr[q]!
    if rq.idx == i && rq.ev == "hb" && rq.fault == "n" && rq.ret == "ok" && rq.loc != "dead" && (entryOf rq.after c.id).isNone then
      let st := (memOf c rq.loc).map (·.1.code)
      bad := s!"reregister-missing:{st.getD "?"}" :: bad
  -- (b') after a window of rejected calls an accepted heartbeat shows the remembered state; nothing was forgotten
  for p in [0:n] do
    let r := arr[p]!
    if r.idx == i && r.ev == "hb" && r.committed && p > 0 then
      -- was the previous step of this node a rejected one?
      let mut k := p
      let mut prev : Option Rec := none
      while k > 0 && prev.isNone do
        k := k - 1
        if arr[k]!.idx == i then prev := some arr[k]!
      match prev with
      | some pr =>
        if pr.fault == "fb" || pr.fault == "fc" then
          match entryOf r.after c.id, memOf c r.loc with
          | some e, some (st, toks) =>
            if e.state != st then bad := "after-faults-state-diverged" :: bad
            if e.tokens != toks then
              -- label only: an earlier ClaimTokensFor of this node was rejected by the store
              let claimFailed := (arr.toList.take p).any fun x => x.idx == i && x.ev == "claim" && (x.fault == "fb" || x.fault == "fc")
              bad := (if claimFailed then "after-faults-tokens-diverged:failed-claim" else "after-faults-tokens-diverged") :: bad
          | _, _ => pure ()
      | none => pure ()
  -- (b'') a state change the store rejected is not forgotten (full Lifecycler: changeState remembers the new state
  -- before writing): the next accepted heartbeat publishes the state the lifecycler was asked to take
  if c.kind == .LC then
    for p in [0:n] do
      let r := arr[p]!
      if r.idx == i && r.ev == "cs" && (r.fault == "fb" || r.fault == "fc") then
        let mut before : Option String := none
        for k in [0:p] do
          if arr[k]!.idx == i && arr[k]!.loc != "dead" then before := some (localState arr[k]!.loc)
        match before.bind State.ofCode, State.ofCode r.arg with
        | some s0, some s1 =>
          if legalEdge s0 s1 then
            let mut q := p + 1
            let mut stop := false
            while q < n && !stop do
              let rq := arr[q]!
              if rq.ev == "wipe" || (rq.idx == i && (rq.ev == "init" || rq.ev == "crash" || rq.ev == "cs" || rq.ev == "unreg" || (rq.ev == "hb" && rq.committed))) then stop := true
              else q := q + 1
            if q < n then
              let rq := arr[q]!
              if rq.idx == i && rq.ev == "hb" && rq.committed then
                match entryOf rq.after c.id with
                | some e => if e.state != s1 then bad := s!"state-lost-after-rejected-write:{r.arg}" :: bad
                | none => pure ()
        | _, _ => pure ()
  -- "reaches the active state with its full token count": whenever this lifecycler's own write makes its entry ACTIVE
  for p in [0:n] do
    let r := arr[p]!
    if r.idx == i && r.committed then
      match entryOf r.after c.id with
      | some e =>
        let was := match entryOf r.before c.id with | some a => a.state == .ACTIVE | none => false
        -- (not after a hand-over: a claim replaces the token list by the claimed one, whatever its length)
        let claimed := (arr.toList.take (p + 1)).any fun x => x.idx == i && x.ev == "claim" && x.committed
        if e.state == .ACTIVE && !was && !claimed && e.tokens.length < c.numTokens then bad := "active-without-full-tokens" :: bad
      | none => pure ()
  -- (c) the tokens file never becomes unparsable
  let mut lastFile := ""
  for p in [0:n] do
    let r := arr[p]!
    if r.idx == i then
      if r.file == "c" && lastFile != "c" && lastFile != "" then bad := "tokens-file-corrupted" :: bad
      lastFile := r.file
  -- recovered: ACTIVE, full token count, no token shared with another instance
  if mustBeActive && n > 0 then
    let fin := arr[n-1]!.after
    match entryOf fin c.id with
    | none => bad := "final-not-registered" :: bad
    | some e =>
      if e.state != .ACTIVE then bad := "final-not-active" :: bad
      if e.tokens.length < c.numTokens then bad := "final-token-count" :: bad
      if !strictSorted e.tokens then bad := "final-tokens-not-distinct-sorted" :: bad
      if (fin.getD []).any (fun o => o.id != c.id && o.tokens.any (e.tokens.contains ·)) then bad := "final-collision" :: bad
  return bad.eraseDups

/-- hand-over: once `to` has claimed the tokens of `frm`, no later ring version lists a token under both -/
def judgeClaims (nodes : Array OracleC08.Node) (log : List Rec) : List String := Id.run do
  let arr := log.toArray
  let n := arr.size
  let mut bad : List String := []
  for p in [0:n] do
    let r := arr[p]!
    if r.ev == "claim" && r.committed then
      match nodes[r.idx]? with
      | some nd =>
        for k in [p:n] do
          match entryOf arr[k]!.after r.arg, entryOf arr[k]!.after nd.cfg.id with
          | some a, some b => if a.tokens.any (b.tokens.contains ·) then bad := "claimed-tokens-owned-twice" :: bad
          | _, _ => pure ()
      | none => pure ()
  return bad.eraseDups

def handleRun (f : List String) : String × String × String :=
  match f with
  | [name, cfgs, files, init, steps, expect] =>
    match runSteps cfgs files init steps with
    | none => ("bad-input", "-", "-")
    | some s =>
      let diff := match s.diff with | some m => m | none => "-"
      let log := s.log.reverse
      let exp : List Nat := if expect == "-" then [] else (expect.splitOn ",").filterMap String.toNat?
      let bad := (List.range s.nodes.size).flatMap fun i =>
        match s.nodes[i]? with
        | some nd => judgeNode nd.cfg i log (exp.contains i)
        | none => []
      let bad := bad ++ judgeClaims s.nodes log
      let judge := if bad.isEmpty then "-" else ",".intercalate bad
      let scen := match name.splitOn "/" with
        | [k, sc, _] => s!"{k} scen={sc}"
        | [k, sc, _, kk] => s!"{k} scen={(sc.splitOn "-").headD sc} cfg={((sc.splitOn "-").drop 1).headD "-"} at={if kk == "k0cb" then "clean" else if kk.endsWith "cb" then "before" else "after"}"
        | k :: _ => k
        | [] => "?"
      let feats := ",".intercalate ((s.feats.filter (fun x => x.startsWith "fault" || x == "wipe" || x == "claim")).toArray.qsort (· < ·)).toList
      let tags := s!"{scen} feat={if feats.isEmpty then "-" else feats}" ++ (if s.nsteps < 3 then " trivial" else "")
      (diff, judge, tags)
  | _ => ("bad-fields", "-", "-")

/-- `C09.file <case> <old> <new> <limit> <child error class> <loads> <old|new|other> <tmp left>`: an existing tokens
file rewritten by a child process under a file-size limit. Judge: whatever happened to the write, the file loads
and holds the complete old or the complete new list. -/
def handleFile (f0 : List String) : String × String × String :=
  -- optional 9th field: length of a stale temporary file left by an earlier interrupted write (the model's `createTmp`
  -- truncates, so it has no influence)
  let stale := (f0.drop 8).headD "0"
  match f0.take 8 with
  | [_name, old, new, limit, cls, loads, which, tmp] =>
    match natList? old, natList? new, limit.toNat? with
    | some o, some nw, some lim =>
      let fails := lim > 0 && C09.jsonLen nw > lim
      let r := C09.storeResult { main := .tokens o } nw fails
      let mWhich := if r.1.main == .tokens nw then "new" else if r.1.main == .tokens o then "old" else "other"
      let model := [if r.2 then "efbig" else "ok", "1", mWhich, if r.1.tmp == .absent then "0" else "1"]
      let diff := if model == [cls, loads, which, tmp] then "-" else "model=" ++ " ".intercalate model
      let judge := if loads == "1" && (which == "old" || which == "new") then "-" else "tokens-file-corrupt"
      (diff, judge, s!"file=1 write={if fails then "fails" else "ok"} limit={lim} staletmp={if stale == "0" then "no" else "yes"}")
    | _, _, _ => ("bad-input", "-", "file=1")
  | _ => ("bad-fields", "-", "file=1")

/-- `C09.startup <scenario> <generator> <failing gets> <gets that failed> <service state> <entry state> <tokens> <NumTokens>`:
the real service started while the store rejects the first reads (judge only). Statement: a transient store failure
during start-up is ridden out — once the store answers again the lifecycler is still running and reaches ACTIVE
with its full token count registered. -/
def handleStartup (f : List String) : String × String × String :=
  match f with
  | [_name, gen, fails, failed, svc, entry, ntok, num] =>
    match fails.toNat?, failed.toNat?, ntok.toNat?, num.toNat? with
    | some k, some hit, some nt, some n =>
      -- the outage was transient by construction (at most k reads rejected, then the store answers)
      let recovered := svc == "Running" && entry == "A" && nt == n
      let judge := if hit ≤ k && !recovered then "startup-not-recovered-after-read-outage" else "-"
      -- model: `waitBeforeJoining` makes k+1 attempts iff the generator has a can-join check, then the join proceeds
      let canJoin := gen != "random"
      let c : Cfg := { id := "i", numTokens := n }
      let r := C09.joinTimerWithReads c { started := true } .absent (some [{ id := "i", state := .PENDING }]) 0
        (fun _ _ => List.range n) canJoin 300 (fun j => if j < k then .fail else .ok)
      let mHit := r.2 - 1
      let mState := match r.1.out with
        | .write d => (match d.get? "i" with | some b => b.state.code | none => "-")
        | _ => "-"
      let mTok := r.1.l.tokens.length
      let model := [toString mHit, "Running", mState, toString mTok]
      let diff := if model == [toString hit, svc, entry, toString nt] then "-" else "model=" ++ " ".intercalate model
      (diff, judge, s!"startup=1 gen={gen} fails={k} hit={if hit == 0 then "0" else "1+"}")
    | _, _, _, _ => ("bad-input", "-", "startup=1")
  | _ => ("bad-fields", "-", "startup=1")

def handle (cmd : String) (f : List String) : String × String × String :=
  if cmd == "C09.run" then handleRun f
  else if cmd == "C09.startup" then handleStartup f
  else if cmd == "C09.file" then handleFile f
  else ("unknown-cmd", "-", "-")

end OracleC09
