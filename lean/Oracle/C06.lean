import Model.C06
/-! Oracle handlers for C06 (and the shared replay used by C04): replay of a cluster history on the
node model (`diff`), and the property statement evaluated on the implementation's observations
(`judge`). Line format: see `harness/cmd/corr/c06.go`. -/
namespace OracleC06
open Common Ring C06

/-! ### canonical encodings -/

def showD (d : Desc) : String := showDesc (C03.sortById d)

def showVal : Val → String
  | .ring d => "r^" ++ showD d
  | .part p => "p^" ++ C03P.showPDesc p

def parseVal (kind body : String) : Option Val :=
  if kind == "r" then (parseDesc body).map .ring
  else if kind == "p" then (C03P.parsePDesc body).map .part
  else none

def insertByKey {α : Type} (x : String × α) : List (String × α) → List (String × α)
  | [] => [x]
  | y :: ys => if x.1 ≤ y.1 then x :: y :: ys else y :: insertByKey x ys
def sortByKey {α : Type} (l : List (String × α)) : List (String × α) := l.foldr insertByKey []

def bit (b : Bool) : String := if b then "1" else "0"

def showStore (st : Store Val) : String :=
  if st.isEmpty then "-" else
  "|".intercalate ((sortByKey st).map fun (k, e) => s!"{k}={e.version}^{bit e.deleted}^{e.updateTime}^{showVal e.val}")

def showView (st : Store Val) : String :=
  if st.isEmpty then "-" else
  "|".intercalate ((sortByKey st).map fun (k, e) => s!"{k}={showVal (MergeVal.gc none e.val)}")

def showSnap (nd : Node Val) : String :=
  s!"{showStore nd.store}@{nd.localQ.length},{nd.gossipQ.length}@{showView nd.store}"

def showMsg (m : Msg Val) : String := s!"{m.key}={bit m.deleted}^{m.updateTime}^{showVal m.val}"

/-- `key=deleted^ut^kind^value` -/
def parseMsg (s : String) : Option (Msg Val) :=
  match s.splitOn "=" with
  | [k, rest] =>
    match rest.splitOn "^" with
    | [del, ut, kind, body] => do
      let v ← parseVal kind body
      pure { key := k, val := v, deleted := del == "1", updateTime := (← ut.toInt?) }
    | _ => none
  | _ => none

structure Snap where
  store : Store Val
  ql : Nat
  qg : Nat
  view : List (String × Val)
  raw : String

def parseStore (s : String) : Option (Store Val) :=
  if s == "-" then some [] else
  (s.splitOn "|").mapM fun e =>
    match e.splitOn "=" with
    | [k, rest] =>
      match rest.splitOn "^" with
      | [ver, del, ut, kind, body] => do
        let v ← parseVal kind body
        pure (k, { val := v, version := (← ver.toNat?), deleted := del == "1", updateTime := (← ut.toInt?) })
      | _ => none
    | _ => none

def parseView (s : String) : Option (List (String × Val)) :=
  if s == "-" then some [] else
  (s.splitOn "|").mapM fun e =>
    match e.splitOn "=" with
    | [k, rest] =>
      match rest.splitOn "^" with
      | [kind, body] => do pure (k, (← parseVal kind body))
      | _ => none
    | _ => none

def parseSnap (s : String) : Option Snap :=
  match s.splitOn "@" with
  | [st, q, vw] =>
    match q.splitOn "," with
    | [a, b] => do
      pure { store := (← parseStore st), ql := (← a.toNat?), qg := (← b.toNat?), view := (← parseView vw), raw := s }
    | _ => none
  | _ => none

/-! ### events -/

def parseOp (s : String) : Option Op :=
  match s.splitOn ":" with
  | ["nil"] => some .retNil
  | ["same"] => some .same
  | ["hb", id, d, st, mask] => do pure (.hb id (← d.toInt?) (← State.ofCode st) (← mask.toNat?))
  | ["rm", id] => some (.rm id)
  | ["pa", pid, d, st] => do pure (.pa (← pid.toInt?) (← d.toInt?) (← st.toNat?))
  | ["pl", pid, d, l] => do pure (.pl (← pid.toInt?) (← d.toInt?) (l == "1"))
  | ["pr", pid] => do pure (.pr (← pid.toInt?))
  | ["oa", oid, d, pid, st] => do pure (.oa oid (← d.toInt?) (← pid.toInt?) (← st.toNat?))
  | ["or", oid] => some (.orm oid)
  | _ => none

structure Conf where
  n : Nat := 2
  mult : Nat := 1
  lit : Int := 0
  ni : Bool := false
  clash : Bool := false
  gc : Bool := false
  skew : Bool := false
  del : Bool := false
  obs : Int := 3600000

def parseConf (s : String) : Conf :=
  (s.splitOn ",").foldl (fun c kv =>
    match kv.splitOn "=" with
    | ["n", v] => { c with n := v.toNat?.getD 2 }
    | ["mult", v] => { c with mult := v.toNat?.getD 1 }
    | ["lit", v] => { c with lit := v.toInt?.getD 0 }
    | ["ni", v] => { c with ni := v == "1" }
    | ["clash", v] => { c with clash := v == "1" }
    | ["gc", v] => { c with gc := v == "1" }
    | ["skew", v] => { c with skew := v == "1" }
    | ["del", v] => { c with del := v == "1" }
    | ["obs", v] => { c with obs := v.toInt?.getD 3600000 }
    | _ => c) {}

def Conf.cfg (c : Conf) : Cfg := { lit := c.lit, ni := c.ni, lim := transmitLimit c.mult c.n, obs := c.obs }

/-! ### replay on the model -/

structure Sim where
  conf : Conf
  nodes : List (Node Val)
  pool : List (Msg Val) := []
  nextW : Nat := 0
  changes : Nat := 0      -- number of store changes (for the tags)
  forgedDiff : Bool := false   -- the replay stopped at a disagreement that follows a corrupted-but-decodable message
  silent : Nat := 0       -- visible value changed without a version bump (tombstone collection in a no-change merge)

def Sim.node (s : Sim) (i : Nat) : Node Val := s.nodes.getD i {}
def verSum (nd : Node Val) : Nat := (nd.store.map (·.2.version)).foldl (· + ·) 0

/-- the schedule of the implementation's watcher goroutines: they run as soon as they are notified -/
def drainW (nd : Node Val) : Node Val :=
  { nd with watchers := nd.watchers.map fun w => w.runAll nd.store w.pending.length }

def Sim.setNode (s : Sim) (i : Nat) (nd : Node Val) : Sim :=
  let nd := drainW nd
  let old := s.nodes.getD i {}
  { s with nodes := s.nodes.set i nd,
           silent := s.silent + (if verSum old == verSum nd ∧ showView old.store != showView nd.store then 1 else 0) }

def insertStr (x : String) : List String → List String
  | [] => [x]
  | y :: ys => if x ≤ y then x :: y :: ys else y :: insertStr x ys
def sortStr (l : List String) : List String := l.foldr insertStr []

/-- cumulative last callback value per watcher id and key, as strings -/
abbrev WLast := List (Nat × String × String)

def wlastSet (l : WLast) (w : Nat) (k v : String) : WLast :=
  match l with
  | [] => [(w, k, v)]
  | (w', k', v') :: r => if w' = w ∧ k' = k then (w, k, v) :: r else (w', k', v') :: wlastSet r w k v

/-- watcher section: `-` or logs joined by `%`; log := id*live*calls; calls := `-` | call (`&` call)*; call := key$val -/
def parseWLogs (s : String) : List (Nat × Bool × List (String × String)) :=
  if s == "-" then [] else
  (s.splitOn "%").filterMap fun lg =>
    match lg.splitOn "*" with
    | [id, live, calls] =>
      let cs := if calls == "-" then [] else (calls.splitOn "&").filterMap fun c =>
        match c.splitOn "$" with
        -- a callback that runs after cleanupObsoleteEntries removed the key reads no value; whether the callback
        -- of Delete's notification runs before or after the cleanup is scheduling, not history: not compared
        | [k, v] => if v == "nil" then none else some (k, v)
        | _ => none
      id.toNat?.map fun i => (i, live == "1", cs)
    | _ => none

def foldWLogs (acc : WLast) (logs : List (Nat × Bool × List (String × String))) : WLast :=
  logs.foldl (fun a (id, _, cs) => cs.foldl (fun a (k, v) => wlastSet a id k v) a) acc

def modelWLast (s : Sim) : List String :=
  sortStr (s.nodes.flatMap fun nd => nd.watchers.flatMap fun w => w.last.map fun (k, v) => s!"{w.id}:{k}:{showVal v}")

def implWLast (l : WLast) (liveIds : List Nat) : List String :=
  sortStr ((l.filter fun (w, _, _) => liveIds.contains w).map fun (w, k, v) => s!"{w}:{k}:{v}")

/-- one step: returns the new simulation state and a mismatch description (model's view) if the
implementation's observation differs from the model's. -/
def step (s : Sim) (wl : WLast) (ev ob : String) : Sim × WLast × Option String :=
  let cfg := s.conf.cfg
  let e := ev.splitOn "!"
  let o := ob.splitOn "!"
  if ob.startsWith "PANIC" then (s, wl, some "model-does-not-panic") else
  match e, o with
  | ["cas", n, key, ops], [t0, tn, res, snap] =>
    match n.toNat?, t0.toInt?, tn.toInt?, (ops.splitOn "+").mapM parseOp with
    | some n, some t0, some tn, some ops =>
      let nd := s.node n
      let v0 := verSum nd
      let (nd', r) := cas cfg tn (tn * 1000) nd key (applyOps t0 s.conf.clash (key.startsWith "p") ops)
      let rs := match r with | .ok => "ok" | .noChange => "nochg" | .err => "err"
      let s' := { s.setNode n nd' with changes := s.changes + (verSum nd' - v0) }
      let want := s!"{rs}!{showSnap nd'}"
      (s', wl, if want == s!"{res}!{snap}" then none else some want)
    | _, _, _, _ => (s, wl, some "bad-cas-event")
  | ["ci", n, key, ops], [t0, tn, res, snap, msg, _, _] =>
    -- a CAS, and - while its broadcast is being encoded, i.e. after the store was updated and the lock released -
    -- the merge of a one-pair full state for the same key: two merges, one after the other
    match n.toNat?, t0.toInt?, tn.toInt?, (ops.splitOn "+").mapM parseOp with
    | some n, some t0, some tn, some ops =>
      let nd := s.node n
      let v0 := verSum nd
      let (nd1, r) := cas cfg tn (tn * 1000) nd key (applyOps t0 s.conf.clash (key.startsWith "p") ops)
      let nd' := if msg == "-" then some nd1 else (parseMsg msg).map fun m => mergeRemoteState cfg tn nd1 [m]
      match nd' with
      | some nd' =>
        let rs := match r with | .ok => "ok" | .noChange => "nochg" | .err => "err"
        let s' := { s.setNode n nd' with changes := s.changes + (verSum nd' - v0) }
        let want := s!"{rs}!{showSnap nd'}"
        (s', wl, if want == s!"{res}!{snap}" then none else some want)
      | none => (s, wl, some "bad-ci-message")
    | _, _, _, _ => (s, wl, some "bad-ci-event")
  | ["g", n], [_, msgs, q] =>
    match n.toNat? with
    | some n =>
      let (nd', out) := gossip cfg (s.node n)
      let obsMsgs := if msgs == "-" then [] else msgs.splitOn "|"
      let want := sortStr (out.map showMsg)
      let parsed := obsMsgs.filterMap parseMsg
      let s' := { s.setNode n nd' with pool := s.pool ++ parsed }
      let wq := s!"{nd'.localQ.length},{nd'.gossipQ.length}"
      (s', wl, if want == sortStr obsMsgs ∧ parsed.length == obsMsgs.length ∧ wq == q then none
               else some ("batch=" ++ "|".intercalate want ++ " q=" ++ wq))
    | none => (s, wl, some "bad-g-event")
  | ["d", n, m], [tn, snap] =>
    match n.toNat?, m.toNat?, tn.toInt? with
    | some n, some m, some tn =>
      match s.pool[m]? with
      | some msg =>
        let nd := s.node n
        let nd' := notifyMsg cfg tn nd msg
        let s' := { s.setNode n nd' with changes := s.changes + (verSum nd' - verSum nd) }
        (s', wl, if showSnap nd' == snap then none else some (showSnap nd'))
      | none => (s, wl, some "pool-index")
    | _, _, _ => (s, wl, some "bad-d-event")
  | ["x", n, _, _, _], [tn, cls, content, _, after] =>
    match n.toNat?, tn.toInt? with
    | some n, some tn =>
      let nd := s.node n
      let nd' := if cls == "ok" then
          match parseMsg content with
          | some msg => notifyMsg cfg tn nd msg
          | none => nd
        else nd
      (s.setNode n nd', wl, if showSnap nd' == after then none else some (showSnap nd'))
    | _, _ => (s, wl, some "bad-x-event")
  | ["pp", a, b], [tn, pairs, storeA, snapB] =>
    match a.toNat?, b.toNat?, tn.toInt? with
    | some a, some b, some tn =>
      let na := s.node a
      let ps := if pairs == "-" then [] else pairs.splitOn "|"
      let obsMsgs := ps.filterMap fun p => if p.startsWith "ok:" then parseMsg (p.drop 3).toString else none
      let wantLS := sortStr ((localState na).map fun m => "ok:" ++ showMsg m)
      let nb := s.node b
      let nb' := mergeRemoteState cfg tn nb obsMsgs
      let s' := { s.setNode b nb' with changes := s.changes + (verSum nb' - verSum nb) }
      let okLS := wantLS == sortStr ps ∧ showStore na.store == storeA
      (s', wl, if okLS ∧ showSnap nb' == snapB then none
               else some (if okLS then showSnap nb' else "localstate=" ++ "|".intercalate wantLS))
    | _, _, _ => (s, wl, some "bad-pp-event")
  | ["ppx", _, b, _, _], [tn, pairs, _, snapB, raw] =>
    match b.toNat?, tn.toInt? with
    | some b, some tn =>
      let ps := if pairs == "-" then [] else pairs.splitOn "|"
      let obsMsgs := ps.filterMap fun p => if p.startsWith "ok:" then parseMsg (p.drop 3).toString else none
      let nb' := mergeRemoteState cfg tn (s.node b) obsMsgs
      -- framing: the model's frames of the delivered bytes vs. the pairs the loop reached. The loop stops at a
      -- frame that does not unmarshal ("bad", always last) and at a framing error ("badframe", always last).
      let fr := framesOf ((hexDecode raw).getD [])
      let reached := (ps.filter (· != "badframe")).length
      let stoppedAtBad := ps.getLast? == some "bad"
      let framingOk := (if stoppedAtBad then reached ≤ fr.1.length else reached == fr.1.length) &&
        (stoppedAtBad || (ps.getLast? == some "badframe") == !fr.2)
      (s.setNode b nb', wl, if !framingOk then some s!"frames={fr.1.length} clean={fr.2}"
                            else if showSnap nb' == snapB then none else some (showSnap nb'))
    | _, _ => (s, wl, some "bad-ppx-event")
  | [w, n, key], [_, snap] =>
    if w == "w" ∨ w == "wp" then
      match n.toNat? with
      | some n =>
        let nd' := addWatcher cfg (s.node n) s.nextW (w == "wp") (str? key)
        ({ s.setNode n nd' with nextW := s.nextW + 1 }, wl, if showSnap nd' == snap then none else some (showSnap nd'))
      | none => (s, wl, some "bad-w-event")
    else if w == "del" then
      match n.toNat?, parseSnap snap with
      | some n, some sn =>
        -- the update time is a wall-clock reading of the implementation: read it back
        let ut := match getE sn.store key with | some e => e.updateTime | none => 0
        let tn := (o.headD "0").toInt?.getD 0
        let nd' := delete cfg tn ut (s.node n) key
        (s.setNode n nd', wl, if showSnap nd' == snap then none else some (showSnap nd'))
      | _, _ => (s, wl, some "bad-del-event")
    else (s, wl, some "unknown-event")
  | ["inj", n, _], [tn, content, snap] =>
    match n.toNat?, tn.toInt?, parseMsg content with
    | some n, some tn, some msg =>
      let nd' := notifyMsg cfg tn (s.node n) msg
      (s.setNode n nd', wl, if showSnap (drainW nd') == snap then none else some (showSnap (drainW nd')))
    | _, _, _ => (s, wl, some "bad-inj-event")
  | ["co", n], [tn, snap] =>
    match n.toNat?, tn.toInt? with
    | some n, some tn =>
      -- the clock reading is taken after the call: every key deleted before is at least that old
      let nd' := cleanupObsolete cfg ((tn + 1) * 1000) (s.node n)
      (s.setNode n nd', wl, if showSnap nd' == snap then none else some (showSnap nd'))
    | _, _ => (s, wl, some "bad-co-event")
  | ["rs", n], [_] =>
    match n.toNat? with
    | some n => (s.setNode n {}, wl, none)
    | none => (s, wl, some "bad-rs-event")
  | ["P", _], [_] => (s, wl, none)
  | ["sl"], [_] => (s, wl, none)
  | [k], _ =>
    if k == "st" ∨ k == "fin" then
      -- obs: tn ! snap(0) ! ... ! snap(n-1) ! watcherlogs
      let s' := { s with nodes := s.nodes.map (settle cfg) }
      let snaps := (o.drop 1).take s.nodes.length
      let logs := parseWLogs (o.getLastD "-")
      let wl' := foldWLogs wl logs
      let live := s'.nodes.flatMap fun nd => nd.watchers.map (·.id)
      let wantSnaps := s'.nodes.map showSnap
      let mw := modelWLast s'
      let iw := implWLast wl' live
      (s', wl', if wantSnaps != snaps then some ("snaps=" ++ "!".intercalate wantSnaps)
                else if mw != iw then some ("watchers=" ++ ",".intercalate mw) else none)
    else (s, wl, some "unknown-event")
  | _, _ => (s, wl, some "event-observation-shape")

/-- does this event deliver content that no writer produced (a corrupted message that still decodes)? -/
def forgedEvent (ev ob : String) : Bool :=
  match ev.splitOn "!", ob.splitOn "!" with
  | ["x", _, _, _, _], [_, cls, _, _, _] => cls == "ok"
  | ["ppx", _, _, mode, _], [_, pairs, _, _, _] => mode != "trunc" && (pairs.splitOn "|").any (·.startsWith "ok:")
  | _, _ => false

/-- `Desc.Clone` copies the instance map but shares the token slices, and `normalizeIngestersMap` sorts the
incoming value's token slices in place: a CAS on a node whose STORED value holds an unsorted token list (only
possible after an ill-formed first message from a faulty sender) re-orders the stored list through the alias,
with no version change. The model has values, not slices: from such a CAS on the history is
correspondence-free (reported in the tags). -/
def aliasedCas (s : Sim) (ev : String) : Bool :=
  match ev.splitOn "!" with
  | ["cas", n, key, _] =>
    match n.toNat? with
    | some n =>
      match getE (s.node n).store key with
      | some en =>
        match en.val with
        | .ring d => d.any fun i => i.state != .LEFT && !C03.sortedStrict i.tokens
        | _ => false
      | none => false
    | none => false
  | _ => false

/-- replay on the model. Content decoded from corrupted bytes is taken from the implementation's own
decoder (key, codec, deleted flag, update time, value as the harness read them back with the same
proto / codec calls); should the canonical line form still miss something of such a message, the
history is correspondence-free from that event on (reported in the tags, never as a disagreement). -/
def replay (conf : Conf) (evs obs : List String) : Sim × Option String := Id.run do
  let mut s : Sim := { conf := conf, nodes := List.replicate conf.n {} }
  let mut wl : WLast := []
  let mut i := 0
  let mut forged := false
  for (ev, ob) in evs.zip obs do
    if forgedEvent ev ob || aliasedCas s ev then forged := true
    let (s', wl', d) := step s wl ev ob
    s := s'
    wl := wl'
    match d with
    | some d => if forged then return ({ s with forgedDiff := true }, none) else return (s, some s!"ev#{i}:{ev} model={d}")
    | none => pure ()
    i := i + 1
  return (s, none)

/-! ### judge: the property statement on the implementation's own observations -/

def rankI (i : Inst) : Int × Bool := (i.ts, i.state == .LEFT)
def rankLe (a b : Int × Bool) : Bool := a.1 < b.1 || (a.1 == b.1 && (!a.2 || b.2))

/-- every entry of `acked` (a value a CAS left behind at its node) is dominated by `fin` -/
def dominated (acked fin : Val) : Bool :=
  match acked, fin with
  | .ring a, .ring f => a.all fun e => match C03.get? f e.id with
      | some x => rankLe (rankI e) (rankI x)
      | none => false
  | .part a, .part f =>
    (a.parts.all fun p => match C03P.getP f.parts p.id with
      | some x => rankLe (p.stateTs, p.state == C03P.partDeleted) (x.stateTs, x.state == C03P.partDeleted) && p.lockedTs ≤ x.lockedTs
      | none => false) &&
    (a.owners.all fun w => match C03P.getO f.owners w.id with
      | some x => rankLe (w.ts, w.state == C03P.ownerDeleted) (x.ts, x.state == C03P.ownerDeleted)
      | none => false)
  | _, _ => false

def lookup {α : Type} (l : List (String × α)) (k : String) : Option α := (l.find? (·.1 == k)).map (·.2)

structure JState where
  bad : List String := []
  /-- node restarted after index -/
  acks : List (Nat × String × Val) := []       -- node, key, value left by an acknowledged CAS
  wreg : List (Nat × Nat × Bool × String × List (String × Nat × String)) := []   -- watcher id, node, prefix, key, (version, exposed value) per key at registration
  wl : WLast := []
  nextW : Nat := 0
  forged : Bool := false
  injected : Bool := false   -- an ill-formed first message was injected: senders are not correct replicas
  lastStore : List (Nat × Store Val) := []   -- last observed store per node
  t0 : Option Int := none                    -- clock reading of the first event

/-- keys a store section marks as deleted (light parse: `key=version^deleted^...`) -/
def deletedKeysOf (snap : String) : List String :=
  let st := (snap.splitOn "@").headD "-"
  if st == "-" then [] else
  (st.splitOn "|").filterMap fun en =>
    match en.splitOn "=" with
    | [k, rest] => if ((rest.splitOn "^").getD 1 "0") == "1" then some k else none
    | _ => none

/-- which node's snapshot an event's observation carries -/
def snapOf (e o : List String) : Option (Nat × String) :=
  match e, o with
  | ["cas", n, _, _], [_, _, _, snap] => n.toNat?.map (·, snap)
  | ["d", n, _], [_, snap] => n.toNat?.map (·, snap)
  | ["x", n, _, _, _], [_, _, _, _, after] => n.toNat?.map (·, after)
  | ["pp", _, b], [_, _, _, snapB] => b.toNat?.map (·, snapB)
  | ["ppx", _, b, _, _], [_, _, _, snapB, _] => b.toNat?.map (·, snapB)
  | ["inj", n, _], [_, _, snap] => n.toNat?.map (·, snap)
  | ["ci", n, _, _], [_, _, _, snap, _, _, _] => n.toNat?.map (·, snap)
  | ["co", n], [_, snap] => n.toNat?.map (·, snap)
  | [_, n, _], [_, snap] => n.toNat?.map (·, snap)
  | _, _ => none

def judge (conf : Conf) (evs obs : List String) : List String := Id.run do
  let mut js : JState := {}
  -- keys that are the target of a `Delete` somewhere in the history: only these are exempt from the
  -- convergence / acknowledged-CAS / watcher rules (a deleted key is deliberately not revived on
  -- nodes that never had it); every other key must behave as if no Delete had happened
  let delKeys : List String := evs.filterMap fun ev => match ev.splitOn "!" with
    | ["del", _, k] => some k
    | _ => none
  for (ev, ob) in evs.zip obs do
    let e := ev.splitOn "!"
    let o := ob.splitOn "!"
    if ob.startsWith "PANIC" then
      js := { js with bad := s!"panic:{e.headD ""}" :: js.bad }
      continue
    if js.t0.isNone then js := { js with t0 := (o.headD "").toInt? }
    match snapOf e o with
    | some (n, snap) =>
      match parseSnap snap with
      | some sn => js := { js with lastStore := (n, sn.store) :: js.lastStore.filter (·.1 != n) }
      | none => pure ()
    | none => pure ()
    -- no node ever marks a key deleted that nobody deleted
    if !js.forged then
      for part in o do
        if part.contains '@' then
          for k in deletedKeysOf part do
            if !delKeys.contains k then js := { js with bad := s!"live-key-marked-deleted:{k}" :: js.bad }
    match e, o with
    | ["cas", n, key, _], [_, _, res, snap] =>
      if res == "ok" then
        match n.toNat?, parseSnap snap with
        | some n, some sn =>
          match getE sn.store key with
          | some en => js := { js with acks := (n, key, en.val) :: js.acks }
          | none => pure ()
        | _, _ => js := { js with bad := "unparsable-observation" :: js.bad }
    | ["ci", n, key, _], [_, _, res, snap, _, chg, enc] =>
      -- what is queued for gossip is the change as it was when the store was updated, whatever is merged meanwhile
      if chg != enc then js := { js with bad := s!"broadcast-differs-from-change:{key}" :: js.bad }
      if res == "ok" then
        match n.toNat?, parseSnap snap with
        | some n, some sn =>
          match getE sn.store key with
          | some en => js := { js with acks := (n, key, en.val) :: js.acks }
          | none => pure ()
        | _, _ => js := { js with bad := "unparsable-observation" :: js.bad }
    | ["inj", _, _], _ => js := { js with forged := true, injected := true }
    | ["x", _, _, _, _], [_, cls, _, before, after] =>
      if cls != "ok" ∧ before != after then js := { js with bad := s!"malformed-message-changed-state:{cls}" :: js.bad }
      -- a corrupted message that still decodes is indistinguishable from an authentic one: the
      -- history then contains content no writer produced (outside the quantifier)
      if cls == "ok" then js := { js with forged := true }
    | ["ppx", _, _, mode, _], [_, pairs, before, after, _] =>
      let ps := if pairs == "-" then [] else pairs.splitOn "|"
      -- a pair is well-formed if it decodes and has a non-empty key ("Key must be non-empty", kv.proto)
      let wellFormed (p : String) : Bool := p.startsWith "ok:" && !p.startsWith "ok:="
      match parseSnap before, parseSnap after with
      | some b, some a =>
        if (getE a.store "").isSome ∧ (getE a.store "") != (getE b.store "") then js := { js with bad := "empty-key-pair-stored" :: js.bad }
        else if ps.all (fun p => !wellFormed p) ∧ before != after then
          js := { js with bad := "malformed-state-changed-state" :: js.bad }
      | _, _ => js := { js with bad := "unparsable-observation" :: js.bad }
      if mode != "trunc" ∧ ps.any wellFormed then js := { js with forged := true }
      if ps.any (fun p => p.startsWith "ok:=") then js := { js with forged := true }
    | ["rs", n], _ =>
      match n.toNat? with
      | some n =>
        -- an acknowledged CAS survives the restart of its node if another node's store already contains it
        let moved := js.acks.filterMap fun (a, key, v) =>
          if a != n then some (a, key, v) else
          (js.lastStore.find? fun (m, st) => m != n && (match getE st key with | some en => dominated v en.val | none => false)).map
            fun (m, _) => (m, key, v)
        js := { js with acks := moved, wreg := js.wreg.filter (·.2.1 != n), lastStore := js.lastStore.filter (·.1 != n) }
      | none => pure ()
    | [w, n, key], [_, snap] =>
      if w == "w" ∨ w == "wp" then
        match n.toNat?, parseSnap snap with
        | some n, some sn =>
          js := { js with wreg := (js.nextW, n, w == "wp", str? key, sn.store.map fun (k, en) => (k, en.version, ((lookup sn.view k).map showVal).getD "")) :: js.wreg,
                          nextW := js.nextW + 1 }
        | _, _ => js := { js with bad := "unparsable-observation" :: js.bad }
    | [k], _ =>
      if k == "st" ∨ k == "fin" then
        let snaps := ((o.drop 1).take conf.n).map parseSnap
        js := { js with wl := foldWLogs js.wl (parseWLogs (o.getLastD "-")) }
        if snaps.any (·.isNone) then js := { js with bad := "unparsable-observation" :: js.bad }
        else if k == "fin" then
          let sn := snaps.filterMap id
          -- (1) all nodes expose the same value for every key
          if !conf.clash ∧ !conf.gc ∧ !js.forged then
            let viewOf (s : Snap) : List String :=
              sortStr ((s.view.filter fun (k, _) => !delKeys.contains k).map fun (k, v) => s!"{k}={showVal v}")
            match sn with
            | [] => pure ()
            | s0 :: rest =>
              let v0 := viewOf s0
              if rest.any fun s => viewOf s != v0 then
                js := { js with bad := "nodes-differ-after-sync" :: js.bad }
          -- (2) every acknowledged CAS is contained in every node's value
          -- applies while no tombstone can have reached the retention: retention off, or the whole history
          -- (plus the oldest timestamp a workload writes, 12 s) is shorter than it
          let elapsed : Int := ((o.headD "").toInt?.getD 0) - js.t0.getD 0
          if !conf.gc ∧ !js.forged ∧ (conf.lit == 0 ∨ elapsed + 12 < conf.lit) then
            for (_, key, v) in js.acks.filter fun (_, key, _) => !delKeys.contains key do
              for s in sn do
                match getE s.store key with
                | some en => if !dominated v en.val then js := { js with bad := s!"acked-cas-not-visible:{key}" :: js.bad }
                | none => js := { js with bad := s!"acked-cas-not-visible:{key}" :: js.bad }
          -- (3) every registered watcher has been called with the final value of every key that
          --     changed after its registration
          -- (silent after an ill-formed injected value: a CAS may re-order its stored token lists through
          --  Clone's shared slices without any version change - see `aliasedCas`)
          for (wid, n, isP, wkey, vers) in (if js.injected then [] else js.wreg) do
            match sn[n]? with
            | none => pure ()
            | some s =>
              for (k, en) in s.store do
                let watched := if isP then k.startsWith wkey else k == wkey
                let cur := (lookup s.view k).map showVal
                let (regVer, regView) := (lookup vers k).getD (0, "")
                -- a key that is (still) marked deleted is exempt; one that was deleted, cleaned up and written again
                -- is a live key like any other (its store version started again at 1)
                if watched ∧ !en.deleted ∧ (regVer != en.version ∨ some regView != cur) then
                  let got := (js.wl.find? fun (w, k', _) => w == wid ∧ k' == k).map (·.2.2)
                  if got != cur then js := { js with bad := s!"watcher-not-called-with-final-value:{k}" :: js.bad }
    | _, _ => pure ()
  return js.bad.eraseDups

def countEv (evs : List String) (p : String) : Nat := (evs.filter (·.startsWith p)).length

def bucket (n : Nat) : String := if n = 0 then "0" else if n ≤ 2 then "1-2" else if n ≤ 8 then "3-8" else "9+"

def handleRun (f : List String) : String × String × String :=
  match f with
  | [cfg, evs, obs] =>
    let conf := parseConf cfg
    -- `ppj` is a push/pull done with join = true (initial join, fast-join, periodic re-join): `LocalState` and
    -- `MergeRemoteState` behave exactly as with join = false
    let evs := (evs.splitOn " ").map fun e => if e.startsWith "ppj!" then "pp!" ++ (e.drop 4).toString else e
    let obs := obs.splitOn " "
    if evs.length != obs.length then ("event-observation-count", "-", "-") else
    let (s, d) := replay conf evs obs
    let j := judge conf evs obs
    let tags := s!"n={conf.n} ev={bucket (evs.length / 4)} chg={bucket s.changes} cas={bucket (countEv evs "cas")} d={bucket (countEv evs "d!")} x={bucket (countEv evs "x!" + countEv evs "ppx!")} pp={bucket (countEv evs "pp!")} w={bucket s.nextW} rs={bucket (countEv evs "rs!")} lit={conf.lit} ni={bit conf.ni} clash={bit conf.clash} gc={bit conf.gc} skew={bit conf.skew} del={bit conf.del} silent={bucket s.silent} forgeddiff={bit s.forgedDiff}"
    (d.getD "-", if j.isEmpty then "-" else ",".intercalate j, tags)
  | _ => ("bad-fields", "-", "-")

/-- `ringBroadcast.Invalidates` as a table: model diff + the statement "a queued update is
superseded only by an update (of the same key, not older) whose content contains it". -/
def handleInv (f : List String) : String × String × String :=
  match f with
  | [nk, nc, nv, ok, oc, ov, got] =>
    -- names are hex encoded (they may contain any character)
    let names (s : String) : List String := if s == "-" then [] else
      (s.splitOn ",").map fun h => if h == "~" then "" else String.ofList (((hexDecode h).getD []).map fun b => Char.ofNat b.toNat)
    match nv.toNat?, ov.toNat? with
    | some nv, some ov =>
      let m := invalidates nk (names nc) nv ok (names oc) ov
      let g := got == "1"
      let contained := (names oc).all fun x => (names nc).any (· == x)
      let j := if g ∧ !(nk == ok ∧ contained ∧ nv ≥ ov) then "superseded-by-update-not-containing-it" else "-"
      (if m == g then "-" else s!"invalidates={bit m}", j, s!"inv={bit g} samekey={bit (nk == ok)} sub={bit contained}")
    | _, _ => ("bad-input", "-", "-")
  | _ => ("bad-fields", "-", "-")

def handle (cmd : String) (f : List String) : String × String × String :=
  if cmd == "C06.run" then handleRun f
  else if cmd == "C06.inv" then handleInv f
  else ("unknown-cmd", "-", "-")

end OracleC06
