import Model.C07
/-!
Oracle handlers for C07.

* `C07.sched`: the implementation's trace of a scheduled run. `diff` = the trace is not the run of
  the model under the same schedule (model's event is reported); `judge` = the property statement
  evaluated on the observed trace alone (no model, no token rules).
* `C07.stress`: unscheduled run; only the per-call records are known. `judge` = the successful
  writes form one chain from the initial to the final value; `diff` = that chain replayed through the
  model's sequential semantics.
-/
namespace OracleC07
open Common C07

/-! ### parsing -/

/-- digest of a value: `n` (absent) or `ctr/ids`, followed by `~t` when the stored object went through
`t > 0` merges that reported no change (not part of the logical value, see `logical`). -/
def showVal : Option Val → String
  | none => "n"
  | some v => toString v.ctr ++ "/" ++ (if v.set.isEmpty then "-" else ",".intercalate (v.set.map toString)) ++
      (if v.touch == 0 then "" else "~" ++ toString v.touch)

def parseVal (s : String) : Option (Option Val) :=
  if s = "n" then some none else
  let (body, touch) := match s.splitOn "~" with
    | [b, t] => (b, t.toNat?.getD 0)
    | _ => (s, 0)
  match body.splitOn "/" with
  | [c, ids] =>
    match c.toNat?, natList? ids with
    | some n, some l => some (some ⟨n, l.foldl (fun acc x => insertId x acc) [], touch⟩)
    | _, _ => none
  | _ => none

/-- the logical value of a digest: what the property talks about. -/
def logical (d : String) : String := (d.splitOn "~").headD d

def parseBackend : String → Option Backend
  | "consul" => some .consul
  | "etcd" => some .etcd
  | "ml" => some .ml
  | _ => none

structure Op where
  key : Nat
  failFirst : Nat
  kind : Char
  retry : Bool

def parseOp (s : String) : Option Op :=
  match s.splitOn "." with
  | [k, ff, kr] =>
    match k.toNat?, ff.toNat?, kr.toList with
    | some k, some ff, [kind, r] => some ⟨k, ff, kind, r == '1'⟩
    | _, _, _ => none
  | _ => none

def parseOps (s : String) : Option (List (List Op)) :=
  (s.splitOn " ").mapM fun c => if c = "-" then some [] else (c.splitOn ";").mapM parseOp

structure Spec where
  backend : Backend
  budget : Nat
  pfx : Bool
  multi : Nat
  secondary : Option Backend
  keyBase : String
  nKeys : Nat
  init : List (Option Val)
  ops : List (List Op)

def parseSpec (b budget wrap sec kb init ops : String) : Option Spec := do
  let backend ← parseBackend b
  let budget ← budget.toNat?
  let (pfx, multi) ← match wrap.toList with
    | [p, _, u] => some (p == '1', u.toNat - '0'.toNat)
    | _ => none
  let secondary ← if sec = "-" then some none else (parseBackend sec).map some
  let (keyBase, nKeys) ← match kb.splitOn ":" with
    | [a, n] => n.toNat?.map (fun n => (a, n))
    | _ => none
  let init ← (init.splitOn ";").mapM parseVal
  let ops ← parseOps ops
  if init.length ≠ nKeys then none
  else some ⟨backend, budget, pfx, multi, secondary, keyBase, nKeys, init, ops⟩

def strKey (s : String) : Key := s.toList.map Char.toNat

def Spec.userKey (sp : Spec) (k : Nat) : Key := strKey (sp.keyBase ++ toString k)
/-- the key the backend sees: `PrefixClient(…, "pfx/")` when the prefix wrapper is in the path. -/
def Spec.mapped (sp : Spec) (k : Nat) : Key :=
  if sp.pfx then prefixKey (strKey "pfx/") (sp.userKey k) else sp.userKey k

/-- the caller-supplied function of the harness (`c07Op.apply`). -/
def opF (op : Op) (id : Nat) : Nat → Option Val → FRet Val := fun att inp =>
  if att < op.failFirst then .fail true
  else match op.kind with
    | 'i' => .write (Val.inc inp) op.retry
    | 'a' => .write (Val.app id inp) op.retry
    | 'd' => .decline
    | 'z' => .write (inp.getD Val.empty) op.retry     -- returns its input unchanged
    | 'c' => .write Val.empty op.retry               -- clears to the empty value (non-nil; the codec encodes it to zero bytes)
    | _ => .fail false

def showFRet : FRet Val → String
  | .write out r => "w" ++ (if r then "1" else "0") ++ "=" ++ showVal (some out)
  | .decline => "nil"
  | .fail r => "e" ++ (if r then "1" else "0")

/-- position of the primary in `MultiClient.clients`: 0 as configured; 1 when the harness put the
store under test second and switched to it through the runtime configuration (wrap code 3). -/
def Spec.primaryPos (sp : Spec) : Nat := if sp.multi == 3 then 1 else 0

def Spec.secondaryPos (sp : Spec) : Nat := 1 - sp.primaryPos

def cfgOf (sp : Spec) : Cfg Val := { budget := sp.budget, sbudget := 10, merge := Val.merge }

/-- initial system: the harness writes the initial values with one uncontended CAS on the primary. -/
def initSys (sp : Spec) : Sys Val :=
  let pri : Store Val := Store.empty sp.backend
  let sec : Store Val := Store.empty (sp.secondary.getD .consul)
  -- wrap code 3: the client list is [other store, store under test] and the harness then switches the
  -- primary to position 1 through the runtime configuration
  let s00 : Sys Val := if sp.multi == 3 then Sys.init2 sec pri true else Sys.init2 pri sec (sp.multi > 0)
  let cfg := cfgOf sp
  let s0 := if sp.multi == 3 then next cfg s00 (.switch 1) else s00
  let go (s : Sys Val) (kv : Nat × Option Val) : Sys Val :=
    match kv.2 with
    | none => s
    | some v =>
      let cl : Call Val := ⟨sp.mapped kv.1, fun _ _ => .write v false, false⟩
      run cfg s [.begin 1000 cl, .step 1000, .step 1000]
  let s := (sp.init.zipIdx.map (fun (v, i) => (i, v))).foldl go s0
  { s with log := [] }

/-! ### the model's trace under a given schedule -/

structure Sim where
  sys : Sys Val
  nextOp : List Nat         -- per caller: index of the next operation to start

def view (sp : Spec) (s : Sys Val) (k : Nat) : String := showVal ((s.stores sp.primaryPos).val (sp.mapped k))
def viewSec (sp : Spec) (s : Sys Val) (k : Nat) : String := showVal ((s.stores sp.secondaryPos).val (sp.mapped k))

/-- after the caller was released: it runs until it blocks again (in `f` of the primary loop, or in
the gated function of the mirror write) or returns. -/
def afterRelease (sp : Spec) (cfg : Cfg Val) (c : Nat) (s : Sys Val) (done : Option Bool) : Sys Val × String :=
  match s.ph c with
  | .reading .. =>
    let s' := next cfg s (.step c)
    (s', match s'.ph c with
      | .holding _ _ _ _ _ inp' => "in=" ++ showVal inp'
      | _ => "?")
  | .mreading .. =>
    let s' := next cfg s (.step c)
    (s', match s'.ph c with
      -- the harness labels a gated mirror attempt `min=` when it was sent to a store that is not the
      -- primary and `minP=` when it was sent to the primary; the model's target comes from `mirrorTargets`
      | .mholding t _ _ _ _ _ inp' => (if t == sp.primaryPos then "minP=" else "min=") ++ showVal inp'
      | _ => "?")
  | _ => (s, if done == some true then "ok" else "err")

def simEvent (sp : Spec) (st : Sim) (c : Nat) : String × Sim :=
  let cfg := cfgOf sp
  let s := st.sys
  let j := st.nextOp.getD c 0
  let k := match (sp.ops.getD c [])[j - 1]? with
    | some op => op.key
    | none => 0
  match s.ph c with
  | .idle =>
    match (sp.ops.getD c [])[j]? with
    | none => (s!"s{c}:nothing-to-start", st)
    | some op =>
      let cl : Call Val := ⟨sp.mapped op.key, opF op ((c + 1) * 100 + j), sp.multi ≥ 2⟩
      let s1 := next cfg (next cfg s (.begin c cl)) (.step c)
      let res := match s1.ph c with
        | .holding _ _ _ _ _ inp => "in=" ++ showVal inp
        | _ => "?"
      (s!"s{c}:{res}:{view sp s1 op.key}", ⟨s1, st.nextOp.set c (j + 1)⟩)
  | .holding _ cl _ att _ inp =>
    let fret := showFRet (cl.f att inp)
    let s1 := next cfg s (.step c)
    let done := match s1.log with
      | r :: _ => r.done
      | [] => none
    let (s2, res) := afterRelease sp cfg c s1 done
    (s!"r{c}:{fret}:{res}:{view sp s2 k}", ⟨s2, st.nextOp⟩)
  | .mholding .. =>
    -- the mirror write; whatever happens to it, MultiClient.CAS returns the primary's nil
    let s1 := next cfg s (.step c)
    let (s2, res) := afterRelease sp cfg c s1 (some true)
    (s!"r{c}:m:{res}:{view sp s2 k}", ⟨s2, st.nextOp⟩)
  | _ => (s!"x{c}:caller-in-unexpected-phase", st)

def callerOf (ev : String) : Option Nat :=
  match ev.splitOn ":" with
  | h :: _ => (h.drop 1).toString.toNat?
  | [] => none

def simTrace (sp : Spec) (evs : List String) : List String × Sys Val :=
  let st0 : Sim := ⟨initSys sp, sp.ops.map (fun _ => 0)⟩
  let (out, st) := evs.foldl (fun (acc : List String × Sim) ev =>
    match callerOf ev with
    | none => ("unparsable" :: acc.1, acc.2)
    | some c => let (e, st') := simEvent sp acc.2 c; (e :: acc.1, st')) ([], st0)
  (out.reverse, st.sys)

def firstDiff : Nat → List String → List String → Option String
  | _, [], [] => none
  | i, a :: as, b :: bs => if a = b then firstDiff (i + 1) as bs else some s!"ev{i}:model={a}"
  | i, a :: _, [] => some s!"ev{i}:model={a}"
  | i, [], _ :: _ => some s!"ev{i}:model=end"

/-! ### judge: the property statement on the observed trace -/

def lookupS (l : List (Nat × String)) (k : Nat) : String := ((l.find? (·.1 == k)).map (·.2)).getD "?"
def setS (l : List (Nat × String)) (k : Nat) (v : String) : List (Nat × String) :=
  (k, v) :: l.filter (·.1 != k)

structure JSt where
  left : List (Nat × String)      -- per key: value left by the last successful call (initially the initial value)
  seen : List (Nat × String)      -- per key: last observed stored value
  inp : List (Nat × String)       -- per caller: input of its pending attempt
  started : List (Nat × Nat)      -- per caller: number of operations started
  bad : List String
  ovl : Nat                        -- callers currently holding a value
  maxOvl : Nat
  retries : Nat
  errs : Nat
  mirrors : Nat := 0

/-- judge-side union of two sorted id lists (written independently of the model's `insertId`). -/
def unionIds : List Nat → List Nat → List Nat
  | [], ys => ys
  | xs, [] => xs
  | x :: xs, y :: ys =>
    if x < y then x :: unionIds xs (y :: ys)
    else if y < x then y :: unionIds (x :: xs) ys
    else x :: unionIds xs ys
termination_by xs ys => xs.length + ys.length

/-- What a successful call must leave, from the property text: the function's output; on the gossip
store a write is a merge by construction of the backend, so there it is the join of the value found
and the output (equal to the output for the only-growing functions of the harness). Logical digests. -/
def expectedLeft (sp : Spec) (before out : String) : String :=
  match sp.backend, parseVal before, parseVal out with
  | .ml, some (some b), some (some o) =>
    showVal (some ⟨max b.ctr o.ctr, unionIds b.set o.set, 0⟩)
  | _, _, _ => out

def addBad (st : JSt) (r : String) : JSt := if st.bad.contains r then st else { st with bad := st.bad ++ [r] }

def judgeEvent (sp : Spec) (st : JSt) (ev : String) : JSt :=
  match ev.splitOn ":" with
  | [h, res, after] =>
    if !h.startsWith "s" then addBad st "unparsable-event" else
    match (h.drop 1).toString.toNat? with
    | none => addBad st "unparsable-event"
    | some c =>
      let j := ((st.started.find? (·.1 == c)).map (·.2)).getD 0
      let key := match (sp.ops.getD c [])[j]? with
        | some op => op.key
        | none => 0
      let after := logical after
      let res := logical res
      -- starting a call only reads
      let st := if after != lookupS st.seen key then addBad st "read-changed-value" else st
      let st := { st with started := (c, j + 1) :: st.started.filter (·.1 != c), seen := setS st.seen key after }
      if res.startsWith "in=" then
        let o := st.ovl + 1
        { st with inp := setS st.inp c (res.drop 3).toString, ovl := o, maxOvl := max st.maxOvl o }
      else st
  | [h, fret, res, after] =>
    if !h.startsWith "r" then addBad st "unparsable-event" else
    match (h.drop 1).toString.toNat? with
    | none => addBad st "unparsable-event"
    | some c =>
      let j := ((st.started.find? (·.1 == c)).map (·.2)).getD 0
      let key := match (sp.ops.getD c [])[j - 1]? with
        | some op => op.key
        | none => 0
      let after := logical after
      let res := logical res
      let fret := logical fret
      let before := lookupS st.seen key
      let input := lookupS st.inp c
      -- a call whose function returned an error must not report success
      let st := if fret.startsWith "e" ∧ res = "ok" then addBad st "failed-function-reported-success" else st
      let st :=
        if fret = "m" then
          -- the mirror write of a MultiClient: it must not touch the primary, and the call still succeeds
          let st := if after != before then addBad st "mirror-changed-primary" else st
          if res = "err" then addBad st "mirrored-call-failed-after-write" else st
        else if fret.startsWith "w" ∧ (res = "ok" ∨ res.startsWith "min") then
          -- a call that reports success and wrote: it must have applied f to the value left by the
          -- previous successful call, and what it leaves is what f returned
          let out := (fret.drop 3).toString
          let st := if input != lookupS st.left key then
              addBad st (if input = "n" then "stale-input-absent" else "stale-input") else st
          let st := if after != expectedLeft sp before out then addBad st "value-left-not-output" else st
          { st with left := setS st.left key after }
        else if after != before then
          addBad st (if fret = "nil" then "declined-changed-value"
                     else if res = "err" then "failed-changed-value" else "retry-changed-value")
        else st
      let st := { st with seen := setS st.seen key after }
      if res.startsWith "in=" then { st with inp := setS st.inp c (res.drop 3).toString, retries := st.retries + 1 }
      else if res.startsWith "min" then { st with mirrors := st.mirrors + 1 }
      else { st with ovl := st.ovl - 1, errs := st.errs + (if res = "err" then 1 else 0) }
  | _ => addBad st "unparsable-event"

def judgeSched (sp : Spec) (evs : List String) (fin raw : List String) : JSt :=
  -- logical digests throughout (an initial memberlist value may carry a touch mark: written, then Delete()d)
  let initS := sp.init.zipIdx.map (fun (v, i) => (i, logical (showVal v)))
  let st0 : JSt := ⟨initS, initS, [], [], [], 0, 0, 0, 0, 0⟩
  let st := evs.foldl (judgeEvent sp) st0
  let keys := List.range sp.nKeys
  -- the final value reflects exactly the successful calls
  let st := if keys.any (fun k => logical (fin.getD k "?") != lookupS st.left k) then addBad st "final-differs" else st
  -- the wrappers are transparent: reading the backend under the mapped key gives the same value
  if keys.any (fun k => logical (raw.getD k "?") != logical (fin.getD k "?")) then addBad st "wrapped-get-differs-from-backend" else st

/-! ### stress -/

structure CallRec where
  key : Nat
  ok : Bool
  ins : List String
  last : String

def parseCallRec (s : String) : Option CallRec :=
  match s.splitOn ":" with
  | [_, k, res, ins, last] => k.toNat?.map fun k => ⟨k, res = "ok", ins.splitOn ">", last⟩
  | _ => none

/-- size of a value. ASSUMPTION of the stress judge (stated in bin/props.d/C07.json): every function of
the stress generator that writes strictly grows the value (increment / append only; the
"return the input" function `z` is used in scheduled runs only), so the commit order of the
successful calls can be recovered by sorting them by the size of their input. -/
def measure (d : String) : Nat :=
  match parseVal d with
  | some (some v) => 1 + v.ctr + v.set.length
  | _ => 0

def insertBy (x : Nat × String × String) : List (Nat × String × String) → List (Nat × String × String)
  | [] => [x]
  | y :: ys => if x.1 ≤ y.1 then x :: y :: ys else y :: insertBy x ys

/-- successful writes on key `k` as (input, output) sorted by input size. -/
def writesOf (recs : List CallRec) (k : Nat) : List (String × String) :=
  ((recs.filter (fun r => r.key == k && r.ok && r.last.startsWith "w")).foldl
    (fun acc r => let i := r.ins.getLastD "?"; insertBy (measure i, i, (r.last.drop 3).toString) acc) []).map (·.2)

def chainOk : String → List (String × String) → Option String
  | cur, [] => some cur
  | cur, (i, o) :: rest => if logical i = logical cur then chainOk o rest else none

def judgeStress (sp : Spec) (recs : List CallRec) (fin raw : List String) : List String :=
  let keys := List.range sp.nKeys
  let b1 := if keys.any (fun k =>
      match chainOk (showVal (sp.init.getD k none)) (writesOf recs k) with
      | none => true
      | some _ => false) then ["successful-calls-not-a-chain"] else []
  let b2 := if keys.any (fun k =>
      match chainOk (showVal (sp.init.getD k none)) (writesOf recs k) with
      | none => false
      | some last => logical last != logical (fin.getD k "?")) then ["final-differs"] else []
  let b3 := if keys.any (fun k => logical (raw.getD k "?") != logical (fin.getD k "?")) then ["wrapped-get-differs-from-backend"] else []
  -- a call whose function returned an error on its last invocation must not report success
  let b4 := if recs.any (fun r => r.ok && r.last.startsWith "e") then ["failed-function-reported-success"] else []
  b1 ++ b2 ++ b3 ++ b4

/-- replay the chain through the model, one call at a time. -/
def modelStress (sp : Spec) (recs : List CallRec) : List String :=
  let cfg := cfgOf sp
  let keys := List.range sp.nKeys
  let s := keys.foldl (fun (s : Sys Val) k =>
    (writesOf recs k).foldl (fun (s : Sys Val) io =>
      match parseVal io.2 with
      | some (some out) =>
        let cl : Call Val := ⟨sp.mapped k, fun _ _ => .write out true, false⟩
        run cfg s [.begin 0 cl, .step 0, .step 0]
      | _ => s) s) (initSys sp)
  keys.map (view sp s)

/-! ### handlers -/

def initClass (sp : Spec) : String :=
  if sp.init.all (·.isNone) then "abs" else if sp.init.all (·.isSome) then "pres" else "mix"

def handle (cmd : String) (f : List String) : String × String × String :=
  match cmd, f with
  | "C07.sched", [b, budget, wrap, sec, kb, init, ops, sid, trace, fin, raw, secv] =>
    match parseSpec b budget wrap sec kb init ops with
    | none => ("bad-input", "-", "-")
    | some sp =>
      let evs := if trace = "-" then [] else trace.splitOn " "
      let (mtrace, ms) := simTrace sp evs
      let keys := List.range sp.nKeys
      let mfin := ";".intercalate (keys.map (view sp ms))
      let msec := if sp.multi == 0 then "-" else ";".intercalate (keys.map fun k => viewSec sp ms k)
      let diff :=
        match firstDiff 0 mtrace evs with
        | some d => d
        | none =>
          if mfin != fin then "fin:model=" ++ mfin
          else if mfin != raw then "raw:model=" ++ mfin
          else if msec != secv then "sec:model=" ++ msec
          else "-"
      let js := judgeSched sp evs (fin.splitOn ";") (raw.splitOn ";")
      let judge := if js.bad.isEmpty then "-" else ",".intercalate js.bad
      let nc := sp.ops.length
      let nops := (sp.ops.map List.length).foldl (· + ·) 0
      let tags := s!"sched b={b} w={wrap} init={initClass sp} bud={sp.budget} nc={min nc 8} ops={min (nops / 4 * 4) 16} keys={sp.nKeys} s={(sid.take 1).toString} ovl={min js.maxOvl 3} retries={min js.retries 3} errs={min js.errs 2} mir={min js.mirrors 2}"
      (diff, judge, tags)
  | "C07.stress", [b, budget, wrap, sec, kb, init, ops, _sid, calls, fin, raw] =>
    match parseSpec b budget wrap sec kb init ops with
    | none => ("bad-input", "-", "-")
    | some sp =>
      match (if calls = "-" then some [] else (calls.splitOn " ").mapM parseCallRec) with
      | none => ("bad-calls", "-", "-")
      | some recs =>
        let j := judgeStress sp recs (fin.splitOn ";") (raw.splitOn ";")
        let judge := if j.isEmpty then "-" else ",".intercalate j
        let mfin := ";".intercalate (modelStress sp recs)
        let diff := if mfin = fin then "-" else "fin:model=" ++ mfin
        let retried := (recs.filter (fun r => r.ins.length > 1)).length
        let tags := s!"stress b={b} w={wrap} init={initClass sp} nc={min sp.ops.length 16} ovl=3 retried={min retried 3}"
        (diff, judge, tags)
  | _, _ => ("unknown-cmd", "-", "-")

end OracleC07
