import Model.C08
import Model.C08Loop
/-!
Oracle handlers for C08 (and the step replay shared with C09).

`C08.run  <case>  <cfgs>  <files>  <initial store>  <steps>` where one step is
`idx!ev!arg!fault!now!gen!cas!ret!local!file` (see harness/cmd/corr/c08.go).

* diff  : first step whose model result (callback answer, return value, remembered self, tokens
          file, generator request) differs from the implementation's.
* judge : the six statements of the property evaluated on the recorded CAS pairs / getters only.
-/
namespace OracleC08
open Common Ring C08

/-! ### parsing -/

def parseCfg (s : String) : Option Cfg :=
  match s.splitOn "/" with
  | [k, id, addr, zone, nt, obs, hf, hbt, rr, mr, rs, fg, _unreg] => do
    let nt ← nt.toNat?
    let hbt ← hbt.toInt?
    let mr ← mr.toInt?
    let rs ← State.ofCode rs
    let fg ← fg.toInt?
    pure { kind := if k == "B" then .BLC else .LC, id := id, addr := addr, zone := str? zone, numTokens := nt,
           observe := obs == "1", hasFile := hf == "1", hbTimeout := hbt, readinessRing := rr == "1", minReady := mr,
           registerState := rs, forget := if fg > 0 then some fg else none }
  | _ => none

def parseFile (s : String) : Option File :=
  if s == "a" then some .absent else if s == "c" then some .corrupt
  else if s.startsWith "t" then (natList? (s.drop 1).toString).map File.tokens else none

def showFile : File → String
  | .absent => "a" | .corrupt => "c" | .tokens l => "t" ++ showNatList l

def parseStore (s : String) : Option (Option Desc) :=
  if s == "nil" then some none else (parseDesc s).map some

def leId (a b : Inst) : Bool := !(b.id < a.id)
def canon (d : Desc) : Desc := d.mergeSort leId
def showStore : Option Desc → String
  | none => "nil" | some d => showDesc (canon d)

def b01 (b : Bool) : String := if b then "1" else "0"

def showLocal (c : Cfg) (l : Local) : String :=
  match c.kind with
  | .LC => "/".intercalate [l.state.code, showNatList l.tokens, toString l.regTs, b01 l.ro, toString l.roTs, b01 l.ready, toString l.readySince]
  | .BLC => match l.cur with | none => "-" | some i => showInst i

def parseEvent (ev arg : String) : Option Event :=
  match ev with
  | "init" => (natList? arg).map Event.init
  | "join" => some .joinTimer
  | "verify" => some .verify
  | "hb" => some .heartbeat
  | "cs" => (State.ofCode arg).map Event.changeState
  | "ro" => some (.changeRO (arg == "1"))
  | "claim" => some (.claim arg)
  | "unreg" => some .unregister
  | "ready" => some .checkReady
  | "ontok" => some .onTokens
  | "stopd" => some .stopDelegate
  | _ => none

def showRet : Ret → String
  | .ok => "ok" | .err => "err" | .yes => "yes" | .no => "no"

def showGenReq : Option (Int × List Nat) → String
  | none => "-" | some (n, t) => toString n ++ "^" ++ showNatList t

/-! ### replay state -/

structure Node where
  cfg : Cfg
  l : Local := {}
  file : File := .absent
  -- judge bookkeeping (from the implementation's observations only)
  jFile : File := .absent
  inherited : Bool := false
  joined : Bool := false
  fileDup : Bool := false
  generated : Bool := false
  latched : Bool := false
  inits : Nat := 0
  deriving Inhabited

/-- one recorded step, for judges that look at whole histories (C09) -/
structure Rec where
  idx : Nat
  ev : String
  arg : String := "-"
  fault : String
  now : Int
  before : Option Desc
  after : Option Desc
  loc : String
  file : String
  ret : String
  committed : Bool
  deriving Inhabited

structure St where
  log : List Rec := []
  nodes : Array Node
  store : Option Desc
  diff : Option String := none
  bad : List String := []
  writes : Nat := 0
  feats : List String := []
  nsteps : Nat := 0

def addFeat (s : St) (f : String) : St := if s.feats.contains f then s else { s with feats := f :: s.feats }
def addBad (s : St) (b : String) : St := if s.bad.contains b then s else { s with bad := b :: s.bad }

def legalEdge (a b : State) : Bool :=
  (a == .PENDING && b == .JOINING) || (a == .JOINING && b == .PENDING) || (a == .JOINING && b == .ACTIVE) ||
  (a == .PENDING && b == .ACTIVE) || (a == .ACTIVE && b == .LEAVING)

def strictSorted : List Nat → Bool
  | [] => true
  | [_] => true
  | a :: b :: r => a < b && strictSorted (b :: r)

def idsOf (d : Desc) : List String := d.map (·.id)

/-- the property's statements on one recorded callback answer `din ↦ dout` of writer `nd`. -/
def judgeWrite (nd : Node) (ev arg : String) (now : Int) (din dout : Desc) (genReply : List Nat) (committed : Bool) : List String := Id.run do
  let c := nd.cfg
  let mut bad : List String := []
  -- 1. frame
  for id in (idsOf din ++ idsOf dout).eraseDups do
    if id != c.id then
      let a := din.get? id
      let b := dout.get? id
      let same := a == b
      let claimOk := ev == "claim" && id == arg && (match a, b with
        | some x, some y => y == { x with tokens := [] }
        | _, _ => false)
      let forgetOk := c.kind == .BLC && ev == "hb" && (match c.forget, a, b with
        | some p, some x, none => decide (now - x.ts ≥ p)
        | _, _, _ => false)
      if !(same || claimOk || forgetOk) then bad := s!"frame:{ev}" :: bad
  -- tokens chosen now are nobody else's in the ring they were chosen from
  for t in genReply do
    if din.any (fun i => i.id != c.id && i.tokens.contains t) then bad := "generated-token-taken" :: bad
  match din.get? c.id, dout.get? c.id with
  | some a, some b =>
    -- 2. state edges
    if a.state != b.state then
      let ok := legalEdge a.state b.state || (a.state == .LEAVING && b.state == .ACTIVE && ev == "init") ||
        (c.kind == .BLC && ((ev == "cs" && arg == b.state.code) || (ev == "stopd" && b.state == .LEAVING)))
      if !ok then
        bad := (if c.kind == .BLC && ev == "init" then s!"edge-register:{a.state.code}>{b.state.code}" else s!"edge:{a.state.code}>{b.state.code}") :: bad
    -- 3. heartbeat never goes backwards
    if b.ts < a.ts then bad := "heartbeat-backwards" :: bad
    -- 4. registration time kept
    if a.regTs != b.regTs then bad := "registered-changed" :: bad
    if ev == "join" && !(a.tokens.all (b.tokens.contains ·)) then bad := "inherited-tokens-dropped" :: bad
  | _, _ => pure ()
  match dout.get? c.id with
  | some b =>
    if ev == "hb" && committed && b.ts != now then bad := "heartbeat-not-refreshed" :: bad
    -- 5. activation
    let wasActive := match din.get? c.id with | some a => a.state == .ACTIVE | none => false
    if b.state == .ACTIVE && !wasActive then
      -- inherited tokens are kept as they are; what the lifecycler generated itself must be distinct and sorted
      if (nd.generated || !nd.inherited) && !strictSorted b.tokens then
        -- label only: the duplicate is a token of the tokens file that the generator returned again
        bad := (if nd.fileDup then "active-tokens-not-distinct:file-token-regenerated" else "active-tokens-not-distinct-sorted") :: bad
      -- the count is the lifecycler's business when it joined by itself (own join / register) without inherited tokens:
      -- then EXACTLY the configured number. (C09's restart rules use `<`: inherited token lists longer than configured are kept.)
      if nd.joined && !nd.inherited && b.tokens.length != c.numTokens then bad := "active-token-count" :: bad
  | none =>
    if ev == "hb" && committed then bad := "heartbeat-removed-self" :: bad
  return bad

/-- "healthy" for the judge: heartbeat not older than the timeout in WHOLE seconds (the code compares nanoseconds, which at
second granularity is `<`; the judge must not be stricter than the property, so the boundary second is accepted) -/
def healthyLenient (c : Cfg) (now : Int) (i : Inst) : Bool := decide (now - i.ts ≤ c.hbTimeout)

/-- statement 6 on a CheckReady that answered ok for the first time -/
def judgeReady (c : Cfg) (localState : String) (localTokens : String) (store : Option Desc) (now : Int) : List String := Id.run do
  let mut bad : List String := []
  -- (stricter than `PC08.ready_implies_active`, which carries the guard "nobody removed the own entry": a ready answer of a
  -- non-ACTIVE lifecycler IS what the property forbids; the label tells the `ready_without_entry_witness` situation apart)
  let ownMissing := match store with | some d => (d.get? c.id).isNone | none => true
  if localState != "A" then bad := (if ownMissing then "ready-not-active:own-entry-missing" else "ready-not-active") :: bad
  if localTokens == "-" then bad := "ready-without-tokens" :: bad
  if c.readinessRing then
    match store with
    | none => bad := "ready-no-ring" :: bad
    | some d => if !d.all (fun i => i.state == .ACTIVE && healthyLenient c now i) then bad := "ready-ring-unhealthy" :: bad
  return bad

def resolveIn (tracked : Option Desc) (s : String) : Option (Option Desc) :=
  if s == "=" then some tracked else parseStore s

/-- only the FIRST disagreement is reported; the replay goes on so that the judge sees the whole history -/
def setDiff (s : St) (m : String) : St := if s.diff.isSome then s else { s with diff := some m }

/-- one step: model replay (diff) + judge. `crashKinds` are accepted only for C09. -/
def doStep (s : St) (stepNo : Nat) (f : List String) : St :=
  match f with
  | [idx, ev, arg, fault, now, gen, cas, ret, loc, file] =>
    let s := { s with nsteps := s.nsteps + 1 }
    let fail (m : String) : St := setDiff s s!"step{stepNo}:{m}"
    if idx == "E" then
      if ev == "wipe" then
        addFeat { s with store := none, log := { idx := 1000, ev := "wipe", fault := "n", now := now.toInt?.getD 0, before := s.store, after := none, loc := "-", file := "-", ret := "ok", committed := false } :: s.log } "wipe"
      else if ev == "set" then
        match parseStore arg with
        | some st => addFeat { s with store := st, log := { idx := 1000, ev := "set", fault := "n", now := now.toInt?.getD 0, before := s.store, after := st, loc := "-", file := "-", ret := "ok", committed := false } :: s.log } "envset"
        | none => fail "bad-env-store"
      else fail "bad-env-event"
    else
    match idx.toNat?, now.toInt?, parseFile file with
    | some i, some now, some ofile =>
      match s.nodes[i]? with
      | none => fail "bad-node-index"
      | some nd =>
        let c := nd.cfg
        if ev == "crash" then
          let s := if nd.file != ofile then setDiff s s!"step{stepNo}:file model={showFile nd.file}" else s
          { s with nodes := s.nodes.setIfInBounds i { nd with l := {}, latched := false, jFile := ofile },
                   log := { idx := i, ev := "crash", fault := "n", now := now, before := s.store, after := s.store, loc := "dead", file := file, ret := "ok", committed := false } :: s.log }
        else
        match parseEvent ev arg with
        | none => fail "bad-event"
        | some e =>
          -- implementation's CAS record
          let (inS, outS) : String × String := match cas.splitOn ">" with
            | [a, b] => (a, b)
            | _ => ("=", "x")
          match resolveIn s.store inS with
          | none => fail "bad-cas-in"
          | some din =>
            let chainBroken := cas != "x" && showStore din != showStore s.store
            let genReply : List Nat := match gen.splitOn "^" with
              | [_, _, r] => (natList? r).getD []
              | _ => []
            let implGenReq : String := match gen.splitOn "^" with
              | [n, t, _] => n ++ "^" ++ t
              | _ => "-"
            let isCrash := fault == "cb" || fault == "ca"
            let mf : Fault := if fault == "fb" then .failBefore else if fault == "fc" then .failCommit else .none
            -- model
            let r := step c nd.l nd.file din e now (fun _ _ => genReply) mf
            let mOut : String := match r.out with
              | .noCas => "x" | .declined => "nil" | .cbErr => "err" | .write d => "W" ++ showDesc (canon d)
            let committed := (fault == "n" || fault == "ca") && outS.startsWith "W"
            let mLocal := if isCrash then "dead" else showLocal c r.l
            let mFile : File := if isCrash then (match e with | .claim _ => nd.file | _ => r.file) else r.file
            let mRet := if isCrash then "crash" else showRet r.ret
            let d1 : Option String :=
              if chainBroken then some s!"chain tracked={showStore s.store}"
              else if mOut != outS then some s!"cas model={mOut}"
              else if mRet != ret then some s!"ret model={mRet}"
              else if mLocal != loc then some s!"local model={mLocal}"
              else if mFile != ofile then some s!"file model={showFile mFile}"
              else if showGenReq r.genReq != implGenReq then some s!"gen model={showGenReq r.genReq}"
              else none
            let s := match d1 with | some m => setDiff s s!"step{stepNo}:{ev}:{m}" | none => s
            -- judge (implementation's own observation)
            let implOut : Option Desc := if outS.startsWith "W" then parseDesc (outS.drop 1).toString else none
            let ndJ : Node := if ev == "init" then
                let fileToks := match nd.jFile with | .tokens t => c.hasFile && !t.isEmpty | _ => false
                let ringToks := match (din.getD []).get? c.id with | some x => !x.tokens.isEmpty | none => false
                let fileT := match nd.jFile with | .tokens t => t | _ => []
                { nd with inherited := fileToks || ringToks, joined := c.kind == .BLC, latched := false, inits := nd.inits + 1, generated := !genReply.isEmpty,
                          fileDup := c.kind == .BLC && c.hasFile && genReply.any (fileT.contains ·) }
              else if ev == "join" && outS.startsWith "W" then { nd with joined := true, generated := nd.generated || !genReply.isEmpty }
              else if ev == "claim" then { nd with inherited := true }
              else if !genReply.isEmpty then { nd with generated := true } else nd
            let jb : List String := match implOut with
              | some dout => judgeWrite ndJ ev arg now (din.getD []) dout genReply committed
              | none => []
            let (jr, latched) : List String × Bool :=
              if ev == "ready" then
                if ret == "ok" then
                  if ndJ.latched then ([], true)
                  else (judgeReady c ((loc.splitOn "/").headD "?") (((loc.splitOn "/").drop 1).headD "-") s.store now, true)
                else if ndJ.latched then (["ready-unlatched"], true) else ([], false)
              else ([], ndJ.latched)
            let s := (jb ++ jr).foldl addBad s
            -- features for the tags
            let s := if ndJ.inits ≥ 2 && ev == "init" then addFeat s "restart" else s
            let s := if ev == "claim" && committed then addFeat s "claim" else s
            let s := if ev == "verify" then addFeat s "observe" else s
            let s := if ev == "ready" && ret == "ok" then addFeat s "ready" else s
            let s := if ev == "ro" && committed then addFeat s "ro" else s
            let s := if gen != "-" then addFeat s "gen" else s
            let s := if fault != "n" then addFeat s ("fault-" ++ fault) else s
            let s := match implOut with
              | some dout => if ev == "hb" && (din.getD []).any (fun x => x.id != c.id && (dout.get? x.id).isNone) then addFeat s "forget" else s
              | none => s
            let s := if ev == "init" && (match (din.getD []).get? c.id with | some x => x.state == .JOINING | none => false) then addFeat s "initJ" else s
            let s := if ev == "init" && (match (din.getD []).get? c.id with | some x => x.state == .LEAVING | none => false) then addFeat s "initL" else s
            -- advance: the model continues from ITS OWN local state and file, the store from the implementation's writes
            let store' := if committed then (match implOut with | some d => some d | none => s.store) else s.store
            let l' : Local := if isCrash then {} else r.l
            let s := if ev == "claim" && committed then
                { s with nodes := s.nodes.map fun x => if x.cfg.id == arg then { x with inherited := true } else x } else s
            { s with store := store', writes := s.writes + (if committed then 1 else 0),
                     log := { idx := i, ev := ev, arg := arg, fault := fault, now := now, before := s.store, after := store', loc := loc, file := file, ret := ret, committed := committed } :: s.log,
                     nodes := s.nodes.setIfInBounds i { ndJ with l := l', file := mFile, jFile := ofile, latched := if isCrash then false else latched } }
    | _, _, _ => fail "bad-step-fields"
  | _ => setDiff s s!"step{stepNo}:bad-step"

def bucket (n : Nat) : String := if n < 8 then "0-7" else if n < 16 then "8-15" else if n < 32 then "16-31" else "32+"

def runSteps (cfgs files init steps : String) : Option St := do
  let cs ← (cfgs.splitOn ";").mapM parseCfg
  let fs ← (files.splitOn ";").mapM parseFile
  let st ← parseStore init
  if cs.length != fs.length then none
  let nodes : Array Node := (cs.zip fs).toArray.map fun (c, f) => { cfg := c, file := f, jFile := f }
  let s0 : St := { nodes := nodes, store := st }
  let steps := if steps == "" then [] else steps.splitOn " "
  let (s, _) := steps.foldl (fun (acc : St × Nat) stp => (doStep acc.1 acc.2 (stp.splitOn "!"), acc.2 + 1)) (s0, 0)
  pure s

def kindsTag (nodes : Array Node) : String :=
  let l := nodes.toList.map (·.cfg.kind)
  if l.all (· == .LC) then "L" else if l.all (· == .BLC) then "B" else "M"

def handleRun (f : List String) : String × String × String :=
  match f with
  | [_case, cfgs, files, init, steps] =>
    match runSteps cfgs files init steps with
    | none => ("bad-input", "-", "-")
    | some s =>
      let diff := match s.diff with | some m => m | none => "-"
      let judge := if s.bad.isEmpty then "-" else ",".intercalate s.bad.reverse
      let feats := ",".intercalate ((s.feats.toArray.qsort (· < ·)).toList)
      let tags := s!"n={s.nodes.size} kind={kindsTag s.nodes} steps={bucket s.nsteps} writes={bucket s.writes} feat={if feats.isEmpty then "-" else feats}" ++
        (if s.writes < 3 then " trivial" else "")
      (diff, judge, tags)
  | _ => ("bad-fields", "-", "-")

/-! ### real-time glue stream (judge only)

`C08.glue <scenario> <lifecycler>;...`, lifecycler = `id/kind/periodMs/startMs/stopMs/writes`,
writes = `phase:offsetMs:ownEntryTs:wallSecond,...`: every committed CAS of the REAL running service.
Statement judged: "its heartbeat timestamp never goes backwards and, while the store accepts its writes, is
refreshed once per heartbeat period" — tolerant to load: in every window of k ≥ 4 periods inside the time the
service is alive (start .. stop requested; the whole Starting / observe phase included) the own entry was
refreshed at least max 1 (k − 2) times. -/

structure GW where
  ms : Int
  ts : Int
  wall : Int

def parseGW (s : String) : Option GW :=
  match s.splitOn ":" with
  | [_, ms, ts, wall] => do pure { ms := (← ms.toInt?), ts := (← ts.toInt?), wall := (← wall.toInt?) }
  | _ => none

/-- returns (reasons, number of windows checked) -/
def judgeGlueOne (period start stop : Int) (ws : List GW) : List String × Nat × Int := Id.run do
  let mut bad : List String := []
  -- never backwards
  let mut prev : Option Int := none
  for w in ws do
    match prev with
    | some p => if w.ts < p then bad := "heartbeat-backwards" :: bad
    | none => pure ()
    prev := some w.ts
  -- a refresh = a committed write that carries the current time (second resolution, one second of slack)
  let refreshes := (ws.filter fun w => w.ts ≥ w.wall - 1 && w.ms ≤ stop).map (·.ms)
  -- the window in which the lifecycler is alive AND registered begins with its first recorded write
  let start := match ws with | w :: _ => max start w.ms | [] => start
  let anchors := start :: refreshes
  let mut nwin : Nat := 0
  for a in anchors do
    let mut k : Int := 4
    while a + k * period ≤ stop do
      nwin := nwin + 1
      let cnt : Int := (refreshes.filter fun t => a < t && t ≤ a + k * period).length
      if cnt < max (1 : Int) (k - 2) then bad := "heartbeat-not-refreshed-in-window" :: bad
      k := k + 1
  -- longest time without a refresh between two anchors (for the tier used under load)
  let mut maxGap : Int := 0
  let mut last : Int := start
  for t in refreshes do
    if t - last > maxGap then maxGap := t - last
    last := t
  return (bad.eraseDups, nwin, maxGap)

def handleGlueLag (lcs : String) (lag : Nat) : String × String × String :=
  match ["", lcs] with
  | [_name, lcs] =>
    let res := (lcs.splitOn ";").map fun l =>
      match l.splitOn "/" with
      | [_id, kind, period, start, stop, writes] =>
        match period.toInt?, start.toInt?, stop.toInt?, (if writes == "-" then some [] else (writes.splitOn ",").mapM parseGW) with
        | some p, some a, some b, some ws =>
          if p ≤ 0 then (["glue-bad-period"], 0, kind, false) else
          let r := judgeGlueOne p a b ws
          -- under load (second tier): no refresh for three periods plus the measured scheduling delay
          (r.1, r.2.1, kind, decide (r.2.2 ≥ 3 * p + (lag : Int)))
        | _, _, _, _ => (["glue-unparsable"], 0, kind, false)
      | _ => (["glue-unparsable"], 0, "?", false)
    let bad := (res.flatMap (·.1)).eraseDups
    let nwin : Nat := res.foldl (fun acc r => acc + r.2.1) 0
    let kinds := "".intercalate (res.map (·.2.2.1))
    -- a starved harness process (scheduling delays above 400 ms) says nothing about the lifecycler's ticker: the window rule
    -- is dropped; up to 800 ms a gap of 3 periods + the delay is still judged (a late beat costs at most ~2x the delay, a
    -- dropped tick one period: 2P + 2·lag < 3P + lag), above that nothing is
    let overloaded := lag > 400
    let longGap := overloaded && lag ≤ 800 && res.any (·.2.2.2)
    let bad := if overloaded then (bad.filter (· != "heartbeat-not-refreshed-in-window")) ++ (if longGap then ["heartbeat-not-refreshed-for-3-periods"] else []) else bad
    ("-", (if bad.isEmpty then "-" else ",".intercalate bad),
      s!"glue=1 kinds={kinds} windows={if nwin == 0 then "0" else if nwin < 10 then "1-9" else "10+"}" ++ (if overloaded then " overloaded=1" else ""))
  | _ => ("bad-fields", "-", "glue=1")

def handleGlue (f : List String) : String × String × String :=
  match f with
  | [_name, lcs] => handleGlueLag lcs 0
  | [_name, lcs, lag] => handleGlueLag lcs (lag.toNat?.getD 0)
  | _ => ("bad-fields", "-", "glue=1")

/-! ### loop stream: acceptance of the real services' CAS trace by the loop model (`C08.loopNext`)

`C08.loop <case> <cfgs> <unregister flags> <initial store> <trace>`; trace items `M!i!start`, `M!i!req!cs!A`, `M!i!req!ro!1`,
`M!i!req!claim!id`, `M!i!stop`, `M!i!term!state/tokens` (the driver's calls) and `C!i!now!gen!in>out` (one CAS callback
invocation of lifecycler `i`, in commit order). diff = the first CAS (or termination) that NO enabled loop event of
its writer explains; judge = frame / edges / heartbeat / registration time on the recorded writes. -/

/-- one possible state of the loop model of a lifecycler (the acceptance check is a subset simulation: the time at which
the loop serves a request that needs no CAS is not visible in the trace, so several model states can be possible) -/
structure LS where
  ctl : Ctl := {}
  l : Local := {}
  prevL : Local := {}
  startReq : Bool := false
  stopReq : Bool := false
  queue : List Event := []
  deriving DecidableEq, Inhabited

structure LN where
  cfg : Cfg
  unreg : Bool
  states : List LS := [{}]
  -- judge bookkeeping (from the markers only)
  fresh : Bool := false          -- no CAS yet since the last start marker
  reqStates : List String := []  -- ChangeState targets asked for so far
  claims : List String := []     -- ClaimTokensFor sources asked for so far
  stopping : Bool := false
  presentAtStop : Bool := false
  deriving Inhabited

structure Tried where
  out : String
  gen : String
  ctl : Ctl
  l : Local

def mOutOf : CasOut → String
  | .noCas => "x" | .declined => "nil" | .cbErr => "err" | .write d => "W" ++ showDesc (canon d)

def tryEvent (nd : LN) (st : LS) (store : Option Desc) (ev : LEvent) (now : Int) (reply : List Nat) : Option Tried :=
  match loopNext nd.unreg nd.cfg st.ctl st.l .absent store ev now (fun _ _ => reply) with
  | some (.own e _ _ _, ctl') =>
    let r := step nd.cfg st.l .absent store e now (fun _ _ => reply) .none
    some { out := mOutOf r.out, gen := showGenReq r.genReq, ctl := ctl', l := r.l }
  | some (.crash, ctl') => some { out := "x", gen := "-", ctl := ctl', l := {} }
  | _ => none

def candidates (st : LS) : List LEvent :=
  (if st.startReq then [LEvent.start []] else []) ++ (if st.ctl.pending then [LEvent.activate] else []) ++
  (match st.queue with | e :: _ => [LEvent.actor e] | [] => []) ++
  [.observeTimer, .joinTimer, .heartbeat, .startDone] ++ (if st.stopReq then [LEvent.stop, .stopDone] else [])

def applyEv (st : LS) (ev : LEvent) (t : Tried) : LS :=
  let st := { st with prevL := st.l, l := t.l, ctl := t.ctl }
  match ev with
  | .start _ => { st with startReq := false }
  | .actor _ => { st with queue := st.queue.drop 1 }
  | .stopDone => { st with stopReq := false }
  | _ => st

def addNew (acc : List LS) (xs : List LS) : List LS := xs.foldl (fun a x => if a.contains x then a else a ++ [x]) acc

/-- close a set of model states under the loop events that need no CAS (they leave no trace) -/
def silentClosure : Nat → LN → Option Desc → Int → List LS → List LS
  | 0, _, _, _, sts => sts
  | fuel + 1, nd, store, now, sts =>
    let more := sts.flatMap fun st => (candidates st).filterMap fun ev =>
      match tryEvent nd st store ev now [] with
      | some t => if t.out == "x" then some (applyEv st ev t) else none
      | none => none
    let sts' := addNew sts more
    if sts'.length == sts.length then sts else silentClosure fuel nd store now sts'

/-- the model states after a recorded CAS answering `out`: some enabled loop event's handler must answer exactly that -/
def explainAll (nd : LN) (store : Option Desc) (now : Int) (reply : List Nat) (out gen : String) : List LS :=
  let from_ := silentClosure 12 nd store now nd.states
  let next := from_.flatMap fun st => (candidates st).filterMap fun ev =>
    match tryEvent nd st store ev now reply with
    | some t => if t.out == out && t.gen == gen then some (applyEv st ev t) else none
    | none => none
  addNew [] next

def showFinal (c : Cfg) (l : Local) : String :=
  match c.kind with
  | .LC => l.state.code ++ "/" ++ showNatList l.tokens
  | .BLC => match l.cur with | none => "-/-" | some i => i.state.code ++ "/" ++ showNatList i.tokens

structure LA where
  nodes : Array LN
  store : Option Desc
  diff : Option String := none
  bad : List String := []
  ncas : Nat := 0
  lastNow : Int := 0
  maxStates : Nat := 1

def laDiff (s : LA) (m : String) : LA := if s.diff.isSome then s else { s with diff := some m }
def laBad (s : LA) (b : String) : LA := if s.bad.contains b then s else { s with bad := b :: s.bad }

/-- the property's statements on one recorded write of the real service (no model involved) -/
def judgeLoopWrite (nd : LN) (now : Int) (din dout : Desc) : List String := Id.run do
  let c := nd.cfg
  let mut bad : List String := []
  for id in (idsOf din ++ idsOf dout).eraseDups do
    if id != c.id then
      let a := din.get? id
      let b := dout.get? id
      let claimOk := nd.claims.contains id && (match a, b with | some x, some y => y == { x with tokens := [] } | _, _ => false)
      let forgetOk := c.kind == .BLC && (match c.forget, a, b with | some p, some x, none => decide (now - x.ts ≥ p) | _, _, _ => false)
      if !(a == b || claimOk || forgetOk) then bad := "frame" :: bad
  match din.get? c.id, dout.get? c.id with
  | some a, some b =>
    if a.state != b.state then
      let ok := legalEdge a.state b.state || (a.state == .LEAVING && b.state == .ACTIVE && nd.fresh) ||
        (c.kind == .BLC && (nd.reqStates.contains b.state.code || (nd.stopping && b.state == .LEAVING)))
      if !ok then
        bad := (if c.kind == .BLC && nd.fresh then s!"edge-register:{a.state.code}>{b.state.code}" else s!"edge:{a.state.code}>{b.state.code}") :: bad
    if b.ts < a.ts then bad := "heartbeat-backwards" :: bad
    if a.regTs != b.regTs then bad := "registered-changed" :: bad
    -- "tokens inherited from the ring are kept as they are": a full Lifecycler whose entry is and stays ACTIVE does not
    -- change its token list (apart from the explicit hand-over it was asked to perform)
    if c.kind == .LC && a.state == .ACTIVE && b.state == .ACTIVE && a.tokens != b.tokens && nd.claims.isEmpty then
      bad := "active-tokens-changed" :: bad
  | _, _ => pure ()
  return bad

def setStates (s : LA) (i : Nat) (nd : LN) (sts : List LS) : LA :=
  { s with nodes := s.nodes.setIfInBounds i { nd with states := sts }, maxStates := max s.maxStates sts.length }

def loopItem (s : LA) (k : Nat) (item : String) : LA :=
  match item.splitOn "!" with
  | "M" :: idx :: rest =>
    match idx.toNat? with
    | none => laDiff s s!"item{k}:bad-marker"
    | some i =>
      match s.nodes[i]? with
      | none => laDiff s s!"item{k}:bad-node"
      | some nd =>
        let upd (nd : LN) (f : LS → LS) : LA :=
          let sts := silentClosure 12 nd s.store s.lastNow (addNew [] (nd.states.map f))
          setStates s i nd sts
        match rest with
        | ["start"] => upd { nd with fresh := true, stopping := false, reqStates := [], claims := [] } (fun st => { st with startReq := true })
        | ["req", "cs", st] =>
          match State.ofCode st with
          | some x => upd { nd with reqStates := st :: nd.reqStates } (fun q => { q with queue := q.queue ++ [.changeState x] })
          | none => laDiff s s!"item{k}:bad-state"
        | ["req", "ro", b] => upd nd (fun q => { q with queue := q.queue ++ [.changeRO (b == "1")] })
        | ["req", "claim", frm] => upd { nd with claims := frm :: nd.claims } (fun q => { q with queue := q.queue ++ [.claim frm] })
        | ["stop"] => upd { nd with stopping := true, presentAtStop := ((s.store.getD []).get? nd.cfg.id).isSome } (fun q => { q with stopReq := true })
        | ["term", fin] =>
          -- judge: "removal possible on shutdown" only per configuration
          let present := ((s.store.getD []).get? nd.cfg.id).isSome
          let s := if nd.unreg && present then laBad s "stop-did-not-unregister"
            else if !nd.unreg && nd.presentAtStop && !present then laBad s "stop-unregistered-against-config" else s
          let sts := silentClosure 16 nd s.store s.lastNow nd.states
          let done := sts.filter fun st => (st.ctl.phase == .terminated || st.ctl.phase == .failed) &&
            (fin == showFinal nd.cfg st.l || fin == showFinal nd.cfg st.prevL)
          if done.isEmpty then
            laDiff s s!"item{k}:term no model state is terminated with final={fin} (have {sts.map fun st => (repr st.ctl.phase, showFinal nd.cfg st.l)})"
          else setStates s i nd done
        | _ => laDiff s s!"item{k}:bad-marker"
  | ["C", idx, now, gen, cas] =>
    match idx.toNat?, now.toInt?, cas.splitOn ">" with
    | some i, some now, [inS, outS] =>
      match s.nodes[i]?, resolveIn s.store inS with
      | some nd, some din =>
        let s := { s with ncas := s.ncas + 1, lastNow := now }
        let s := if showStore din != showStore s.store then laDiff s s!"item{k}:chain" else s
        let reply : List Nat := match gen.splitOn "^" with | [_, _, r] => (natList? r).getD [] | _ => []
        let implGen : String := match gen.splitOn "^" with | [n, t, _] => n ++ "^" ++ t | _ => "-"
        -- judge on the implementation's own write
        let implOut : Option Desc := if outS.startsWith "W" then parseDesc (outS.drop 1).toString else none
        let s := match implOut with
          | some dout => (judgeLoopWrite nd now (din.getD []) dout).foldl laBad s
          | none => s
        -- acceptance
        let next := explainAll nd s.store now reply outS implGen
        let store' := match implOut with | some d => some d | none => s.store
        let nd := { nd with fresh := false }
        if next.isEmpty then
          let s := laDiff s s!"item{k}:no-loop-event-explains phases={nd.states.map fun st => repr st.ctl.phase} out={(outS.take 80).toString}"
          { s with store := store', nodes := s.nodes.setIfInBounds i nd }
        else
          let s := { s with store := store' }
          setStates s i nd (silentClosure 12 nd store' now next)
      | _, _ => laDiff s s!"item{k}:bad-cas"
    | _, _, _ => laDiff s s!"item{k}:bad-cas-fields"
  | _ => laDiff s s!"item{k}:bad-item"

def handleLoop (f : List String) : String × String × String :=
  match f with
  | [_case, cfgs, unregs, init, trace] =>
    match (cfgs.splitOn ";").mapM parseCfg, parseStore init with
    | some cs, some st =>
      let us := unregs.splitOn ";"
      let nodes : Array LN := (cs.zip us).toArray.map fun (c, u) => { cfg := c, unreg := u == "1" }
      let items := if trace == "" then [] else trace.splitOn " "
      let (s, _) := items.foldl (fun (acc : LA × Nat) it => (loopItem acc.1 acc.2 it, acc.2 + 1)) ({ nodes := nodes, store := st }, 0)
      let kinds := "".intercalate (cs.map fun c => if c.kind == .LC then "L" else "B")
      (s.diff.getD "-", (if s.bad.isEmpty then "-" else ",".intercalate s.bad.reverse),
        s!"loop=1 kinds={kinds} cas={bucket s.ncas} branching={if s.maxStates ≤ 1 then "1" else if s.maxStates ≤ 4 then "2-4" else "5+"}")
    | _, _ => ("bad-input", "-", "loop=1")
  | _ => ("bad-fields", "-", "loop=1")

/-! ### race stream: a registration that loses the compare-and-swap

`C08.race <case> <cfgA;cfgB> <initial store> <A attempt 1> <B> <A attempt 2> <final A> <final B>`, attempt = `now!gen!in>out`:
BasicLifecycler A registers; after its callback ran and before the store compared, B registered; the store re-ran A's
callback on the fresh ring.
* diff  : each attempt must be the model's registration handler on the ring it read (`PC08.cas_retry_is_rerun`: the
          retry is the handler re-run on the fresh ring, from the same remembered state), the remembered entries at the end
          are those of the committed attempts.
* judge : on the COMMITTED writes (A's second attempt, B's only one): frame / edges / registration judge of the run
          stream, and "tokens the registering instance did not hold in the ring its write is based on are nobody else's
          there". -/

structure Attempt where
  now : Int
  genReq : String
  reply : List Nat
  din : Option Desc
  out : String

def parseAttempt (s : String) : Option Attempt :=
  match s.splitOn "!" with
  | [now, gen, cas] =>
    match cas.splitOn ">", now.toInt? with
    | [a, b], some now =>
      match parseStore a with
      | some din =>
        let (req, reply) : String × List Nat := match gen.splitOn "^" with
          | [n, t, r] => (n ++ "^" ++ t, (natList? r).getD [])
          | _ => ("-", [])
        some { now := now, genReq := req, reply := reply, din := din, out := b }
      | none => none
    | _, _ => none
  | _ => none

def raceModel (c : Cfg) (a : Attempt) : Res := step c {} .absent a.din (.init []) a.now (fun _ _ => a.reply) .none

def raceDiff (who : String) (c : Cfg) (a : Attempt) : Option String :=
  let r := raceModel c a
  if mOutOf r.out != a.out then some s!"{who}:cas model={mOutOf r.out}"
  else if showGenReq r.genReq != a.genReq then some s!"{who}:gen model={showGenReq r.genReq}"
  else none

def raceJudge (c : Cfg) (a : Attempt) : List String :=
  if !a.out.startsWith "W" then [] else
  match parseDesc (a.out.drop 1).toString with
  | none => ["unparsable-write"]
  | some dout =>
    let din := a.din.getD []
    let ringToks := match din.get? c.id with | some x => !x.tokens.isEmpty | none => false
    let nd : Node := { cfg := c, inherited := ringToks, joined := true, inits := 1, generated := !a.reply.isEmpty }
    let own0 := match din.get? c.id with | some x => x.tokens | none => []
    let taken := match dout.get? c.id with
      | some b => b.tokens.any (fun t => !own0.contains t && din.any (fun i => i.id != c.id && i.tokens.contains t))
      | none => false
    judgeWrite nd "init" "" a.now din dout a.reply true ++ (if taken then ["registered-token-taken-by-other"] else [])

def handleRace (f : List String) : String × String × String :=
  match f with
  | [_case, cfgs, init, a1, b1, a2, finA, finB] =>
    match cfgs.splitOn ";" |>.map parseCfg, parseStore init, parseAttempt a1, parseAttempt b1, parseAttempt a2 with
    | [some ca, some cb], some st0, some a1, some b1, some a2 =>
      let afterB : Option Desc := if b1.out.startsWith "W" then parseDesc (b1.out.drop 1).toString else st0
      let fin (c : Cfg) (a : Attempt) : String := showLocal c (raceModel c a).l
      let diffs : List (Option String) :=
        [ if showStore a1.din != showStore st0 then some "A1:did-not-read-initial-store" else none,
          if showStore b1.din != showStore st0 then some "B:did-not-read-initial-store" else none,
          if showStore a2.din != showStore afterB then some "A2:did-not-read-fresh-ring" else none,
          raceDiff "A1" ca a1, raceDiff "B" cb b1, raceDiff "A2" ca a2,
          if fin ca a2 != finA then some s!"finalA model={fin ca a2}" else none,
          if fin cb b1 != finB then some s!"finalB model={fin cb b1}" else none ]
      let diff := (diffs.filterMap id).headD "-"
      let bad := (raceJudge cb b1 ++ raceJudge ca a2).eraseDups
      let toksOf (a : Attempt) (id : String) : List Nat := match (if a.out.startsWith "W" then parseDesc (a.out.drop 1).toString else none) with
        | some d => (match d.get? id with | some i => i.tokens | none => []) | none => []
      let clash := (toksOf a1 ca.id).any ((toksOf b1 cb.id).contains ·)
      let ownOld := match (st0.getD []).get? ca.id with | some _ => "yes" | none => "no"
      (diff, if bad.isEmpty then "-" else ",".intercalate bad,
        s!"race=1 tokens={ca.numTokens} stale-choice-clashes={if clash then "yes" else "no"} own-entry={ownOld} states={ca.registerState.code}{cb.registerState.code}")
    | _, _, _, _, _ => ("bad-input", "-", "race=1")
  | _ => ("bad-fields", "-", "race=1")

def handle (cmd : String) (f : List String) : String × String × String :=
  if cmd == "C08.run" then handleRun f
  else if cmd == "C08.loop" then handleLoop f
  else if cmd == "C08.glue" then handleGlue f
  else if cmd == "C08.race" then handleRace f
  else ("unknown-cmd", "-", "-")

end OracleC08
