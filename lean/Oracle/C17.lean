import Model.C17
import Model.C17Snap
/-!
Oracle handlers for C17.

`diff`  : the harness' scheduler actions are replayed on the model LTS (`C17.step`); after every action
          the model is run to quiescence exactly like the harness waits for it (all enabled `tau`s, automatic
          delivery to ordinary listeners, one in-flight callback for gated listeners) and the model's
          snapshot is compared with the implementation's.
`judge` : the property statement evaluated on the implementation's snapshots alone (no model call).
-/
namespace OracleC17
open Common C17

/-! ### small parsing helpers -/

def splitStr (s sep : String) : List String := s.splitOn sep

def natOf (s : String) : Nat := s.toNat?.getD 0

def dropS (s : String) (n : Nat) : String := String.ofList (s.toList.drop n)
def takeS (s : String) (n : Nat) : String := String.ofList (s.toList.take n)
def headC (s : String) : Char := s.toList.headD ' '

def errStr : Option ErrId → String
  | none => "-"
  | some k => toString k

def optErr (k : Nat) : Option ErrId := if k = 0 then none else some k

def notifStr : Notif → String
  | .starting => "S"
  | .running => "R"
  | .stopping f => "P" ++ f.code
  | .terminated f => "T" ++ f.code
  | .failed f e => "F" ++ f.code ++ toString e

def flag (b : Bool) : String := if b then "1" else "0"

def awaitStr : Option AwaitRes → String
  | none => "p"
  | some .ok => "ok"
  | some (.err none) => "e"
  | some (.err (some k)) => "e" ++ toString k

/-! ### the scheduler wrapper around the service LTS -/

structure Sim where
  s : Svc
  kind : Char
  gated : List Nat := []
  busy : List Nat := []
  removedIds : List Nat := []
  lastRet : String := "-"
  wR : Option String := none
  wT : Option String := none
  cR : Option String := none
  cT : Option String := none
  hS : Option (Option String) := none
  hX : Option (Option String) := none
  iterBlocked : Bool := false
  nIter : Nat := 0

def tauEnabled (s : Svc) : Bool :=
  match s.pc with
  | .idle | .inStart | .inRun | .inStop _ | .done => false
  | _ => true

/-- first listener that can take its next callback now. -/
def nextDeliver (m : Sim) : Option Nat :=
  (m.s.lsns.find? fun l => !l.removed && !l.queue.isEmpty && !l.busy).map (·.id)

def settleFuel : Nat → Sim → Sim
  | 0, m => m
  | fuel + 1, m =>
    if tauEnabled m.s then settleFuel fuel { m with s := step m.s .tau }
    else if m.kind == 'i' && m.s.pc == .inRun && m.s.ctxC then
      settleFuel fuel { m with s := step m.s (.runRet none) }
    else if m.kind == 't' && m.s.pc == .inRun && !m.iterBlocked then
      if m.s.ctxC then settleFuel fuel { m with s := step m.s (.runRet none) }
      else settleFuel fuel { m with iterBlocked := true, nIter := m.nIter + 1 }
    else match nextDeliver m with
      | some id =>
        -- an ordinary listener's callback returns at once; a gated one stays inside until `D<id>`
        let s1 := step m.s (.deliver id)
        settleFuel fuel { m with s := if m.gated.contains id then s1 else step s1 (.deliverEnd id) }
      | none => m

/-- value a waiter on the running latch obtains when it wakes during this action; `ok?` = either
`ok` or `e` (the service passed through Running without parking, the waiter races with it). -/
def runWakeValue (m : Sim) : String :=
  if m.s.st = .running then "ok"
  else if m.s.trans.contains .running then "ok?"
  else awaitStr (awaitRunning m.s)

/-- resolve the `ok?` wildcard with the implementation's value (hint) when that is one of the two. -/
def resolve (v hint : String) : String :=
  if v == "ok?" then (if hint == "ok" || hint == "e" then hint else v) else v

structure Hints where
  wR : String := ""
  cR : String := ""
  hS : String := ""

def updateWaiters (m : Sim) (h : Hints) : Sim :=
  let rv := runWakeValue m
  let m := if m.s.runClosed > 0 then
      { m with wR := m.wR <|> some (resolve rv h.wR), cR := m.cR <|> some (resolve rv h.cR),
               hS := match m.hS with
                 | some none => some (some (resolve rv h.hS))
                 | x => x }
    else m
  if m.s.termClosed > 0 then
    let tv := awaitStr (awaitTerminated m.s)
    { m with wT := m.wT <|> some tv, cT := m.cT <|> some tv,
             hX := match m.hX with
               | some none => some (some tv)
               | x => x }
  else m

def applyAction (m : Sim) (a : String) : Sim :=
  let m := { m with lastRet := "-" }
  let k := natOf (dropS a 1)
  if a == "S" then
    { m with lastRet := if startAsyncOk m.s then "ok" else "e", s := step m.s .startAsync }
  else if a == "SA" then
    if startAsyncOk m.s then { m with hS := some none, s := step m.s .startAsync }
    else { m with hS := some (some "e") }
  else if a == "X" then { m with s := step m.s .stopAsync }
  else if a == "XA" then { m with hX := some none, s := step m.s .stopAsync }
  else if a == "P" then { m with s := step m.s .parentCancel }
  else if a == "W" then { m with cR := m.cR <|> some "c", cT := m.cT <|> some "c" }
  else match headC a with
    | 's' => { m with s := step m.s (.startRet (optErr k)) }
    | 'r' => { m with s := step m.s (.runRet (optErr k)) }
    | 'p' => { m with s := step m.s (.stopRet (optErr k)) }
    | 'i' =>
      if m.iterBlocked then
        let m := { m with iterBlocked := false }
        if k = 0 then m else { m with s := step m.s (.runRet (some k)), iterBlocked := true }
      else m
    | 'L' => { m with s := step m.s .addListener }
    | 'G' => { m with gated := m.s.nextL :: m.gated, s := step m.s .addListener }
    | 'R' => { m with s := step m.s (.removeListener k), removedIds := k :: m.removedIds }
    | 'D' => { m with s := step m.s (.deliverEnd k) }
    | _ => m

/-- `SH`: StartAsync, and a StopAsync from a second goroutine that lands after `k` of the service goroutine's
own steps (the second goroutine is released when StartAsync leaves its critical section and races with
`main`). Every `k` is an interleaving of the model; the replay takes the one the implementation showed. -/
def tausN : Nat → Svc → Svc
  | 0, s => s
  | k + 1, s => if tauEnabled s then tausN k (step s .tau) else s

def applyStartHook (m : Sim) (k : Nat) : Sim :=
  let ok := startAsyncOk m.s
  let s1 := step m.s .startAsync
  { m with lastRet := if ok then "ok" else "e", s := step (tausN k s1) .stopAsync }

def callStr (kind : Char) : Call → List String
  | .start c => ["s" ++ flag c]
  | .run c => if kind == 'b' then ["r" ++ flag c] else []
  | .stop c f => ["p" ++ flag c ++ ":" ++ errStr f]

def callsStr (m : Sim) : String :=
  let pre := m.s.calls.filter (fun c => match c with | .stop .. => false | _ => true)
  let post := m.s.calls.filter (fun c => match c with | .stop .. => true | _ => false)
  let l := pre.flatMap (callStr m.kind) ++ List.replicate m.nIter "i0" ++ post.flatMap (callStr m.kind)
  if l.isEmpty then "-" else ",".intercalate l

def lsnStr (m : Sim) (id : Nat) : String :=
  let k := (if m.gated.contains id then "g" else "u") ++ (if m.removedIds.contains id then "x" else "")
  let lg := match m.s.lsns.find? (·.id == id) with
    | some l => if l.seen.isEmpty then "-" else ",".intercalate (l.seen.map notifStr)
    | none => "-"
  toString id ++ k ++ ":" ++ lg

def optStr : Option String → String
  | none => "p"
  | some v => v

def helperStr : Option (Option String) → String
  | none => "-"
  | some none => "p"
  | some (some v) => v

def snapshot (m : Sim) : String :=
  let ctx := if !m.s.started then "n" else flag m.s.ctxC
  let aR := if m.wR.isSome then awaitStr (awaitRunning m.s) else "p"
  let aT := if m.wT.isSome then awaitStr (awaitTerminated m.s) else "p"
  let ls := (List.range m.s.nextL).map (lsnStr m)
  ";".intercalate [m.lastRet, m.s.st.code, errStr m.s.failure, ctx, callsStr m,
    optStr m.wR, optStr m.wT, optStr m.cR, optStr m.cT, aR, aT, helperStr m.hS, helperStr m.hX,
    "/".intercalate ls, if m.s.bad.isEmpty then "-" else "model-bad"]

def initSim (cfg : String) : Sim :=
  let c := cfg.toList
  let b := fun (i : Nat) => c.getD i '0' == '1'
  let kind := c.headD 'b'
  let s := init (b 1) (if kind == 'b' then b 2 else true) (b 3)
  { s := step s .addListener, kind }

structure Snap where
  ret : String
  st : String
  fail : String
  ctx : String
  calls : List String
  wR : String
  wT : String
  cR : String
  cT : String
  aR : String
  aT : String
  hS : String
  hX : String
  lsns : List (String × List String)   -- (header like "1gx", log)
  bad : String
  raw : String

def listOf (s : String) : List String := if s == "-" || s == "" then [] else s.splitOn ","

def parseSnap (raw : String) : Option Snap :=
  match raw.splitOn ";" with
  | [ret, st, fail, ctx, calls, wR, wT, cR, cT, aR, aT, hS, hX, ls, bad] =>
    let lsns := (ls.splitOn "/").map fun x =>
      match x.splitOn ":" with
      | [h, lg] => (h, listOf lg)
      | _ => (x, [])
    some { ret, st, fail, ctx, calls := listOf calls, wR, wT, cR, cT, aR, aT, hS, hX, lsns, bad, raw }
  | _ => none

/-- replay on the model; returns the model's snapshots. -/
def simulate (cfg : String) (acts : List String) (impl : List Snap) : List String :=
  let m0 := updateWaiters (settleFuel 64 (initSim cfg)) {}
  let rec go (m : Sim) (acts : List String) (impl : List Snap) (acc : List String) : List String :=
    match acts with
    | [] => acc.reverse
    | a :: rest =>
      let h : Hints := match impl with
        | sn :: _ => { wR := sn.wR, cR := sn.cR, hS := sn.hS }
        | [] => {}
      let m :=
        if a == "SH" then
          let cands := (List.range 8).map fun k => updateWaiters (settleFuel 64 (applyStartHook m k)) h
          let pickd := match impl with
            | sn :: _ => cands.find? (fun c => snapshot c == sn.raw)
            | [] => none
          pickd.getD (cands.headD m)
        else updateWaiters (settleFuel 64 (applyAction m a)) h
      go m rest impl.tail (snapshot m :: acc)
  go m0 acts impl.tail [snapshot m0]

/-! ### judge: the property statement on the implementation's own snapshots -/

def edgeOf (entry : String) : Option (String × String) :=
  match entry.toList with
  | ['S'] => some ("N", "S")
  | ['R'] => some ("S", "R")
  | 'P' :: f :: _ => some (String.singleton f, "P")
  | 'T' :: f :: _ => some (String.singleton f, "T")
  | 'F' :: f :: _ => some (String.singleton f, "F")
  | _ => none

/-- edges the statement allows (written from the property text). -/
def allowedEdges : List (String × String) :=
  [("N", "S"), ("S", "R"), ("R", "P"), ("S", "P"), ("P", "T"), ("S", "F"), ("P", "F"), ("N", "T")]

def isPrefixOf (a b : List String) : Bool := a == b.take a.length

def chainOk : String → List String → Bool
  | _, [] => true
  | cur, e :: es =>
    match edgeOf e with
    | some (f, t) => f == cur && allowedEdges.contains (f, t) && chainOk t es
    | none => false

def lastTo (log : List String) : String :=
  match log.getLast? with
  | some e => (edgeOf e).map (·.2) |>.getD "?"
  | none => "N"

def fnName (c : String) : String := takeS c 1

def judgeSvc (cfg : String) (acts : List String) (snaps : List Snap) : List String := Id.run do
  let mut bad : List String := []
  let c := cfg.toList
  let kind := c.headD 'b'
  let hasStart := c.getD 1 '0' == '1'
  let hasStop := c.getD 3 '0' == '1'
  let add := fun (l : List String) (k : String) => if l.contains k then l else l ++ [k]
  let some last := snaps.getLast? | return ["no-snapshot"]
  if snaps.length != acts.length + 1 then return ["snapshot-count"]
  -- walk over the steps
  let mut prev : Option Snap := none
  let mut errsReleased : List String := []
  let mut startRetNil := false
  let mut wCancelled := false
  let mut stopRequested := false
  let mut regAt : List (Nat × Nat) := []      -- listener id ↦ primary log length at registration
  let mut released : List Nat := []           -- one entry per executed D<k>
  let mut nextId := 1
  let mut i := 0
  for sn in snaps do
    let a := if i = 0 then "" else acts.getD (i - 1) ""
    i := i + 1
    let l0 := (sn.lsns.headD ("", [])).2
    -- scheduler bookkeeping derived from the action (inputs only)
    if a == "W" then wCancelled := true
    -- a release action counts only if that function was parked in the previous snapshot (the generator
    -- only emits enabled releases; a hand-written or replayed line must not change the verdict)
    let parked := match prev with
      | some p =>
        let st := match headC a with | 's' => "S" | 'r' => "R" | 'i' => "R" | 'p' => "P" | _ => "?"
        a.length == 2 && p.st == st && (p.calls.map fnName).contains (takeS a 1)
      | none => false
    if a == "s0" && parked then startRetNil := true
    if parked && "srpi".toList.contains (headC a) && dropS a 1 != "0" then
      errsReleased := errsReleased ++ [dropS a 1]
    if a == "L" || a == "G" then
      regAt := regAt ++ [(nextId, match prev with | some p => (p.lsns.headD ("", [])).2.length | none => 0)]
      nextId := nextId + 1
    if headC a == 'D' then released := natOf (dropS a 1) :: released
    -- markers of the harness: re-entrant callback, stuck wait
    let otherFlags := (sn.bad.splitOn ",").filter fun x => x != "-" && x != "hkpanic" && x != "hknilctx"
    if !otherFlags.isEmpty then bad := add bad ("harness-flag:" ++ ",".intercalate otherFlags)
    -- transitions: the primary listener saw a legal chain from New ending in the current state
    if !chainOk "N" l0 then bad := add bad "illegal-edge-or-broken-chain"
    if lastTo l0 != sn.st then bad := add bad "state-not-last-transition"
    match prev with
    | some p => if !isPrefixOf (p.lsns.headD ("", [])).2 l0 then bad := add bad "transition-log-rewritten"
    | none => pure ()
    -- StartAsync succeeds exactly from New
    if a == "S" || a == "SH" then
      match prev with
      | some p => if (sn.ret == "ok") != (p.st == "N") then bad := add bad "startasync-result"
      | none => pure ()
    -- starts racing with stops: a StopAsync (or ServiceContext) call issued by another goroutine while
    -- StartAsync is in flight neither crashes nor is lost, and a started service has a context
    let flags := sn.bad.splitOn ","
    if flags.contains "hkpanic" then bad := add bad "stopasync-panicked-during-startasync"
    if flags.contains "hknilctx" then bad := add bad "service-context-nil-while-started"
    if l0.contains "S" && sn.ctx == "n" then bad := add bad "service-context-nil-while-started"
    if a == "X" || a == "SH" then stopRequested := true
    if stopRequested && (sn.st == "N" || ((sn.st == "S" || sn.st == "R") && sn.ctx != "1")) then
      bad := add bad "stop-request-lost"
    -- functions: at most once each, in order start, run, stop
    let fns := (sn.calls.map fnName).filter (· != "i")
    if !([[], ["s"], ["s", "r"], ["s", "p"], ["s", "r", "p"], ["r"], ["r", "p"], ["p"]].contains fns) then bad := add bad "fn-order-or-repeat"
    -- stop function only after a successful start, with the context already cancelled
    for cl in sn.calls do
      if fnName cl == "p" then
        if hasStart && !startRetNil then bad := add bad "stop-without-successful-start"
        if !l0.contains "S" then bad := add bad "stop-without-start"
        if takeS (dropS cl 1) 1 != "1" then bad := add bad "ctx-not-cancelled-at-stop"
    -- waiters are released exactly when the state is reached or can no longer be reached
    let pastStarting := sn.st != "N" && sn.st != "S"
    let term := sn.st == "T" || sn.st == "F"
    if (sn.wR != "p") != pastStarting then bad := add bad "running-waiter-release"
    if (sn.wT != "p") != term then bad := add bad "terminated-waiter-release"
    if (sn.cR != "p") != (pastStarting || wCancelled) then bad := add bad "running-waiter-release-ctx"
    if (sn.cT != "p") != (term || wCancelled) then bad := add bad "terminated-waiter-release-ctx"
    if sn.wR == "ok" && !l0.contains "R" then bad := add bad "await-running-nil-without-running"
    if pastStarting && (sn.aR == "ok") != (sn.st == "R") then bad := add bad "await-running-result"
    if term && (sn.aT == "ok") != (sn.st == "T") then bad := add bad "await-terminated-result"
    if term && (sn.wT == "ok") != (sn.st == "T") then bad := add bad "await-terminated-result"
    if sn.hS == "ok" && !l0.contains "R" then bad := add bad "start-and-await-nil-without-running"
    if sn.hX != "-" && (sn.hX != "p") != term then bad := add bad "stop-and-await-release"
    if sn.hX == "ok" && sn.st != "T" then bad := add bad "stop-and-await-nil-without-terminated"
    -- failure cause = first error returned
    if sn.st == "F" then
      if some sn.fail != errsReleased.head? then bad := add bad "failure-not-first-error"
      if sn.wT != "e" ++ sn.fail || sn.aT != "e" ++ sn.fail then bad := add bad "await-error-without-cause"
    else
      if sn.fail != "-" then bad := add bad "failure-set-in-non-failed-state"
      if sn.st == "T" && !errsReleased.isEmpty then bad := add bad "terminated-despite-error"
    -- listeners: every transition after registration, once, in order
    for (h, lg) in sn.lsns.drop 1 do
      let id := natOf (String.ofList (h.toList.takeWhile Char.isDigit))
      let gated := h.toList.contains 'g'
      let removed := h.toList.contains 'x'
      let r := (regAt.find? (·.1 == id)).map (·.2) |>.getD 0
      let expect := l0.drop r
      if !isPrefixOf lg expect then bad := add bad "listener-wrong-or-reordered"
      else if !removed then
        if !gated && lg.length != expect.length then bad := add bad "listener-missed-transition"
        if gated then
          let rel := (released.filter (· == id)).length
          if lg.length != min (rel + 1) expect.length then bad := add bad "gated-listener-count"
    prev := some sn
  -- at the end: stop function ran iff starting succeeded (once the service is terminal)
  let started := (last.lsns.headD ("", [])).2.contains "S"
  let startSucceeded := started && (if hasStart then startRetNil else true)
  let stopRan := (last.calls.map fnName).contains "p"
  if (last.st == "T" || last.st == "F") && hasStop && startSucceeded && !stopRan then
    bad := add bad "stop-not-run-after-successful-start"
  if kind == 'b' && !hasStop && stopRan then bad := add bad "nil-stop-ran"
  return bad

def handleSvc (f : List String) : String × String × String :=
  match f with
  | [cfg, actsS, obs] =>
    let acts := if actsS == "-" then [] else actsS.splitOn " "
    let raws := obs.splitOn " | "
    match raws.mapM parseSnap with
    | none => ("bad-snapshot", "-", "-")
    | some snaps =>
      let model := simulate cfg acts snaps
      let diff :=
        if model == raws then "-"
        else
          let idx := (List.zip model raws).findIdx (fun p => p.1 != p.2)
          s!"step={idx} model={model.getD idx "?"}"
      let j := judgeSvc cfg acts snaps
      let judge := if j.isEmpty then "-" else ",".intercalate j
      let last := snaps.getLast?
      let started := acts.contains "S" || acts.contains "SA" || acts.contains "SH"
      let nerr := (acts.filter fun a => a.length == 2 && "srpi".toList.contains (headC a) && dropS a 1 != "0").length
      let tags := s!"k=svc cfg={cfg} started={flag started} final={(last.map (·.st)).getD "?"} len={min acts.length 8} lsn={(last.map (·.lsns.length)).getD 0} errs={min nerr 2}"
      (diff, judge, tags)
  | _ => ("bad-fields", "-", "-")

/-! ### manager -/

structure MSim where
  svcs : List Sim
  delivered : List Nat
  mgr : Mgr
  gated : List Nat := []
  busy : List Nat := []
  removedIds : List Nat := []
  lastRet : String := "-"
  lastDeliv : String := "-"
  wH : Option String := none
  wS : Option String := none

def mnotifStr : MNotif → String
  | .healthy => "H"
  | .stopped => "Z"
  | .failure i => "F" ++ toString i

def mNextDeliver (m : MSim) : Option Nat :=
  (m.mgr.lsns.find? fun l => !l.removed && !l.queue.isEmpty && !(m.busy.contains l.id)).map (·.id)

def mSettleL : Nat → MSim → MSim
  | 0, m => m
  | fuel + 1, m =>
    match mNextDeliver m with
    | some id =>
      let mg := Mgr.step m.mgr (.deliver id)
      let bz := if m.gated.contains id then id :: m.busy else m.busy
      mSettleL fuel { m with mgr := mg, busy := bz }
    | none => m

def mSettle (m : MSim) : MSim :=
  let m := { m with svcs := m.svcs.map fun s => updateWaiters (settleFuel 64 s) {} }
  let m := mSettleL 32 m
  let m := if m.mgr.healthyCloses > 0 && m.wH.isNone
    then { m with wH := some (if m.mgr.awaitHealthy == some true then "ok" else "e") } else m
  if m.mgr.stoppedCloses > 0 && m.wS.isNone then { m with wS := some "ok" } else m

def modifyAt {α} (l : List α) (i : Nat) (f : α → α) : List α :=
  l.mapIdx fun j x => if j = i then f x else x

/-- token → (kind, index, k) -/
def parseMAct (a : String) : String × Nat × Nat :=
  if a == "MS" || a == "MX" || a == "P" || a == "ML" || a == "MG" then (a, 0, 0)
  else if (takeS a 2) == "MR" || (takeS a 2) == "MD" then (takeS a 2, natOf (dropS a 2), 0)
  else
    match (dropS a 1).splitOn ":" with
    | [i, k] => (takeS a 1, natOf i, natOf k)
    | [i] => (takeS a 1, natOf i, 0)
    | _ => ("?", 0, 0)

/-- `Manager.StartAsync`: start services in order, stop at the first error. -/
def startAll : List Sim → List Sim × Bool
  | [] => ([], true)
  | s :: rest =>
    if startAsyncOk s.s then
      let (r, ok) := startAll rest
      ({ s with s := step s.s .startAsync } :: r, ok)
    else (s :: rest, false)

def mApply (m : MSim) (a : String) : MSim :=
  let m := { m with lastRet := "-", lastDeliv := "-" }
  let (kind, i, k) := parseMAct a
  let onSvc := fun (f : Sim → Sim) => { m with svcs := modifyAt m.svcs i f }
  match kind with
  | "MS" =>
    let (ss, ok) := startAll m.svcs
    { m with svcs := ss, lastRet := if ok then "ok" else "e" }
  | "MX" => { m with svcs := m.svcs.map fun s => { s with s := step s.s .stopAsync } }
  | "P" => { m with svcs := m.svcs.map fun s => { s with s := step s.s .parentCancel } }
  | "ML" => { m with mgr := m.mgr.step .addListener }
  | "MG" => { m with gated := m.mgr.nextL :: m.gated, mgr := m.mgr.step .addListener }
  | "MR" => { m with mgr := m.mgr.step (.removeListener i), removedIds := i :: m.removedIds }
  | "MD" => { m with busy := m.busy.filter (· != i) }
  | "S" =>
    match m.svcs[i]? with
    | some s => { onSvc (fun s => { s with s := step s.s .startAsync }) with lastRet := if startAsyncOk s.s then "ok" else "e" }
    | none => m
  | "X" => onSvc fun s => { s with s := step s.s .stopAsync }
  | "s" => onSvc fun s => { s with s := step s.s (.startRet (optErr k)) }
  | "r" => onSvc fun s => { s with s := step s.s (.runRet (optErr k)) }
  | "p" => onSvc fun s => { s with s := step s.s (.stopRet (optErr k)) }
  | "d" =>
    match m.svcs[i]? with
    | some s =>
      let seen := ((s.s.lsns.find? (·.id == 1)).map (·.seen)).getD []
      match seen[m.delivered.getD i 0]? with
      | some n => { m with mgr := m.mgr.step (.changed i n), delivered := modifyAt m.delivered i (· + 1),
                           lastDeliv := notifStr n }
      | none => m
    | none => m
  | _ => m

def byStateStr (m : Mgr) : String :=
  let parts := SState.all.filterMap fun st =>
    let l := m.byState st
    if l.isEmpty then none else some (st.code ++ ":" ++ ",".intercalate (l.map toString))
  if parts.isEmpty then "-" else "/".intercalate parts

def mlsnStr (m : MSim) (id : Nat) : String :=
  let k := (if m.gated.contains id then "g" else "u") ++ (if m.removedIds.contains id then "x" else "")
  let lg := match m.mgr.lsns.find? (·.id == id) with
    | some l => if l.seen.isEmpty then "-" else ",".intercalate (l.seen.map mnotifStr)
    | none => "-"
  toString id ++ k ++ ":" ++ lg

def mSnapshot (m : MSim) : String :=
  let pend := (List.zip m.svcs m.delivered).map fun (s, d) =>
    toString ((((s.s.lsns.find? (·.id == 1)).map (·.seen.length)).getD 0) - d)
  let aH := if m.wH.isSome then (if m.mgr.awaitHealthy == some true then "ok" else "e") else "p"
  let aS := if m.wS.isSome then "ok" else "p"
  let svcBad := m.svcs.any fun s => !s.s.bad.isEmpty
  ";".intercalate [m.lastRet, m.lastDeliv, flag (m.mgr.state == .healthy), flag (m.mgr.state == .stopped),
    byStateStr m.mgr, String.join (m.svcs.map (·.s.st.code)), ",".intercalate pend,
    optStr m.wH, optStr m.wS, aH, aS, "/".intercalate ((List.range m.mgr.nextL).map (mlsnStr m)),
    if m.mgr.bad.isEmpty && !svcBad then "-" else "model-bad"]

def initMSim (cfgs : List String) : MSim :=
  let svcs := cfgs.map fun c =>
    let s := initSim ("b" ++ c)
    { s with s := step s.s .addListener }     -- listener 1 = the manager's (proxied) listener
  { svcs, delivered := cfgs.map fun _ => 0, mgr := (Mgr.init cfgs.length).step .addListener }

def mSimulate (cfgs : List String) (acts : List String) : List String :=
  let m0 := mSettle (initMSim cfgs)
  let rec go (m : MSim) (acts : List String) (acc : List String) : List String :=
    match acts with
    | [] => acc.reverse
    | a :: rest =>
      let m := mSettle (mApply m a)
      go m rest (mSnapshot m :: acc)
  go m0 acts [mSnapshot m0]

structure MSnap where
  ret : String
  deliv : String
  h : String
  z : String
  by_ : List (String × List String)
  sts : List Char
  pend : List String
  wH : String
  wS : String
  aH : String
  aS : String
  lsns : List (String × List String)
  bad : String

def parseMSnap (raw : String) : Option MSnap :=
  match raw.splitOn ";" with
  | [ret, deliv, h, z, by_, sts, pend, wH, wS, aH, aS, ls, bad] =>
    let lsns := (ls.splitOn "/").map fun x =>
      match x.splitOn ":" with
      | [hd, lg] => (hd, listOf lg)
      | _ => (x, [])
    let bys := if by_ == "-" then [] else (by_.splitOn "/").map fun x =>
      match x.splitOn ":" with
      | [st, l] => (st, listOf l)
      | _ => (x, [])
    some { ret, deliv, h, z, by_ := bys, sts := sts.toList, pend := pend.splitOn ",", wH, wS, aH, aS, lsns, bad }
  | _ => none

def countOf (l : List String) (x : String) : Nat := (l.filter (· == x)).length

def judgeMgr (cfgs : List String) (acts : List String) (snaps : List MSnap) : List String := Id.run do
  let n := cfgs.length
  let mut bad : List String := []
  let add := fun (l : List String) (k : String) => if l.contains k then l else l ++ [k]
  if snaps.length != acts.length + 1 then return ["snapshot-count"]
  let mut views : List String := List.replicate n "N"     -- last notification handed to the manager, per service
  let mut everHealthy := false
  let mut prev : Option MSnap := none
  let mut regAt : List (Nat × Nat) := []
  let mut released : List Nat := []
  let mut nextId := 1
  let mut i := 0
  for sn in snaps do
    let a := if i = 0 then "" else acts.getD (i - 1) ""
    i := i + 1
    let (kind, idx, _) := parseMAct a
    let l0 := (sn.lsns.headD ("", [])).2
    if kind == "d" then
      match edgeOf sn.deliv with
      | some (f, t) =>
        if views.getD idx "?" != f then bad := add bad "harness-delivered-out-of-order"
        views := modifyAt views idx fun _ => t
      | none => bad := add bad "harness-no-delivery"
    if kind == "ML" || kind == "MG" then
      regAt := regAt ++ [(nextId, match prev with | some p => (p.lsns.headD ("", [])).2.length | none => 0)]
      nextId := nextId + 1
    if kind == "MD" then released := idx :: released
    let otherFlags := (sn.bad.splitOn ",").filter fun x => x != "-" && x != "hkpanic" && x != "hknilctx"
    if !otherFlags.isEmpty then bad := add bad ("harness-flag:" ++ ",".intercalate otherFlags)
    let allRunning := views.all (· == "R")
    let allTerminal := views.all (fun v => v == "T" || v == "F")
    if allRunning then everHealthy := true
    -- healthy exactly while all services run; stopped exactly when all are terminal
    if (sn.h == "1") != allRunning then bad := add bad "healthy-iff-all-running"
    if (sn.z == "1") != allTerminal then bad := add bad "stopped-iff-all-terminal"
    -- once every notification has been handed over the manager's view is the services' real state
    if sn.pend.all (· == "0") then
      if (sn.h == "1") != sn.sts.all (· == 'R') then bad := add bad "healthy-vs-real-states"
      if (sn.z == "1") != sn.sts.all (fun c => c == 'T' || c == 'F') then bad := add bad "stopped-vs-real-states"
    -- ServicesByState partitions the services according to the notifications received
    for j in List.range n do
      let holders := sn.by_.filter fun (_, l) => l.contains (toString j)
      match holders with
      | [(st, l)] => if st != views.getD j "?" || countOf l (toString j) != 1 then bad := add bad "services-by-state"
      | _ => bad := add bad "services-by-state"
      -- each failed service reported exactly once
      let want := if views.getD j "?" == "F" then 1 else 0
      if countOf l0 ("F" ++ toString j) != want then bad := add bad "failure-reported-once"
    if countOf l0 "H" != (if everHealthy then 1 else 0) then bad := add bad "healthy-notified-once"
    if countOf l0 "Z" != (if allTerminal then 1 else 0) then bad := add bad "stopped-notified-once"
    match prev with
    | some p => if !isPrefixOf (p.lsns.headD ("", [])).2 l0 then bad := add bad "manager-log-rewritten"
    | none => pure ()
    -- waiters
    let impossible := views.any fun v => v == "P" || v == "T" || v == "F"
    if (sn.wH != "p") != (everHealthy || impossible) then bad := add bad "await-healthy-release"
    if sn.wH == "ok" && !everHealthy then bad := add bad "await-healthy-nil-without-healthy"
    if sn.wH != "p" && (sn.aH == "ok") != allRunning then bad := add bad "await-healthy-result"
    if (sn.wS != "p") != allTerminal then bad := add bad "await-stopped-release"
    if sn.wS != "p" && sn.wS != "ok" then bad := add bad "await-stopped-result"
    -- Manager.StartAsync succeeds iff every service was New
    if kind == "MS" then
      match prev with
      | some p => if (sn.ret == "ok") != p.sts.all (· == 'N') then bad := add bad "manager-start-result"
      | none => pure ()
    -- further manager listeners see what the primary sees, from their registration on
    for (h, lg) in sn.lsns.drop 1 do
      let id := natOf (String.ofList (h.toList.takeWhile Char.isDigit))
      let gated := h.toList.contains 'g'
      let removed := h.toList.contains 'x'
      let r := (regAt.find? (·.1 == id)).map (·.2) |>.getD 0
      let expect := l0.drop r
      if !isPrefixOf lg expect then bad := add bad "manager-listener-wrong-or-reordered"
      else if !removed then
        if !gated && lg.length != expect.length then bad := add bad "manager-listener-missed"
        if gated then
          let rel := (released.filter (· == id)).length
          if lg.length != min (rel + 1) expect.length then bad := add bad "gated-manager-listener-count"
    prev := some sn
  return bad

def handleMgr (f : List String) : String × String × String :=
  match f with
  | [cfgS, actsS, obs] =>
    let cfgs := cfgS.splitOn ","
    let acts := if actsS == "-" then [] else actsS.splitOn " "
    let raws := obs.splitOn " | "
    match raws.mapM parseMSnap with
    | none => ("bad-snapshot", "-", "-")
    | some snaps =>
      let model := mSimulate cfgs acts
      let diff :=
        if model == raws then "-"
        else
          let idx := (List.zip model raws).findIdx (fun p => p.1 != p.2)
          s!"step={idx} model={model.getD idx "?"}"
      let j := judgeMgr cfgs acts snaps
      let judge := if j.isEmpty then "-" else ",".intercalate j
      let last := snaps.getLast?
      let nd := (acts.filter (fun a => headC a == 'd')).length
      let l0 := (last.map fun s => (s.lsns.headD ("", [])).2).getD []
      let tags := s!"k=mgr n={cfgs.length} deliveries={min nd 9} healthy={flag (l0.contains "H")} stopped={flag (l0.contains "Z")} failures={(l0.filter (fun x => headC x == 'F')).length} mlsn={(last.map (·.lsns.length)).getD 0}"
      (diff, judge, tags)
  | _ => ("bad-fields", "-", "-")

def handleMgrNew (f : List String) : String × String × String :=
  match f with
  | [pre, res] =>
    let sts := if pre == "-" then [] else pre.toList
    let model := if !sts.isEmpty && sts.all (· == 'N') then "ok" else "e"
    -- statement: a manager is built only from at least one service, all of them New
    (if model == res then "-" else "model=" ++ model, "-", s!"k=mgrnew n={sts.length}")
  | _ => ("bad-fields", "-", "-")

/-! ### failure watcher -/

def fwErrsOf (acts : List String) (i : Nat) : List String :=
  acts.filterMap fun a =>
    let (kind, idx, k) := parseMAct a
    if (kind == "s" || kind == "r" || kind == "p") && idx == i && k != 0 then some (toString k) else none

def handleFW (f : List String) : String × String × String :=
  match f with
  | [cfg, actsS, obs] =>
    let n := natOf (dropS cfg 2)
    let acts := if actsS == "-" then [] else actsS.splitOn " "
    let raws := obs.splitOn " | "
    -- model replay
    let sims0 := (List.range n).map fun _ => updateWaiters (settleFuel 64 (initSim "b111")) {}
    let render := fun (w : FW) (sims : List Sim) =>
      (if w.forwarded.isEmpty then "-" else ",".intercalate (w.forwarded.map fun p => toString p.2)) ++ ";" ++
        flag (w.chanCloses > 0) ++ ";" ++ toString w.panics ++ ";" ++ String.join (sims.map (·.s.st.code))
    let rec go (w : FW) (sims : List Sim) (acts : List String) (acc : List String) : List String :=
      match acts with
      | [] => acc.reverse
      | a :: rest =>
        let (kind, i, k) := parseMAct a
        let was := sims.map (·.s.st)
        let (w, sims) :=
          if a == "C" then (w.step .close, sims)
          else if a == "WS" then (w.step .watch, sims)
          else
            let ev : Option Ev := match kind with
              | "S" => some .startAsync | "X" => some .stopAsync
              | "s" => some (.startRet (optErr k)) | "r" => some (.runRet (optErr k)) | "p" => some (.stopRet (optErr k))
              | _ => none
            match ev with
            | some ev => (w, modifyAt sims i fun s => updateWaiters (settleFuel 64 { s with s := step s.s ev }) {})
            | none => (w, sims)
        -- a service that has just failed runs the watcher's Failed callback (if still registered)
        let w := (List.zip (List.range n) (List.zip was sims)).foldl (fun w (j, (st0, s)) =>
          -- the harness' reader receives at once
          if st0 != .failed && s.s.st == .failed then (w.step (.failure j (s.s.failure.getD 0))).step .recv else w) w
        go w sims rest (render w sims :: acc)
    let model := go {} sims0 acts [render {} sims0]
    let implNoTo := raws.map fun r => ";".intercalate ((r.splitOn ";").take 4)
    let diff := if model == implNoTo then "-" else
      let idx := (List.zip model implNoTo).findIdx (fun p => p.1 != p.2)
      s!"step={idx} model={model.getD idx "?"}"
    -- judge: each failure forwarded once (while the watcher is open), nothing else; Close idempotent
    let j : List String := Id.run do
      let mut bad : List String := []
      if raws.any (fun r => (r.splitOn ";").length > 4) then bad := bad ++ ["harness-flag:stuck"]
      let mut closedAt : Option Nat := none
      let mut wsAfterClose := 0
      let mut idx := 0
      for a in acts do
        idx := idx + 1
        if a == "C" && closedAt.isNone then closedAt := some idx
        if a == "WS" && closedAt.isSome then wsAfterClose := wsAfterClose + 1
      let snaps := raws.map fun r => r.splitOn ";"
      let last := snaps.getLast?.getD []
      let fwd := listOf (last.getD 0 "-")
      for jx in List.range n do
        -- step at which service jx is first seen Failed
        let failedAt := snaps.findIdx fun sn => ((sn.getD 3 "").toList.getD jx '?') == 'F'
        let failed := failedAt < snaps.length
        let open_ := match closedAt with | some c => failedAt < c | none => true
        let mine := fwd.filter fun e => let k := natOf e; 3 * jx + 1 ≤ k && k ≤ 3 * jx + 3
        let want : List String := if failed && open_ then (fwErrsOf acts jx).take 1 else []
        if mine != want then bad := bad ++ ["failure-not-forwarded-exactly-once"]
      if (last.getD 1 "") != flag closedAt.isSome then bad := bad ++ ["chan-closed-iff-close"]
      if natOf (last.getD 2 "0") != wsAfterClose then bad := bad ++ ["close-or-watch-panicked"]
      return bad
    let judge := if j.isEmpty then "-" else ",".intercalate j
    let nf := (listOf (((raws.getLast?.getD "").splitOn ";").getD 0 "-")).length
    (diff, judge, s!"k=fw mode={takeS cfg 1} n={n} forwarded={nf} closes={min (countOf acts "C") 2}")
  | _ => ("bad-fields", "-", "-")

/-- `C17.fwblock`: a failure watcher WITHOUT a permanent reader. Actions: S<i> / s<i>:<k> (service i is started /
its start function returns error k), C (Close in a goroutine), WS (WatchService in a goroutine), RD (one receive).
Snapshot: received failures ; calls (Close + WatchService) that have returned ; WatchService calls that panicked. -/
def handleFWBlock (f : List String) : String × String × String :=
  match f with
  | [ns, actsS, obs] =>
    let n := natOf ns
    let acts := if actsS == "-" then [] else actsS.splitOn " "
    let raws := obs.splitOn " | "
    let sims0 := (List.range n).map fun _ => updateWaiters (settleFuel 64 (initSim "b111")) {}
    let render := fun (w : FW) (calls queuedWS panics : Nat) =>
      (if w.forwarded.isEmpty then "-" else ",".intercalate (w.forwarded.map fun p => toString p.2)) ++ ";" ++
        toString (calls - (w.waitingCalls + (if w.closing then 1 else 0))) ++ ";" ++
        toString (panics + (if w.closed then queuedWS else 0))
    let rec go (w : FW) (sims : List Sim) (calls queuedWS panics : Nat) (acts : List String) (acc : List String) : List String :=
      match acts with
      | [] => acc.reverse
      | a :: rest =>
        let (kind, i, k) := parseMAct a
        let was := sims.map (·.s.st)
        let (w, sims, calls, queuedWS, panics) :=
          if a == "C" then (w.step .close, sims, calls + 1, queuedWS, panics)
          else if a == "WS" then
            (w.step .watch, sims, calls + 1, if w.closing then queuedWS + 1 else queuedWS, if w.closed then panics + 1 else panics)
          else if a == "RD" then (w.step .recv, sims, calls, queuedWS, panics)
          else
            let ev : Option Ev := match kind with
              | "S" => some .startAsync
              | "s" => some (.startRet (optErr k))
              | _ => none
            match ev with
            | some ev => (w, modifyAt sims i fun s => updateWaiters (settleFuel 64 { s with s := step s.s ev }) {}, calls, queuedWS, panics)
            | none => (w, sims, calls, queuedWS, panics)
        let w := (List.zip (List.range n) (List.zip was sims)).foldl (fun w (j, (st0, s)) =>
          if st0 != .failed && s.s.st == .failed then w.step (.failure j (s.s.failure.getD 0)) else w) w
        go w sims calls queuedWS panics rest (render w calls queuedWS panics :: acc)
    let model := go {} sims0 0 0 0 acts [render {} 0 0 0]
    let diff := if model == raws then "-" else
      let idx := (List.zip model raws).findIdx (fun p => p.1 != p.2)
      s!"step={idx} model={model.getD idx "?"}"
    -- no clause of the property speaks about Close blocking: observation only
    (diff, "-", s!"k=fwblock n={n} closes={min (countOf acts "C") 2} reads={min (countOf acts "RD") 3}")
  | _ => ("bad-fields", "-", "-")

/-! ### StartAsync racing with StopAsync (stress stream)

Inputs: batch number, number of trials. Observation: `startWon,stopWon,lost,slow,panicked` counted once both
calls of a trial had returned. Model: on a fresh idle service every interleaving of the two calls with the
service's own steps (stop first; or stop after `k` steps of `main`) ends in a terminal state, with StartAsync
refused exactly when the stop came first. The judge is the statement itself: a stop request that has returned
is never lost, whichever call won. -/
def raceModelFinals : List (String × String) :=
  let m0 := updateWaiters (settleFuel 64 (initSim "i010")) {}
  let stopFirst := settleFuel 64 (applyAction (settleFuel 64 (applyAction m0 "X")) "S")
  let startFirst := (List.range 8).map fun k => settleFuel 64 (applyStartHook m0 k)
  (stopFirst :: startFirst).map fun m =>
    (m.lastRet, match m.s.st with | .terminated => "T" | .failed => "F" | _ => "live")

def handleRace (f : List String) : String × String × String :=
  match f with
  | [_batch, trialsS, obs] =>
    match (obs.splitOn ",").map natOf with
    | [startWon, stopWon, lost, slow, panicked] =>
      let finals := raceModelFinals
      let modelOk := finals.all (fun p => p.2 == "T") && finals.head? == some ("e", "T") &&
        (finals.drop 1).all (fun p => p.1 == "ok")
      let diff :=
        if !modelOk then "model-has-a-live-interleaving"
        else if lost > 0 || panicked > 0 || startWon + stopWon != natOf trialsS then
          s!"model=every interleaving of StartAsync and StopAsync ends Terminated; lost={lost} panicked={panicked}"
        else "-"
      let j := (if lost > 0 then ["start-stop-race-left-service-running"] else []) ++
        (if panicked > 0 then ["start-stop-race-panicked"] else [])
      let judge := if j.isEmpty then "-" else ",".intercalate j
      let tags := s!"k=race both={flag (startWon > 0 && stopWon > 0)} slow={flag (slow > 0)}"
      (diff, judge, tags)
    | _ => ("bad-observation", "-", "-")
  | _ => ("bad-fields", "-", "-")

/-! ### C17.snap — ServicesByState() results kept / written by the caller -/

def snapStates : List SState := [.new, .starting, .running, .stopping, .terminated, .failed]

def snapCode : SState → Char
  | .new => 'N' | .starting => 'S' | .running => 'R' | .stopping => 'P' | .terminated => 'T' | .failed => 'F'

def snapRenderBy (bs : SState → List Nat) : String :=
  ";".intercalate (snapStates.map fun s =>
    let l := bs s
    if l.isEmpty then "-" else ",".intercalate (l.map toString))

def parseSnapAct (a : String) : SnapAct :=
  match a.toList with
  | 'S' :: r => .start ((String.ofList r).toNat?.getD 0)
  | 'T' :: r => .stop ((String.ofList r).toNat?.getD 0)
  | 'K' :: _ => .keep
  | 'A' :: _ => .append
  | _ => .overwrite

def snapObs (x : SnapSys) : String :=
  let integ := String.ofList (x.kept.map fun k => if k.2 then 'w' else '1')
  snapRenderBy x.mgr.byState ++ "~" ++ (if x.mgr.state == .healthy then "1" else "0") ++
    (if x.mgr.state == .stopped then "1" else "0") ++ "~" ++ String.ofList (x.svc.map snapCode) ++ "~" ++
    (if integ.isEmpty then "-" else integ)

def snapTokens (s : String) : List Nat :=
  if s == "-" || s == "" then [] else (s.splitOn ",").map fun t => t.toNat?.getD 999

def judgeSnapObs (o : String) : List String :=
  match o.splitOn "~" with
  | lists :: hz :: sts :: integ :: rest =>
    let ls := lists.splitOn ";"
    let st := sts.toList
    let wrong := (List.range snapStates.length).any fun k =>
      let want := (List.range st.length).filter fun i => st.getD i '?' == snapCode (snapStates.getD k .new)
      (snapTokens (ls.getD k "-")).mergeSort != want
    let allRun := st.all (· == 'R')
    let allTerm := st.all fun c => c == 'T' || c == 'F'
    (if wrong then ["services-by-state-wrong"] else []) ++
    (if (hz.toList.getD 0 '0' == '1') != allRun then ["healthy-iff-all-running"] else []) ++
    (if (hz.toList.getD 1 '0' == '1') != allTerm then ["stopped-iff-all-terminal"] else []) ++
    (if integ.toList.contains '0' then ["snapshot-changed-by-manager"] else []) ++
    (if rest.isEmpty then [] else ["harness-flag:stuck"])
  | _ => ["bad-observation"]

def handleSnap (f : List String) : String × String × String :=
  match f with
  | [ns, actsS, obsS] =>
    let n := ns.toNat?.getD 0
    let acts := (actsS.splitOn ",").map parseSnapAct
    let obs := obsS.splitOn "|"
    let (_, mobs) := acts.foldl (fun (acc : SnapSys × List String) a =>
      let x := acc.1.step a
      (x, acc.2 ++ [snapObs x])) (SnapSys.init n, [])
    let diff := if mobs == obs then "-" else "model=" ++ "|".intercalate mobs
    let j := (obs.flatMap judgeSnapObs).eraseDups
    let judge := if j.isEmpty then "-" else ",".intercalate j
    let keeps := (acts.filter (· == .keep)).length
    let writes := (acts.filter fun a => a == .append || a == .overwrite).length
    let started := if acts.any (fun a => match a with | .start _ => true | _ => false) then 1 else 0
    (diff, judge, s!"k=snap n={n} acts={min acts.length 16} keeps={min keeps 4} writes={min writes 3} started={started}")
  | _ => ("bad-fields", "-", "-")

def handle (cmd : String) (f : List String) : String × String × String :=
  if cmd == "C17.race" then handleRace f
  else if cmd == "C17.svc" then handleSvc f
  else if cmd == "C17.mgr" then handleMgr f
  else if cmd == "C17.mgrnew" then handleMgrNew f
  else if cmd == "C17.fw" then handleFW f
  else if cmd == "C17.fwblock" then handleFWBlock f
  else if cmd == "C17.snap" then handleSnap f
  else ("unknown-cmd", "-", "-")

end OracleC17
