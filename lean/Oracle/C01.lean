import Model.C01
import Model.C01Spec
/-!
Oracle handlers for C01.

* `C01.get    cfg now desc key op api | ringTokens ids maxErrors err`
  - diff : (a) the observed `ringTokens` is what the model's `GetTokens` (loser-tree merge) yields;
           (b) the model's `getWith` on that token circle equals the observation.
  - judge: the declarative `specGet` (computed from the descriptor only) against the observation:
           fails-iff, replica set (as a set), error tolerance.
* `C01.merge  lists | merged`  : `ring.MergeTokens` vs `loserMerge`; judge: sorted union of the inputs.
* `C01.search tokens key | idx`: `searchToken`; judge: index of the first token > key, else 0.
-/
namespace OracleC01
open Common Ring C01

/-- `rf,za,timeout[,excludedZone|excludedZone…]` (`~` = the empty zone) -/
def parseCfgEx (s : String) : Option (Cfg × List String) :=
  match s.splitOn "," with
  | [rf, za, to] => do
    pure ({ rf := (← rf.toNat?), zoneAware := za == "1", hbTimeout := (← to.toInt?) }, [])
  | [rf, za, to, ex] => do
    pure ({ rf := (← rf.toNat?), zoneAware := za == "1", hbTimeout := (← to.toInt?) }, (ex.splitOn "|").map str?)
  | _ => none

def parseCfg (s : String) : Option Cfg := (parseCfgEx s).map (·.1)

def showIds (l : List Inst) : String := if l.isEmpty then "-" else ",".intercalate (l.map (showStr ·.id))

/-- is `obs` what `Desc.GetTokens()` returns? (`PC01.getTokens_sorted`: the loser-tree merge does not
depend on the map iteration order, so the id order is as good as any.) -/
def tokensAccepted (d : Desc) (obs : List Nat) : Bool := getTokens d == obs

def opName (op : Op) : String :=
  if op == opWrite then "W" else if op == opWriteNoExtend then "WN" else if op == opRead then "R"
  else if op == opReporting then "Rep" else "custom"

def insertS (x : String) : List String → List String
  | [] => [x]
  | y :: ys => if x ≤ y then x :: y :: ys else y :: insertS x ys
def sortS (l : List String) : List String := l.foldr insertS []

def keyClass (toks : List Nat) (key : Nat) : String :=
  if toks.isEmpty then "none"
  else if toks.contains key then "eq"
  else if toks.contains (key + 1) then "before"
  else if key > 0 && toks.contains (key - 1) then "after"
  else if toks.all (· < key) then "wrap"
  else if toks.all (· > key) then "first"
  else "mid"

def bucket (n : Nat) : String := if n ≤ 3 then toString n else if n ≤ 8 then "4-8" else "9+"

/-- the four built-in operations by name (documented masks of the model), others as numeric masks -/
def parseOpName (s : String) : Option Op :=
  if s == "W" then some opWrite else if s == "WN" then some opWriteNoExtend
  else if s == "R" then some opRead else if s == "Rep" then some opReporting
  else s.toNat?

def handleGet (f : List String) : String × String × String :=
  match f with
  | [cfgS, nowS, descS, keyS, opS, apiS, toksS, idsS, meS, errS] =>
    match parseCfgEx cfgS, nowS.toInt?, parseDesc descS, keyS.toNat?, parseOpName opS, natList? toksS, meS.toNat? with
    | some (cfg, excluded), some now, some d0, some key, some op, some obsToks, some obsMe =>
      -- `updateRingState` drops the instances of cfg.ExcludedZones before indexing
      let d := excludeZones excluded d0
      let rfCall : Int := if apiS == "get" then cfg.rf else ((apiS.drop 4).toString.toInt?).getD 0
      -- correspondence (a): the realised token circle
      let tokOk := tokensAccepted d obsToks
      -- correspondence (b): the model on the realised token circle
      let (mIds, mMe, mErr) := match getWith cfg d obsToks key op now rfCall with
        | .ok r => (showIds r.instances, r.maxErrors, "ok")
        | .error e => ("-", 0, e.name)
      let diffs := (if tokOk then [] else ["ringTokens-not-a-GetTokens-result:model=" ++ showNatList (getTokens d)]) ++
        (if mIds == idsS && mMe == obsMe && mErr == errS then [] else [s!"model={mIds}|{mMe}|{mErr}"])
      let diff := if diffs.isEmpty then "-" else " ".intercalate diffs
      -- judge: property statement on the implementation's own observation
      let effective := decide (rfCall ≤ cfg.rf)
      let spec := specGet cfg op d key now
      let obsOk := errS == "ok"
      let obsIds := if idsS == "-" then [] else idsS.splitOn ","
      -- the specification is only meaningful on ring contents the property quantifies over
      let wf := decide (WFRing d) && decide (TokensU32 d)
      let j : List String :=
        if !effective || !wf then []
        else if errS != "ok" && errS != "emptyRing" && errS != "tooManyUnhealthy" then ["unexpected-failure-" ++ errS]
        else if obsOk && !spec.ok then ["succeeds-without-healthy-majority"]
        else if !obsOk && spec.ok then ["fails-although-majority-healthy"]
        else if !obsOk then []
        else
          (if sortS obsIds == sortS (spec.instances.map (showStr ·.id)) then [] else ["replica-set-differs"]) ++
          (if obsMe == spec.maxErrors then [] else ["error-tolerance-differs"])
      let judge := if j.isEmpty then "-" else ",".intercalate j
      let w := specWalked cfg op d key
      let nExt := (w.filter (fun i => extendsOn op i.state)).length
      let nUnh := (w.filter (fun i => !isHealthy op cfg.hbTimeout now i)).length
      let all := sortedTokens d
      let tags := s!"get za={cfg.zoneAware} rf={cfg.rf} op={opName op} n={bucket d.length} res={errS} " ++
        s!"ext={min nExt 2} unh={min nUnh 2} key={keyClass all key} maxtok={all.contains maxToken} " ++
        s!"tokenless={d.any (·.tokens.isEmpty)} dropped={obsToks != all} api={(apiS.take 3).toString} " ++
        s!"ro={d.any (·.ro)} excl={!excluded.isEmpty} wf={wf} unsorted={d.any fun i => sortNat i.tokens != i.tokens}"
      (diff, judge, tags)
    | _, _, _, _, _, _, _ => ("bad-input", "-", "-")
  | _ => ("bad-fields", "-", "-")

def parseLists (s : String) : Option (List (List Nat)) :=
  if s == "" then some [] else (s.splitOn ";").mapM natList?

def handleMerge (f : List String) : String × String × String :=
  match f with
  | [listsS, obsS] =>
    match parseLists listsS, natList? obsS with
    | some lists, some obs =>
      let m := loserMerge lists
      let diff := if m == obs then "-" else "model=" ++ showNatList m
      let want := sortNat lists.flatten
      let judge := if obs == want then "-" else "token-circle-not-sorted-union"
      let hasMaxHead := lists.any (fun l => l.head? == some maxToken)
      (diff, judge, s!"merge lists={bucket lists.length} empty={lists.any List.isEmpty} maxhead={hasMaxHead} max={lists.flatten.contains maxToken} dropped={obs != want}")
    | _, _ => ("bad-input", "-", "-")
  | _ => ("bad-fields", "-", "-")

def handleSearch (f : List String) : String × String × String :=
  match f with
  | [toksS, keyS, obsS] =>
    match natList? toksS, keyS.toNat?, obsS.toNat? with
    | some toks, some key, some obs =>
      let m := searchToken toks key
      let diff := if m == obs then "-" else s!"model={m}"
      let want := match toks.findIdx? (fun t => decide (key < t)) with
        | some j => j
        | none => 0
      let judge := if obs == want then "-" else "not-first-token-greater-than-key"
      (diff, judge, s!"search len={bucket toks.length} key={keyClass toks key}")
    | _, _, _ => ("bad-input", "-", "-")
  | _ => ("bad-fields", "-", "-")

def handle (cmd : String) (f : List String) : String × String × String :=
  if cmd == "C01.get" then handleGet f
  else if cmd == "C01.merge" then handleMerge f
  else if cmd == "C01.search" then handleSearch f
  else ("unknown-cmd", "-", "-")

end OracleC01
