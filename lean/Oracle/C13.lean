import Model.C13
import Oracle.C12
/-!
Oracle handlers for C13.

* `C13.hist  za rf streams steps | long fresh` — one long-lived `Ring` (caches on) fed with the
  update steps and asked the query steps; `long` / `fresh` are the `|`-separated answers of the
  long-lived client and of a client freshly built (cache-less) from the latest descriptor.
  steps: `U!kind!desc`, `Q!S!ident!size`, `Q!L!ident!size!period!now`, `Q!G!key`, `Q!C`, `Q!A`,
  `Q!I!id`, `Q!X!W!key` (Get, Write op), `Q!X!R` (GetReplicationSetForOperation(Read)),
  `Q!X!T!id` (token ranges), `Q!X!Z` (Zones) — all modelled (`C13.readGet`, `readAll`, `readRanges`,
  `readZones`, `getOnShard(LB)` for the Get on the returned sub-ring, 4th component of S / L answers).
  An answer may carry `#`-separated components; the model reproduces a prefix of them.
* `C13.phist rfcache streams steps | long fresh` — the same for `PartitionRingWatcher`.
* `C13.conc  round za n phases | mismatches` — concurrent readers (judge only, see `handleConc`).

diff  = the model of the long-lived client reproduces the long-lived client's answers;
judge = every answer of the long-lived client equals the fresh client's answer.
-/
namespace OracleC13
open Common Ring C12 C13

def parseStreams (s : String) : Option (List ((String × String) × Array Nat)) :=
  if s == "-" then some [] else
  (s.splitOn "|").mapM fun p => match p.splitOn "=" with
    | [iz, vs] =>
      match iz.splitOn "@" with
      | [i, z] => do pure ((i, str? z), (← natList? vs).toArray)
      | _ => none
    | _ => none

def startsFn (st : List ((String × String) × Array Nat)) : Streams := fun i z n =>
  match st.lookup (i, z) with
  | some a => a.getD n 0
  | none => 0

def showCmp : Cmp → String
  | .equal => "E" | .equalButStatesAndTimestamps => "S" | .different => "D"

def zonesOfMembers (d : Desc) : Nat := (OracleC12.dedup (d.map (·.zone))).length

def showSub (d : Desc) : String := s!"{showDesc d}#{d.length}#{zonesOfMembers d}"

def zoneNames : List String := ["", "a", "b", "c", "d", "e"]

def showCounts (c : Counts) : String :=
  s!"{c.instances},{c.zones},{c.withTokens},{c.writableWithTokens};" ++
  ";".intercalate (c.perZone.map fun (z, a, b, w) => s!"{showStr z}:{a}:{b}:{w}")

/-- number of `#` components of an answer the model reproduces. -/
def prefixOf (ans : String) (n : Nat) : String := "#".intercalate ((ans.splitOn "#").take n)

structure St where
  c : Client
  out : List String := []   -- model answers (reversed)
  hits : Nat := 0           -- queries served from a shuffle-shard cache

/-- heartbeat timeout of the tie (100 years, seconds) and the clock value handed to the health checks:
every instance is heartbeat-healthy whatever the real clock says. -/
def hbTie : Int := 3153600000
def nowTie : Int := 1700000000
def allOp : C01.Op := C01.newOp C01.allStates none

def showInstsOrd (l : List Inst) : String := if l.isEmpty then "-" else ";".intercalate (l.map showInst)
def errName (e : C01.Err) : String := match e with | .emptyRing => "err:empty" | _ => "err"
/-- `Get` answers: instances in selection order `^` MaxErrors (sub-ring), or with the two zone fields. -/
def showGetSub (r : Except C01.Err C01.RSet) : String :=
  match r with | .ok rs => s!"{showInstsOrd rs.instances}^{rs.maxErrors}" | .error e => errName e
def showGetW (r : Except C01.Err C01.RSet) : String :=
  match r with | .ok rs => s!"{showInstsOrd rs.instances}^{rs.maxErrors}^0^0" | .error e => errName e
def showAll (r : Except C01.Err C02.RSetAll) : String :=
  match r with
  | .ok rs => s!"{showInstsOrd rs.instances}^{rs.maxErrors}^{rs.maxUnavailableZones}^{if rs.zoneAware then 1 else 0}"
  | .error e => errName e

def step (rf : Nat) (st : Streams) (s : St) (stepStr : String) (implAns : String) : St :=
  let put := fun (c : Client) (a : String) => ({ c := c, out := a :: s.out, hits := s.hits } : St)
  let putH := fun (h : Bool) (c : Client) (a : String) => ({ c := c, out := a :: s.out, hits := if h then s.hits + 1 else s.hits } : St)
  match stepStr.splitOn "!" with
  | ["U", _kind, d] =>
    match parseDesc d with
    | some d => put (update s.c d) (showCmp (ringCompare s.c.desc d))
    | none => put s.c "parse-error"
  | ["Q", "S", ident, size, _key] =>
    match size.toInt? with
    | some size =>
      let hit := (lookupAssoc (⟨ident, size⟩ : Key) s.c.cache).isSome
      let g := showGetSub (getOnShard s.c st rf hbTie ident size (_key.toNat?.getD 0) allOp nowTie)
      let (m, c') := queryShard s.c st ident size; putH hit c' (showSub m ++ "#" ++ g)
    | none => put s.c "parse-error"
  | ["Q", "L", ident, size, period, now, _key] =>
    match size.toInt?, period.toInt?, now.toInt? with
    | some size, some period, some now =>
      let hit := match lookupAssoc (⟨ident, size, period⟩ : LKey) s.c.lbCache with
        | some e => !(now - period < e.after || now - period > e.before)
        | none => false
      let g := showGetSub (getOnShardLB s.c st rf hbTie ident size period now (_key.toNat?.getD 0) allOp nowTie)
      let (m, c') := queryShardLB s.c st ident size period now; putH hit c' (showSub m ++ "#" ++ g)
    | _, _, _ => put s.c "parse-error"
  | ["Q", "O", mask, key] =>
    let healthy := mask.toList.filterMap fun ch =>
      if ch == 'A' then some State.ACTIVE else if ch == 'L' then some State.LEAVING else if ch == 'P' then some State.PENDING
      else if ch == 'J' then some State.JOINING else if ch == 'X' then some State.LEFT else none
    let m := readOpSub s.c.desc healthy
    put s.c (showSub m ++ "#" ++ showGetSub (subGet (s.c.rcfg rf hbTie) m (key.toNat?.getD 0) allOp nowTie))
  | ["Q", "G", key] =>
    match key.toNat? with
    | some key =>
      put s.c (match readGet (s.c.rcfg rf hbTie) s.c.idx s.c.desc key allOp nowTie rf with
        | .ok rs => showInstsOrd rs.instances | .error _ => "err")
    | none => put s.c "parse-error"
  | ["Q", "X", "W", key] =>
    match key.toNat? with
    | some key => put s.c (showGetW (readGet (s.c.rcfg rf hbTie) s.c.idx s.c.desc key C01.opWrite nowTie rf))
    | none => put s.c "parse-error"
  | ["Q", "X", "R"] => put s.c (showAll (readAll (s.c.rcfg rf hbTie) s.c.idx s.c.desc C01.opRead nowTie))
  | ["Q", "X", "T", id] =>
    put s.c (match readRanges (s.c.rcfg rf hbTie) s.c.idx s.c.desc (str? id) with | .ok l => showNatList l | .error _ => "err")
  | ["Q", "X", "Z"] => put s.c (",".intercalate (readZones s.c.idx) ++ "/" ++ toString rf)
  | ["K", ident] => put (cleanup s.c ident) "-"
  | ["Q", "C"] => put s.c (showCounts (counts s.c zoneNames))
  | ["Q", "A"] => put s.c (showDesc s.c.desc)
  | ["Q", "I", id] => put s.c (match s.c.desc.get? (str? id) with | some i => showInst i | none => "err")
  | _ => put s.c implAns   -- not modelled: judged only

def modelled (stepStr : String) : Nat :=
  match stepStr.splitOn "!" with
  | "Q" :: "S" :: _ => 4
  | "Q" :: "L" :: _ => 4
  | "Q" :: "O" :: _ => 4
  | _ => 1000

/-- erase the `versions` field of every instance encoding inside an answer. -/
def eraseVersions (ans : String) : String :=
  "#".intercalate ((ans.splitOn "#").map fun comp =>
    ";".intercalate ((comp.splitOn ";").map fun inst =>
      match inst.splitOn "/" with
      | [a, b, c, d, e, f, g, h, i, _] => "/".intercalate [a, b, c, d, e, f, g, h, i, "*"]
      | _ => inst))

/-- erase the `id` field of every instance encoding inside an answer (and forget the order of the
instance lists, which the harness sorts by that field). -/
def eraseIds (ans : String) : String :=
  "#".intercalate ((ans.splitOn "#").map fun comp =>
    match comp.splitOn "^" with
    | [] => comp
    | insts :: sfx =>
      let l := (insts.splitOn ";").map fun inst =>
        match inst.splitOn "/" with
        | [_, b, c, d, e, f, g, h, i, j] => "/".intercalate ["*", b, c, d, e, f, g, h, i, j]
        | _ => inst
      "^".intercalate (";".intercalate (OracleC12.sortStr l) :: sfx))

def kindOf (stepStr : String) : String :=
  match stepStr.splitOn "!" with
  | "U" :: k :: _ => "U" ++ k
  | "Q" :: k :: _ => k
  | _ => "?"

def handleHist (f : List String) : String × String × String :=
  match f with
  | [za, rfS, streams, steps, long, fresh] =>
    match parseStreams streams with
    | some st =>
      let starts := startsFn st
      let stepsL := steps.splitOn "|"
      let longL := long.splitOn "|"
      let freshL := fresh.splitOn "|"
      if stepsL.length != longL.length || stepsL.length != freshL.length then ("bad-lengths", "-", "-") else
      let init : St := { c := { cfg := ⟨za == "1"⟩ } }
      let rf := rfS.toNat?.getD 1
      let fin := (stepsL.zip longL).foldl (fun s (sp, a) => step rf starts s sp a) init
      let model := fin.out.reverse
      let diffs := ((stepsL.zip (model.zip longL)).zipIdx.filterMap fun ((sp, m, a), i) =>
        let n := modelled sp
        if prefixOf m n == prefixOf a n then none else some s!"step{i}:{kindOf sp}={m}")
      let diff := match diffs with | [] => "-" | d :: _ => d
      -- judge: long-lived answer = fresh answer, for every step
      -- for every step: has the client seen a zone that the latest descriptor no longer has?
      let zoneLost : List Bool :=
        ((stepsL.foldl (fun (acc : List String × List String × List Bool) sp =>
          match sp.splitOn "!" with
          | ["U", _, d] =>
            let zs := ((parseDesc d).getD []).map (·.zone)
            let seen := OracleC12.dedup (acc.1 ++ zs)
            (seen, zs, (seen.any fun z => !zs.contains z) :: acc.2.2)
          | _ => (acc.1, acc.2.1, (acc.1.any fun z => !acc.2.1.contains z) :: acc.2.2)) ([], [], [])).2.2).reverse
      let js := ((stepsL.zip (longL.zip freshL)).zip zoneLost).filterMap fun ((sp, a, b), zl) =>
        if a == b then none
        else if eraseVersions a == eraseVersions b then some "stale_versions"
        else if eraseIds a == eraseIds b then some "stale_instance_id"
        else if zl && (kindOf sp == "S" || kindOf sp == "L") then some "stale_after_zone_emptied"
        else some ("stale_" ++ kindOf sp)
      let kinds := OracleC12.dedup (stepsL.map kindOf)
      let nU := (stepsL.filter (·.startsWith "U")).length
      let cmpKinds := OracleC12.dedup ((stepsL.zip longL).filterMap fun (sp, a) => if sp.startsWith "U" then some a else none)
      let hits := fin.hits
      let noid := stepsL.any fun sp => (sp.splitOn "!").any (·.endsWith "~noid")
      let tags := s!"k=hist zonelost={if zoneLost.any id then 1 else 0} noid={if noid then 1 else 0} za={za} steps={OracleC12.bucket stepsL.length} upd={OracleC12.bucket nU} cmp={"".intercalate cmpKinds} hits={OracleC12.bucket hits} kinds={kinds.length} triv={if nU ≤ 1 then 1 else 0}"
      (diff, OracleC12.reasons js, tags)
    | none => ("parse-error", "-", "-")
  | _ => ("bad-arity", "-", "-")

/-! ### partition ring client -/

def parsePStreams (s : String) : Option (List (String × Array Nat)) :=
  if s == "-" then some [] else
  (s.splitOn "|").mapM fun p => match p.splitOn "=" with
    | [i, vs] => do pure (i, (← natList? vs).toArray)
    | _ => none

def pstartsFn (st : List (String × Array Nat)) : PStreams := fun i n =>
  match st.lookup i with
  | some a => a.getD n 0
  | none => 0

structure PSt' where
  c : PClient
  out : List String := []

def pstep (st : PStreams) (s : PSt') (stepStr : String) (implAns : String) : PSt' :=
  let put := fun (c : PClient) (a : String) => ({ c := c, out := a :: s.out } : PSt')
  match stepStr.splitOn "!" with
  | ["U", _kind, d] =>
    match OracleC12.parseParts d with
    | some ps => put (pupdate s.c ps) "-"
    | none => put s.c "parse-error"
  | ["Q", "S", ident, size] =>
    match size.toInt? with
    | some size => let (ids, c') := pqueryShard s.c st ident size; put c' (OracleC12.showInts ids)
    | none => put s.c "parse-error"
  | ["Q", "L", ident, size, period, now] =>
    match size.toInt?, period.toInt?, now.toInt? with
    | some size, some period, some now => let (ids, c') := pqueryShardLB s.c st ident size period now; put c' (OracleC12.showInts ids)
    | _, _, _ => put s.c "parse-error"
  | ["Q", "N", a, n, b, m, period, now] =>
    match n.toInt?, m.toInt?, period.toInt?, now.toInt? with
    | some n, some m, some period, some now =>
      let (ids, c') := pnested s.c st a n b m period now; put c' (OracleC12.showInts ids)
    | _, _, _, _ => put s.c "parse-error"
  | _ => put s.c implAns

def handlePHist (f : List String) : String × String × String :=
  match f with
  | [_cache, streams, steps, long, fresh] =>
    match parsePStreams streams with
    | some st =>
      let starts := pstartsFn st
      let stepsL := steps.splitOn "|"
      let longL := long.splitOn "|"
      let freshL := fresh.splitOn "|"
      if stepsL.length != longL.length || stepsL.length != freshL.length then ("bad-lengths", "-", "-") else
      let fin := (stepsL.zip longL).foldl (fun s (sp, a) => pstep starts s sp a) ({ c := {} } : PSt')
      let model := fin.out.reverse
      let diffs := ((stepsL.zip (model.zip longL)).zipIdx.filterMap fun ((sp, m, a), i) =>
        if prefixOf m 1 == prefixOf a 1 then none else some s!"step{i}:{kindOf sp}={m}")
      let diff := match diffs with | [] => "-" | d :: _ => d
      let js := (stepsL.zip (longL.zip freshL)).filterMap fun (sp, a, b) =>
        if a == b then none else some ("p_stale_" ++ kindOf sp)
      let nU := (stepsL.filter (·.startsWith "U")).length
      let tags := s!"k=phist steps={OracleC12.bucket stepsL.length} upd={OracleC12.bucket nU} cached={if fin.c.cache.length + fin.c.lbCache.length > 0 then 1 else 0} triv={if nU ≤ 1 then 1 else 0}"
      (diff, OracleC12.reasons js, tags)
    | none => ("parse-error", "-", "-")
  | _ => ("bad-arity", "-", "-")

/-- `C13.conc round za n phases | mismatches`: concurrent readers during bursts of topology changes;
judged only (after quiescence the long-lived ring must answer like a fresh one), nothing to model. -/
def handleConc (f : List String) : String × String × String :=
  match f with
  | [_round, za, n, phases, mism] =>
    ("-", if mism == "-" then "-" else "stale_after_concurrent_readers", s!"k=conc za={za} n={n} phases={phases} triv=0")
  | _ => ("bad-arity", "-", "-")

/-! ### interleaved lock sections (`C13.ihist`)

`C13.ihist za n streams steps | long fresh` — one long-lived `Ring` driven section by section through the hooks of
`ring/verif_hooks_c13_sections.go`. steps: `U!kind!desc` (answer `s<k>`: which distinct `lastTopologyChange` reading the
ring carries afterwards), `R1!ident!size` (section 1; `miss` or the members), `R2!ident!size` (section 2; `self#…` /
`sub#…`), `R3!n` (section 3 for the n-th sub-ring computed by an R2 step), `L1/L2!ident!size!period!now`, `L3!n`,
`K!ident`, `P!S!ident!size`, `P!L!ident!size!period!now` (undisturbed queries).
diff = the model's transition system (`C13.lstep` run with the OBSERVED clock readings) gives the same answers;
judge = every sub-ring handed out (R1 hit, R2, L1 hit, L2, P) equals the one of a fresh cache-less client. -/

structure ISt where
  s : LState
  out : List String := []
  hits : Nat := 0
  drops : Nat := 0      -- section 3 refused by the guard
  over : Nat := 0       -- section 2 run although the cache holds an entry for the key
  stores : Nat := 0

def parseEv (stepStr : String) : Option Ev :=
  match stepStr.splitOn "!" with
  | ["U", _, d] => (parseDesc d).map Ev.upd
  | ["R1", i, sz] => sz.toInt?.map (Ev.look i)
  | ["R2", i, sz] => sz.toInt?.map (Ev.comp i)
  | ["R3", n] => n.toNat?.map Ev.store
  | ["L1", i, sz, p, n] => do pure (Ev.lookL i (← sz.toInt?) (← p.toInt?) (← n.toInt?))
  | ["L2", i, sz, p, n] => do pure (Ev.compL i (← sz.toInt?) (← p.toInt?) (← n.toInt?))
  | ["L3", n] => n.toNat?.map Ev.storeL
  | ["K", i] => some (Ev.clean i)
  | ["P", "S", i, sz] => sz.toInt?.map (Ev.qS i)
  | ["P", "L", i, sz, p, n] => do pure (Ev.qL i (← sz.toInt?) (← p.toInt?) (← n.toInt?))
  | _ => none

/-- the clock readings as observed: the k-th re-indexing of the model ↦ the stamp id the implementation showed after
that update. -/
def observedClock (cfg : Cfg) (stepsL longL : List String) : List Nat :=
  ((stepsL.zip longL).foldl (fun (acc : Client × List Nat) (sp, a) =>
    match parseEv sp with
    | some (.upd d) =>
      let c' := update acc.1 d
      if c'.epoch != acc.1.epoch then (c', acc.2 ++ [((a.drop 1).toNat?).getD 0]) else (c', acc.2)
    | _ => acc) (({ cfg := cfg } : Client), [0])).2

def iAnswer (clkL : List Nat) (st : Streams) (s : LState) (ev : Ev) (s' : LState) : String :=
  match ev with
  | .upd _ => s!"s{clkL.getD s'.c.epoch 0}"
  | .look .. | .lookL .. => match lans st s ev with | some m => showDesc m | none => "miss"
  | .comp i sz => (if (compShard s.c st i sz).2.isSome then "sub#" else "self#") ++ showDesc (compShard s.c st i sz).1
  | .compL i sz p n => (if (compShardLB s.c st i sz p n).2.isSome then "sub#" else "self#") ++ showDesc (compShardLB s.c st i sz p n).1
  | .qS .. | .qL .. => match lans st s ev with | some m => showDesc m | none => "?"
  | _ => "-"

def istepO (clkL : List Nat) (st : Streams) (x : ISt) (stepStr : String) : ISt :=
  match parseEv stepStr with
  | none => { x with out := "parse-error" :: x.out }
  | some ev =>
    let clk := fun e => clkL.getD e 0
    let s' := lstep clk st x.s ev
    let a := iAnswer clkL st x.s ev s'
    let hit := match ev with | .look .. | .lookL .. => (lans st x.s ev).isSome | _ => false
    let over := match ev with
      | .comp i sz => (lookupAssoc (⟨i, sz⟩ : Key) x.s.c.cache).isSome && (compShard x.s.c st i sz).2.isSome
      | _ => false
    let (isStore, drop) := match ev with
      | .store n => (match x.s.pend[n]? with | some (_, sub) => (true, clk sub.epoch != clk x.s.c.epoch) | none => (false, false))
      | .storeL n => (match x.s.pendL[n]? with | some (_, sub, _) => (true, clk sub.epoch != clk x.s.c.epoch) | none => (false, false))
      | _ => (false, false)
    { s := s', out := a :: x.out, hits := x.hits + (if hit then 1 else 0), drops := x.drops + (if drop then 1 else 0),
      over := x.over + (if over then 1 else 0), stores := x.stores + (if isStore then 1 else 0) }

def handleIHist (f : List String) : String × String × String :=
  match f with
  | [za, _n, streams, steps, long, fresh] =>
    match parseStreams streams with
    | some st =>
      let starts := startsFn st
      let stepsL := steps.splitOn "|"
      let longL := long.splitOn "|"
      let freshL := fresh.splitOn "|"
      if stepsL.length != longL.length || stepsL.length != freshL.length then ("bad-lengths", "-", "-") else
      let cfg : Cfg := ⟨za == "1"⟩
      let clkL := observedClock cfg stepsL longL
      let fin := stepsL.foldl (istepO clkL starts) ({ s := { c := { cfg := cfg } } } : ISt)
      let model := fin.out.reverse
      let diffs := ((stepsL.zip (model.zip longL)).zipIdx.filterMap fun ((sp, m, a), i) =>
        if m == a then none else some s!"step{i}:{kindOf sp}={m}")
      let diff := match diffs with | [] => "-" | d :: _ => d
      let js := (stepsL.zip (longL.zip freshL)).filterMap fun (sp, a, b) =>
        if a == b then none else some ("stale_section_" ++ ((sp.splitOn "!").headD "?"))
      let nU := (stepsL.filter (·.startsWith "U")).length
      -- did the clock advance between any two re-indexings (the hypothesis of the theorems)?
      let collide := clkL.eraseDups.length != clkL.length
      let tags := s!"k=ihist za={za} steps={OracleC12.bucket stepsL.length} upd={OracleC12.bucket nU} reidx={OracleC12.bucket (clkL.length - 1)} hits={OracleC12.bucket fin.hits} stores={OracleC12.bucket fin.stores} drops={OracleC12.bucket fin.drops} over={OracleC12.bucket fin.over} clk={if collide then "collide" else "advances"} triv={if nU ≤ 1 then 1 else 0}"
      (diff, OracleC12.reasons js, tags)
    | none => ("parse-error", "-", "-")
  | _ => ("bad-arity", "-", "-")

def handle (cmd : String) (f : List String) : String × String × String :=
  if cmd == "C13.hist" then handleHist f
  else if cmd == "C13.ihist" then handleIHist f
  else if cmd == "C13.conc" then handleConc f
  else if cmd == "C13.phist" then handlePHist f
  else ("unknown-cmd", "-", "-")

end OracleC13
