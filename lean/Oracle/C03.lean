import Model.C03
import Model.C03P
/-! Oracle handlers for C03: ring-descriptor and partition-ring merges, and the CRDT laws judged
directly on the implementation's merge results. -/
namespace OracleC03
open Common Ring

def showD (d : Desc) : String := showDesc (C03.sortById d)
def showChange : Option Desc → String
  | none => "nil"
  | some d => showD d

/-! ### quantifier membership (the property's provisos), evaluated on the inputs of a case -/

def normalised (d : Desc) : Bool :=
  C03.uniqueIds d && d.all fun i => C03.sortedStrict i.tokens && (i.state != .LEFT || i.tokens.isEmpty)

def posTs (d : Desc) : Bool := d.all fun i => i.ts ≥ 1

/-- each (entry, timestamp, tombstone-ness) denotes one content -/
def coherent (all : List Inst) : Bool :=
  all.all fun e => all.all fun e' =>
    !(e.id == e'.id && e.ts == e'.ts && (e.state == .LEFT) == (e'.state == .LEFT)) || e == e'

/-- no two instances claim the same token -/
def noClash (all : List Inst) : Bool :=
  all.all fun e => all.all fun e' => e.id == e'.id || e.tokens.all fun t => !e'.tokens.contains t

def inQuantifier (ds : List Desc) : Bool :=
  ds.all normalised && ds.all posTs && coherent ds.flatten && noClash ds.flatten

/-- rank of an entry in the last-writer-wins order: (timestamp, is-tombstone) -/
def newer (o t : Inst) : Bool := o.ts > t.ts || (o.ts == t.ts && o.state == .LEFT && t.state != .LEFT)

def eraseTokens (i : Inst) : Inst := { i with tokens := [] }

/-- the property's per-entry rule, written from its text: the newer timestamp wins and, at equal
timestamps, a removal wins; an entry unknown to the receiver is taken (callers guarantee timestamps
≥ 1); nothing else appears. -/
def lww (t o : Option Inst) : Option Inst :=
  match t, o with
  | none, none => none
  | some t, none => some t
  | none, some o => some o
  | some t, some o => if newer o t then some o else some t

def dedupKeys (l : List String) : List String := l.foldl (fun acc k => if acc.contains k then acc else acc ++ [k]) []

/-- Judge of a single merge, from the property text.

Gossip merge (`cas = false`): per entry the newer timestamp wins and at equal timestamps the removal
wins; an incoming entry unknown to the receiver is taken; nothing else appears; nothing is lost.
Token lists are part of the content and are compared EXACTLY unless the last-writer-wins union of the
two inputs contains a token collision (then the inputs are outside C03's proviso "no two instances
claim the same token", lists may shrink through conflict resolution — judged by C05 — and only the
other fields are compared).

Every merge (also a local CAS, whose tombstones are stamped `now`; `casNow = some now`): a nil change
means untouched content, and the reported change is sufficient — combining it with the pre-merge state
by the same per-entry rule reproduces the result. -/
def judgeMerge (casNow : Option Int) (this other st : Desc) (chg : Option Desc) : List String := Id.run do
  let mut bad : List String := []
  let othern := C03.normalize other
  if chg.isNone && showD st != showD this then bad := "nil-change-but-content-changed" :: bad
  let keys := dedupKeys (this.map (·.id) ++ othern.map (·.id))
  -- last-writer-wins union of the inputs (for a local CAS: with the entries missing from `other` removed)
  let expectOf (k : String) : Option Inst :=
    let e := lww (C03.get? this k) (C03.get? othern k)
    match casNow, e with
    | some now, some x =>
      if (C03.get? othern k).isNone && x.state != .LEFT then some { x with state := .LEFT, tokens := [], ts := now } else e
    | _, _ => e
  let pre := keys.filterMap expectOf
  let clash := C03.conflictsExist pre
  let view (e : Option Inst) : Option Inst := if clash then e.map eraseTokens else e
  if !C03.uniqueIds st then bad := "duplicate-ids" :: bad
  if casNow.isNone then
    for k in keys do
      let expect := expectOf k
      let got := C03.get? st k
      if got.isNone && expect.isSome then
        bad := (if (C03.get? this k).isSome then s!"entry-lost:{k}" else s!"incoming-entry-missing:{k}") :: bad
      else if view expect != view got then
        bad := (if expect.map eraseTokens == got.map eraseTokens then s!"tokens-not-last-writer's:{k}" else s!"lww-violated:{k}") :: bad
    for e in st do
      if !keys.contains e.id then bad := s!"entry-from-nowhere:{e.id}" :: bad
  -- the reported change, combined with the pre-merge state by the same rule, reproduces the result
  match chg with
  | none => pure ()
  | some ch =>
    for k in dedupKeys (keys ++ ch.map (·.id) ++ st.map (·.id)) do
      if view (lww (C03.get? this k) (C03.get? ch k)) != view (C03.get? st k) then bad := s!"change-insufficient:{k}" :: bad
  return bad

def handleMerge (f : List String) : String × String × String :=
  match f with
  | [cas, now, this, other, st, chg] =>
    match parseDesc this, parseDesc other, now.toInt?, parseDesc st with
    | some this, some other, some now, some ist =>
      let cas := cas == "1"
      let m := C03.merge cas now this other
      let ms := showD m.state
      let mc := showChange m.change
      let diff := if ms == st && mc == chg then "-" else s!"state={ms} change={mc}"
      let ichg : Option Desc := if chg == "nil" then none else parseDesc chg
      -- the per-merge judge applies to gossip merges of positive-timestamp, normalised receivers
      -- local CAS: the tombstones are stamped `now`, which must not lie behind the entries it removes
      -- (`PC03.cas_change_insufficient_when_clock_behind`)
      let inq := normalised this && posTs this && posTs other && C03.uniqueIds other &&
        (!cas || (now ≥ 1 && this.all fun t => t.ts ≤ now))
      let j := if inq then judgeMerge (if cas then some now else none) this other ist ichg else []
      let acc := (C03.normalize other).foldl C03.stepEntry { this := this, updated := [], tokCh := false }
      let tags := s!"cas={cas} upd={min acc.updated.length 3} tokch={acc.tokCh} conflict={acc.tokCh && C03.conflictsExist acc.this} inq={inq} n={min this.length 4}x{min other.length 4}"
      (diff, if j.isEmpty then "-" else ",".intercalate j, tags)
    | _, _, _, _ => ("bad-input", "-", "-")
  | _ => ("bad-fields", "-", "-")

/-- laws: fields a b c | ab ba ab_c a_bc aa a_chg abb s_chg s_b -/
def handleLaws (f : List String) : String × String × String :=
  match f with
  | [a, b, c, ab, ba, ab_c, a_bc, aa, a_chg, abb, s_chg, s_b] =>
    match parseDesc a, parseDesc b, parseDesc c with
    | some da, some db, some dc =>
      let ms := C03.mergeState
      let mab := ms da db
      let chg := (C03.merge false 0 da db).change
      let s := ms da dc
      let model := [showD mab, showD (ms db da), showD (ms mab dc), showD (ms da (ms db dc)), showD (ms da da),
        showD (match chg with | none => da | some ch => ms da ch), showD (ms mab db),
        showD (match chg with | none => s | some ch => ms s ch), showD (ms s db)]
      let impl := [ab, ba, ab_c, a_bc, aa, a_chg, abb, s_chg, s_b]
      let diff := if model == impl then "-" else "model=" ++ " ".intercalate model
      let inq := inQuantifier [da, db, dc]
      let j : List String :=
        if !inq then [] else
          (if ab != ba then ["not-commutative"] else []) ++
          (if ab_c != a_bc then ["not-associative"] else []) ++
          (if aa != showD da then ["not-idempotent"] else []) ++
          (if abb != ab then ["redelivery-changes-state"] else []) ++
          (if a_chg != ab then ["change-insufficient"] else []) ++
          (if s_chg != s_b then ["change-insufficient-on-superset-replica"] else [])
      let tags := s!"inq={inq} n={min da.length 3},{min db.length 3},{min dc.length 3} chg={chg.isSome} ab_ne_a={showD mab != showD da}"
      (diff, if j.isEmpty then "-" else ",".intercalate j, tags)
    | _, _, _ => ("bad-input", "-", "-")
  | _ => ("bad-fields", "-", "-")

/-! ### partition ring -/
open C03P in
def showPChange : Option PDesc → String
  | none => "nil"
  | some d => showPDesc d

open C03P in
def pInQuantifier (ds : List PDesc) : Bool :=
  let ps := ds.flatMap (·.parts)
  let os := ds.flatMap (·.owners)
  ds.all (fun d => (d.parts.map (·.id)).Nodup && (d.owners.map (·.id)).Nodup) &&
  os.all (fun o => o.ts ≥ 1) &&
  ps.all (fun p => ps.all fun q => p.id != q.id ||
    (p.tokens == q.tokens &&
     (!(p.stateTs == q.stateTs && (p.state == partDeleted) == (q.state == partDeleted)) || p.state == q.state) &&
     (p.lockedTs != q.lockedTs || p.locked == q.locked))) &&
  os.all (fun o => os.all fun q => !(o.id == q.id && o.ts == q.ts && (o.state == ownerDeleted) == (q.state == ownerDeleted)) || o == q)

open C03P in
/-- the property's rule for one partition, written from its text: a partition unknown to the receiver
is taken whole; otherwise identity and tokens stay, and each of the two registers (state, lock) takes
the newer timestamp — for the state register a deletion wins at equal timestamps. -/
def lwwPart (t o : Option Part) : Option Part :=
  match t, o with
  | none, none => none
  | some t, none => some t
  | none, some o => some o
  | some t, some o =>
    let takeState := o.stateTs > t.stateTs || (o.stateTs == t.stateTs && o.state == partDeleted && t.state != partDeleted)
    let takeLock := o.lockedTs > t.lockedTs
    some { id := t.id, tokens := t.tokens,
           state := if takeState then o.state else t.state, stateTs := if takeState then o.stateTs else t.stateTs,
           locked := if takeLock then o.locked else t.locked, lockedTs := if takeLock then o.lockedTs else t.lockedTs }

open C03P in
/-- … and for one owner: the newer timestamp wins, a deletion wins at equal timestamps (timestamps ≥ 1) -/
def lwwOwner (t o : Option Owner) : Option Owner :=
  match t, o with
  | none, none => none
  | some t, none => some t
  | none, some o => some o
  | some t, some o =>
    if o.ts > t.ts || (o.ts == t.ts && o.state == ownerDeleted && t.state != ownerDeleted) then some o else some t

def dedupInts (l : List Int) : List Int := l.foldl (fun acc k => if acc.contains k then acc else acc ++ [k]) []

open C03P in
/-- Judge of a single partition-ring merge, from the property text. Gossip merge: every partition and
every owner of the result is the per-register / per-entry last-writer-wins combination of the two
inputs, nothing is lost and nothing else appears. Every merge (also local CAS, `casNow = some now`): a
nil change means untouched content and the reported change, combined with the pre-merge state by the
same rule, reproduces the result. Owner entries at timestamp < 1 are outside the proviso and skipped. -/
def judgePMerge (casNow : Option Int) (this other st : PDesc) (chg : Option PDesc) : List String := Id.run do
  let mut bad : List String := []
  if chg.isNone && showPDesc st != showPDesc this then bad := "nil-change-but-content-changed" :: bad
  let pkeys := dedupInts (this.parts.map (·.id) ++ other.parts.map (·.id))
  let okeys := dedupKeys (this.owners.map (·.id) ++ other.owners.map (·.id))
  let posO (o : Option Owner) : Bool := match o with | none => true | some o => o.ts ≥ 1
  if !(st.parts.map (·.id)).Nodup then bad := "p-duplicate-partition-ids" :: bad
  if !(st.owners.map (·.id)).Nodup then bad := "p-duplicate-owner-ids" :: bad
  if casNow.isNone then
    for k in pkeys do
      let expect := lwwPart (getP this.parts k) (getP other.parts k)
      let got := getP st.parts k
      if got.isNone && expect.isSome then bad := s!"p-partition-lost:{k}" :: bad
      else if expect != got then bad := s!"p-lww-violated:partition:{k}" :: bad
    for p in st.parts do
      if !pkeys.contains p.id then bad := s!"p-partition-from-nowhere:{p.id}" :: bad
    for k in okeys do
      if posO (getO this.owners k) && posO (getO other.owners k) then
        let expect := lwwOwner (getO this.owners k) (getO other.owners k)
        let got := getO st.owners k
        if got.isNone && expect.isSome then bad := s!"p-owner-lost:{k}" :: bad
        else if expect != got then bad := s!"p-lww-violated:owner:{k}" :: bad
    for o in st.owners do
      if !okeys.contains o.id then bad := s!"p-owner-from-nowhere:{o.id}" :: bad
  match chg with
  | none => pure ()
  | some ch =>
    -- a local CAS stamps its tombstones `now`: they can only take effect on entries not newer than `now`
    let clockOK : Bool := match casNow with
      | none => true
      | some now => now ≥ 1 && this.parts.all (fun p => p.stateTs ≤ now) && this.owners.all (fun o => o.ts ≤ now)
    if clockOK then
      for k in dedupInts (pkeys ++ ch.parts.map (·.id) ++ st.parts.map (·.id)) do
        if lwwPart (getP this.parts k) (getP ch.parts k) != getP st.parts k then bad := s!"p-change-insufficient:partition:{k}" :: bad
      for k in dedupKeys (okeys ++ ch.owners.map (·.id) ++ st.owners.map (·.id)) do
        if posO (getO this.owners k) && posO (getO ch.owners k) then
          if lwwOwner (getO this.owners k) (getO ch.owners k) != getO st.owners k then bad := s!"p-change-insufficient:owner:{k}" :: bad
  return bad

open C03P in
def handlePMerge (f : List String) : String × String × String :=
  match f with
  | [cas, now, this, other, st, chg] =>
    match parsePDesc this, parsePDesc other, now.toInt?, parsePDesc st with
    | some this, some other, some now, some ist =>
      let casB := cas == "1"
      let m := C03P.merge casB now this other
      let ms := showPDesc m.state
      let mc := showPChange m.change
      let diff := if ms == st && mc == chg then "-" else s!"state={ms} change={mc}"
      let ichg : Option PDesc := if chg == "nil" then none else parsePDesc chg
      -- map keys are unique (a Go map); the judge needs nothing else of the inputs
      let inq := (this.parts.map (·.id)).Nodup && (this.owners.map (·.id)).Nodup &&
        (other.parts.map (·.id)).Nodup && (other.owners.map (·.id)).Nodup
      let j := if inq then judgePMerge (if casB then some now else none) this other ist ichg else []
      (diff, if j.isEmpty then "-" else ",".intercalate j, s!"cas={cas} chg={m.change.isSome} inq={inq} n={min this.parts.length 3}+{min this.owners.length 3}")
    | _, _, _, _ => ("bad-input", "-", "-")
  | _ => ("bad-fields", "-", "-")

open C03P in
def handlePLaws (f : List String) : String × String × String :=
  match f with
  | [a, b, c, ab, ba, ab_c, a_bc, aa, a_chg, abb, s_chg, s_b] =>
    match parsePDesc a, parsePDesc b, parsePDesc c with
    | some da, some db, some dc =>
      let ms := C03P.mergeState
      let mab := ms da db
      let chg := (C03P.merge false 0 da db).change
      let s := ms da dc
      let model := [showPDesc mab, showPDesc (ms db da), showPDesc (ms mab dc), showPDesc (ms da (ms db dc)), showPDesc (ms da da),
        showPDesc (match chg with | none => da | some ch => ms da ch), showPDesc (ms mab db),
        showPDesc (match chg with | none => s | some ch => ms s ch), showPDesc (ms s db)]
      let impl := [ab, ba, ab_c, a_bc, aa, a_chg, abb, s_chg, s_b]
      let diff := if model == impl then "-" else "model=" ++ " ".intercalate model
      let inq := pInQuantifier [da, db, dc]
      let j : List String :=
        if !inq then [] else
          (if ab != ba then ["p-not-commutative"] else []) ++
          (if ab_c != a_bc then ["p-not-associative"] else []) ++
          (if aa != showPDesc da then ["p-not-idempotent"] else []) ++
          (if abb != ab then ["p-redelivery-changes-state"] else []) ++
          (if a_chg != ab then ["p-change-insufficient"] else []) ++
          (if s_chg != s_b then ["p-change-insufficient-on-superset-replica"] else [])
      (diff, if j.isEmpty then "-" else ",".intercalate j, s!"inq={inq} chg={chg.isSome} ab_ne_a={showPDesc mab != showPDesc da}")
    | _, _, _ => ("bad-input", "-", "-")
  | _ => ("bad-fields", "-", "-")

/-! ### extension streams: RemoveTombstones, Clone / MergeContent -/

/-- `C03.tomb`: fields zero sec nsec d | out total removed out2 total2 removed2 sec2 nsec2 after direct.
Judge, from the doc text of `RemoveTombstones` ("removes LEFT ingesters older than given time limit; if
time limit is zero, remove all LEFT ingesters", returns the LEFT entries kept and removed): nothing but
expired tombstones disappears, every expired tombstone disappears, nothing appears or is altered, the
counters count, a second pass removes nothing, and a later limit applied afterwards gives what it gives directly. -/
def handleTomb (f : List String) : String × String × String :=
  match f with
  | [z, sec, nsec, d, out, total, removed, out2, total2, removed2, sec2, nsec2, after, direct] =>
    match parseDesc d, sec.toInt?, nsec.toNat?, parseDesc out, sec2.toInt?, nsec2.toNat? with
    | some dd, some s, some ns, some iout, some s2, some ns2 =>
      let zero := z == "1"
      let lim : Option Int := if zero then none else some (C03.limitOf s ns)
      let lim2 : Option Int := some (C03.limitOf s2 ns2)
      let m := C03.removeTombstones lim dd
      let c1 := C03.tombCounts lim dd
      let c2 := C03.tombCounts lim m
      let model := [showD m, toString c1.1, toString c1.2, showD (C03.removeTombstones lim m), toString c2.1, toString c2.2,
        showD (C03.removeTombstones lim2 m), showD (C03.removeTombstones lim2 dd)]
      let impl := [out, total, removed, out2, total2, removed2, after, direct]
      let diff := if model == impl then "-" else "model=" ++ " ".intercalate model
      let expired (i : Inst) : Bool := zero || i.ts < s || (i.ts == s && ns > 0)
      let later : Bool := !zero && (s2 > s || (s2 == s && ns2 ≥ ns))
      let j : List String :=
        (dd.filterMap fun e =>
          if e.state != .LEFT then (if iout.contains e then none else some s!"live-entry-removed-or-altered:{e.id}")
          else if expired e then (if iout.contains e then some s!"expired-tombstone-kept:{e.id}" else none)
          else (if iout.contains e then none else some s!"tombstone-removed-before-limit:{e.id}")) ++
        (iout.filterMap fun e => if dd.contains e then none else some s!"entry-from-nowhere-or-altered:{e.id}") ++
        (if total != toString (iout.filter fun e => e.state == .LEFT).length then ["total-miscounted"] else []) ++
        (if removed != toString (dd.length - iout.length) then ["removed-miscounted"] else []) ++
        (if out2 != out || removed2 != "0" || total2 != total then ["gc-not-idempotent"] else []) ++
        (if later && after != direct then ["gc-not-monotone-in-limit"] else [])
      let tags := s!"gc={min c1.2 3} kept={min c1.1 3} zero={zero} ns={min ns 2} n={min dd.length 4}"
      (diff, if j.isEmpty then "-" else ",".intercalate j, tags)
    | _, _, _, _, _, _ => ("bad-input", "-", "-")
  | _ => ("bad-fields", "-", "-")

/-- `C03.clone`: fields cas now a b | clone content stO chO stC chC origAfterMerge origAfterMutation.
Judge, from the doc text of `Clone` (a copy whose map is safe to modify) and `MergeContent` (the list of
ingesters): the clone has the content of the original; MergeContent is its key set; merging into the
clone gives the state and change that merging into the original gives; neither that merge nor adding /
replacing / deleting entries of the clone reaches the original. -/
def handleClone (f : List String) : String × String × String :=
  match f with
  | [cas, now, a, b, cl, content, stO, chO, stC, chC, origM, origX] =>
    match parseDesc a, parseDesc b, now.toInt? with
    | some da, some db, some now =>
      let casB := cas == "1"
      let m := C03.merge casB now (C03.clone da) db
      let keys (d : Desc) : String := let l := C03.mergeContent (C03.sortById d); if l.isEmpty then "-" else ",".intercalate l
      let model := [showD (C03.clone da), keys da, showD m.state, showChange m.change]
      let diff := if model == [cl, content, stC, chC] then "-" else "model=" ++ " ".intercalate model
      let akeys : String := match parseDesc cl with
        | some c => let l := (C03.sortById c).map (·.id); if l.isEmpty then "-" else ",".intercalate l
        | none => "?"
      let j : List String :=
        (if cl != a then ["clone-content-differs"] else []) ++
        (if content != akeys then ["merge-content-not-the-key-set"] else []) ++
        (if stC != stO || chC != chO then ["merge-into-clone-differs-from-merge-into-original"] else []) ++
        (if origM != a then ["merge-into-clone-changed-original"] else []) ++
        (if origX != a then ["clone-shares-map-with-original"] else [])
      let tags := s!"clone cas={casB} chg={m.change.isSome} n={min da.length 4}x{min db.length 4}"
      (diff, if j.isEmpty then "-" else ",".intercalate j, tags)
    | _, _, _ => ("bad-input", "-", "-")
  | _ => ("bad-fields", "-", "-")

def handle (cmd : String) (f : List String) : String × String × String :=
  if cmd == "C03.merge" then handleMerge f
  else if cmd == "C03.tomb" then handleTomb f
  else if cmd == "C03.clone" then handleClone f
  else if cmd == "C03.laws" then handleLaws f
  else if cmd == "C03.pmerge" then handlePMerge f
  else if cmd == "C03.plaws" then handlePLaws f
  else ("unknown-cmd", "-", "-")

end OracleC03
