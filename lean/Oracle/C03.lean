import Model.Common
/-! Oracle handlers for C03 (stub until the property's model exists). -/
namespace OracleC03
open Common

def handle (_cmd : String) (_f : List String) : String × String × String :=
  ("unknown-cmd", "-", "-")

end OracleC03
