import Model.C03
import Model.C03P
/-! Oracle handlers for C03: ring-descriptor and partition-ring merges, and the CRDT laws judged
directly on the implementation's merge results. -/
namespace OracleC03
open Common Ring

def showD (d : Desc) : String := showDesc (C03.sortById d)
def showChange : Option Desc → String
  | none => "nil"
  | some d => showD d

/-! ### quantifier membership (the property's provisos), evaluated on the inputs of a case -/

def normalised (d : Desc) : Bool :=
  C03.uniqueIds d && d.all fun i => C03.sortedStrict i.tokens && (i.state != .LEFT || i.tokens.isEmpty)

def posTs (d : Desc) : Bool := d.all fun i => i.ts ≥ 1

/-- each (entry, timestamp, tombstone-ness) denotes one content -/
def coherent (all : List Inst) : Bool :=
  all.all fun e => all.all fun e' =>
    !(e.id == e'.id && e.ts == e'.ts && (e.state == .LEFT) == (e'.state == .LEFT)) || e == e'

/-- no two instances claim the same token -/
def noClash (all : List Inst) : Bool :=
  all.all fun e => all.all fun e' => e.id == e'.id || e.tokens.all fun t => !e'.tokens.contains t

def inQuantifier (ds : List Desc) : Bool :=
  ds.all normalised && ds.all posTs && coherent ds.flatten && noClash ds.flatten

/-- rank of an entry in the last-writer-wins order: (timestamp, is-tombstone) -/
def newer (o t : Inst) : Bool := o.ts > t.ts || (o.ts == t.ts && o.state == .LEFT && t.state != .LEFT)

def eraseTokens (i : Inst) : Inst := { i with tokens := [] }

/-- judge of a single gossip merge (`cas = false`): per entry the newer timestamp wins and at equal
timestamps the removal wins; nothing else appears; a nil change means untouched content. -/
def judgeMerge (this other st : Desc) (chg : Option Desc) : List String := Id.run do
  let mut bad : List String := []
  let othern := C03.normalize other
  if chg.isNone && showD st != showD this then bad := "nil-change-but-content-changed" :: bad
  for e in st do
    let t := C03.get? this e.id
    let o := C03.get? othern e.id
    let expect : Option Inst := match t, o with
      | none, none => none
      | some t, none => some t
      | none, some o => some o
      | some t, some o => if newer o t then some o else some t
    -- token lists may legitimately shrink through conflict resolution; compare the other fields
    if expect.map eraseTokens != some (eraseTokens e) then bad := s!"lww-violated:{e.id}" :: bad
  for t in this do
    if (C03.get? st t.id).isNone then bad := s!"entry-lost:{t.id}" :: bad
  return bad

def handleMerge (f : List String) : String × String × String :=
  match f with
  | [cas, now, this, other, st, chg] =>
    match parseDesc this, parseDesc other, now.toInt?, parseDesc st with
    | some this, some other, some now, some ist =>
      let cas := cas == "1"
      let m := C03.merge cas now this other
      let ms := showD m.state
      let mc := showChange m.change
      let diff := if ms == st && mc == chg then "-" else s!"state={ms} change={mc}"
      let ichg : Option Desc := if chg == "nil" then none else parseDesc chg
      -- the per-merge judge applies to gossip merges of positive-timestamp, normalised receivers
      let inq := !cas && normalised this && posTs this && posTs other && C03.uniqueIds other
      let j := if inq then judgeMerge this other ist ichg else []
      let acc := (C03.normalize other).foldl C03.stepEntry { this := this, updated := [], tokCh := false }
      let tags := s!"cas={cas} upd={min acc.updated.length 3} tokch={acc.tokCh} conflict={acc.tokCh && C03.conflictsExist acc.this} inq={inq} n={min this.length 4}x{min other.length 4}"
      (diff, if j.isEmpty then "-" else ",".intercalate j, tags)
    | _, _, _, _ => ("bad-input", "-", "-")
  | _ => ("bad-fields", "-", "-")

/-- laws: fields a b c | ab ba ab_c a_bc aa a_chg abb s_chg s_b -/
def handleLaws (f : List String) : String × String × String :=
  match f with
  | [a, b, c, ab, ba, ab_c, a_bc, aa, a_chg, abb, s_chg, s_b] =>
    match parseDesc a, parseDesc b, parseDesc c with
    | some da, some db, some dc =>
      let ms := C03.mergeState
      let mab := ms da db
      let chg := (C03.merge false 0 da db).change
      let s := ms da dc
      let model := [showD mab, showD (ms db da), showD (ms mab dc), showD (ms da (ms db dc)), showD (ms da da),
        showD (match chg with | none => da | some ch => ms da ch), showD (ms mab db),
        showD (match chg with | none => s | some ch => ms s ch), showD (ms s db)]
      let impl := [ab, ba, ab_c, a_bc, aa, a_chg, abb, s_chg, s_b]
      let diff := if model == impl then "-" else "model=" ++ " ".intercalate model
      let inq := inQuantifier [da, db, dc]
      let j : List String :=
        if !inq then [] else
          (if ab != ba then ["not-commutative"] else []) ++
          (if ab_c != a_bc then ["not-associative"] else []) ++
          (if aa != showD da then ["not-idempotent"] else []) ++
          (if abb != ab then ["redelivery-changes-state"] else []) ++
          (if a_chg != ab then ["change-insufficient"] else []) ++
          (if s_chg != s_b then ["change-insufficient-on-superset-replica"] else [])
      let tags := s!"inq={inq} n={min da.length 3},{min db.length 3},{min dc.length 3} chg={chg.isSome} ab_ne_a={showD mab != showD da}"
      (diff, if j.isEmpty then "-" else ",".intercalate j, tags)
    | _, _, _ => ("bad-input", "-", "-")
  | _ => ("bad-fields", "-", "-")

/-! ### partition ring -/
open C03P in
def showPChange : Option PDesc → String
  | none => "nil"
  | some d => showPDesc d

open C03P in
def pInQuantifier (ds : List PDesc) : Bool :=
  let ps := ds.flatMap (·.parts)
  let os := ds.flatMap (·.owners)
  ds.all (fun d => (d.parts.map (·.id)).Nodup && (d.owners.map (·.id)).Nodup) &&
  os.all (fun o => o.ts ≥ 1) &&
  ps.all (fun p => ps.all fun q => p.id != q.id ||
    (p.tokens == q.tokens &&
     (!(p.stateTs == q.stateTs && (p.state == partDeleted) == (q.state == partDeleted)) || p.state == q.state) &&
     (p.lockedTs != q.lockedTs || p.locked == q.locked))) &&
  os.all (fun o => os.all fun q => !(o.id == q.id && o.ts == q.ts && (o.state == ownerDeleted) == (q.state == ownerDeleted)) || o == q)

open C03P in
def handlePMerge (f : List String) : String × String × String :=
  match f with
  | [cas, now, this, other, st, chg] =>
    match parsePDesc this, parsePDesc other, now.toInt? with
    | some this, some other, some now =>
      let m := C03P.merge (cas == "1") now this other
      let ms := showPDesc m.state
      let mc := showPChange m.change
      let diff := if ms == st && mc == chg then "-" else s!"state={ms} change={mc}"
      let j := if chg == "nil" && st != showPDesc this then "nil-change-but-content-changed" else "-"
      (diff, j, s!"cas={cas} chg={m.change.isSome} n={min this.parts.length 3}+{min this.owners.length 3}")
    | _, _, _ => ("bad-input", "-", "-")
  | _ => ("bad-fields", "-", "-")

open C03P in
def handlePLaws (f : List String) : String × String × String :=
  match f with
  | [a, b, c, ab, ba, ab_c, a_bc, aa, a_chg, abb, s_chg, s_b] =>
    match parsePDesc a, parsePDesc b, parsePDesc c with
    | some da, some db, some dc =>
      let ms := C03P.mergeState
      let mab := ms da db
      let chg := (C03P.merge false 0 da db).change
      let s := ms da dc
      let model := [showPDesc mab, showPDesc (ms db da), showPDesc (ms mab dc), showPDesc (ms da (ms db dc)), showPDesc (ms da da),
        showPDesc (match chg with | none => da | some ch => ms da ch), showPDesc (ms mab db),
        showPDesc (match chg with | none => s | some ch => ms s ch), showPDesc (ms s db)]
      let impl := [ab, ba, ab_c, a_bc, aa, a_chg, abb, s_chg, s_b]
      let diff := if model == impl then "-" else "model=" ++ " ".intercalate model
      let inq := pInQuantifier [da, db, dc]
      let j : List String :=
        if !inq then [] else
          (if ab != ba then ["p-not-commutative"] else []) ++
          (if ab_c != a_bc then ["p-not-associative"] else []) ++
          (if aa != showPDesc da then ["p-not-idempotent"] else []) ++
          (if abb != ab then ["p-redelivery-changes-state"] else []) ++
          (if a_chg != ab then ["p-change-insufficient"] else []) ++
          (if s_chg != s_b then ["p-change-insufficient-on-superset-replica"] else [])
      (diff, if j.isEmpty then "-" else ",".intercalate j, s!"inq={inq} chg={chg.isSome} ab_ne_a={showPDesc mab != showPDesc da}")
    | _, _, _ => ("bad-input", "-", "-")
  | _ => ("bad-fields", "-", "-")

def handle (cmd : String) (f : List String) : String × String × String :=
  if cmd == "C03.merge" then handleMerge f
  else if cmd == "C03.laws" then handleLaws f
  else if cmd == "C03.pmerge" then handlePMerge f
  else if cmd == "C03.plaws" then handlePLaws f
  else ("unknown-cmd", "-", "-")

end OracleC03
