import Model.C10
import Std.Data.HashSet
/-!
Oracle handlers for C10.

`C10.batch  mode icount cancelAt sets outcomes plan ringInfo | trace gets`

* **diff** (acceptance): the observed event trace must be a run of the model's transition system
  (`C10.step`), with the internal `tick` events inserted freely (search over the τ-closure).
* **judge**: the property statement evaluated on the trace alone (never calls `C10.step`).
-/
namespace OracleC10
open Common C10

/-! ### parsing -/

inductive Tok
  | call (a : Nat) (idx : List Nat)
  | rel (as : List Nat)
  | cbret (a : Nat)
  | fin (a : Nat)
  | cancel | cleanup | watchdog
  | ret (v : String)
  | bad (s : String)
  deriving Repr, BEq, Inhabited

def parseDotList (s : String) : Option (List Nat) :=
  if s == "" then some [] else (s.splitOn ".").mapM String.toNat?

def parseTok (s : String) : Tok :=
  if s == "x" then .cancel else if s == "C" then .cleanup else if s == "T" then .watchdog
  else if s.startsWith "R:" then .ret (s.drop 2).toString
  else if s.startsWith "c" then
    match (s.drop 1).toString.splitOn ":" with
    | [a, idx] => match a.toNat?, parseDotList idx with
      | some a, some l => .call a l
      | _, _ => .bad s
    | _ => .bad s
  else if s.startsWith "r" then
    match ((s.drop 1).toString.splitOn "+").mapM String.toNat? with
    | some l => .rel l
    | none => .bad s
  else if s.startsWith "d" then
    match (s.drop 1).toString.toNat? with
    | some a => .cbret a
    | none => .bad s
  else if s.startsWith "f" then
    match (s.drop 1).toString.toNat? with
    | some a => .fin a
    | none => .bad s
  else .bad s

def parseTrace (s : String) : List Tok := if s == "-" then [] else (s.splitOn ",").map parseTok

def parseSet (s : String) : Option GetRes :=
  if s == "E" then some .err else
  match s.splitOn "/" with
  | [as, me] => do
    let l ← parseDotList as
    let m ← me.toInt?
    pure (.ok l m)
  | _ => none

def parseSets (s : String) : Option (List GetRes) :=
  if s == "-" then some [] else
  match s.splitOn "*" with
  | [n, "mod3/0"] => n.toNat?.map fun n => (List.range n).map fun i => GetRes.ok [i % 3] 0
  | _ => (s.splitOn ";").mapM parseSet

/-- `addr:o|c|s` with an optional suffix `C`/`D` (the error wraps `context.Canceled` /
`context.DeadlineExceeded` although the batch's own context is alive). The suffix does not matter for
the tracker: the callback returned an error, so it is a failure of the family the classifier assigns. -/
def parseOutcome (s : String) : Option (Nat × Outcome) :=
  match s.splitOn ":" with
  | [a, o] => do
    let a ← a.toNat?
    let fam := (o.take 1).toString
    let suf := (o.drop 1).toString
    if !(suf == "" || ((suf == "C" || suf == "D") && fam != "o")) then none
    let o ← (if fam == "o" then some Outcome.ok else if fam == "c" then some .client else if fam == "s" then some .server else none)
    pure (a, o)
  | _ => none

def parseOutcomes (s : String) : Option (List (Nat × Outcome)) :=
  if s == "-" then some [] else (s.splitOn ",").mapM parseOutcome

def outFn (l : List (Nat × Outcome)) (a : Nat) : Outcome :=
  match l.find? (·.1 == a) with
  | some p => p.2
  | none => .ok

/-! ### acceptance -/

abbrev SS := Std.HashSet St

def threadIdx (s : St) (a : Nat) : Option Nat := s.thr.findIdx? (·.id == a)

/-- all states reachable by internal `tick` events (worklist; the number of states is finite). -/
partial def closureGo (work : List St) (seen : SS) : SS :=
  match work with
  | [] => seen
  | s :: rest =>
    let succs := (List.range s.thr.length).filterMap fun k => step s (.tick k)
    let (work', seen') := succs.foldl (fun (w, sn) s' => if sn.contains s' then (w, sn) else (s' :: w, sn.insert s')) (rest, seen)
    closureGo work' seen'

def closure (ss : SS) : SS := closureGo ss.toList ss

def mapSS (ss : SS) (f : St → Option St) : SS :=
  ss.fold (fun acc s => match f s with | some s' => acc.insert s' | none => acc) {}

def quiescent (s : St) : Bool := (List.range s.thr.length).all fun k => (step s (.tick k)).isNone

def canReturn (s : St) : Bool := s.ret.isNone && (s.done ≥ 1 || s.errc.isSome || s.ctx)

def retVal (e : Option Nat) : String :=
  match e with
  | some a => s!"e{a}"
  | none => "enil"

/-- apply one observed token to a set of model states. -/
def applyTok (ss : SS) : Tok → SS
  | .call a idx => mapSS ss fun s => do
      let k ← threadIdx s a
      let t ← s.thr[k]?
      if t.todo == idx then step s (.start k) else none
  -- the gate opens: harness-side only; the callback is still running (model event: none)
  | .rel as => as.foldl (fun ss a => mapSS ss fun s => do
      let t ← s.thr[← threadIdx s a]?
      if t.st == .inCall then some s else none) ss
  -- the callback returns (the token is written by the callback itself right before `return`)
  | .cbret a => mapSS ss fun s => do step s (.ret (← threadIdx s a))
  | .fin a => mapSS (closure ss) fun s => do
      let k ← threadIdx s a
      let t ← s.thr[k]?
      if t.st == .fin then some s else none
  | .cancel => mapSS ss fun s => step s .cancel
  | .cleanup => mapSS (closure ss) fun s => step s .cleanup
  | .watchdog => mapSS (closure ss) fun s => if quiescent s && !canReturn s then some s else none
  | .ret v => mapSS (closure ss) fun s =>
      if v == "nil" then step s .recvDone
      else if v == "ctx" then step s .recvCtx
      else match s.errc with
        | some e => if retVal e == v then step s .recvErr else none
        | none => none
  | .bad _ => {}

def showTok : Tok → String
  | .call a idx => s!"c{a}:" ++ ".".intercalate (idx.map toString)
  | .rel as => "r" ++ "+".intercalate (as.map toString)
  | .cbret a => s!"d{a}"
  | .fin a => s!"f{a}"
  | .cancel => "x" | .cleanup => "C" | .watchdog => "T"
  | .ret v => "R:" ++ v
  | .bad s => "?" ++ s

def acceptFrom (ss : SS) (pos : Nat) : List Tok → String
  | [] =>
    -- the harness has waited for everything: the model must be able to end with all goroutines finished
    let fin := (closure ss).fold (fun b s => b || s.thr.all (·.st == .fin)) false
    if fin then "-" else "model-cannot-finish"
  | t :: ts =>
    let ss' := applyTok ss t
    if ss'.isEmpty then s!"model-rejects@{pos}:{showTok t}" else acceptFrom ss' (pos + 1) ts

def earlyName : Early → String
  | .noInstances => "noinst" | .ctx => "ctx" | .get => "get" | .emptyOk => "nil"

def accept (icount : Int) (cancelAt : Option Nat) (gets : List GetRes) (outs : List (Nat × Outcome))
    (trace : List Tok) (ngets : String) : String :=
  match prepare icount cancelAt gets with
  | .error r =>
    -- sequential early return: `cleanups` × Cleanup, then the return; no callback (the harness' own `x` aside)
    let tr := trace.filter (· != .cancel)
    let wantOf (r : EarlyRet) : List Tok := List.replicate r.cleanups Tok.cleanup ++ [Tok.ret (earlyName r.why)]
    -- The harness' cancel (`x`) runs concurrently with the call. When it is observed BEFORE the early
    -- return, the context may already have ended when the prefix made its last context check: the run
    -- in which the context ended before the call (cancelAt = 0) is then an equally valid run of the model.
    let alt : Option EarlyRet :=
      if trace.head? == some Tok.cancel then
        match prepare icount (some 0) gets with
        | .error x => some x
        | .ok _ => none
      else none
    if tr == wantOf r then (if toString r.gets != ngets then s!"model-gets={r.gets}" else "-")
    else match alt with
      | some r' =>
        if tr == wantOf r' then (if toString r'.gets != ngets then s!"model-gets={r'.gets}" else "-")
        else "model=" ++ ",".intercalate ((wantOf r).map showTok)
      | none => "model=" ++ ",".intercalate ((wantOf r).map showTok)
  | .ok p =>
    if toString p.gets != ngets then s!"model-gets={p.gets}" else
    acceptFrom (Std.HashSet.emptyWithCapacity.insert (initSt p (outFn outs))) 0 trace

/-! ### judge: the property statement on the observed trace -/

structure Key where
  addrs : List Nat
  maxErr : Int
  deriving Repr

structure JSt where
  calls : List Nat := []          -- replicas whose callback was invoked (with repetitions)
  released : List Nat := []       -- gates opened by the harness
  answered : List Nat := []       -- replicas whose callback has returned (`d` tokens, written by the callback)
  cancelled : Bool := false
  returned : Bool := false
  watchdog : Bool := false
  cleanups : Nat := 0
  bad : List String := []

def JSt.flag (j : JSt) (r : String) : JSt := if j.bad.contains r then j else { j with bad := j.bad ++ [r] }

def countOut (outs : List (Nat × Outcome)) (rel : List Nat) (k : Key) (o : Outcome) : Int :=
  ((k.addrs.filter fun a => rel.contains a && outFn outs a == o).length : Nat)

/-- the key can no longer reach its quorum and the statement obliges an error *now*: failures of one
family exceed the tolerance, or its last replica has answered without quorum. -/
def keyFailedNow (outs : List (Nat × Outcome)) (rel : List Nat) (k : Key) : Bool :=
  let ok := countOut outs rel k .ok
  let cl := countOut outs rel k .client
  let sv := countOut outs rel k .server
  cl > k.maxErr || sv > k.maxErr || (k.addrs.all rel.contains && ok < (k.addrs.length : Int) - k.maxErr)

/-- weakest reading of "the key ends without quorum": it can no longer reach it. -/
def keyDoomed (outs : List (Nat × Outcome)) (rel : List Nat) (k : Key) : Bool :=
  countOut outs rel k .client + countOut outs rel k .server > k.maxErr

def keyHasQuorum (outs : List (Nat × Outcome)) (rel : List Nat) (k : Key) : Bool :=
  countOut outs rel k .ok ≥ (k.addrs.length : Int) - k.maxErr

def expectedIdx (keys : List Key) (a : Nat) : List Nat :=
  (List.range keys.length).filter fun i => match keys[i]? with
    | some k => k.addrs.contains a
    | none => false

def judge (waits : Bool) (icount : Int) (getErr : Bool) (keys : List Key) (outs : List (Nat × Outcome)) (trace : List Tok) : List String :=
  let selected := (keys.flatMap (·.addrs)).eraseDups
  let allReleased (j : JSt) : Bool := selected.all j.released.contains
  -- a return is due: context ended, or a key failed for good, or every replica call has returned
  let due (j : JSt) : Bool := j.cancelled || keys.any (keyFailedNow outs j.released) || allReleased j
  -- "immediately": when the harness releases the next replica (it has then waited for the effects of
  -- all earlier releases, `waits`), an error that was already due must have been returned
  let checkLate (j : JSt) : JSt :=
    if waits && !j.returned && !j.watchdog && (j.cancelled || keys.any (keyFailedNow outs j.released))
    then j.flag "late-return" else j
  let j := trace.foldl (init := ({} : JSt)) fun j t =>
    match t with
    | .call a idx =>
      let j := if j.cleanups > 0 then j.flag "cleanup-before-calls-finished" else j
      let j := if !selected.contains a then j.flag "call-unselected-replica" else j
      let j := if j.calls.contains a then j.flag "replica-called-twice" else j
      let j := if selected.contains a && idx != expectedIdx keys a then j.flag "call-wrong-indexes" else j
      { j with calls := a :: j.calls }
    | .rel as =>
      let j := checkLate j
      let j := if j.cleanups > 0 then j.flag "cleanup-before-calls-finished" else j
      { j with released := j.released ++ as }
    | .cbret a =>
      let j := if j.cleanups > 0 then j.flag "cleanup-before-calls-finished" else j
      { j with answered := a :: j.answered }
    | .fin _ => j   -- written by the harness some time AFTER the goroutine finished: carries no ordering information
    | .cancel => { (checkLate j) with cancelled := true }
    | .cleanup =>
      let j := if j.cleanups > 0 then j.flag "cleanup-twice" else j
      -- "after all replica calls have finished": every callback invoked so far has returned
      let j := if !(j.calls.all j.answered.contains) then j.flag "cleanup-before-calls-finished" else j
      { j with cleanups := j.cleanups + 1 }
    | .watchdog =>
      let j := if !j.returned && (due j || getErr || icount ≤ 0) then j.flag "no-return" else j
      { j with watchdog := true }
    | .ret v =>
      let j := if j.returned then j.flag "returned-twice" else j
      let j :=
        if v == "nil" then
          if getErr || icount ≤ 0 || !(keys.all (keyHasQuorum outs j.answered)) then j.flag "success-without-quorum" else j
        else if v == "ctx" then (if j.cancelled then j else j.flag "ctx-error-without-cancel")
        else if v == "get" then (if getErr then j else j.flag "unexpected-error")
        else if v == "noinst" then (if icount ≤ 0 then j else j.flag "unexpected-error")
        else if v.startsWith "e" && v != "enil" then
          match (v.drop 1).toString.toNat? with
          | some a =>
            let j := if j.answered.contains a && outFn outs a != .ok && selected.contains a then j else j.flag "error-not-from-a-replica"
            if keys.any (keyDoomed outs j.answered) then j else j.flag "error-without-failed-key"
          | none => j.flag "unexpected-error"
        else if v == "enil" then j.flag "error-not-from-a-replica"
        else j.flag "unexpected-error"
      { j with returned := true }
    | .bad s => j.flag ("bad-token:" ++ s)
  let j := if !j.returned && !j.watchdog then j.flag "no-return" else j
  let j := if j.cleanups == 0 then j.flag "cleanup-missing" else j
  -- every selected replica is called (exactly once, checked above) unless the operation failed before calling anyone
  let retErr := trace.any fun t => match t with | .ret v => v != "nil" | _ => false
  let j := if !(j.calls.isEmpty && retErr) && !(selected.all j.calls.contains) then j.flag "call-missing" else j
  j.bad

/-! ### handler -/

def retClass (trace : List Tok) : String :=
  match trace.findSome? (fun t => match t with | .ret v => some v | _ => none) with
  | some v => if v.startsWith "e" && v != "enil" then "err" else v
  | none => "none"

def handleBatch (f : List String) : String × String × String :=
  match f with
  | [mode, icount, cancelAt, sets, outcomes, plan, _ringInfo, trace, ngets] =>
    match icount.toInt?, parseSets sets, parseOutcomes outcomes with
    | some ic, some gets, some outs =>
      let ca : Option Nat := if cancelAt == "-" then none else cancelAt.toNat?
      let tr := parseTrace trace
      let diff := accept ic ca gets outs tr ngets
      let getErr := gets.any (· == .err)
      let keys := gets.filterMap fun g => match g with | .ok a m => some { addrs := a, maxErr := m : Key } | .err => none
      let jb := judge (!mode.startsWith "inline") ic getErr keys outs tr
      let jd := if jb.isEmpty then "-" else ",".intercalate jb
      let ncalls := (keys.flatMap (·.addrs)).eraseDups.length
      let early := ic ≤ 0 || getErr || ca.isSome
      let batches := if plan.contains '+' then "sim" else "seq"
      let kind := if (_ringInfo.startsWith "real") then "real" else "fake"
      let nk := if gets.length > 4 then "big" else toString gets.length
      let tags := s!"mode={mode} ring={kind} keys={nk} calls={ncalls} early={early} cancel={plan.contains 'x' || ca.isSome} plan={batches} ret={retClass tr} wrap={outcomes.contains 'C' || outcomes.contains 'D'}"
      (diff, jd, tags)
    | _, _, _ => ("bad-input", "-", "-")
  | _ => ("bad-fields", "-", "-")

def handle (cmd : String) (f : List String) : String × String × String :=
  if cmd == "C10.batch" then handleBatch f else ("unknown-cmd", "-", "-")

end OracleC10
