import Model.C15
import Model.C15Cas
/-! Oracle handlers for C15: model output (correspondence) and judge (property on impl output). -/
namespace OracleC15
open Common Ring C14 C15

def joinReasons (l : List String) : String := if l.isEmpty then "-" else ",".intercalate l.eraseDups

def bucket (n : Nat) : String :=
  if n ≤ 3 then toString n else if n ≤ 8 then "4-8" else if n ≤ 64 then "9-64" else "65+"

/-! ### routing -/

/-- judge-side specification of the route, by exhaustive search (independent of `searchToken`):
the ACTIVE partition owning the smallest ACTIVE token `> key`, else the smallest ACTIVE token. -/
def specRoute (d : PDesc) (k : Nat) : Option Int :=
  let act : List (Nat × Int) := (d.parts.filter (·.state == 2)).flatMap fun p => p.tokens.map fun t => (t, p.id)
  let pickMin (l : List (Nat × Int)) : Option (Nat × Int) :=
    l.foldl (fun b x => match b with | none => some x | some y => if x.1 < y.1 then some x else some y) none
  match pickMin (act.filter (·.1 > k)) with
  | some x => some x.2
  | none => (pickMin act).map (·.2)

def showGroups (g : List (Int × List Nat)) : String :=
  if g.isEmpty then "-" else ";".intercalate (g.map fun (p, l) => toString p ++ ":" ++ "+".intercalate (l.map toString))

def parseGroups (s : String) : Option (List (Int × List Nat)) :=
  if s == "-" then some [] else
  (s.splitOn ";").mapM fun g => match g.splitOn ":" with
    | [p, l] => do pure ((← p.toInt?), (← (l.splitOn "+").mapM String.toNat?))
    | _ => none

def handleRoute (f : List String) : String × String × String :=
  match f with
  | [ds, ks, _, owners, groups] =>
    match parsePDesc ds, natList? ks with
    | some d, some keys =>
      let all := d.tokenParts
      let mOwners := if keys.isEmpty then "-" else
        ",".intercalate (keys.map fun k => match activeForOf all k with | .ok p => toString p | .error _ => "!")
      let mGroups := match keysByPartition d keys with
        | .ok g => "ok:" ++ showGroups g
        | .error e => "err:" ++ e.name
      let diff := if [mOwners, mGroups] == [owners, groups] then "-" else "model=" ++ mOwners ++ " " ++ mGroups
      let os := if keys.isEmpty then [] else owners.splitOn ","
      let anyActiveTok := d.parts.any fun p => p.state == 2 && !p.tokens.isEmpty
      let j1 := if os.length != keys.length then ["obs-length-mismatch"] else
        (keys.zip os).flatMap fun (k, o) =>
          match specRoute d k with
          | some p => if o == toString p then [] else if o == "!" then ["error-although-active-partition"] else ["route-not-next-active"]
          | none => if o == "!" then [] else ["route-without-active-partition"]
      let j2 := if groups.startsWith "ok:" then
          match parseGroups (groups.drop 3).toString with
          | none => ["groups-unparsable"]
          | some g =>
            let idxs := g.flatMap (·.2)
            (if (List.range keys.length).all (fun i => idxs.count i == 1) && idxs.length == keys.length then [] else ["keys-not-each-once"]) ++
            (if g.all (fun (p, l) => l.all fun i => os[i]? == some (toString p)) then [] else ["key-grouped-under-other-partition"])
        else if anyActiveTok then ["error-although-active-partition"] else []
      let nAct := (d.parts.filter (·.state == 2)).length
      let tags := s!"route parts={bucket d.parts.length} active={bucket nAct} tokens={bucket all.length} keys={bucket keys.length} groups={(groups.take 3).toString} t0={(all.head?.map (·.1 == 0)).getD false}"
      (diff, joinReasons (j1 ++ j2), tags)
    | _, _ => ("bad-input", "-", "-")
  | _ => ("bad-fields", "-", "-")

/-! ### histories -/

def parseCfg (s : String) : Option Cfg :=
  match s.splitOn "," with
  | [pid, inst, m, wc, wd, da] => do
    pure { pid := ← pid.toInt?, inst := inst, multi := m == "1", waitCount := ← wc.toNat?, waitDur := ← wd.toInt?, deleteAfter := ← da.toInt? }
  | _ => none

def parseOp (cfgs : List Cfg) (s : String) : Option Op :=
  match s.splitOn "," with
  | ["E", pid, to, now] => do pure (.change (← pid.toInt?) (← to.toNat?) (← now.toInt?))
  | ["L", pid, b, now] => do pure (.lock (← pid.toInt?) (b == "1") (← now.toInt?))
  | ["M", inst, pid] => do pure (.removeMultiOwner inst (← pid.toInt?))
  | ["C", ci, n, now] => do pure (.create (← cfgs[← ci.toNat?]?) (List.replicate (← n.toNat?) 0) (← now.toInt?))
  | ["W", ci, now] => do pure (.wait (← cfgs[← ci.toNat?]?) (← now.toInt?))
  | ["D", ci, now, _] => do pure (.wait (← cfgs[← ci.toNat?]?) (← now.toInt?))
  | ["G", ci, now] => do pure (.wait (← cfgs[← ci.toNat?]?) (← now.toInt?))   -- the registration CAS after an EARLIER successful poll
  | ["O", ci, now] => do pure (.reconcileOwned (← cfgs[← ci.toNat?]?) (← now.toInt?))
  | ["R", ci, now] => do pure (.reconcileOthers (← cfgs[← ci.toNat?]?) (← now.toInt?))
  | ["S", ci, b] => do pure (.stopping (← cfgs[← ci.toNat?]?) (b == "1"))
  | _ => none

/-- what the harness measured around the call: wall-clock bracket `[t0,t1]` (seconds) and, for a delayed
`waitPartitionAndRegisterOwner`, the second at which the partition became visible to the lifecycler. -/
structure Meta where
  t0 : Int
  t1 : Int
  tvis : Option Int := none
  /-- `W`: poll and registration CAS with nothing in between (the poll reads the ring the CAS is applied to) -/
  pollHere : Bool := false
  /-- third "@" part: `E`: the instant (ms) at which the call began; `R`/`O`: the handler's clock in ms -/
  ms : Option Int := none

partial def parseOpMeta (cfgs : List Cfg) (s : String) : Option (Op × Meta) :=
  match s.splitOn "@" with
  | [body, br] =>
    match br.splitOn ":" with
    | [a, b] => do
      let op ← parseOp cfgs body
      let tvis := match body.splitOn "," with
        | ["D", _, _, tv] => tv.toInt?
        | _ => none
      pure (op, { t0 := ← a.toInt?, t1 := ← b.toInt?, tvis := tvis, pollHere := body.startsWith "W," })
    | _ => none
  | [body, br, ms] => do
    let (op, m) ← parseOpMeta cfgs (body ++ "@" ++ br)
    pure (op, { m with ms := some (← ms.toInt?) })
  | _ => none

/-- does the operation stamp `time.Now()` (as opposed to the virtual clock handed to the reconcile handlers)? -/
def stampsWallClock : Op → Bool
  | .change .. => true | .lock .. => true | .create .. => true | .wait .. => true | _ => false

def isReconcile : Op → Bool
  | .reconcileOwned .. => true | .reconcileOthers .. => true | _ => false

def resName (op : Op) (r : Except C15.Err (Option PDesc)) : String :=
  match r with
  | .ok _ => "ok"
  | .error e => if isReconcile op then "failed" else e.name

/-- the legal edges, written from the property text (judge side) -/
def legalEdge (a b : Nat) : Bool := (a, b) == (1, 2) || (a, b) == (1, 3) || (a, b) == (2, 3) || (a, b) == (3, 2)

/-- judge one recorded step `old --op--> new`. `bounds`: for owners registered by a delayed wait, the
earliest second at which that registration can truly have happened (the partition was not visible before). -/
def judgeStep (old new : PDesc) (op : Op) (m : Meta) (bounds : List (String × Int))
    (inactSince : List (Int × Int) := []) : List String := Id.run do
  let mut bad : List String := []
  -- timestamps written by this call lie inside the call, and a registration is not dated before the
  -- partition became visible to the registering lifecycler
  if stampsWallClock op then
    let inBr := fun (ts : Int) => m.t0 ≤ ts && ts ≤ m.t1
    for q in new.parts do
      match old.parts.find? (·.id == q.id) with
      | some p =>
        if p.state != q.state && !inBr q.stateTs then bad := "timestamp-outside-call-bracket" :: bad
        if p.locked != q.locked && !inBr q.lockedTs then bad := "timestamp-outside-call-bracket" :: bad
      | none => if !inBr q.stateTs then bad := "timestamp-outside-call-bracket" :: bad
    for o in new.owners do
      if (old.owners.find? (·.id == o.id)) != some o then
        if !inBr o.updatedTs then bad := "timestamp-outside-call-bracket" :: bad
        match m.tvis with
        | some tv => if o.updatedTs < tv then bad := "owner-timestamp-before-registration" :: bad
        | none => pure ()
  for p in old.parts do
    match new.parts.find? (·.id == p.id) with
    | some q =>
      if p.state != q.state then
        if !legalEdge p.state q.state then bad := "illegal-edge" :: bad
        if p.locked then bad := "changed-while-locked" :: bad
        match op with
        | .reconcileOwned c now =>
          -- owners counted with their TRUE registration time where the harness knows a later lower bound
          let eff := fun (o : Owner) => match bounds.find? (·.1 == o.id) with
            | some (_, b) => if b > o.updatedTs then b else o.updatedTs
            | none => o.updatedTs
          let cnt := (old.owners.filter fun o => o.partition == c.pid && eff o < now - c.waitDur).length
          if !(p.id == c.pid && p.state == 1 && q.state == 2 && cnt ≥ c.waitCount) then bad := "promotion-guard" :: bad
        | .change pid to _ => if !(p.id == pid && q.state == to) then bad := "changed-other-than-requested" :: bad
        | _ => bad := "state-changed-by-non-state-operation" :: bad
    | none =>
      match op with
      | .reconcileOthers c now =>
        let owners := (old.owners.filter (·.partition == p.id)).length
        match m.ms with
        | none =>
          if !(p.id != c.pid && p.state == 3 && p.stateTs < now - c.deleteAfter && owners == 0 && c.deleteAfter > 0) then
            bad := "deletion-guard" :: bad
        | some nowMs =>
          -- clock with a sub-second part: "inactive LONGER than the delay" is about the instant the state was set,
          -- which is not before the stored (truncated) second and not before the start of the call that set it
          if !(p.id != c.pid && p.state == 3 && p.stateTs * 1000 < nowMs - c.deleteAfter * 1000 && owners == 0 && c.deleteAfter > 0) then
            bad := "deletion-guard" :: bad
          match inactSince.find? (·.1 == p.id) with
          | some (_, t0ms) => if !(nowMs - t0ms > c.deleteAfter * 1000) then bad := "deleted-before-delay-elapsed" :: bad
          | none => pure ()
      | _ => bad := "deleted-by-non-reconcile" :: bad
  for q in new.parts do
    if (old.parts.find? (·.id == q.id)).isNone then
      match op with
      | .create c _ _ => if !(q.id == c.pid && q.state == 1) then bad := "created-not-pending" :: bad
      | _ => bad := "created-by-non-create" :: bad
  -- an owner registration disappears only through its own lifecycler's shutdown (if so configured) or the
  -- editor's RemoveMultiPartitionOwner for exactly that owner
  for o in old.owners do
    if !(new.owners.any (·.id == o.id)) then
      match op with
      | .stopping c rm => if !(rm && c.ownerID == o.id) then bad := "registration-lost" :: bad
      | .removeMultiOwner inst pid => if !(inst ++ "/" ++ toString pid == o.id) then bad := "registration-lost" :: bad
      | _ => bad := "registration-lost" :: bad
  return bad

def handleHist (f : List String) : String × String × String :=
  match f with
  | [init, lcs, ops, obs] =>
    match parsePDesc init, (lcs.splitOn ";").mapM parseCfg with
    | some d0, some cfgs =>
      match (ops.splitOn ";").mapM (parseOpMeta cfgs), (obs.splitOn "#").mapM (fun o => match o.splitOn "@" with
          | [r, d] => (parsePDesc d).map fun pd => (r, d, pd) | _ => none) with
      | some oplm, some obl =>
        let opl := oplm.map (·.1)
        if opl.length != obl.length then ("bad-lengths", "-", "-") else
        -- model replay
        let (_, mOut) := oplm.foldl (fun (acc : PDesc × List String) (opm : Op × Meta) =>
          let op := opm.1
          -- a wait whose poll is part of the step gives up (context error) while the partition does not exist
          let blocked := match op with | .wait c _ => opm.2.pollHere && !pollSees acc.1 c | _ => false
          let r := if blocked then .error .ctx else match op, opm.2.ms with
            | .reconcileOthers c now, some ms => if unixSec ms == now then reconcileOthersMs acc.1 c ms else .error .ctx
            | .reconcileOwned c now, some ms => if unixSec ms == now then reconcileOwnedMs acc.1 c ms else .error .ctx
            | _, _ => step acc.1 op
          let d' := if blocked then acc.1 else match r with | .ok (some x) => x | _ => acc.1
          (d', acc.2 ++ [resName op r ++ "@" ++ showPDescOpt true d'])) (d0, [])
        let mStr := "#".intercalate mOut
        let diff := if mStr == obs then "-" else
          let firstBad := ((mOut.zip (obs.splitOn "#")).zipIdx.find? fun ((a, b), _) => a != b).map fun ((a, _), i) => s!"step{i}:{a}"
          "model=" ++ firstBad.getD "?"
        -- judge on the implementation's recorded versions
        let vers := d0 :: obl.map (·.2.2)
        let steps := (vers.zip (vers.drop 1)).zip opl
        let (judge, _) := ((vers.zip (vers.drop 1)).zip oplm).foldl
          (fun (acc : List String × List (String × Int) × List (Int × Int)) (x : (PDesc × PDesc) × (Op × Meta)) =>
            let ((a, b), (op, m)) := x
            let j := judgeStep a b op m acc.2.1 acc.2.2
            let bounds := match op, m.tvis with
              | .wait c _, some tv => (c.ownerID, tv) :: acc.2.1
              | _, _ => acc.2.1
            -- partitions whose state this step changed: the change did not happen before the call began
            let since := match m.ms with
              | some t0ms => (b.parts.filter fun q => (a.parts.find? (·.id == q.id)).any (·.state != q.state)).map (fun q => (q.id, t0ms)) ++ acc.2.2
              | none => (acc.2.2.filter fun (pid, _) => !(b.parts.any fun q => q.id == pid && (a.parts.find? (·.id == q.id)).any (·.state != q.state)))
            (acc.1 ++ j, bounds, since)) ([], [], [])
        let delayed := oplm.any (·.2.tvis.isSome)
        let changed := (steps.filter fun ((a, b), _) => a != b).length
        let promo := steps.any fun ((a, b), op) => match op with | .reconcileOwned .. => a != b | _ => false
        let del := steps.any fun ((a, b), _) => a.parts.length > b.parts.length
        let lockedErr := obl.any (·.1 == "locked") || obl.any (·.1 == "failed")
        let notAllowed := obl.any (·.1 == "stateChangeNotAllowed")
        let subsec := oplm.any fun (op, m) => isReconcile op && m.ms.any (· % 1000 != 0)
        let tags := s!"hist subsec={subsec} ops={bucket opl.length} lcs={cfgs.length} changed={bucket changed} promo={promo} del={del} failed={lockedErr} notAllowed={notAllowed} delayedWait={delayed}"
        (diff, joinReasons judge, tags)
      | _, _ => ("bad-ops", "-", "-")
    | _, _ => ("bad-input", "-", "-")
  | _ => ("bad-fields", "-", "-")

/-! ### the real service loop -/

def parseLoopCfg (s : String) : Option Loop :=
  match s.splitOn "," with
  | [pid, inst, m, wc, wd, da, cr, rm] => do
    pure { cfg := { pid := ← pid.toInt?, inst := inst, multi := m == "1", waitCount := ← wc.toNat?, waitDur := ← wd.toInt?,
                    deleteAfter := ← da.toInt? }, createOnStartup := cr == "1", removeOwnerOnShutdown := rm == "1" }
  | _ => none

/-- one scripted action: the acts the system performs (the action, then one full reconcile tick) and the
operation whose error class is reported -/
def parseLoopItem (l : Loop) (s : String) : Option (List Act × Option Op × Meta × Bool) :=
  match s.splitOn "@" with
  | [body, br] =>
    match br.splitOn ":" with
    | [a, b] => do
      let m : Meta := { t0 := ← a.toInt?, t1 := ← b.toInt? }
      match body.splitOn "," with
      | ["S", n, na, nt] => do
        let nt ← nt.toInt?
        pure ([.poll 0, .start 0 (List.replicate (← n.toNat?) 0) (← na.toInt?) (nt, nt)], none, m, false)
      | ["A", to, na, nt] => do
        let nt ← nt.toInt?; let op := Op.change l.cfg.pid (← to.toNat?) (← na.toInt?)
        pure ([.event 0 (.actor (← to.toNat?) (← na.toInt?)), .event 0 (.tick nt nt)], some op, m, false)
      | ["E", pid, to, na, nt] => do
        let nt ← nt.toInt?; let op := Op.change (← pid.toInt?) (← to.toNat?) (← na.toInt?)
        pure ([.editor op, .event 0 (.tick nt nt)], some op, m, false)
      | ["L", pid, b, na, nt] => do
        let nt ← nt.toInt?; let op := Op.lock (← pid.toInt?) (b == "1") (← na.toInt?)
        pure ([.editor op, .event 0 (.tick nt nt)], some op, m, true)
      | ["T", _, nt] => do
        let nt ← nt.toInt?
        pure ([.event 0 (.tick nt nt)], none, m, false)
      | ["X"] => pure ([.event 0 .stop], none, m, false)
      | _ => none
    | _ => none
  | _ => none

/-- reachable by legal edges (reflexive-transitive closure, written out) -/
def reachableState (a b : Nat) : Bool :=
  a == b || (a == 1 && (b == 2 || b == 3)) || ((a == 2 || a == 3) && (b == 2 || b == 3))

/-- judge one observed step of the real loop (action + at least one full tick) from the property text -/
def judgeLoopStep (l : Loop) (old new : PDesc) (running : Bool) (isLockOp : Bool) (m : Meta) : List String := Id.run do
  let c := l.cfg
  let mut bad : List String := []
  for p in old.parts do
    match new.parts.find? (·.id == p.id) with
    | some q =>
      if !reachableState p.state q.state then bad := "illegal-edge" :: bad
      if p.state != q.state && p.locked && q.locked && !isLockOp then bad := "changed-while-locked" :: bad
    | none =>
      let owners := (old.owners.filter (·.partition == p.id)).length
      if !(p.id != c.pid && p.state == 3 && p.stateTs < m.t1 - c.deleteAfter && owners == 0 && c.deleteAfter > 0) then
        bad := "deletion-guard" :: bad
  for q in new.parts do
    if (old.parts.find? (·.id == q.id)).isNone then
      if !(q.id == c.pid && (q.state == 1 || q.state == 2)) then bad := "created-not-pending" :: bad
  if running then
    if !(new.owners.any fun o => o.id == c.ownerID && o.partition == c.pid && o.state == 1) then
      bad := "registration-lost" :: bad
  return bad

def handleLoop (f : List String) : String × String × String :=
  match f with
  | [init, lcs, script, obs] =>
    match parsePDesc init, parseLoopCfg lcs with
    | some d0, some l =>
      match (script.splitOn ";").mapM (parseLoopItem l), (obs.splitOn "#").mapM (fun o => match o.splitOn "@" with
          | [r, d] => (parsePDesc d).map fun pd => (r, pd) | _ => none) with
      | some items, some obl =>
        if items.length != obl.length then ("bad-lengths", "-", "-") else
        let s0 : Sys := { ring := d0, phase := fun _ => .new }
        let (_, mOut) := items.foldl (fun (acc : Sys × List String) it =>
          let (acts, op, _, _) := it
          let res := match op with
            | some o => (match step acc.1.ring o with | .ok _ => "ok" | .error e => e.name)
            | none => "ok"
          let s' := sysRun [l] acc.1 acts
          (s', acc.2 ++ [res ++ "@" ++ showPDescOpt true s'.ring])) (s0, [])
        let mStr := "#".intercalate mOut
        let diff := if mStr == obs then "-" else
          let firstBad := ((mOut.zip (obs.splitOn "#")).zipIdx.find? fun ((a, b), _) => a != b).map fun ((a, _), i) => s!"step{i}:{a}"
          "model=" ++ firstBad.getD "?"
        let vers := d0 :: obl.map (·.2)
        let n := items.length
        let judge := (((vers.zip (vers.drop 1)).zip items).zipIdx).flatMap fun (((a, b), it), i) =>
          judgeLoopStep l a b (i + 1 < n) it.2.2.2 it.2.2.1
        let changed := ((vers.zip (vers.drop 1)).filter fun (a, b) => a != b).length
        let promoted := (vers.zip (vers.drop 1)).any fun (a, b) =>
          ((a.parts.find? (·.id == l.cfg.pid)).map (·.state)) != some 2 && ((b.parts.find? (·.id == l.cfg.pid)).map (·.state)) == some 2
        let deleted := (vers.zip (vers.drop 1)).any fun (a, b) => a.parts.length > b.parts.length
        let tags := s!"loop steps={bucket n} changed={bucket changed} promoted={promoted} deleted={deleted} create={l.createOnStartup} remove={l.removeOwnerOnShutdown}"
        (diff, joinReasons judge, tags)
      | _, _ => ("bad-script", "-", "-")
    | _, _ => ("bad-input", "-", "-")
  | _ => ("bad-fields", "-", "-")

/-! ### replication sets -/

def nowRepr : Int := 2000000000     -- any instant between the two heartbeat classes used by the generator
def timeoutRepr : Int := 3600

def parseBits (s : String) : List Bool := s.toList.map (· == '1')

def insertStr (x : String) : List String → List String
  | [] => [x]
  | y :: ys => if x ≤ y then x :: y :: ys else y :: insertStr x ys
def sortStr (l : List String) : List String := l.foldr insertStr []

def showSet (ids : List String) (mu : Nat) : String := "+".intercalate ids ++ ":" ++ toString mu ++ ":0:1"

/-- judge side: healthy registered owners of a partition (owner ids as instance ids) -/
def healthyOwners (d : PDesc) (insts : Desc) (hs : List Bool) (pid : Int) (strip : Bool) : List Inst :=
  (d.owners.filter (·.partition == pid)).filterMap fun o =>
    let iid := if strip then stripSuffix o.id else o.id
    match insts.find? (·.id == iid) with
    | some i => if hs.getD i.state.toNat false && nowRepr - i.ts ≤ timeoutRepr then some i else none   -- heartbeat within the timeout
    | none => none

def handleRepl (f : List String) : String × String × String :=
  match f with
  | [ds, is, bitsKind, obs] =>
    match parsePDesc ds, parseDesc is with
    | some d, some insts =>
      let bits := (bitsKind.splitOn ",").headD ""
      let kind := ((bitsKind.splitOn ",").drop 1).headD "ring"
      let hs := parseBits bits
      let m := match replSets d insts hs timeoutRepr nowRepr with
        | .ok sets => "ok:" ++ ";".intercalate (sortStr (sets.map fun (ids, mu) => showSet (sortStr ids) mu))
        | .error e => "err:" ++ e.name
      let diff := if m == obs then "-" else "model=" ++ m
      -- judge: the (anonymous) sets are exactly the healthy registered owners of each partition, none empty
      let expected := d.parts.map fun p => sortStr ((healthyOwners d insts hs p.id false).map (·.id))
      let judge :=
        if obs.startsWith "ok:" then
          let got := ((obs.drop 3).toString.splitOn ";").map fun s => ((s.splitOn ":").headD "")
          (if sortStr got == sortStr (expected.map ("+".intercalate ·)) then [] else ["sets-not-healthy-owners"]) ++
          (if expected.any (·.isEmpty) || d.parts.isEmpty then ["ok-without-healthy-owner"] else [])
        else if obs == "err:tooManyUnhealthy" then (if expected.any (·.isEmpty) then [] else ["error-although-all-partitions-have-healthy-owner"])
        else if obs == "err:emptyRing" then (if d.parts.isEmpty then [] else ["empty-ring-error-with-partitions"])
        else ["unexpected-error"]
      let tags := s!"repl kind={kind} res={if obs.startsWith "ok" then "ok" else obs} parts={d.parts.length} owners={bucket d.owners.length} insts={bucket insts.length}"
      (diff, joinReasons judge, tags)
    | _, _ => ("bad-input", "-", "-")
  | _ => ("bad-fields", "-", "-")

def handleMrepl (f : List String) : String × String × String :=
  match f with
  | [ds, is, cfg, obs] =>
    match parsePDesc ds, parseDesc is, cfg.splitOn "," with
    | some d, some insts, [bits, pidS] =>
      match pidS.toInt? with
      | none => ("bad-input", "-", "-")
      | some pid =>
      let hs := parseBits bits
      let m := match multiReplSet d insts hs timeoutRepr nowRepr pid with
        | .ok (ids, mu) => "ok:" ++ showSet ids mu
        | .error e => "err:" ++ e.name
      let diff := if m == obs then "-" else "model=" ++ m
      let ho := healthyOwners d insts hs pid true
      let registered := (d.owners.filter (·.partition == pid)).length
      let judge :=
        if obs.startsWith "ok:" then
          let got := (((obs.drop 3).toString.splitOn ":").headD "").splitOn "+"
          let gotI := got.filterMap fun id => ho.find? (·.id == id)
          let zones := (ho.map (·.zone)).eraseDups
          (if gotI.length == got.length then [] else ["member-not-healthy-owner"]) ++
          (if sortStr (gotI.map (·.zone)) == sortStr zones then [] else ["not-one-per-zone"]) ++
          (if gotI.all fun g => !g.ro || (ho.filter fun h => h.zone == g.zone && !h.ro).isEmpty then [] else ["read-only-preferred"]) ++
          (if gotI.all fun g => (ho.filter fun h => h.zone == g.zone && h.ro == g.ro).all fun h =>
              !idxLt (indexFromSuffix g.id) (indexFromSuffix h.id) then [] else ["not-highest-index"])
        else if obs == "err:tooManyUnhealthy" then (if ho.isEmpty && registered > 0 then [] else ["error-although-healthy-owner"])
        else if obs == "err:emptyRing" then (if registered == 0 then [] else ["empty-ring-error-with-owners"])
        else ["unexpected-error"]
      let tags := s!"mrepl res={if obs.startsWith "ok" then "ok" else obs} owners={bucket registered} healthy={bucket ho.length} zones={((ho.map (·.zone)).eraseDups).length}"
      (diff, joinReasons judge, tags)
    | _, _, _ => ("bad-input", "-", "-")
  | _ => ("bad-fields", "-", "-")

/-- the racing-store lines once more through the versioned-cell model: the handler's CAS (10 attempts) with the
conflicting write landing during its first attempt must end in the recorded result and ring. -/
def casDiff (f : List String) : String :=
  match f with
  | [init, lcs, ops, obs] =>
    match parsePDesc init, (lcs.splitOn ";").mapM parseCfg with
    | some d0, some cfgs =>
      match (ops.splitOn ";").mapM (parseOpMeta cfgs), (obs.splitOn "#").getLast? with
      | some [(w, _), (h, _)], some last =>
        if isReconcile h then
          let (cell, res) := casRun (fun d => step d h) 10 ⟨d0, 0⟩ [[w]]
          let rs := match res with | .done r => resName h r | .exhausted => "failed"
          let m := rs ++ "@" ++ showPDescOpt true cell.val
          if m == last then "-" else "casRun=" ++ m
        else "-"
      | _, _ => "-"
    | _, _ => "-"
  | _ => "-"

def handle (cmd : String) (f : List String) : String × String × String :=
  if cmd == "C15.route" then handleRoute f
  else if cmd == "C15.hist" then handleHist f
  else if cmd == "C15.loop" then handleLoop f
  else if cmd == "C15.sub" then
    let (d, j, t) := handleHist f
    (d, j, "subsecond-clock " ++ t)
  else if cmd == "C15.cas" then
    let (d, j, t) := handleHist f
    let d2 := casDiff f
    ((if d == "-" then d2 else d), j, "cas-retry " ++ t)
  else if cmd == "C15.repl" then handleRepl f
  else if cmd == "C15.mrepl" then handleMrepl f
  else ("unknown-cmd", "-", "-")

end OracleC15
