import Model.C20
import Model.C20X
/-! Oracle handlers for C20: model output (correspondence) and judge (property on impl output). -/
namespace OracleC20
open Common C20

def showRes {α} (f : α → String) : Except Err α → String
  | .ok a => "ok:" ++ f a
  | .error e => "err:" ++ e.name

def showList (l : List Bytes) : String := ",".intercalate (l.map hexEncode)

/-- documented safe characters, written independently of `validChar` (judge side). -/
def docChars : List UInt8 :=
  (List.range 26).map (fun i => UInt8.ofNat (97 + i)) ++ (List.range 26).map (fun i => UInt8.ofNat (65 + i)) ++
  (List.range 10).map (fun i => UInt8.ofNat (48 + i)) ++ [33, 45, 95, 46, 42, 39, 40, 41]

def safeID (t : Bytes) : Bool :=
  t.all (fun c => docChars.contains c) && t.length ≤ 150 && t != [46] && t != [46, 46] &&
  t.all (fun c => c != 47 && c != 92 && c != 124 && c != 58 && c != 0 && c < 128)

def strictlySorted : List Bytes → Bool
  | [] => true
  | [_] => true
  | a :: b :: r => bytesLt a b && strictlySorted (b :: r)

def parseOkList (s : String) : Option (List Bytes) :=
  (s.splitOn ",").mapM hexDecode

/-- judge for the resolver observations; returns failure reasons. -/
def judgeId (s : Bytes) (tid tids pwm vld : String) : List String := Id.run do
  let supplied := (splitOn 124 s).map (fun p => p.takeWhile (· != 58))
  let mut bad : List String := []
  let tidOk : Option Bytes := if tid.startsWith "ok:" then hexDecode (tid.drop 3).toString else none
  let tidsOk : Option (List Bytes) := if tids.startsWith "ok:" then parseOkList (tids.drop 3).toString else none
  match tidOk with
  | some t =>
    if !safeID t then bad := "tid-unsafe" :: bad
    if !supplied.all (· == t) then bad := "tid-not-all-same" :: bad
  | none => pure ()
  match tidsOk with
  | some l =>
    if !l.all safeID then bad := "tids-unsafe" :: bad
    if !strictlySorted l then bad := "tids-not-strictly-sorted" :: bad
    if !(supplied.all (l.contains ·) && l.all (supplied.contains ·)) then bad := "tids-not-exactly-supplied" :: bad
  | none => pure ()
  -- the two resolvers agree: single succeeds with t iff multi returns [t]
  match tidOk, tidsOk with
  | some t, some l => if l != [t] then bad := "resolvers-disagree" :: bad
  | some _, none => bad := "single-ok-multi-fails" :: bad
  | none, some l => if l.length == 1 then bad := "multi-single-ok-single-fails" :: bad
  | none, none => pure ()
  if pwm.startsWith "ok:" then
    match ((pwm.drop 3).toString.splitOn "/").mapM hexDecode with
    | some [t, m] =>
      if !safeID t then bad := "pwm-unsafe" :: bad
      if some t != tidOk then bad := "pwm-tenant-differs" :: bad
      if m.length > 64 then bad := "pwm-meta-too-long" :: bad
    | _ => bad := "pwm-unparsable" :: bad
  -- the validator itself, on the raw string: whatever it accepts is safe
  if vld.startsWith "ok:" ∧ !safeID s then bad := "vld-accepts-unsafe" :: bad
  return bad

def handleId (f : List String) : String × String × String :=
  match f with
  | [hs, tid, tids, pwm, vld] =>
    match hexDecode hs with
    | none => ("bad-input", "-", "-")
    | some s =>
      let mTid := showRes hexEncode (tenantID s)
      let mTids := showRes showList (tenantIDs s)
      let mPwm := showRes (fun (p : Bytes × Bytes) => hexEncode p.1 ++ "/" ++ hexEncode p.2) (parseWithMetadata s)
      let mVld := showRes (fun _ => "") (validTenantID s)
      let model := [mTid, mTids, mPwm, mVld]
      let diff := if model == [tid, tids, pwm, vld] then "-" else "model=" ++ " ".intercalate model
      let j := judgeId s tid tids pwm vld
      let judge := if j.isEmpty then "-" else ",".intercalate j
      let nparts := (splitOn 124 s).length
      let tags := s!"tid={(tid.take 6).toString} parts={min nparts 4} meta={s.contains 58}"
      (diff, judge, tags)
  | _ => ("bad-fields", "-", "-")

/-- hop syntax: `h:none|<hex>,..` (the values of a pre-existing header; `-` = an empty value) / `g:none|empty|<hex>,..`, optionally followed by `!<hex>` = the receiving
context already holds that identifier. -/
def parseHop (s0 : String) : Option Hop :=
  let (s, recv?) : String × Option Ctx := match s0.splitOn "!" with
    | [a, r] => (a, (hexDecode r).map fun x => [(CKey.org, x)])
    | _ => (s0, some [])
  match recv? with
  | none => none
  | some recv =>
    if s == "h:none" then some (.http [] recv)
    else if s.startsWith "h:" then (parseOkList (s.drop 2).toString).map (fun l => Hop.http l recv)
    else if s == "g:none" then some (.grpc none recv)
    else if s == "g:empty" then some (.grpc (some []) recv)
    else if s.startsWith "g:" then (parseOkList (s.drop 2).toString).map (fun l => Hop.grpc (some l) recv)
    else none

/-- judge side, written from the property text on the hop SYNTAX (never calls the model): does the
carrier of this hop hold a value that conflicts with identifier `ids` (hex; `-` = empty)? An HTTP
header cannot carry an empty identifier. -/
def hopConflicts (ids : String) (h0 : String) : Bool :=
  let h := (h0.splitOn "!").headD h0
  if h.startsWith "h:" then
    -- the receiver (and the sender's check) see the FIRST value of a pre-existing header; an absent
    -- header (`h:none`) and one whose first value is empty (`-`) hold nothing that conflicts
    let ex := if h == "h:none" then "-" else (((h.drop 2).toString).splitOn ",").headD "-"
    ids == "-" || !(ex == "-" || ex == ids)
  else
    !(h == "g:none" || h == "g:" ++ ids)

def handleChain (f : List String) : String × String × String :=
  match f with
  | [ids, hops, obs] =>
    let c? : Option Ctx := if ids == "none" then some [] else (hexDecode ids).map fun x => [(CKey.org, x)]
    let hopStrs := if hops == "-" then [] else hops.splitOn " "
    let hs? := hopStrs.mapM parseHop
    match c?, hs? with
    | some c, some hs =>
      let m := match chain c hs 0 with
        | .ok c' => (match extractOrgID c' with | .ok x => "ok:" ++ hexEncode x | .error _ => "ok:none")
        | .error (e, i) => s!"err:{e.name}@{i}"
      let diff := if m == obs then "-" else "model=" ++ m
      -- judge. The identifier ARRIVES unchanged: a success must deliver it; a failure is only
      -- acceptable at or after the first hop whose carrier holds a conflicting value. A context
      -- without an identifier never yields one, and an empty header is "without one".
      let firstConflict := hopStrs.findIdx? (hopConflicts ids)
      let errIdx : Option Nat := if obs.startsWith "err:" then ((obs.splitOn "@").getLast?.bind String.toNat?) else none
      let bad : List String :=
        (if ids != "none" ∧ obs.startsWith "ok:" ∧ (obs.drop 3).toString != ids then ["id-changed-in-transit"] else []) ++
        (if ids == "none" ∧ !hs.isEmpty ∧ obs.startsWith "ok:" then ["default-id-invented"] else []) ++
        (if ids == "-" ∧ obs.startsWith "ok:" ∧ hopStrs.any (·.startsWith "h:") then ["request-without-id-accepted-over-http"] else []) ++
        (if ids != "none" ∧ obs.startsWith "err:" then
          match errIdx, firstConflict with
          | some i, some p => if i < p then ["id-lost-on-clean-hop"] else []
          | some _, none => ["id-lost-on-clean-hop"]
          | none, _ => ["unparsable-failure"]
         else []) ++
        (if !(obs.startsWith "ok:") ∧ !(obs.startsWith "err:") then ["unparsable-observation"] else [])
      (diff, if bad.isEmpty then "-" else ",".intercalate bad,
       s!"hops={min hs.length 5} res={(obs.take 3).toString} stale={hops.contains '!'} clean={firstConflict.isNone}")
    | _, _ => ("bad-input", "-", "-")
  | _ => ("bad-fields", "-", "-")

/-- resolvers on a context that holds no identifier at all. -/
def handleNoId (f : List String) : String × String × String :=
  match f with
  | [_, _, tid, tids, pwm] =>
    let model := [showRes hexEncode (resolveTenantID []), showRes showList (resolveTenantIDs []),
      showRes (fun (p : Bytes × Bytes) => hexEncode p.1 ++ "/" ++ hexEncode p.2) (resolveWithMetadata [])]
    let diff := if model == [tid, tids, pwm] then "-" else "model=" ++ " ".intercalate model
    -- judge: a request without an identifier is rejected, never given a default tenant
    let bad := (if tid.startsWith "ok:" then ["default-tenant-invented"] else []) ++
      (if tids.startsWith "ok:" then ["default-tenants-invented"] else []) ++
      (if pwm.startsWith "ok:" then ["default-tenant-invented-with-metadata"] else [])
    (diff, if bad.isEmpty then "-" else ",".intercalate bad, "noid")
  | _ => ("bad-fields", "-", "-")


/-! ## extension streams (Model/C20X.lean) -/

def splitStale (s0 : String) : String × Option Ctx :=
  match s0.splitOn "!" with
  | [a, r] => (a, (hexDecode r).map fun x => [(CKey.org, x)])
  | _ => (s0, some [])

def parseHdr (s : String) : Option (List Bytes) :=
  if s == "none" then some [] else parseOkList s

def parseMD (s : String) : Option (Option (List Bytes)) :=
  if s == "none" then some none else if s == "empty" then some (some []) else (parseOkList s).map some

def parseHRecv (c : Char) : Option HRecv :=
  if c == 'e' then some .extract else if c == 't' then some .tenant else if c == 'a' then some .auth else none
def parseGSend (c : Char) : Option GSend :=
  if c == 'i' then some .inject else if c == 'u' then some .unary else if c == 's' then some .stream else none
def parseGRecv (c : Char) : Option GRecv :=
  if c == 'e' then some .extract else if c == 'u' then some .unary else if c == 's' then some .stream else none

/-- stage syntax: `H<r>:<hdr>`, `T<r>:<hdr>`, `G<s><r>:<md>`, optional `!<stale hex>`. -/
def parseStage (s0 : String) : Option Stage := do
  let (s, recv?) := splitStale s0
  let recv ← recv?
  match s.splitOn ":" with
  | [k, v] =>
    match k.toList with
    | ['H', r] => do let r ← parseHRecv r; let h ← parseHdr v; pure (.http h recv r)
    | ['T', r] => do let r ← parseHRecv r; let h ← parseHdr v; pure (.httpgrpc h recv r)
    | ['G', a, b] => do let a ← parseGSend a; let b ← parseGRecv b; let m ← parseMD v; pure (.grpc m recv a b)
    | _ => none
  | _ => none

/-- judge side: the identifier (hex) denotes one single safe tenant (all supplied parts the same). -/
def singleTenantOK (ids : String) : Bool :=
  match hexDecode ids with
  | none => false
  | some s =>
    let supplied := (splitOn 124 s).map (fun p => p.takeWhile (· != 58))
    match supplied with
    | [] => false
    | t :: r => safeID t && r.all (· == t)

/-- judge side, on the stage SYNTAX: does the carrier hold a conflicting value, or is the receiving
entry point the single-tenant one while the identifier does not denote a single tenant? -/
def stageConflicts (ids : String) (s0 : String) : Bool :=
  let s := (s0.splitOn "!").headD s0
  match s.splitOn ":" with
  | [k, v] =>
    if k.startsWith "G" then !(v == "none" || v == ids)
    else
      let ex := if v == "none" then "-" else (v.splitOn ",").headD "-"
      ids == "-" || !(ex == "-" || ex == ids) || (k.endsWith "t" && !singleTenantOK ids)
  | _ => true

def showCtxRes (r : Except (Err × Nat) Ctx) : String :=
  match r with
  | .ok c' => (match extractOrgID c' with | .ok x => "ok:" ++ hexEncode x | .error _ => "ok:none")
  | .error (e, i) => s!"err:{e.name}@{i}"

def handleIChain (f : List String) : String × String × String :=
  match f with
  | [ids, stages, obs] =>
    let c? : Option Ctx := if ids == "none" then some [] else (hexDecode ids).map fun x => [(CKey.org, x)]
    let strs := if stages == "-" then [] else stages.splitOn " "
    match c?, strs.mapM parseStage with
    | some c, some ss =>
      let m := showCtxRes (ichain c ss 0)
      let diff := if m == obs then "-" else "model=" ++ m
      let firstConflict := strs.findIdx? (stageConflicts ids)
      let errIdx : Option Nat := if obs.startsWith "err:" then ((obs.splitOn "@").getLast?.bind String.toNat?) else none
      let bad : List String :=
        (if ids != "none" ∧ obs.startsWith "ok:" ∧ (obs.drop 3).toString != ids then ["id-changed-in-transit"] else []) ++
        (if ids == "none" ∧ !ss.isEmpty ∧ obs.startsWith "ok:" then ["default-id-invented"] else []) ++
        (if ids == "-" ∧ obs.startsWith "ok:" ∧ strs.any (fun s => s.startsWith "H" || s.startsWith "T") then ["request-without-id-accepted-over-http"] else []) ++
        (if ids != "none" ∧ obs.startsWith "ok:" ∧ strs.any (fun s => (s.startsWith "Ht" || s.startsWith "Tt")) ∧ !singleTenantOK ids then ["single-tenant-entry-accepted-multi-or-unsafe"] else []) ++
        (if ids != "none" ∧ obs.startsWith "err:" then
          match errIdx, firstConflict with
          | some i, some p => if i < p then ["id-lost-on-clean-stage"] else []
          | some _, none => ["id-lost-on-clean-stage"]
          | none, _ => ["unparsable-failure"]
         else []) ++
        (if !(obs.startsWith "ok:") ∧ !(obs.startsWith "err:") then ["unparsable-observation"] else [])
      let kinds := (if strs.any (·.startsWith "H") then "H" else "") ++ (if strs.any (·.startsWith "G") then "G" else "") ++ (if strs.any (·.startsWith "T") then "T" else "")
      (diff, if bad.isEmpty then "-" else ",".intercalate bad,
       s!"ihops={min ss.length 5} res={(obs.take 3).toString} kinds={kinds} clean={firstConflict.isNone}" ++ (if ss.isEmpty then " hops=0" else ""))
    | _, _ => ("bad-input", "-", "-")
  | _ => ("bad-fields", "-", "-")

def handleTunnel (f : List String) : String × String × String :=
  match f with
  | [ids, spec, obs] =>
    let c? : Option Ctx := if ids == "none" then some [] else (hexDecode ids).map fun x => [(CKey.org, x)]
    match c?, spec.splitOn " " with
    | some c, [hs, inner, stale] =>
      match parseHdr hs, inner.toList, hexDecode stale with
      | some h, [ic], some st =>
        match parseHRecv ic with
        | none => ("bad-input", "-", "-")
        | some r =>
          let recv : Ctx := if st.isEmpty then [] else [(CKey.org, st)]
          let m := showCtxRes (match tunnel c h recv r with | .ok x => .ok x | .error e => .error (e, 0))
          let diff := if m == obs then "-" else "model=" ++ m
          -- judge: a request whose header holds no identifier is rejected; whatever arrives was supplied
          let first := if hs == "none" then "-" else (hs.splitOn ",").headD "-"
          let bad : List String :=
            (if first == "-" ∧ obs.startsWith "ok:" then ["request-without-id-accepted"] else []) ++
            (if obs.startsWith "ok:" ∧ (obs.drop 3).toString != first ∧ (obs.drop 3).toString != ids then ["default-id-invented"] else []) ++
            (if ic == 't' ∧ obs.startsWith "ok:" ∧ !singleTenantOK (obs.drop 3).toString then ["single-tenant-entry-accepted-multi-or-unsafe"] else [])
          (diff, if bad.isEmpty then "-" else ",".intercalate bad, s!"tunnel inner={inner} res={(obs.take 3).toString} ctx={ids != "none"} hdr={first != "-"}")
      | _, _, _ => ("bad-input", "-", "-")
    | _, _ => ("bad-input", "-", "-")
  | _ => ("bad-fields", "-", "-")

def parseBinds (s : String) : Option Ctx :=
  if s == "-" then some [] else
  ((s.splitOn ",").mapM fun (b : String) =>
    match b.toList with
    | 'o' :: r => (hexDecode (String.ofList r)).map fun v => (CKey.org, v)
    | 'u' :: r => (hexDecode (String.ofList r)).map fun v => (CKey.user, v)
    | _ => none).map List.reverse

def showOpt (o : Option Bytes) : String := match o with | some v => hexEncode v | none => "none"

def handleCtx (f : List String) : String × String × String :=
  match f with
  | [binds, hs, xu, xo, inj, ext, lg] =>
    match parseBinds binds, parseHdr hs with
    | some c, some h =>
      let mu := showOpt (c.value .user)
      let mo := showOpt (c.value .org)
      let mInj := match injectUserHTTP c h with | .ok l => "ok:" ++ showList l | .error e => "err:" ++ e.name
      let mExt := match extractUserHTTP c h with
        | .ok c' => "ok:" ++ hexEncode (headerGet h) ++ "/" ++ showOpt (c'.value .user) ++ "/" ++ showOpt (c'.value .org)
        | .error e => "err:" ++ e.name
      let mLog := ",".intercalate ((logWith c [("base", [98])]).map fun (k, v) => k ++ "=" ++ hexEncode v)
      let model := [mu, mo, mInj, mExt, mLog]
      let diff := if model == [xu, xo, inj, ext, lg] then "-" else "model=" ++ " ".intercalate model
      -- judge (property text: the identifier placed in a context is the one found there; nothing invented)
      let lastOrg := ((binds.splitOn ",").filter (·.startsWith "o")).getLast?.map (fun b => (b.drop 1).toString)
      let want := lastOrg.getD "none"
      let bad : List String :=
        (if xo != want then ["context-org-id-not-the-one-placed"] else []) ++
        (if ext.startsWith "ok:" ∧ (ext.splitOn "/").getLast? != some want then ["user-id-extraction-disturbs-org-id"] else []) ++
        (if want == "none" ∧ (lg.splitOn ",").any (·.startsWith "orgID=") then ["org-id-invented-in-log"] else []) ++
        (if want != "none" ∧ !(lg.splitOn ",").contains ("orgID=" ++ want) then ["org-id-missing-or-changed-in-log"] else [])
      (diff, if bad.isEmpty then "-" else ",".intercalate bad, s!"ctx binds={min c.length 4} org={xo != "none"} user={xu != "none"}")
    | _, _ => ("bad-input", "-", "-")
  | _ => ("bad-fields", "-", "-")

def handleJoin (f : List String) : String × String × String :=
  match f with
  | [ls, _, joined, frm, multi, single, norm] =>
    match (if ls == "none" then some [] else parseOkList ls) with
    | none => ("bad-input", "-", "-")
    | some l =>
      let j := joinTenantIDs l
      let model := [hexEncode j, showRes showList (tenantIDsFromOrgID j), showRes showList (resolveTenantIDs (injectOrgID [] j)),
        showRes hexEncode (resolveTenantID (injectOrgID [] j)), showList (sortDedup l)]
      let diff := if model == [joined, frm, multi, single, norm] then "-" else "model=" ++ " ".intercalate model
      let okList (s : String) : Option (List Bytes) := if s.startsWith "ok:" then parseOkList (s.drop 3).toString else none
      let normal := !l.isEmpty && l.all safeID && strictlySorted l
      let bad : List String :=
        (match okList frm with
          | some r => (if !r.all safeID then ["from-unsafe"] else []) ++ (if !strictlySorted r then ["from-not-normalised"] else []) ++
              (if normal ∧ r != l then ["normal-form-not-a-fixpoint"] else [])
          | none => if normal then ["normalised-list-rejected-after-join"] else []) ++
        (if frm != multi then ["resolver-and-fromOrgID-disagree"] else []) ++
        (match okList multi, (if single.startsWith "ok:" then hexDecode (single.drop 3).toString else none) with
          | some r, some t => if r != [t] then ["resolvers-disagree"] else []
          | none, some _ => ["single-ok-multi-fails"]
          | some r, none => if r.length == 1 then ["multi-single-ok-single-fails"] else []
          | none, none => []) ++
        (match (if norm == "" then some [] else parseOkList norm) with
          | some n => if !strictlySorted n ∨ !(l.all (n.contains ·) && n.all (l.contains ·)) then ["normalize-not-sorted-dedup-of-input"] else []
          | none => if l.isEmpty then [] else ["unparsable-normalised"])
      (diff, if bad.isEmpty then "-" else ",".intercalate bad, s!"join n={min l.length 4} normal={normal} res={(frm.take 3).toString}")
  | _ => ("bad-fields", "-", "-")

/-- `C20.edge`: one entry point alone on an arbitrary carrier; observation = did the continuation run,
what identifier(s) did it see, which error came back. -/
def handleEdge (f : List String) : String × String × String :=
  match f with
  | [entry, spec, obs] =>
    match spec.splitOn " ", entry.toList with
    | [ids, car], [dir, kind, w] =>
      let c? : Option Ctx := if ids == "none" then some [] else (hexDecode ids).map fun x => [(CKey.org, x)]
      let showR {α} (sh : α → String) (r : Except Err α) : String :=
        match r with
        | .ok a => s!"ran=1 seen={sh a} err=ok"
        | .error e => s!"ran=0 seen=x err={e.name}"
      let m? : Option String := do
        let c ← c?
        if dir == 'R' ∧ kind == 'G' then
          let r ← parseGRecv w
          let vals ← (parseMD car).map (·.getD [])
          pure (showR (fun (c' : Ctx) => showOpt (c'.value .org)) (recvGRPC r c vals))
        else if dir == 'R' ∧ kind == 'H' then
          let r ← parseHRecv w
          let h ← parseHdr car
          pure (showR (fun (c' : Ctx) => showOpt (c'.value .org)) (recvHTTP r c h))
        else if dir == 'S' ∧ kind == 'G' then
          let sn ← parseGSend w
          let md ← parseMD car
          pure (showR showList (sendGRPC sn c md))
        else if dir == 'S' ∧ kind == 'H' then
          let h ← parseHdr car
          pure (showR showList (injectHTTP c h))
        else none
      match m? with
      | none => ("bad-input", "-", "-")
      | some m =>
        let diff := if m == obs then "-" else "model=" ++ m
        -- judge, from the property text on the SYNTAX of the case (never the model)
        let parts := obs.splitOn " "
        let ran := parts.contains "ran=1"
        let errOk := parts.contains "err=ok"
        let seen := ((parts.find? (·.startsWith "seen=")).map (fun x => (x.drop 5).toString)).getD "?"
        let carVals : List String := if car == "none" ∨ car == "empty" then [] else car.splitOn ","
        let bad : List String :=
          if dir == 'R' then
            -- the identifier the carrier supplies: gRPC exactly one value; HTTP a non-empty first value
            let supplied : Option String :=
              if kind == 'G' then (match carVals with | [x] => some x | _ => none)
              else (match carVals with | x :: _ => if x == "-" then none else some x | [] => none)
            match supplied with
            | none =>
              (if ran then ["request-without-id-accepted"] else []) ++
              (if ran ∧ seen != "none" then ["default-id-invented"] else []) ++
              (if !ran ∧ errOk then ["request-without-id-not-rejected"] else [])
            | some x =>
              (if ran ∧ seen != x then ["id-changed-in-transit"] else []) ++
              (if !ran ∧ !(w == 't' ∧ kind == 'H' ∧ !singleTenantOK x) then ["id-lost-on-clean-stage"] else []) ++
              (if ran ∧ w == 't' ∧ kind == 'H' ∧ !singleTenantOK x then ["single-tenant-entry-accepted-multi-or-unsafe"] else []) ++
              (if ran != errOk then ["error-and-continuation-disagree"] else [])
          else
            -- sending side: nothing is sent for a context without identifier; what is sent is the identifier, alone
            let clean := if kind == 'G' then (car == "none" || car == ids) else
              (match carVals with | [] => true | x :: _ => x == "-" || x == ids)
            (if ids == "none" ∧ ran then ["sent-without-id"] else []) ++
            (if ids == "none" ∧ ran ∧ seen != "none" then ["default-id-invented"] else []) ++
            (if ids == "none" ∧ !ran ∧ errOk then ["request-without-id-not-rejected"] else []) ++
            (if ids != "none" ∧ ran ∧ seen != ids then ["id-changed-in-transit"] else []) ++
            (if ids != "none" ∧ !ran ∧ clean then ["id-lost-on-clean-stage"] else []) ++
            (if ids != "none" ∧ ran != errOk then ["error-and-continuation-disagree"] else [])
        (diff, if bad.isEmpty then "-" else ",".intercalate bad,
         s!"edge entry={entry} ran={ran} ctx={ids != "none"} car={min carVals.length 3}")
    | _, _ => ("bad-input", "-", "-")
  | _ => ("bad-fields", "-", "-")

def handle (cmd : String) (f : List String) : String × String × String :=
  if cmd == "C20.id" then handleId f
  else if cmd == "C20.chain" then handleChain f
  else if cmd == "C20.noid" then handleNoId f
  else if cmd == "C20.ichain" then handleIChain f
  else if cmd == "C20.tunnel" then handleTunnel f
  else if cmd == "C20.ctx" then handleCtx f
  else if cmd == "C20.join" then handleJoin f
  else if cmd == "C20.edge" then handleEdge f
  else ("unknown-cmd", "-", "-")

end OracleC20
