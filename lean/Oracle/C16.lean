import Model.C16
import Model.C16Partition
import Model.C16Ctor
import Std.Data.TreeMap
/-!
Oracle handlers for C16: model output (correspondence) and judge (property on impl output).

Lines (3 input fields each, `-` = unused):
* `C16.rand  stream req taken  | obs`            RandomTokenGenerator.GenerateTokens on a recorded stream
* `C16.inst  zone n -          | obs row`        generateAllTokens for instance n; row = instance n's tokens in the zone's big map
* `C16.gen   zone,n req taken  | all512 obs`     SpreadMinimizingTokenGenerator.GenerateTokens
* `C16.map   zone n -          | lists`          the whole tokensByInstanceID map (generation order)
* `C16.part  ops - -           | entries`        PartitionRingDesc after `A:id:state:now` (AddPartition) / `S:id` (seeded entry) ops
* `C16.ctor  instance zone zones | obs cfg`       NewSpreadMinimizingTokenGenerator + GenerateTokens(512, nil); cfg = the same
                                                  instance in every configured zone (sorted zone order)
* `C16.calc  token prev opt    | obs`            calculateNewToken
* `C16.opt   i curr remaining  | obs`            optimalTokenOwnership(2^32/(i+1), curr, remaining)
* `C16.less  oi,ki oj,kj -     | bool`           ownershipPriorityQueue.Less
* `C16.dist  from to -         | d`              tokenDistance
-/
namespace OracleC16
open Common C16

/-! ### memoised generator states

`states z` is a lazy list whose k-th cell is `genUpTo z k`; each tail is a `Thunk`, so a state is
computed once per oracle process however many lines ask for it. Built with the model's own
`initState`/`addInstance`; `C16.map` lines use `C16.genUpTo` directly, so both routes are compared
with the implementation. -/
inductive LStream where
  | nil : LStream
  | cons : Except Err (List Nat × Bool) → Thunk LStream → LStream

def build : Nat → Nat → Except Err State → LStream
  | 0, _, _ => .nil
  | f + 1, i, s =>
    .cons (s.map fun st => (st.toks.getLastD [], st.degenerate))
      (Thunk.mk fun _ => build f (i + 1) (s >>= addInstance (i + 1)))

set_option compiler.extract_closed false in
def streams : Array (Thunk LStream) :=
  (Array.range 8).map fun z => Thunk.mk fun _ => build 8192 0 (.ok (initState z))

def nth : LStream → Nat → Except Err (List Nat × Bool)
  | .nil, _ => .error .outOfDomain
  | .cons s _, 0 => s
  | .cons _ t, k + 1 => nth t.get k

def stateAt (z n : Nat) : Except Err (List Nat × Bool) :=
  match streams[z]? with
  | some t => nth t.get n
  | none => (genUpTo z n).map fun st => (st.toks.getLastD [], st.degenerate)

/-- cells 0..n of a stream -/
def prefixCells : LStream → Nat → List (Except Err (List Nat × Bool))
  | .nil, _ => [.error .outOfDomain]
  | .cons s _, 0 => [s]
  | .cons s t, k + 1 => s :: prefixCells t.get k

/-- (tokensByInstanceID, ghost flag) for instance n: the model's `genUpTo` itself for small n, the
memoised unfolding of the same recursion for large n. -/
def mapAt (z n : Nat) : Except Err (List (List Nat) × Bool) :=
  if n ≤ 50 then (genUpTo z n).map (fun s => (s.toks, s.degenerate))
  else match streams[z]? with
    | some t => do
      let cells ← (prefixCells t.get n).mapM id
      pure (cells.map (·.1), cells.any (·.2))
    | none => (genUpTo z n).map (fun s => (s.toks, s.degenerate))

def allTokensAt (z n : Nat) : Except Err (List Nat) :=
  (stateAt z n).map (fun s => sortTokens s.1)

/-! ### helpers -/

def showToks (l : List Nat) : String := showNatList l

def showRes : Except Err (List Nat) → String
  | .ok l => "ok:" ++ showToks l
  | .error e => "err:" ++ e.name

def showLists (ls : List (List Nat)) : String := ";".intercalate (ls.map showToks)

def parseLists (s : String) : Option (List (List Nat)) := (s.splitOn ";").mapM natList?

def parseOk (s : String) : Option (List Nat) :=
  if s.startsWith "ok:" then natList? (s.drop 3).toString else none

def strictlySorted : List Nat → Bool
  | [] => true
  | [_] => true
  | a :: b :: r => a < b && strictlySorted (b :: r)

def sizeClass (n : Nat) : String :=
  if n == 0 then "0" else if n ≤ 2 then "1-2" else if n ≤ 16 then "3-16" else if n ≤ 100 then "17-100"
  else if n ≤ 511 then "101-511" else if n == 512 then "512" else ">512"

def coarse (n : Nat) : String :=
  if n == 0 then "0" else if n ≤ 16 then "1-16" else if n ≤ 511 then "17-511" else if n == 512 then "512" else ">512"

def idClass (n : Nat) : String :=
  if n == 0 then "0" else if n ≤ 16 then "1-16" else if n ≤ 100 then "17-100"
  else if n ≤ 400 then "101-400" else ">400"

def mkSet (l : List Nat) : Std.TreeMap Nat Unit compare := l.foldl (fun m x => m.insert x ()) {}

def judgeStr (bad : List String) : String := if bad.isEmpty then "-" else ",".intercalate bad.reverse

/-! ### judges (written from the property text; never call the generator model) -/

/-- sorted, duplicate free, nothing taken, requested count. -/
def judgeRand (req : Int) (taken ts : List Nat) : List String := Id.run do
  let mut bad : List String := []
  let tk := mkSet taken
  if !strictlySorted ts then bad := "not-sorted-or-duplicate" :: bad
  if ts.any (fun t => tk.contains t) then bad := "taken-token-returned" :: bad
  if ts.any (fun t => t ≥ 4294967296) then bad := "not-a-token" :: bad
  if (ts.length : Int) != max req 0 then bad := "wrong-count" :: bad
  return bad

/-- the 512 tokens of one instance: count, sorted, unique, congruent to the zone. -/
def judgeInst (z : Nat) (ts : List Nat) : List String := Id.run do
  let mut bad : List String := []
  if ts.length != 512 then bad := "not-512-tokens" :: bad
  if !strictlySorted ts then bad := "not-sorted-or-duplicate" :: bad
  if ts.any (fun t => t % 8 != z || t ≥ 4294967296) then bad := "not-congruent-to-zone" :: bad
  return bad

/-- GenerateTokens: subset of the instance's tokens, untaken, sorted, `min(req, #free)` many. -/
def judgeGen (req : Int) (taken all ts : List Nat) : List String := Id.run do
  let mut bad : List String := []
  let tk := mkSet taken
  let al := mkSet all
  if !strictlySorted ts then bad := "not-sorted-or-duplicate" :: bad
  if ts.any (fun t => tk.contains t) then bad := "taken-token-returned" :: bad
  if ts.any (fun t => !al.contains t) then bad := "not-a-token-of-the-instance" :: bad
  let free := (all.filter (fun t => !tk.contains t)).length
  if ts.length != min req.toNat free then bad := "wrong-count" :: bad
  return bad

/-- number of keys in `(a, b]` going clockwise (`a = b`: the whole ring); the judge's own definition. -/
def ringDist (a b : Nat) : Nat := if a < b then b - a else 4294967296 + b - a

/-- per-prefix ownership spread. Instances are added one at a time to a ring (token -> owner);
a new token takes the part `(pred, t]` of its successor's range. After each instance the smallest
and largest ownership of the instances present must be within 1% (`100*(max-min) <= max`).
Returns (duplicates, worst prefix with spread above 1%, worst spread in 1/1000 %). -/
def spreadScan (lists : List (List Nat)) : Nat × Option Nat × Nat := Id.run do
  let mut ring : Std.TreeMap Nat Nat compare := {}
  let mut own : Array Int := Array.replicate lists.length 0
  let mut dups := 0
  let mut badPrefix : Option Nat := none
  let mut worst : Nat := 0
  let mut k := 0
  for l in lists do
    for t in l do
      if ring.contains t then
        dups := dups + 1
      else if ring.isEmpty then
        ring := ring.insert t k
        own := own.set! k 4294967296
      else
        let succ := match ring.getEntryGE? t with
          | some e => e
          | none => (ring.minEntry?).getD (0, 0)
        let pred := match ring.getEntryLT? t with
          | some e => e
          | none => (ring.maxEntry?).getD (0, 0)
        let d : Int := ringDist pred.1 t
        own := own.set! succ.2 (own[succ.2]! - d)
        own := own.set! k (own[k]! + d)
        ring := ring.insert t k
    let mut mn := own[0]!
    let mut mx := own[0]!
    for j in [0:k+1] do
      let o := own[j]!
      if o < mn then mn := o
      if o > mx then mx := o
    if 100 * (mx - mn) > mx then
      if badPrefix.isNone then badPrefix := some k
    let sp := if mx > 0 then (100000 * (mx - mn) / mx).toNat else 0
    if sp > worst then worst := sp
    k := k + 1
  return (dups, badPrefix, worst)

def judgeMap (z n : Nat) (lists : List (List Nat)) : List String × Nat := Id.run do
  let mut bad : List String := []
  if lists.length != n + 1 then bad := "wrong-instance-count" :: bad
  if lists.any (fun l => l.length != 512) then bad := "not-512-tokens" :: bad
  if lists.any (fun l => l.any (fun t => t % 8 != z || t ≥ 4294967296)) then bad := "not-congruent-to-zone" :: bad
  let (dups, badPrefix, worst) := spreadScan lists
  if dups != 0 then bad := "token-shared-by-instances" :: bad
  match badPrefix with
  | some k => bad := s!"spread-above-1%-at-prefix-{k}" :: bad
  | none => pure ()
  return (bad, worst)

/-- partitions written by AddPartition: 512 tokens each, sorted, no token shared. `added` = ids
with an `A` op, `entries` = (id, tokens) of the implementation's descriptor. -/
def judgePart (added : List Int) (entries : List (Int × List Nat)) : List String := Id.run do
  let mut bad : List String := []
  let mine := entries.filter (fun e => added.contains e.1)
  if added.any (fun id => !(entries.any (fun e => e.1 == id))) then bad := "partition-missing" :: bad
  if mine.any (fun e => e.2.length != 512) then bad := "not-512-tokens" :: bad
  if mine.any (fun e => !strictlySorted e.2) then bad := "not-sorted-or-duplicate" :: bad
  if mine.any (fun e => e.2.any (fun t => t % 8 != 0 || t ≥ 4294967296)) then bad := "not-congruent-to-zone" :: bad
  let all := (mine.map (·.2)).flatten
  if (mkSet all).size != all.length then bad := "token-shared-by-partitions" :: bad
  return bad

inductive POp where
  | add (id : Int) (st : Nat) (now : Int)
  | seed (id : Int)

def parsePOp (s : String) : Option POp :=
  match s.splitOn ":" with
  | ["S", id] => id.toInt?.map POp.seed
  | ["A", id, st, now] =>
    match id.toInt?, st.toNat?, now.toInt? with
    | some id, some st, some now => some (.add id st now)
    | _, _, _ => none
  | _ => none

def seededPart (id : Int) : C14.Part :=
  { id := id, state := 3, stateTs := 7, locked := true, lockedTs := 5, tokens := [1, 2, 3] }

/-- `addPartition` with the tokens taken from the memoised stream (ids above 6). -/
def addPartitionMemo (d : C14.PDesc) (id : Int) (st : Nat) (now : Int) : Except Err C14.PDesc :=
  if id < 0 then .error .panic
  else match (allTokensAt 0 id.toNat).map (pickFree [] optimalTokensPerInstance) with
    | .error _ => .error .panic
    | .ok ts => .ok { d with parts := C15.setPart { id := id, state := st, stateTs := now, tokens := ts } d.parts }

def runPOps (ops : List POp) : Except Err C14.PDesc :=
  ops.foldlM (fun d op => match op with
    | .seed id => pure { d with parts := C15.setPart (seededPart id) d.parts }
    | .add id st now => if id ≤ 6 then addPartition d id st now else addPartitionMemo d id st now) {}

def showPart (p : C14.Part) : String :=
  s!"{p.id}/{p.state}/{p.stateTs}/{if p.locked then 1 else 0}/{p.lockedTs}/{showToks p.tokens}"

def parseEntry (s : String) : Option (Int × List Nat) :=
  match s.splitOn "/" with
  | [id, _, _, _, _, toks] =>
    match id.toInt?, natList? toks with
    | some id, some ts => some (id, ts)
    | _, _ => none
  | _ => none

/-! ### handlers -/

def handleRand (f : List String) : String × String × String :=
  match f with
  | [st, rq, tk, obs] =>
    match natList? st, rq.toInt?, natList? tk with
    | some stream, some req, some taken =>
      let m := showRes (genRandom stream req taken)
      let diff := if m == obs then "-" else "model=" ++ m
      let judge := match parseOk obs with
        | some ts => judgeStr (judgeRand req taken ts)
        | none =>
          -- the call did not return on this stream: allowed only if the stream does not hold
          -- `req` distinct free values ("returns the requested count whenever that many exist")
          let tk := mkSet taken
          let free := (mkSet (stream.filter (fun v => !tk.contains v))).size
          if req > 0 ∧ req.toNat ≤ free then "did-not-return-although-enough-free-tokens-drawn" else "-"
      let rejected := stream.length - (if req > 0 then req.toNat else 0)
      (diff, judge, s!"kind=rand req={if req < 0 then "neg" else if req == 0 then "0" else if req < 512 then "1-511" else ">=512"} rejected={if rejected == 0 then "0" else ">0"} res={(obs.take 3).toString}")
    | _, _, _ => ("bad-input", "-", "-")
  | _ => ("bad-fields", "-", "-")

def handleInst (f : List String) : String × String × String :=
  match f with
  | [zs, ns, _, obs, row] =>
    match zs.toNat?, ns.toNat? with
    | some z, some n =>
      let m := showRes (allTokensAt z n)
      let diff := if m == obs then "-" else "model=" ++ (m.take 200).toString
      -- reproducibility, on the implementation's outputs only: the tokens instance n's own generator
      -- yields = the (sorted) tokens the generator of a later instance attributes to n
      let repro := if row == "-" then [] else
        if obs == "ok:" ++ row then [] else ["differs-from-what-a-later-generator-attributes-to-it"]
      let judge := match parseOk obs with
        | some ts => judgeStr (repro ++ judgeInst z ts)
        | none => "generation-failed"
      (diff, judge, s!"kind=inst id={idClass n} crossChecked={decide (row != "-")}")
    | _, _ => ("bad-input", "-", "-")
  | _ => ("bad-fields", "-", "-")

def handleGen (f : List String) : String × String × String :=
  match f with
  | [zn, rq, tk, alls, obs] =>
    match natList? zn, rq.toInt?, natList? tk, natList? alls with
    | some [z, n], some req, some taken, some all =>
      let mAll := allTokensAt z n
      let m := if n ≤ 12 then (match generateTokens n z req taken with        -- the model function itself
          | .ok l => "ok:" ++ showToks l
          | .error e => "err:" ++ e.name)
        else match mAll with
        | .error _ => "err:panic"
        | .ok a => if req < 0 then "err:panic" else "ok:" ++ showToks (pickFree taken req.toNat a)
      let diff := if m != obs then "model=" ++ (m.take 200).toString
        else if mAll != .ok all then "model-all-differs" else "-"
      let judge := match parseOk obs with
        | some ts => judgeStr (judgeGen req taken all ts ++ (judgeInst z all).map ("all:" ++ ·))
        | none => if req < 0 then "-" else "generation-failed"
      let tkSet := mkSet taken
      let hit := (all.filter (fun t => tkSet.contains t)).length
      (diff, judge, s!"kind=gen id={if n ≤ 16 then "0-16" else ">16"} req={if req < 0 then "neg" else if req.toNat ≤ 512 - hit then "<=free" else ">free"} ownTaken={if hit == 0 then "none" else if hit ≥ 510 then "nearly-all" else "some"}")
    | _, _, _, _ => ("bad-input", "-", "-")
  | _ => ("bad-fields", "-", "-")

def handleMap (f : List String) : String × String × String :=
  match f with
  | [zs, ns, _, obs] =>
    match zs.toNat?, ns.toNat? with
    | some z, some n =>
      let model := mapAt z n
      let m := match model with
        | .ok s => showLists s.1
        | .error e => "err:" ++ e.name
      let diff := if m == obs then "-" else "model-map-differs"
      let degen := match model with
        | .ok s => if s.2 then "yes" else "no"
        | .error _ => "err"
      let (judge, worst) := match parseLists obs with
        | some lists => let (b, w) := judgeMap z n lists; (judgeStr b, w)
        | none => ("generation-failed", 0)
      let maxTok := if z != 0 then "n/a" else match parseLists obs with
        | some lists => if lists.any (fun l => l.contains 4294967288) then "present" else "absent"
        | none => "n/a"
      (diff, judge, s!"kind=map n={n} modelSideCondFired={degen} zone0MaxTokenValue={maxTok} worstPrefixSpread={worst / 1000}.{worst % 1000 / 100}{worst % 100 / 10}{worst % 10}%")
    | _, _ => ("bad-input", "-", "-")
  | _ => ("bad-fields", "-", "-")

def handlePart (f : List String) : String × String × String :=
  match f with
  | [opss, _, _, obs] =>
    match (opss.splitOn ",").mapM parsePOp with
    | some ops =>
      let m := match runPOps ops with
        | .ok d => ";".intercalate (d.parts.map showPart)
        | .error e => "err:" ++ e.name
      let diff := if m == obs then "-" else "model-partitions-differ"
      let added := ops.filterMap (fun op => match op with | .add id _ _ => some id | .seed _ => none)
      let judge :=
        if obs.startsWith "err:" then (if added.any (· < 0) then "-" else "generation-failed")
        else match (obs.splitOn ";").mapM parseEntry with
          | some entries => judgeStr (judgePart added entries)
          | none => "unparsable"
      let maxid := (added.map Int.toNat).foldl max 0
      (diff, judge, s!"kind=part big={decide (maxid > 16)} seeded={ops.any (fun op => match op with | .seed _ => true | _ => false)} neg={added.any (· < 0)}")
    | none => ("bad-input", "-", "-")
  | _ => ("bad-fields", "-", "-")

def unq (s : String) : String := if s == "~" then "" else s

/-- property text: tokens of different zones never coincide; every token is congruent to its zone
index. A zone that is not configured has no zone index: the generator must either be refused or
produce tokens that no configured zone owns. -/
def judgeCtor (zone : String) (zones : List String) (ts : List Nat) (cfg : List (List Nat)) : List String := Id.run do
  let mut bad : List String := []
  let mine := mkSet ts
  -- zone index = position among the sorted configured zones = number of configured zones below it
  let idx : Option Nat := if zones.contains zone then some (zones.filter (fun c => c < zone)).length else none
  match idx with
  | none =>
    if cfg.any (fun l => l.any (fun t => mine.contains t)) then bad := "unconfigured-zone-shares-tokens-with-configured-zone" :: bad
  | some k =>
    if ts.any (fun t => t % 8 != k) then bad := "not-congruent-to-zone" :: bad
    let others := (cfg.zipIdx.filter (fun p => p.2 != k)).map (·.1)
    if others.any (fun l => l.any (fun t => mine.contains t)) then bad := "zones-share-tokens" :: bad
  if ts.length != 512 then bad := "not-512-tokens" :: bad
  if !strictlySorted ts then bad := "not-sorted-or-duplicate" :: bad
  return bad

def handleCtor (f : List String) : String × String × String :=
  match f with
  | [inst, zoneS, zonesS, obs, cfgS] =>
    let zone := unq zoneS
    let zones := if zonesS == "none" then [] else (zonesS.splitOn ",").map unq
    let r := newGenerator inst zone zones
    let m := match r with
      | .error e => "err:" ++ e.name
      | .ok (n, z) => match allTokensAt z n with
        | .ok a => "ok:" ++ showToks (pickFree [] optimalTokensPerInstance a)
        | .error _ => "err:panic"
    let diff := if m == obs then "-" else "model=" ++ (m.take 60).toString
    let cfg := if cfgS == "none" then some [] else (cfgS.splitOn ";").mapM (fun c => if c.startsWith "err:" then some [] else natList? c)
    let judge := match parseOk obs, cfg with
      | some ts, some cfg => judgeStr (judgeCtor zone zones ts cfg)
      | _, _ => "-"
    let configured := zones.contains zone
    (diff, judge, s!"kind=ctor zoneConfigured={configured} zones={if zones.length == 0 then "0" else if zones.length > 8 then ">8" else "1-8"} res={if obs.startsWith "ok:" then "ok" else obs}")
  | _ => ("bad-fields", "-", "-")

def handleCalc (f : List String) : String × String × String :=
  match f with
  | [ts, ps, os, obs] =>
    match ts.toNat?, ps.toNat?, os.toNat? with
    | some t, some p, some o =>
      let r := calcNewToken ⟨t, p⟩ o
      let m := match r with
        | .ok n => s!"ok:{n}"
        | .error _ => "err"
      let diff := if m == obs then "-" else "model=" ++ m
      -- property text: a token is congruent to its zone index (here: to the bounds of its range)
      let judge := match (obs.drop 3).toString.toNat? with
        | some n => if obs.startsWith "ok:" ∧ p % 8 == t % 8 ∧ n % 8 != t % 8 then "not-congruent-to-zone" else "-"
        | none => "-"
      let wrap := decide ((4294967288 + 4294967296 - p) % 4294967296 < o)
      (diff, judge, s!"kind=calc res={(obs.take 2).toString} wrapBranch={wrap}")
    | _, _, _ => ("bad-input", "-", "-")
  | _ => ("bad-fields", "-", "-")

def handleOpt (f : List String) : String × String × String :=
  match f with
  | [is, cs, rs, obs] =>
    match is.toNat?, cs.toInt?, rs.toNat? with
    | some i, some c, some r =>
      match optimalTokenOwnership i c r with
      | .ok v =>
        let m := toString v
        (if m == obs then "-" else "model=" ++ m, "-", s!"kind=opt id={idClass i}")
      | .error _ => ("-", "-", "kind=opt outOfDomain trivial")
    | _, _, _ => ("bad-input", "-", "-")
  | _ => ("bad-fields", "-", "-")

def handleLess (f : List String) : String × String × String :=
  match f with
  | [a, b, _, obs] =>
    match a.splitOn ",", b.splitOn "," with
    | [oi, ki], [oj, kj] =>
      match oi.toInt?, ki.toNat?, oj.toInt?, kj.toNat? with
      | some oi, some ki, some oj, some kj =>
        let m := toString (less oi ki oj kj)
        (if m == obs then "-" else "model=" ++ m, "-", s!"kind=less eqOwn={decide (oi = oj)}")
      | _, _, _, _ => ("bad-input", "-", "-")
    | _, _ => ("bad-input", "-", "-")
  | _ => ("bad-fields", "-", "-")

def handleDist (f : List String) : String × String × String :=
  match f with
  | [a, b, _, obs] =>
    match a.toNat?, b.toNat? with
    | some a, some b =>
      let m := toString (tokenDistance a b)
      (if m == obs then "-" else "model=" ++ m, "-", s!"kind=dist wrap={decide (b ≤ a)}")
    | _, _ => ("bad-input", "-", "-")
  | _ => ("bad-fields", "-", "-")

def handle (cmd : String) (f : List String) : String × String × String :=
  if cmd == "C16.rand" then handleRand f
  else if cmd == "C16.inst" then handleInst f
  else if cmd == "C16.gen" then handleGen f
  else if cmd == "C16.map" then handleMap f
  else if cmd == "C16.part" then handlePart f
  else if cmd == "C16.ctor" then handleCtor f
  else if cmd == "C16.calc" then handleCalc f
  else if cmd == "C16.opt" then handleOpt f
  else if cmd == "C16.less" then handleLess f
  else if cmd == "C16.dist" then handleDist f
  else ("unknown-cmd", "-", "-")

end OracleC16
