import Model.C18
/-!
Oracle handlers for C18.

`C18.init` — diff: the model's `initModules`, run with map-iteration orders reconstructed from the
observed call order (any topological order is a possible output of `orderedDeps`, so the oracle
builds the one that extends the observed order and checks the model reproduces the observation);
judge: the statement (once, after dependencies, only needed) on the observed call order.
`C18.add` — diff: `addDependency`; judge: a dependency that closes a cycle must be rejected.
`C18.run` — run-time wrappers (see below).
-/
namespace OracleC18
open Common C18

def natOf (s : String) : Nat := s.toNat?.getD 0
def listOfNat (s : String) : List Nat := if s == "-" || s == "" then [] else (s.splitOn ",").map natOf
def showNats (l : List Nat) : String := if l.isEmpty then "-" else ",".intercalate (l.map toString)
def listOfStr (s : String) : List String := if s == "-" || s == "" then [] else s.splitOn ","
def bitsOf (s : String) : List Bool := if s == "-" then [] else s.toList.map (· == '1')

def parseGraph (n deps : String) : Graph :=
  { n := natOf n, deps := (deps.splitOn "/").map listOfNat }

/-! ### judge-side graph helpers (independent of `listDeps`) -/

/-- transitive closure of the dependency relation from `m`, by fixpoint iteration. -/
def closureFrom (g : Graph) (start : List Mod) : List Mod :=
  let stepF := fun (acc : List Mod) =>
    acc.foldl (fun a x => (g.depsOf x).foldl (fun a d => if a.contains d then a else a ++ [d]) a) acc
  (List.range (g.n + 1)).foldl (fun acc _ => stepF acc) start

def reach (g : Graph) (m : Mod) : List Mod :=
  closureFrom g (C18.dedup (g.depsOf m))

def hasCycle (g : Graph) : Bool := (List.range g.n).any fun m => (reach g m).contains m

/-! ### C18.init -/

/-- a topological order of `uniq` that extends the observed call order `obs`: silent modules (no init
function, or initialised by an earlier call) as early as possible, observed ones in observed order,
never-reached ones last. -/
def witnessOrder (g : Graph) (cfg : Cfg) (uniq obs inited : List Mod) : List Mod :=
  let cls := fun (x : Mod) =>
    if inited.contains x || !(cfg.hasInit.getD x false) then (0, x)
    else match obs.idxOf? x with
      | some i => (1, i)
      | none => (2, x)
  let rec go (fuel : Nat) (placed : List Mod) : List Mod :=
    match fuel with
    | 0 => placed
    | fuel + 1 =>
      let ready := uniq.filter fun x => !placed.contains x && (g.depsOf x).all placed.contains
      match ready with
      | [] => placed
      | r :: rs =>
        let best := rs.foldl (fun b x =>
          let (cb, kb) := cls b; let (cx, kx) := cls x
          if cx < cb || (cx == cb && kx < kb) then x else b) r
        go fuel (placed ++ [best])
  go uniq.length []

/-- the model (`initModuleT`, which keeps the state at the moment an error is returned), run with the
reconstructed iteration orders: (call log, result, keys of the service map). -/
def runInit (g : Graph) (cfg : Cfg) (targets obs : List Mod) : String × String × String :=
  let fuel := g.n + 2
  let rec go (ts : List Mod) (st : InitState) : InitState × Option InitErr :=
    match ts with
    | [] => (st, none)
    | t :: rest =>
      let uniq := match listDeps g fuel t with
        | some d => C18.dedup d
        | none => []
      let w := witnessOrder g cfg uniq obs st.inited
      match initModuleT g cfg fuel (fun _ => w) t st with
      | (st', some e) => (st', some e)
      | (st', none) => go rest st'
  match go targets {} with
  | (st, none) => (showNats st.log, "ok", showNats (st.svcs.mergeSort))
  | (st, some (.unrecognised t)) => (showNats st.log, s!"unrecognised:{t}", "-")
  | (st, some (.initFailed m)) => (showNats st.log, s!"initerr:{m}", "-")
  | (st, some .crash) => (showNats st.log, "crash", "-")

def optsOf (c : Char) : List ModOpt :=
  match c with
  | '1' => [.userInvisible]
  | '2' => [.userInvisibleTargetable]
  | '3' => [.userInvisible, .userInvisibleTargetable]
  | '4' => [.userInvisibleTargetable, .userInvisible]
  | _ => []

def posOf (l : List Nat) (x : Nat) : Nat := (l.idxOf? x).getD l.length

def judgeInit (g : Graph) (cfg : Cfg) (targets obs : List Mod) (result : String) (keys : List Mod) : List String := Id.run do
  let mut bad : List String := []
  let validTargets := targets.takeWhile g.has
  let needed := closureFrom g (C18.dedup validTargets)
  -- exactly once
  if C18.dedup obs != obs && (C18.dedup obs).length != obs.length then bad := bad ++ ["initialised-twice"]
  if obs.any fun x => (obs.filter (· == x)).length > 1 then bad := bad ++ ["initialised-twice"]
  -- only needed modules
  if obs.any fun x => !needed.contains x then bad := bad ++ ["unneeded-module-initialised"]
  -- after everything it depends on (that has an init function and is initialised at all)
  for m in obs do
    for d in reach g m do
      if cfg.hasInit.getD d false then
        if !(posOf obs d < posOf obs m) then bad := if bad.contains "initialised-before-dependency" then bad else bad ++ ["initialised-before-dependency"]
  if result == "ok" then
    -- every needed module is initialised
    if needed.any fun x => cfg.hasInit.getD x false && !obs.contains x then bad := bad ++ ["needed-module-not-initialised"]
    let wantKeys := (needed.filter fun x => cfg.hasInit.getD x false && cfg.hasSvc.getD x false).mergeSort
    if keys != wantKeys then bad := bad ++ ["service-map-keys"]
    if targets.any (fun t => !g.has t) then bad := bad ++ ["unknown-target-accepted"]
    if obs.any fun x => cfg.initErr.getD x false then bad := bad ++ ["failing-init-ignored"]
  match result.splitOn ":" with
  | ["initerr", ms] =>
    -- the error names the module whose initFn failed: it was the last call, it does fail, everything it
    -- depends on was initialised before, nothing that depends on it was
    let m := natOf ms
    if obs.getLast? != some m then bad := bad ++ ["error-does-not-name-last-call"]
    if !(cfg.initErr.getD m false) then bad := bad ++ ["error-names-module-that-did-not-fail"]
    if (obs.dropLast).any fun x => cfg.initErr.getD x false then bad := bad ++ ["continued-after-failed-init"]
    if (reach g m).any fun d => cfg.hasInit.getD d false && !obs.contains d then bad := bad ++ ["failed-module-before-its-dependency"]
    if obs.any fun x => (reach g x).contains m then bad := bad ++ ["dependant-of-failed-module-initialised"]
    if !keys.isEmpty then bad := bad ++ ["services-returned-with-error"]
  | ["unrecognised", ts] =>
    let t := natOf ts
    if g.has t then bad := bad ++ ["registered-target-unrecognised"]
    if targets.find? (fun x => !g.has x) != some t then bad := bad ++ ["error-does-not-name-first-unknown-target"]
    -- the targets before it were initialised completely
    if needed.any fun x => cfg.hasInit.getD x false && !obs.contains x then bad := bad ++ ["needed-module-not-initialised"]
  | ["ok"] => pure ()
  | _ => bad := bad ++ ["unexpected-result:" ++ result]
  return bad

def handleInit (f : List String) : String × String × String :=
  match f with
  | [gc, ts, obsS, result, keysS, flagsS, depsB, depsA, obs2S, result2, keys2S, caller] =>
    match gc.splitOn ";" with
    | [n, deps, hi, ie, hs, op, _names] =>
      let g := parseGraph n deps
      let cfg : Cfg := { hasInit := bitsOf hi, initErr := bitsOf ie, hasSvc := bitsOf hs }
      let opts : List (List ModOpt) := if op == "-" then List.replicate g.n [] else op.toList.map optsOf
      let targets := listOfNat ts
      let obs := listOfNat obsS
      let keys := listOfNat keysS
      let (mlog, mres, mkeys) := runInit g cfg targets obs
      let flags := (opts.map applyOpts)
      let mflags := showNats (userVisibleModules opts) ++ ";" ++
        (if flags.isEmpty then "-" else String.ofList (flags.map fun p => if p.1 then '1' else '0')) ++ ";" ++
        (if flags.isEmpty then "-" else String.ofList (flags.map fun p => if p.2 then '1' else '0')) ++ ";1"
      -- the graph is immutable: DependenciesForModule before and after, and a second InitModuleServices on
      -- the same manager (fresh initMap / servicesMap), are computed from the same model graph
      let fuel := g.n + 2
      let mdeps := if g.n == 0 then "-" else
        "/".intercalate ((List.range g.n).map fun m => showNats (((dependenciesFor g fuel m).getD []).mergeSort))
      let obs2 := listOfNat obs2S
      let (mlog2, mres2, mkeys2) := runInit g cfg targets obs2
      -- the model's AddDependency is a function of the names passed: the caller's slices are left as they were
      -- ("-" = the harness built a fresh slice per call or reused its buffer itself)
      let mcaller := if caller == "-" then "-" else "ok"
      let model := [mlog, mres, mkeys, mflags, mdeps, mdeps, mlog2, mres2, mkeys2, mcaller]
      let diff := if result.startsWith "add-rejected" then "-"
        else if model == [obsS, result, keysS, flagsS, depsB, depsA, obs2S, result2, keys2S, caller] then "-"
        else "model=" ++ " ".intercalate model
      -- judge: the reported transitive dependencies are those of the declared edges, before and after
      -- initialisation; the second initialisation satisfies the statement like the first
      let jdeps := if g.n == 0 then "-" else
        "/".intercalate ((List.range g.n).map fun m => showNats ((reach g m).mergeSort))
      let j := if result.startsWith "add-rejected" then ["dag-edge-rejected"] else
        judgeInit g cfg targets obs result keys ++
        (judgeInit g cfg targets obs2 result2 (listOfNat keys2S)).map (fun k => "second-init:" ++ k) ++
        (if depsB != jdeps then ["dependencies-misreported"] else []) ++
        (if depsA != jdeps then ["dependency-graph-changed-by-init"] else []) ++
        (if result2 != result || keys2S != keysS then ["second-init-differs"] else []) ++
        -- the declared graph is the one the caller wrote down: its own table of names must still say so
        (if caller == "modified" then ["caller-slice-modified"] else [])
      -- flags: a user-visible module is targetable; nothing is said about unregistered modules
      let j := match flagsS.splitOn ";" with
        | [_, vb, tb, sorted] =>
          let bad := (List.zip vb.toList tb.toList).any fun p => p.1 == '1' && p.2 == '0'
          j ++ (if bad then ["visible-but-not-targetable"] else []) ++ (if sorted != "1" then ["visible-names-not-sorted"] else [])
        | ["-"] => j
        | _ => j ++ ["unregistered-module-has-flags"]
      let judge := if j.isEmpty then "-" else ",".intercalate j
      let nedges := (g.deps.map (·.length)).foldl (· + ·) 0
      let resClass := (result.splitOn ":").headD result
      let failPos := if resClass == "initerr" then s!" failpos={min obs.length 6}" else ""
      let tags := s!"k=init n={g.n} edges={min nedges 12} targets={min targets.length 4} inits={min obs.length 12} res={resClass}{failPos} partial={cfg.hasInit.contains false || cfg.hasSvc.contains false} opts={op != "-"}"
      (diff, judge, tags)
    | _ => ("bad-graph", "-", "-")
  | _ => ("bad-fields", "-", "-")

/-! ### C18.add -/

def parseCalls (s : String) : List (Mod × List Mod) :=
  if s == "-" || s == "" then [] else
  (s.splitOn ";").map fun c =>
    match c.splitOn ">" with
    | [a, ds] => (natOf a, listOfNat ds)
    | _ => (0, [])

def addResStr : AddRes → String
  | .ok => "ok" | .noSuchModule => "nosuch" | .circular => "cycle" | .crash => "crash"

def handleAdd (f : List String) : String × String × String :=
  match f with
  | [ns, callsS, resS, probe] =>
    let n := natOf ns
    let calls := parseCalls callsS
    let obs := if resS == "-" then [] else resS.splitOn ","
    let fuel := n + 2
    -- model replay
    let (g, mres) := calls.foldl (fun (acc : Graph × List String) (c : Mod × List Mod) =>
      let (r, g') := addDependency acc.1 fuel c.1 c.2
      (g', acc.2 ++ [addResStr r])) (Graph.empty n, [])
    -- the probe: InitModuleServices(target) on the final graph
    let mprobe :=
      match probe.splitOn ":" with
      | [_, t] =>
        let t := natOf t
        let r := match initModule g { hasInit := [], initErr := [], hasSvc := [] } fuel (fun _ => List.range n) t {} with
          | .ok _ => "ok" | .error .crash => "crash" | .error _ => "err"
        if probe.startsWith "unprobed" then probe else r ++ ":" ++ toString t
      | _ => if hasCycle g then "cycle-unprobed" else "-"
    let diff := if mres == obs && mprobe == probe then "-" else "model=" ++ ",".intercalate mres ++ " probe=" ++ mprobe
    -- judge: replay the ACCEPTED calls on a plain edge list; an accepted call must not close a cycle
    let j : List String := Id.run do
      let mut bad : List String := []
      let mut gg := Graph.empty n
      let mut i := 0
      for c in calls do
        let r := obs.getD i "?"
        i := i + 1
        let known := c.1 < n && c.2.all (· < n)
        if r == "ok" then
          if !known then bad := bad ++ ["unknown-module-accepted"]
          else
            let g2 : Graph := { gg with deps := setDeps gg.deps c.1 (· ++ c.2) }
            if hasCycle g2 && !hasCycle gg then
              bad := bad ++ [if c.2.contains c.1 then "self-dependency-accepted" else "cycle-accepted"]
            gg := g2
        else if r == "cycle" then
          let g2 : Graph := { gg with deps := setDeps gg.deps c.1 (· ++ c.2) }
          if known && !hasCycle g2 then bad := bad ++ ["acyclic-dependency-rejected"]
        else if r == "nosuch" then
          if known then bad := bad ++ ["known-module-rejected"]
      if probe.startsWith "crash" || probe.startsWith "timeout" then bad := bad ++ ["init-does-not-return"]
      return bad
    let judge := if j.isEmpty then "-" else ",".intercalate j
    (diff, judge, s!"k=add n={n} calls={min calls.length 8} rejected={(obs.filter (· == "cycle")).length} cycle={hasCycle g}")
  | _ => ("bad-fields", "-", "-")

/-! ### C18.run — the wrappers at run time -/

open C17 (SState)

def phCode (p : WPhase) : String := p.state.code

def parkOf (x : ModSt) : String :=
  match x.inner with
  | .starting => "s" | .running => "r" | .stopping => "p" | _ => "-"

structure RSim where
  sys : Sys
  order : List Mod

def latchedBad (s : Sys) (d : Mod) : Bool := (s.st d).ph.latched && (s.st d).ph != .run

/-- one eager internal step of module `m` (what the real goroutines do without being asked), if any.
`failHint` = the implementation shows this wrapper Failed. -/
def eagerStep (s : Sys) (m : Mod) (failHint : Bool) : Option Sys :=
  let x := s.st m
  match x.ph with
  | .waitDeps ok =>
    let deps := s.startDeps m
    if x.wctx then some (s.step (.awaitCancelled m))
    else if deps.all fun d => (s.st d).ph.latched then
      match deps.find? (latchedBad s) with
      | some d => some (s.step (.awaitFail m d))
      | none =>
        match deps.find? (fun d => !ok.contains d) with
        | some d => some (s.step (.awaitOk m d))
        | none => some (s.step (.depsDone m))
    else if failHint then
      (deps.find? (latchedBad s)).map fun d => s.step (.awaitFail m d)
    else none
  | .innerStart =>
    if x.wctx || x.inner == .stopping || x.inner.terminal then some (s.step (.innerStartFailed m))
    else if x.inner == .running then some (s.step (.innerUp m))
    else none
  | .startCleanup => if x.inner.terminal then some (s.step (.cleanupDone m)) else none
  | .run => if x.wctx || x.inner.terminal then some (s.step (.runExit m)) else none
  | .stopEntry => some (s.step (.stopLooks m))
  | .stopWait =>
    if (s.stopDeps m).all (fun k => (s.st k).ph.terminal) then some (s.step (.dependantsGone m)) else none
  | .innerStop => if x.inner.terminal then some (s.step (.innerStopped m)) else none
  | _ => none

def settleR (order : List Mod) (hint : Mod → Bool) : Nat → Sys → Sys
  | 0, s => s
  | fuel + 1, s =>
    match order.findSome? (fun m => eagerStep s m (hint m)) with
    | some s' => settleR order hint fuel s'
    | none => s

def parseRAct (a : String) : String × Nat × Nat :=
  if a == "SA" || a == "XA" then (a, 0, 0)
  else
    let rest := String.ofList (a.toList.drop 1)
    match rest.splitOn ":" with
    | [i, k] => (String.ofList (a.toList.take 1), natOf i, natOf k)
    | [i] => (String.ofList (a.toList.take 1), natOf i, 0)
    | _ => ("?", 0, 0)

def applyR (order : List Mod) (s : Sys) (a : String) : Sys :=
  let (kind, m, k) := parseRAct a
  match kind with
  | "SA" => order.foldl (fun s i => s.step (.wStart i)) s
  | "XA" => order.foldl (fun s i => s.step (.wStop i)) s
  | "W" => s.step (.wStart m)
  | "X" => s.step (.wStop m)
  | "s" => s.step (.iStartRet m (k == 0))
  | "r" => s.step (.iRunRet m (k == 0))
  | "p" => s.step (.iStopRet m (k == 0))
  | _ => s

def renderR (order : List Mod) (s : Sys) : String :=
  if order.isEmpty then "-" else
  " ".intercalate (order.map fun m =>
    let x := s.st m
    toString m ++ ":" ++ phCode x.ph ++ x.inner.code ++ parkOf x)

/-- wrapper state the implementation shows for module `m` in a snapshot's state field. -/
def implW (states : String) (m : Mod) : Option Char :=
  (states.splitOn " ").findSome? fun p =>
    match p.splitOn ":" with
    | [i, st] => if natOf i == m then st.toList.head? else none
    | _ => none

def handleRun (f : List String) : String × String × String :=
  match f with
  | [hd, actsS, obs] =>
    match hd.splitOn ";" with
    | [n, deps, hi, ie, hs, ts, _names] =>
      let g := parseGraph n deps
      let cfg : Cfg := { hasInit := bitsOf hi, initErr := bitsOf ie, hasSvc := bitsOf hs }
      let targets := listOfNat ts
      let fuel := g.n + 2
      match initModules g cfg fuel (fun _ _ => List.range g.n) 0 targets {} with
      | .error _ => (if obs == "initerr" then "-" else "model=initerr", "-", "k=run initerr")
      | .ok ist =>
        let order := ist.svcs.mergeSort
        let sys0 : Sys := wrapperSys g fuel order
        let acts := if actsS == "-" || actsS == "" then [] else actsS.splitOn " "
        let raws := obs.splitOn " | "
        let implStates := raws.map fun r => (r.splitOn ";").headD ""
        let hintOf := fun (st : String) (m : Mod) => implW st m == some 'F'
        let fuelS := 40 * (order.length + 1)
        let rec go (s : Sys) (acts : List String) (impl : List String) (acc : List String) : List String :=
          match acts with
          | [] => acc.reverse
          | a :: rest =>
            let s := settleR order (hintOf (impl.headD "")) fuelS (applyR order s a)
            go s rest impl.tail (renderR order s :: acc)
        let s0 := settleR order (hintOf (implStates.headD "")) fuelS sys0
        let model := go s0 acts implStates.tail [renderR order s0]
        let diff := if model == implStates then "-" else
          let idx := (List.zip model implStates).findIdx (fun p => p.1 != p.2)
          s!"step={idx} model={model.getD idx "?"}"
        -- judge on the observed timeline
        let j : List String := Id.run do
          let mut bad : List String := []
          let add := fun (l : List String) (k : String) => if l.contains k then l else l ++ [k]
          let events := raws.flatMap fun r => listOfStr ((r.splitOn ";").getD 1 "-")
          if raws.any fun r => (r.splitOn ";").getD 2 "-" != "-" then bad := add bad "harness-flag:stuck"
          let svcMods := ((implStates.headD "").splitOn " ").filterMap fun p =>
            match p.splitOn ":" with | [i, _] => some (natOf i) | _ => none
          let depsOf := fun (m : Mod) => (reach g m).filter svcMods.contains
          let dependantsOf := fun (m : Mod) => svcMods.filter fun x => (reach g x).contains m
          -- wrappers that have been Running at some time of the case (callbacks are asynchronous: a wrapper
          -- seen Running in a snapshot has run as well; a wrapper never runs after its start was given up)
          let ranAll := (events.filterMap fun ev => match ev.splitOn "." with | ["wrun", m] => some (natOf m) | _ => none) ++
            svcMods.filter fun d => implStates.any fun st => implW st d == some 'R'
          -- at quiescence a wrapper cannot still be waiting for dependencies (Starting, own service not started)
          -- once every one of them has left New/Starting: it either starts its service or fails
          for st in implStates do
            for m in svcMods do
              let mine := (st.splitOn " ").find? fun p => (p.splitOn ":").headD "" == toString m
              if (mine.map fun p => ((p.splitOn ":").getD 1 "").startsWith "SN") == some true then
                if (depsOf m).all fun d => match implW st d with | some c => c != 'N' && c != 'S' | none => false then
                  bad := add bad "waiting-wrapper-not-released"
          let mut seenRun : List Mod := []
          let mut innerStarted : List Mod := []
          for ev in events do
            match ev.splitOn "." with
            | ["wrun", m] => seenRun := natOf m :: seenRun
            | ["istart", m, wv] =>
              let m := natOf m
              innerStarted := m :: innerStarted
              -- a module's service starts only after all its dependencies are running
              for d in depsOf m do
                let c := wv.toList.getD (svcMods.idxOf d) '?'
                if !(c == 'R' || ((c == 'P' || c == 'T' || c == 'F') && seenRun.contains d)) then
                  bad := add bad "started-before-dependency-running"
            | ["stopreq", m, ist, wv] =>
              let m := natOf m
              -- a service that has been running as a module (its wrapper was Running) is stopped only after
              -- every module depending on it has stopped; the clean-up stop after a start that was given up
              -- (wrapper never Running) does not wait: no dependant can have been started
              if ist == "R" && ranAll.contains m then
                for x in dependantsOf m do
                  let c := wv.toList.getD (svcMods.idxOf x) '?'
                  if c != 'T' && c != 'F' then bad := add bad "stopped-before-dependant-stopped"
            | _ => pure ()
          -- a dependency that fails to start: dependants are not started and fail as well
          let last := implStates.getLast?.getD ""
          let everLeftNew := fun (m : Mod) => implStates.any fun st =>
            match implW st m with | some c => c == 'S' || c == 'R' || c == 'P' || c == 'F' | none => false
          -- (callbacks are asynchronous: a wrapper seen Running in any snapshot has run as well)
          let ranEver := fun (d : Mod) => seenRun.contains d || implStates.any fun st => implW st d == some 'R'
          for d in svcMods do
            if implW last d == some 'F' && !ranEver d then
              for m in dependantsOf d do
                if innerStarted.contains m then bad := add bad "dependant-of-failed-module-started"
                if everLeftNew m && implW last m == some 'T' then bad := add bad "dependant-of-failed-module-did-not-fail"
          return bad
        let judge := if j.isEmpty then "-" else ",".intercalate j
        let last := implStates.getLast?.getD ""
        let nF := (last.toList.filter (· == 'F')).length
        let nedges := (g.deps.map (·.length)).foldl (· + ·) 0
        (diff, judge, s!"k=run n={g.n} svcs={order.length} edges={min nedges 10} acts={min acts.length 30 / 5 * 5} failedEnd={min nF 4} started={acts.contains "SA" || acts.any (·.startsWith "W")}")
    | _ => ("bad-head", "-", "-")
  | _ => ("bad-fields", "-", "-")

/-! ### C18.mgr — managers built by arbitrary RegisterModule / AddDependency sequences

`C18.mgr <calls> <targets>  <call results> <DependenciesForModule of every registered module after each call>
<final queries> <initFn call order> <result> <service keys>`. Module numbers = order of first registration. -/

def strDrop1 (s : String) : String := String.ofList (s.toList.drop 1)

def parseMCalls (s : String) : List MCall :=
  if s == "-" || s == "" then [] else
  (s.splitOn ";").map fun c =>
    if c.startsWith "R" then
      match (strDrop1 c).splitOn ":" with
      | [m, ho] => MCall.register (natOf m) (ho.toList.headD '0' == '1') (optsOf ((ho.toList.drop 1).headD '0'))
      | _ => MCall.addDep 0 []
    else
      match (strDrop1 c).splitOn ">" with
      | [a, ds] => MCall.addDep (natOf a) (listOfNat ds)
      | _ => MCall.addDep 0 []

def depsSnapshot (g : Graph) : String :=
  if g.n == 0 then "-" else
    "/".intercalate ((List.range g.n).map fun m => showNats (((dependenciesFor g (g.n + 2) m).getD []).mergeSort))

def runMCalls (calls : List MCall) : Mgr × List String × List String :=
  calls.foldl (fun (acc : Mgr × List String × List String) c =>
    let rm := acc.1.call c
    let rs := match c with
      | MCall.register _ _ _ => "r"
      | MCall.addDep _ _ => addResStr rm.1
    (rm.2, acc.2.1 ++ [rs], acc.2.2 ++ [depsSnapshot rm.2.g])) (({} : Mgr), [], [])

def bitStr (l : List Bool) : String := String.ofList (l.map fun b => if b then '1' else '0')

def mgrQueries (M : Mgr) : String :=
  let ms := List.range (M.g.n + 1)
  bitStr (ms.map M.isModuleRegistered) ++ ";" ++ bitStr (ms.map M.isUserVisibleModule) ++ ";" ++
  bitStr (ms.map M.isTargetableModule) ++ ";" ++ showNats M.userVisibleModuleNames ++ ";1;" ++
  (match M.dependenciesForModule (M.g.n + 2) M.g.n with
    | .nilDeref => "panic" | .val _ => "ret" | .crash => "crash")

def handleMgr (f : List String) : String × String × String :=
  match f with
  | [callsS, ts, resS, snapS, qS, obsS, result, keysS] =>
    let calls := parseMCalls callsS
    let targets := listOfNat ts
    let obs := listOfNat obsS
    let keys := listOfNat keysS
    let (M, mres, msnap) := runMCalls calls
    let (mlog, mresult, mkeys) := runInit M.g M.cfg targets obs
    let model := [",".intercalate mres, "|".intercalate msnap, mgrQueries M, mlog, mresult, mkeys]
    let diff := if model == [resS, snapS, qS, obsS, result, keysS] then "-" else "model=" ++ " ".intercalate model
    let obsRes := resS.splitOn ","
    let snaps := snapS.splitOn "|"
    -- judge: replay the calls on a plain edge list (a repeated registration replaces the module: its own
    -- edges go); an accepted dependency must not close a cycle; the final graph is what initialisation obeys
    let j : List String := Id.run do
      let mut bad : List String := []
      let mut gg : Graph := Graph.empty 0
      let mut hi : List Bool := []
      let mut i := 0
      for c in calls do
        let r := obsRes.getD i "?"
        i := i + 1
        match c with
        | MCall.register m h _ =>
          if m < gg.n then
            gg := { gg with deps := setDeps gg.deps m (fun _ => []) }
            hi := hi.set m h
          else
            gg := { n := gg.n + 1, deps := gg.deps ++ [[]] }
            hi := hi ++ [h]
        | MCall.addDep name ds =>
          let known := name < gg.n && ds.all (· < gg.n)
          let g2 : Graph := { gg with deps := setDeps gg.deps name (· ++ ds) }
          if r == "ok" then
            if !known then bad := bad ++ ["unknown-module-accepted"]
            else
              if hasCycle g2 && !hasCycle gg then
                bad := bad ++ [if ds.contains name then "self-dependency-accepted" else "cycle-accepted"]
              gg := g2
          else if r == "cycle" then
            if known && !hasCycle g2 then bad := bad ++ ["acyclic-dependency-rejected"]
          else if r == "nosuch" then
            if known then bad := bad ++ ["known-module-rejected"]
          else bad := bad ++ ["unexpected-add-result"]
      let cfg : Cfg := { hasInit := hi, initErr := [], hasSvc := hi }
      bad := bad ++ judgeInit gg cfg targets obs result keys
      let jdeps := if gg.n == 0 then "-" else
        "/".intercalate ((List.range gg.n).map fun m => showNats ((reach gg m).mergeSort))
      if snaps.getLast? != some jdeps then bad := bad ++ ["dependencies-misreported"]
      match qS.splitOn ";" with
      | [rb, vb, tb, _, sorted, _] =>
        if rb != bitStr ((List.range (gg.n + 1)).map fun m => decide (m < gg.n)) then bad := bad ++ ["registration-misreported"]
        if (List.zip vb.toList tb.toList).any fun p => p.1 == '1' && p.2 == '0' then bad := bad ++ ["visible-but-not-targetable"]
        if (List.zip vb.toList rb.toList).any fun p => p.1 == '1' && p.2 == '0' then bad := bad ++ ["unregistered-module-visible"]
        if sorted != "1" then bad := bad ++ ["visible-names-not-sorted"]
      | _ => bad := bad ++ ["bad-queries"]
      return bad
    let judge := if j.isEmpty then "-" else ",".intercalate j
    let rereg := (mres.zip msnap).length - M.g.n - (calls.filter fun c => match c with | MCall.addDep _ _ => true | _ => false).length
    let rej := (obsRes.filter fun r => r == "cycle" || r == "nosuch").length
    let nedges := (M.g.deps.map (·.length)).foldl (· + ·) 0
    (diff, judge, s!"k=mgr n={M.g.n} calls={min calls.length 14} rereg={min rereg 4} rejected={min rej 4} edges={min nedges 8} res={(result.splitOn ":").headD result}")
  | _ => ("bad-fields", "-", "-")

def handle (cmd : String) (f : List String) : String × String × String :=
  if cmd == "C18.init" then handleInit f
  else if cmd == "C18.add" then handleAdd f
  else if cmd == "C18.run" then handleRun f
  else if cmd == "C18.mgr" then handleMgr f
  else ("unknown-cmd", "-", "-")

end OracleC18
