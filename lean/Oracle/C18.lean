import Model.Common
/-! Oracle handlers for C18 (stub until the property's model exists). -/
namespace OracleC18
open Common

def handle (_cmd : String) (_f : List String) : String × String × String :=
  ("unknown-cmd", "-", "-")

end OracleC18
