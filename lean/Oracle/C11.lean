import Model.C11
/-!
Oracle handlers for C11.

* `diff`  : is the observed list of windows a run of the model's transition system? (depth-first
  search over the internal events between two driver actions; the release order and the number of
  hedging ticks are read off the observation).
* `judge` : the property statement evaluated on the observed trace alone (never calls the model).
-/
namespace OracleC11
open Common C11

/-! ## parsing -/

structure SetD where
  zones : List Nat
  maxErr : Nat
  maxUnz : Nat
  za : Bool
  deriving Repr

structure Opts where
  kind : Char
  min : Bool
  hedge : Bool
  hedgeMs : Nat          -- the hedging delay in ms (2 unless stated)
  term : Bool            -- IsTerminalError is set
  termAll : Bool         -- … and answers true for every error (constant-true predicate)
  termNR : Bool          -- … and is "not retryable": true for T and for the cancellation-class error C, false for E
  termCanc : Bool        -- … and is true exactly for cancellation-class errors (C, failed awaitStart), false for E and T
  sorter : Option (List Nat)
  deriving Repr

structure Win where
  act : String
  starts : List Nat
  cleans : List Nat
  ret : Option String
  ctx : List Char
  tb : Nat
  lb : Nat        -- number of hedging ticks certainly due at the end of the window (long delays only)
  kcancel : Bool  -- the caller cancelled from inside the IsTerminalError predicate, i.e. while the main loop handled a result
  bad : Bool
  deriving Repr

def natOf (s : String) : Nat := s.toNat?.getD 0

def parseOpts (s : String) : Option Opts :=
  match s.splitOn " " with
  | [k, m, h, t, z] =>
    some { kind := (k.toList.head?).getD 'q', min := m == "m1", hedge := h != "h0", hedgeMs := (if h == "h1" then 2 else natOf (h.drop 1).toString), term := t != "t0", termAll := t == "t2", termNR := t == "t3", termCanc := t == "t4"
           sorter := if z == "z-" then none else natList? (z.drop 1).toString }
  | _ => none

/-- `zones:eN:uN:aB[:d<address labels>]`. The optional address labels (which instances share an
`Addr`) are part of the input only: instances are identified by their index everywhere. -/
def parseSet (s : String) : Option SetD :=
  match (s.splitOn ":").take 4 with
  | [zs, e, u, a] =>
    (natList? zs).map fun z => { zones := z, maxErr := natOf (e.drop 1).toString, maxUnz := natOf (u.drop 1).toString, za := a == "a1" }
  | _ => none

def hasDupAddr (sets : String) : Bool := (sets.splitOn ":d").length > 1

def parseSets (s : String) : Option (List SetD) := (s.splitOn "|").mapM parseSet

def parseTrace (s : String) : List Win :=
  let toks := s.splitOn " "
  let flush (cur : Option Win) (acc : List Win) : List Win := match cur with | some w => w :: acc | none => acc
  let (cur, acc) := toks.foldl (fun (st : Option Win × List Win) t =>
    let (cur, acc) := st
    if t.startsWith "A" then
      (some { act := (t.drop 1).toString, starts := [], cleans := [], ret := none, ctx := [], tb := 0, lb := 0, kcancel := false, bad := false }, flush cur acc)
    else match cur with
      | none => (cur, acc)
      | some w =>
        if t.startsWith "s" then (some { w with starts := w.starts ++ [natOf (t.drop 1).toString] }, acc)
        else if t.startsWith "c" then (some { w with cleans := w.cleans ++ [natOf (t.drop 1).toString] }, acc)
        else if t.startsWith "R" then (some { w with ret := some t }, acc)
        else if t.startsWith "X" then (some { w with ctx := (t.drop 1).toString.toList }, acc)
        else if t.startsWith "T" then (some { w with tb := natOf (t.drop 1).toString }, acc)
        else if t.startsWith "L" then (some { w with lb := natOf (t.drop 1).toString }, acc)
        else if t == "Q!" then (some { w with bad := true }, acc)
        else if t == "K" then (some { w with kcancel := true }, acc)
        else (cur, acc)) (none, [])
  (flush cur acc).reverse

/-- outcome letters of the script (`o=…`). -/
def scriptOutcomes (script : String) : List Char :=
  match (script.splitOn ";").head? with
  | some o => (o.drop 2).toString.toList
  | none => []

def offsets (sets : List SetD) : List Nat :=
  (sets.foldl (fun (acc : List Nat × Nat) s => (acc.1 ++ [acc.2], acc.2 + s.zones.length)) ([], 0)).1

/-- (set, local index) of a global instance id. -/
def locate (sets : List SetD) (g : Nat) : Nat × Nat :=
  let rec go (k : Nat) (off : Nat) : List SetD → Nat × Nat
    | [] => (k, g - off)
    | s :: rest => if g < off + s.zones.length then (k, g - off) else go (k + 1) (off + s.zones.length) rest
  go 0 0 sets

def dedup (l : List Nat) : List Nat := l.foldl (fun acc x => if acc.contains x then acc else acc ++ [x]) []

/-! ## release order read off the observation -/

def toCfg (o : Opts) (s : SetD) : Cfg :=
  { zones := s.zones, maxErrors := s.maxErr, maxUnavail := s.maxUnz, zoneAware := s.za, minimize := o.min
    hedging := o.hedge, hasTerm := o.term, cancelAll := o.kind == 'q' }

/-- `w0` = local instances started in the first window (in log order), `after` = started in later
windows (in order). Requests released at the start come first in the log of the first window
(a hedging tick needs at least one delay), so the initial group is a prefix of `w0`. -/
def inferOrder (o : Opts) (c : Cfg) (w0 after : List Nat) : List Nat :=
  if c.zoneMode then
    let zs := distinct c.zones
    match o.sorter with
    | some ord => ord.filter (zs.contains ·)
    | none =>
      let minZ := zs.length - c.maxUnavail
      let w0z := dedup (w0.map c.zoneOf)
      let fz := w0z.take minZ
      let lz := (dedup (w0z.drop minZ ++ after.map c.zoneOf)).filter (!fz.contains ·)
      let never := zs.filter fun z => !fz.contains z && !lz.contains z
      let fill := never.take (minZ - fz.length)
      fz ++ fill ++ lz ++ never.drop (minZ - fz.length)
  else
    let all := List.range c.n
    let w0 := dedup w0
    let first := w0.take (c.n - c.maxErrors)
    let later := (dedup (w0.drop (c.n - c.maxErrors) ++ after)).filter (!first.contains ·)
    let never := all.filter fun i => !first.contains i && !later.contains i
    let p := min c.maxErrors c.n
    let fill := never.take (p - later.length)
    later ++ fill ++ never.drop (p - later.length) ++ first

/-! ## generic acceptance search -/

def countOf (l : List Nat) (x : Nat) : Nat := (l.filter (· == x)).length

inductive MoveKind
  | plain                 -- forced: must have happened before the window can close
  | begin (g : Nat)       -- instance g (global id) leaves awaitStart and calls f
  | tick (ticker : Nat)   -- hedging tick of the given set
  | timer                 -- a delay timer of the legacy executor
  deriving DecidableEq

structure Delta where
  starts : List Nat
  cleans : List Nat
  ret : Option String

structure Sys (σ : Type) where
  moves : σ → List (MoveKind × σ)      -- enabled internal events, preferred order
  movesRel : σ → List (MoveKind × σ)   -- the same events, ordered for "an observed start still has to be released"
  delta : σ → σ → Delta
  act : σ → String → Option σ
  ctxOf : σ → Nat → Bool
  wasStarted : σ → Nat → Bool
  isReleased : σ → Nat → Bool     -- the request of instance g has been released to start (search heuristic only)
  doomed : σ → List Nat → Bool    -- some released request with a live context is not among the given (future) starts
  lateStarts : Bool               -- a timer (hedging tick) can fire while a window is being closed
  commit : σ → σ → Option String  -- the return value a move commits the call to (multi-set: the first error), for pruning

structure Rem where
  starts : List Nat
  cleans : List Nat
  ret : Option String

def removeAll (l : List Nat) : List Nat → Option (List Nat)
  | [] => some l
  | x :: xs => if l.contains x then removeAll (l.erase x) xs else none

def Rem.consume (r : Rem) (d : Delta) : Option Rem :=
  match removeAll r.starts d.starts, removeAll r.cleans d.cleans with
  | some s, some c =>
    match d.ret with
    | none => some { r with starts := s, cleans := c }
    | some x => if r.ret == some x then some { starts := s, cleans := c, ret := none } else none
  | _, _ => none

def Rem.done (r : Rem) : Bool := r.starts.isEmpty && r.cleans.isEmpty && r.ret.isNone

def Rem.ofWin (w : Win) : Rem := { starts := w.starts, cleans := w.cleans, ret := w.ret }

def ctxMatches {σ} (sys : Sys σ) (s : σ) (w : Win) : Bool :=
  (w.ctx.zipIdx).all fun (ch, g) =>
    if ch == '-' then !sys.wasStarted s g
    else sys.wasStarted s g && (sys.ctxOf s g == (ch == 'C'))

inductive Choice (σ : Type)
  | act | close | move (m : MoveKind × σ)

/-- Depth-first search for a run of the model matching the windows. `pend` are the environment actions of
the current window that have not been applied yet — the driver action (it may take effect after
internal events that were already under way, e.g. a hedging tick) and, if the caller cancelled from
inside the terminal-error predicate, that cancellation (it happened while the main loop was handling
the result; the model allows it anywhere after the action, which includes the real position).

A window is the list of events the driver saw between two of its actions. It normally ends in a
state in which no internal event is enabled. One exception is real: a timer may fire while the
driver is closing the window, so that the requests released by that hedging tick start partly in this
window and partly in the next one. Therefore (if `lateStarts`) a window may close while released
goroutines have not called `f` yet, provided their start is observed in a later window (or the trace
ends).

Returns (found, remaining node budget). -/
def search {σ} (sys : Sys σ) : Nat → σ → List String → Rem → Win → List Win → List Nat → Nat → Bool × Nat
  | 0, _, _, _, _, _, _, budget => (false, budget)
  | fuel + 1, s, pend, rem, cur, rest, ticks, budget =>
    if budget = 0 then (false, 0) else
    let budget := budget - 1
    let later := rest.flatMap (·.starts)
    -- heuristic: an observed start of a request that is still held back needs a tick or a counted failure first
    let needRel := rem.starts.any fun g => !sys.isReleased s g
    let mv := if needRel then sys.movesRel s else sys.moves s
    let isTimer (k : MoveKind) : Bool := match k with | .tick _ => true | .timer => true | _ => false
    let canClose : Bool :=
      pend.isEmpty && rem.done && ctxMatches sys s cur &&
      mv.all fun m => match m.1 with
        | .plain => false
        | .begin g => sys.lateStarts && (rest.isEmpty || later.contains g)
        | _ => true
    -- "c!": the caller cancelled while the main loop was handling the result just handed over, i.e.
    -- after receiving it: try the internal events (the `recv`) before that cancellation
    let choices : List (Choice σ) :=
      if pend.head? == some "c!" then mv.map .move ++ [.act]
      else if needRel then
        (mv.filter fun m => isTimer m.1).map .move ++ [.act, .close] ++ (mv.filter fun m => !isTimer m.1).map .move
      else [.act, .close] ++ mv.map .move
    let dBefore := sys.doomed s (rem.starts ++ later)
    choices.foldl (fun (acc : Bool × Nat) ch =>
      if acc.1 then acc else
      match ch with
      | .act =>
        match pend with
        | a :: pend' =>
          match sys.act s (if a == "c!" then "c" else a) with
          | some s' => search sys fuel s' pend' rem cur rest ticks acc.2
          | none => acc
        | [] => acc
      | .close =>
        if canClose then
          match rest with
          | [] => (true, acc.2)
          | w :: ws => search sys fuel s (w.act :: (if w.kcancel then ["c!"] else [])) (Rem.ofWin w) w ws ticks acc.2
        else acc
      | .move m =>
        let ok := match m.1 with
          | .tick k => countOf ticks k + 1 ≤ cur.tb
          | .timer => cur.tb ≥ 1
          | _ => true
        if !ok then acc else
        match rem.consume (sys.delta s m.2) with
        | none => acc
        | some rem' =>
          -- pruning: the first error recorded by the multi-set function is what it returns, in this window
          if (match sys.commit s m.2 with | some r => rem'.ret != some r | none => false) then acc else
          -- pruning: a request released by a tick starts in this window or in a later one
          if isTimer m.1 && !dBefore && sys.doomed m.2 (rem'.starts ++ later) then acc else
          search sys fuel m.2 pend rem' cur rest (match m.1 with | .tick k => k :: ticks | _ => ticks) acc.2)
      (false, budget)

/-- "-" if a run was found; "search-budget" if the search gave up (no verdict); otherwise the model
has no run with this observation. -/
def accept {σ} (sys : Sys σ) (s0 : σ) (wins : List Win) : String :=
  match wins with
  | [] => "empty-trace"
  | w :: ws =>
    if wins.any (·.bad) then "not-quiescent" else
    let r := search sys 800 s0 [] (Rem.ofWin w) w ws [] 60000
    if r.1 then "-" else if r.2 = 0 then "search-budget" else "no-run-found"

/-! ### the single-set system -/

def showErr (off : Nat) : ErrKind → String
  | .inst i => s!"R!i{off + i}"
  | .cancelled => "R!cancel"
  | .invalid => "R!invalid"

def showMain (off : Nat) : Main → Option String
  | .running => none
  | .retOk rs => some ("R+" ++ showNatList (rs.map (· + off)))
  | .retErr e => some (showErr off e)

/-- result of a callback as the model sees it. The terminal-error predicate applies to errors only (a
success is never terminal, whatever the predicate answers for a nil error); with the constant-true
predicate (`termAll`) every error is terminal. -/
def resOf (isTerm : Char → Bool) (ch : Char) : Res :=
  if ch == 'S' || ch == 's' then .ok else if isTerm ch then .term else .err

/-- the errors for which the predicate of the case answers true: T only (t1; also used without a
predicate, where the model ignores it); every error (t2, constant true); T and the cancellation-class
error C (t3, "not retryable"); C only (t4, "cancelled"). -/
def extraTermOf (o : Opts) (ch : Char) : Bool :=
  if o.termAll then ch == 'E' || ch == 'T' || ch == 'C'
  else if o.termNR then ch == 'T' || ch == 'C'
  else if o.termCanc then ch == 'C'
  else ch == 'T'

/-- what the predicate of the case answers for the cancellation-class error posted by a goroutine whose
`awaitStart` failed. -/
def abortTermOf (o : Opts) : Bool := o.term && (o.termAll || o.termNR || o.termCanc)

/-- is an arrival with this outcome a terminal error for the predicate of the case? -/
def isTerminalCh (o : Opts) (ch : Char) : Bool := o.term && extraTermOf o ch

/-- "a3E" → (3, 'E') -/
def parseArrival (a : String) : Option (Nat × Char) :=
  if a.startsWith "a" then
    let body := (a.drop 1).toString
    match body.toList.getLast? with
    | some ch => some (natOf (body.dropEnd 1).toString, ch)
    | none => none
  else none

def stOne (c : Cfg) (s : St) (k : MoveKind) (e : Ev) : List (MoveKind × St) :=
  match step c s e with | some s' => [(k, s')] | none => []

def stMoves (c : Cfg) (abT : Bool) (s : St) : List (MoveKind × St) :=
  let one := stOne c s
  one .plain .ctxDone ++ one .plain .recv ++ one .plain .drain ++
  (List.range c.n).flatMap (fun i => one (.begin i) (.begin i)) ++
  (List.range c.n).flatMap (fun i => one .plain (.abort i abT)) ++
  (if s.pending.isEmpty then [] else one (.tick 0) .tick)

/-- order used while an observed start still has to be released: ticks, then the main loop counting
results (a failure releases), then goroutines giving up (their errors count as failures), and the
main loop noticing its done context last. -/
def stMovesRel (c : Cfg) (abT : Bool) (s : St) : List (MoveKind × St) :=
  let one := stOne c s
  (if s.pending.isEmpty then [] else one (.tick 0) .tick) ++ one .plain .recv ++
  (List.range c.n).flatMap (fun i => one (.begin i) (.begin i)) ++
  (List.range c.n).flatMap (fun i => one .plain (.abort i abT)) ++
  one .plain .drain ++ one .plain .ctxDone

def singleSys (c : Cfg) (extraTerm : Char → Bool) (abT : Bool) : Sys St :=
  { moves := stMoves c abT
    movesRel := stMovesRel c abT
    lateStarts := c.hedging
    commit := fun _ _ => none
    delta := fun s s' => { starts := s'.started.drop s.started.length, cleans := s'.cleaned.drop s.cleaned.length
                           ret := if s.main = .running then showMain 0 s'.main else none }
    act := fun s a =>
      if a == "c" then step c s .cancel
      else if a == "w" || a == "end" then some s
      else match parseArrival a with
        | some (g, ch) => step c s (.finish g (resOf extraTerm ch))
        | none => none
    ctxOf := fun s g => s.ctx g
    wasStarted := fun s g => s.started.contains g
    isReleased := fun s g => s.rel g == .go
    doomed := fun s starts => (List.range c.n).any fun i => s.phase i == .waiting && s.rel i == .go && !s.ctx i && !starts.contains i }

/-! ### the multi-set system -/

def multiMoves (cs : List Cfg) (off : Nat → Nat) (abT : Bool) (rel : Bool) (m : MSt) : List (MoveKind × MSt) :=
  let one (k : MoveKind) (e : MEv) : List (MoveKind × MSt) := match mstep cs m e with | some m' => [(k, m')] | none => []
  let ks := List.range cs.length
  let ticks := ks.flatMap (fun k => if (m.sets k).pending.isEmpty then [] else one (.tick k) (.set k .tick))
  let begins := ks.flatMap (fun k => match cs[k]? with
    | some c => (List.range c.n).flatMap (fun i => one (.begin (off k + i)) (.set k (.begin i)))
    | none => [])
  let aborts := ks.flatMap (fun k => match cs[k]? with
    | some c => (List.range c.n).flatMap (fun i => one .plain (.set k (.abort i abT)))
    | none => [])
  let joins := ks.flatMap (fun k => one .plain (.join k)) ++ one .plain .ret
  if rel then
    ticks ++ ks.flatMap (fun k => one .plain (.set k .recv)) ++ begins ++ aborts ++
    ks.flatMap (fun k => one .plain (.set k .drain)) ++ ks.flatMap (fun k => one .plain (.set k .ctxDone)) ++ joins
  else
    ks.flatMap (fun k => one .plain (.set k .ctxDone) ++ one .plain (.set k .recv) ++ one .plain (.set k .drain)) ++
    begins ++ aborts ++ joins ++ ticks

def sortNat (l : List Nat) : List Nat := (l.toArray.qsort (· < ·)).toList

def multiSys (sets : List SetD) (cs : List Cfg) (extraTerm : Char → Bool) (abT : Bool) : Sys MSt :=
  let offs := offsets sets
  let off (k : Nat) : Nat := offs.getD k 0
  { moves := multiMoves cs off abT false
    movesRel := multiMoves cs off abT true
    lateStarts := cs.any (·.hedging)
    commit := fun m m' => match m.retErr, m'.retErr with
      | none, some (k, e) => some (showErr (off k) e)
      | _, _ => none
    delta := fun m m' =>
      let per := (List.range cs.length).map fun k =>
        let s := m.sets k
        let s' := m'.sets k
        ((s'.started.drop s.started.length).map (· + off k), (s'.cleaned.drop s.cleaned.length).map (· + off k))
      { starts := per.flatMap (·.1)
        cleans := per.flatMap (·.2) ++ (m'.mcleaned.drop m.mcleaned.length).map (fun (k, i) => off k + i)
        ret := if m.ret.isNone then
            match m'.ret with
            | some (.ok rs) => some ("R+" ++ showNatList (sortNat (rs.map fun (k, i) => off k + i)))
            | some (.error (k, e)) => some (showErr (off k) e)
            | none => none
          else none }
    act := fun m a =>
      if a == "c" then mstep cs m .cancel
      else if a == "w" || a == "end" then some m
      else if a.startsWith "d" then
        let (k, i) := locate sets (natOf (a.drop 1).toString)
        mstep cs m (.done k i)
      else match parseArrival a with
        | some (g, ch) =>
          let (k, i) := locate sets g
          if ch == 'S' then mstep cs m (.set k (.finish i .ok)) else mstep cs m (.finishDone k i (resOf extraTerm ch))
        | none => none
    ctxOf := fun m g => let (k, i) := locate sets g; (m.sets k).ctx i
    wasStarted := fun m g => let (k, i) := locate sets g; (m.sets k).started.contains i
    isReleased := fun m g => let (k, i) := locate sets g; (m.sets k).rel i == .go
    doomed := fun m starts => (List.range cs.length).any fun k =>
      let st := m.sets k
      (List.range ((cs.getD k Cfg.empty).n)).any fun i => st.phase i == .waiting && st.rel i == .go && !st.ctx i && !starts.contains (off k + i) }

/-! ### the legacy `Do` system -/

def doMoves (d : DCfg) (s : DSt) : List (MoveKind × DSt) :=
  let one (k : MoveKind) (e : DEv) : List (MoveKind × DSt) := match dstep d s e with | some s' => [(k, s')] | none => []
  let ns := List.range d.zones.length
  one .plain .ctxDone ++ one .plain .recv ++
  ns.flatMap (fun i => one .plain (.force i)) ++ ns.flatMap (fun i => one .plain (.giveUp i)) ++
  ns.flatMap (fun i => one .timer (.timer i))

def doSys (d : DCfg) : Sys DSt :=
  { moves := fun s =>
      -- a delayed goroutine blocked on its select is only *forced* to move by a token or a done context
      doMoves d s
    movesRel := doMoves d
    lateStarts := false
    commit := fun _ _ => none
    delta := fun s s' => { starts := s'.started.drop s.started.length, cleans := []
                           ret := if s.main = .running then showMain 0 s'.main else none }
    act := fun s a =>
      if a == "c" then dstep d s .cancel
      else if a == "w" || a == "end" then some s
      else match parseArrival a with
        | some (g, ch) => dstep d s (.finish g (resOf (fun _ => false) ch))
        | none => none
    ctxOf := fun s _ => s.ctxCanc
    wasStarted := fun s g => s.started.contains g
    isReleased := fun _ _ => true
    doomed := fun _ _ => false }

/-! ## judge: the property statement on the observed trace -/

structure Arr where
  g : Nat
  ch : Char
  win : Nat

def isZoneMode (s : SetD) : Bool := s.maxUnz > 0 || s.za

/-- per window index: the arrival / cancel actions up to and including that window -/
def arrivalsUpTo (wins : List Win) (w : Nat) : List Arr :=
  (wins.zipIdx.filter (·.2 ≤ w)).filterMap fun (x, i) => (parseArrival x.act).map fun (g, ch) => { g := g, ch := ch, win := i }

def cancelledBy (wins : List Win) (w : Nat) : Bool :=
  (wins.zipIdx.filter (·.2 ≤ w)).any fun (x, _) => x.act == "c" || x.act == "init!" || x.kcancel

def isFail (ch : Char) : Bool := ch == 'E' || ch == 'T' || ch == 'C'
def isSucc (ch : Char) : Bool := ch == 'S' || ch == 's'

/-- global ids of set k -/
def members (sets : List SetD) (k : Nat) : List Nat :=
  let off := (offsets sets).getD k 0
  match sets[k]? with
  | some s => (List.range s.zones.length).map (· + off)
  | none => []

def zoneOfG (sets : List SetD) (g : Nat) : Nat :=
  let (k, i) := locate sets g
  match sets[k]? with | some s => s.zones.getD i 0 | none => 0

/-- does the list `oks` of successful instances meet the success criterion of set k? -/
def criterionHolds (sets : List SetD) (k : Nat) (oks : List Nat) : Bool :=
  match sets[k]? with
  | none => true
  | some s =>
    let mem := members sets k
    let mine := (dedup oks).filter (mem.contains ·)
    if isZoneMode s then
      let zs := dedup s.zones
      let full (z : Nat) := (mem.filter fun g => zoneOfG sets g == z).all (mine.contains ·)
      (zs.filter full).length + s.maxUnz ≥ zs.length
    else mine.length + s.maxErr ≥ mem.length

/-- the arrivals that still matter for set k: those before (and including) the one with which the
set's own success criterion was first met; the quorum read over that set is over then. -/
def relevantArrivals (sets : List SetD) (k : Nat) (arr : List Arr) : List Arr :=
  let mem := members sets k
  let mine := arr.filter fun a => mem.contains a.g
  if criterionHolds sets k [] then [] else
  let rec go (seen : List Arr) : List Arr → List Arr
    | [] => seen
    | a :: rest =>
      let seen' := seen ++ [a]
      if criterionHolds sets k ((seen'.filter (isSucc ·.ch)).map (·.g)) then seen' else go seen' rest
  go [] mine

/-- has set k exceeded its tolerated failures, given the arrivals so far? -/
def setFailuresExceeded (sets : List SetD) (k : Nat) (arr : List Arr) : Bool :=
  match sets[k]? with
  | none => false
  | some s =>
    let failing := ((relevantArrivals sets k arr).filter fun a => isFail a.ch).map (·.g)
    if isZoneMode s then (dedup (failing.map (zoneOfG sets))).length > s.maxUnz
    else failing.length > s.maxErr

/-- the predicate is applied to every error the loop receives: if it holds for cancellation-class
errors, a not yet started zone-mate of a failed instance (its zone's contexts get cancelled) posts a
terminal error. The driver cannot produce this (zone-mates start together), but it is a terminal
error, so an error return is then allowed (never demanded). -/
def abortTerminalPossible (o : Opts) (sets : List SetD) (wins : List Win) (w : Nat) : Bool :=
  let arr := arrivalsUpTo wins w
  abortTermOf o && (List.range sets.length).any fun k =>
    match sets[k]? with
    | some s => isZoneMode s &&
      let startedSoFar := (wins.take (w + 1)).flatMap (·.starts)
      (relevantArrivals sets k arr).any fun a => isFail a.ch &&
        (members sets k).any fun g => zoneOfG sets g == zoneOfG sets a.g && !startedSoFar.contains g
    | none => false

def errorDue (o : Opts) (sets : List SetD) (wins : List Win) (w : Nat) : Bool :=
  let arr := arrivalsUpTo wins w
  cancelledBy wins w ||
  (o.term && (List.range sets.length).any fun k => (relevantArrivals sets k arr).any (fun a => isTerminalCh o a.ch)) ||
  (List.range sets.length).any (fun k => setFailuresExceeded sets k arr) ||
  (o.kind != 'd' && sets.any fun s => s.za && s.maxErr > 0)

/-- does the returned list `rs` meet the success criterion of set k? -/
def quorumReasons (sets : List SetD) (k : Nat) (rs : List Nat) (okBefore : List Nat) : List String :=
  match sets[k]? with
  | none => []
  | some s =>
    let mem := members sets k
    let mine := rs.filter (mem.contains ·)
    if isZoneMode s then
      let zs := dedup s.zones
      let zmem (z : Nat) := mem.filter fun g => zoneOfG sets g == z
      let fullIn (l : List Nat) (z : Nat) := (zmem z).all (l.contains ·)
      (if (zs.filter (fullIn mine)).length + s.maxUnz ≥ zs.length then [] else ["zone-quorum-not-reached"]) ++
      (if mine.all fun g => fullIn okBefore (zoneOfG sets g) then [] else ["result-from-unsuccessful-zone"])
    else
      if mine.length + s.maxErr ≥ mem.length then [] else ["quorum-not-reached"]


def judge (o : Opts) (sets : List SetD) (wins : List Win) : List String := Id.run do
  let mut bad : List String := []
  let nAll := (sets.map (·.zones.length)).foldl (· + ·) 0
  let allStarts := wins.flatMap (·.starts)
  let allCleans := wins.flatMap (·.cleans)
  let isDo := o.kind == 'd'
  -- each instance is called at most once
  if (List.range nAll).any fun g => countOf allStarts g > 1 then bad := "called-twice" :: bad
  -- the call returns
  let retWin? := (wins.zipIdx.find? fun (w, _) => w.ret.isSome)
  match retWin? with
  | none => bad := "no-return" :: bad
  | some (rw, ri) =>
    let r := rw.ret.getD ""
    let arr := arrivalsUpTo wins ri
    let okBefore := (arr.filter (isSucc ·.ch)).map (·.g)
    -- an error was due strictly before this window, yet the call had not returned
    if ri > 0 && (List.range ri).any (fun w => errorDue o sets wins w) then bad := "no-error-when-due" :: bad
    let returned : List Nat := if r.startsWith "R+" then (natList? (r.drop 2).toString).getD [] else []
    if r.startsWith "R+" then
      if ri > 0 && errorDue o sets wins ri then bad := "ok-when-error-due" :: bad
      if returned.any fun g => countOf returned g > 1 then bad := "result-returned-twice" :: bad
      if !(returned.all (okBefore.contains ·)) then bad := "result-not-from-successful-call" :: bad
      for k in List.range sets.length do
        bad := (quorumReasons sets k returned okBefore).map (fun x => if isDo && x == "result-from-unsuccessful-zone" then "do-" ++ x else x) ++ bad
    else
      if !(errorDue o sets wins ri || abortTerminalPossible o sets wins ri) then bad := "error-not-due" :: bad
    -- contexts of calls whose result is not used are cancelled, from the return on
    for (w, i) in wins.zipIdx do
      if i ≥ ri then
        if (w.ctx.zipIdx).any fun (ch, g) => ch == 'L' && !returned.contains g then bad := "unused-context-not-cancelled" :: bad
    -- cleanup exactly once for successful results that are not returned
    if !isDo then
      let okAll := ((arrivalsUpTo wins wins.length).filter (isSucc ·.ch)).map (·.g)
      for g in List.range nAll do
        let c := countOf allCleans g
        if okAll.contains g then
          if returned.contains g then
            if c > 0 then bad := "cleanup-of-returned-result" :: bad
          else
            if c == 0 then
              -- sub-class with its own key: the multi-set call failed although the set of g had met its
              -- criterion with g among the deciding results; those results are dropped without cleanup
              let (k, _) := locate sets g
              let dropped := o.kind == 'm' && sets.length ≥ 2 && !r.startsWith "R+" &&
                criterionHolds sets k okBefore && ((relevantArrivals sets k arr).any (·.g == g))
              bad := (if dropped then "multi-error-drops-quorum-results-without-cleanup" else "cleanup-missing") :: bad
            if c > 1 then bad := "cleanup-twice" :: bad
        else if c > 0 then bad := "cleanup-of-nonresult" :: bad
  -- after the last window nothing was due and unreturned (covers the case of no return at all)
  -- request minimisation: only as many calls as needed until a failure / the hedging delay releases more
  for (w, i) in wins.zipIdx do
    if !cancelledBy wins i then
      let arr := arrivalsUpTo wins i
      let startedSoFar := dedup ((wins.take (i + 1)).flatMap (·.starts))
      for k in List.range sets.length do
        match sets[k]? with
        | none => pure ()
        | some s =>
          let mem := members sets k
          let st := startedSoFar.filter (mem.contains ·)
          let failing := (arr.filter fun a => isFail a.ch && mem.contains a.g).map (·.g)
          if isDo then
            if o.hedge && s.maxUnz == 0 && w.tb == 0 then
              if st.length > (mem.length - s.maxErr) + failing.length then bad := "extra-request-before-failure-or-delay" :: bad
          else if o.min then
            if isZoneMode s then
              let zs := dedup s.zones
              let stz := dedup (st.map (zoneOfG sets))
              let fz := dedup (failing.map (zoneOfG sets))
              if stz.length > (zs.length - s.maxUnz) + fz.length + w.tb then bad := "too-many-zones-requested" :: bad
            else
              if st.length > (mem.length - s.maxErr) + failing.length + w.tb then bad := "too-many-requests" :: bad
  -- hedging releases more requests as the delay passes (lower bound; only judged with a long delay,
  -- where scheduling jitter is small compared to the delay): while the call has not returned and the
  -- caller has not cancelled, at the end of a window at which L ticks are certainly due (L delays have
  -- passed since the main loop was seen waiting) at least L − 1 − L/4 of them must have taken effect,
  -- each releasing a held-back instance / zone.
  if o.min && o.hedge && o.hedgeMs ≥ 20 && !isDo && !(sets.any fun s => s.za && s.maxErr > 0) then
    let ri := match wins.zipIdx.find? (fun (w, _) => w.ret.isSome) with | some (_, i) => i | none => wins.length
    for (w, i) in wins.zipIdx do
      if i < ri && !cancelledBy wins i then
        let tickreq := w.lb - 1 - w.lb / 4
        let arr := arrivalsUpTo wins i
        let startedSoFar := dedup ((wins.take (i + 1)).flatMap (·.starts))
        for k in List.range sets.length do
          match sets[k]? with
          | none => pure ()
          | some s =>
            let mem := members sets k
            let st := startedSoFar.filter (mem.contains ·)
            let failing := (arr.filter fun a => isFail a.ch && mem.contains a.g).map (·.g)
            if isZoneMode s then
              let zs := dedup s.zones
              let need := zs.length - s.maxUnz
              let held := zs.length - need
              let stz := dedup (st.map (zoneOfG sets))
              let fz := dedup (failing.map (zoneOfG sets))
              if stz.length < need + min held (fz.length + tickreq) then bad := "hedging-release-overdue" :: bad
            else
              let need := mem.length - s.maxErr
              let held := mem.length - need
              if st.length < need + min held (failing.length + tickreq) then bad := "hedging-release-overdue" :: bad
  return dedupS bad
where
  dedupS (l : List String) : List String := l.foldl (fun acc x => if acc.contains x then acc else acc ++ [x]) []

/-! ## handlers -/

def localStarts (sets : List SetD) (k : Nat) (l : List Nat) : List Nat :=
  l.filterMap fun g => let (k', i) := locate sets g; if k' == k then some i else none

def tagsOf (o : Opts) (sets : List SetD) (script : String) (wins : List Win) (dup : Bool := false) : String :=
  let n := (sets.map (·.zones.length)).foldl (· + ·) 0
  let s0 := sets.headD { zones := [], maxErr := 0, maxUnz := 0, za := false }
  let mode := if sets.any (fun s => s.za && s.maxErr > 0) then "invalid" else if isZoneMode s0 then "zone" else "flat"
  let ret := match wins.find? (·.ret.isSome) with
    | some w =>
      let r := w.ret.getD ""
      if r.startsWith "R+" then "ok" else if r.startsWith "R!i" then "insterr" else (r.drop 2).toString
    | none => "none"
  let retAt := match wins.zipIdx.find? (·.1.ret.isSome) with | some (_, i) => if i == 0 then "init" else "later" | none => "never"
  let outs := scriptOutcomes script
  let nf := (outs.filter isFail).length
  let canc := wins.any fun w => w.act == "c" || w.act == "init!"
  let late := match wins.zipIdx.find? (·.1.ret.isSome) with
    | some (_, i) => ((wins.drop (i + 1)).filter fun w => (parseArrival w.act).isSome).length
    | none => 0
  let ticks := (wins.filter (·.act == "w")).length
  let triv := if retAt == "init" && !canc then " trivial" else ""
  s!"k={o.kind} dupaddr={dup} mode={mode} n={min n 6} sets={sets.length} min={o.min} hedge={o.hedge} delay={o.hedgeMs} term={o.term} termall={o.termAll} termnr={o.termNR} termcanc={o.termCanc} kcancel={wins.any (·.kcancel)} sorter={o.sorter.isSome} ret={ret} fails={min nf 3} cancel={canc} late={min late 2} waits={min ticks 2}{triv}"

/-- one read: the trace of a single call. -/
def handleCall (opts sets script trace : String) : String × String × String :=
  match [opts, sets, script, trace] with
  | [opts, sets, script, trace] =>
    match parseOpts opts, parseSets sets with
    | some o, some ss =>
      let wins0 := parseTrace trace
      let wins := if o.kind == 'm' && ss.length ≥ 2 then wins0.map fun w =>
          match w.ret with
          | some r => if r.startsWith "R+" then { w with ret := some ("R+" ++ showNatList (sortNat ((natList? (r.drop 2).toString).getD []))) } else w
          | none => w
        else wins0
      let j := judge o ss wins
      let js := if j.isEmpty then "-" else ",".intercalate j
      let tags := tagsOf o ss script wins (hasDupAddr sets)
      match wins with
      | [] => ("empty-trace", js, tags)
      | w0 :: _ =>
        let pre := w0.act == "init!"
        let later := (wins.drop 1).flatMap (·.starts)
        let diff :=
          if o.kind == 'd' then
            match ss with
            | [s] =>
              let d : DCfg := { zones := s.zones, maxErrors := s.maxErr, maxUnavail := s.maxUnz, delay := o.hedge }
              let s0 := dinit d pre
              -- first window: the launch; visible effects of the initial state itself
              let w0' := { w0 with starts := (removeAll w0.starts s0.started).getD [999], ret := if s0.main = .running then w0.ret else (if showMain 0 s0.main == w0.ret then none else some "mismatch") }
              accept (doSys d) s0 (w0' :: wins.drop 1)
            | _ => "bad-sets"
          else if o.kind == 'm' && ss.length ≥ 2 then
            let cs := ss.map (toCfg o)
            let orders := (ss.zipIdx).map fun (s, k) => inferOrder o (toCfg o s) (localStarts ss k w0.starts) (localStarts ss k later)
            let m0 := minit cs orders pre
            accept (multiSys ss cs (extraTermOf o) (abortTermOf o)) m0 wins
          else
            match ss with
            | [s] =>
              let c := toCfg { o with kind := if o.kind == 'm' then 'w' else o.kind } s
              let order := inferOrder o c w0.starts later
              let s0 := init c order pre
              let w0' := { w0 with ret := if s0.main = .running then w0.ret else (if showMain 0 s0.main == w0.ret then none else some "mismatch")
                                   cleans := w0.cleans }
              accept (singleSys c (extraTermOf o) (abortTermOf o)) s0 (w0' :: wins.drop 1)
            | _ => "bad-sets"
        -- the search giving up is not a verdict: no diff, but visible in the tags (and the evidence)
        -- a window that could not be observed at quiescence (the process was starved for seconds): no verdict
        -- at all for this case; it counts as trivial, so that a run full of them is vacuous, not OK
        if diff == "not-quiescent" then ("-", "-", tags ++ " quiesce=timeout trivial")
        else if diff == "search-budget" then ("-", js, tags ++ " search=budget") else (diff, js, tags)
    | _, _ => ("bad-input", "-", "-")
  | _ => ("bad-fields", "-", "-")

/-- A case with a caller-owned zone preference list is two consecutive reads with the same ZoneSorter,
separated by the token `N`; each read is checked on its own (same configuration, same release order),
and after each read the list must be unchanged (token `Z!` otherwise). -/
def handleQ (f : List String) : String × String × String :=
  match f with
  | [opts, sets, script, trace] =>
    let parts := trace.splitOn " N "
    let rs := parts.map (handleCall opts sets script)
    let diff := match rs.find? (fun r => r.1 != "-") with | some r => r.1 | none => "-"
    let mutated := (trace.splitOn " ").contains "Z!"
    let js := dedupStrs ((rs.flatMap fun r => if r.2.1 == "-" then [] else r.2.1.splitOn ",") ++
      (if mutated then ["zone-sorter-result-mutated"] else []))
    let tags := (rs.head?.map (·.2.2)).getD "-" ++ s!" calls={parts.length}" ++
      (if rs.any (fun r => (r.2.2.splitOn " ").contains "search=budget") && !((rs.head?.map (·.2.2)).getD "").endsWith "search=budget" then " search=budget" else "")
    (diff, if js.isEmpty then "-" else ",".intercalate js, tags)
  | _ => ("bad-fields", "-", "-")
where
  dedupStrs (l : List String) : List String := l.foldl (fun acc x => if acc.contains x then acc else acc ++ [x]) []

def handle (cmd : String) (f : List String) : String × String × String :=
  if cmd == "C11.q" || cmd == "C11.m" || cmd == "C11.d" then handleQ f
  else ("unknown-cmd", "-", "-")

end OracleC11
