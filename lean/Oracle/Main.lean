import Oracle.C01
import Oracle.C02
import Oracle.C03
import Oracle.C04
import Oracle.C05
import Oracle.C06
import Oracle.C07
import Oracle.C08
import Oracle.C09
import Oracle.C10
import Oracle.C11
import Oracle.C12
import Oracle.C13
import Oracle.C14
import Oracle.C15
import Oracle.C16
import Oracle.C17
import Oracle.C18
import Oracle.C19
import Oracle.C20
/-!
Line-protocol oracle. One request per line, tab-separated: `<cmd>\t<field>...`.
One response per line: `<diff>\t<judge>\t<tags>` where `-` means "nothing to report":
* diff  : the model's observation when it differs from the implementation's (correspondence)
* judge : reasons why the implementation's observation violates the property statement
* tags  : branch/size classes of the case (for the input distribution in the evidence)
-/
open Common

def dispatch (line : String) : String :=
  match fields line with
  | [] => "empty\t-\t-"
  | cmd :: f =>
    let r : String × String × String :=
      if cmd.startsWith "C01." then OracleC01.handle cmd f
      else if cmd.startsWith "C02." then OracleC02.handle cmd f
      else if cmd.startsWith "C03." then OracleC03.handle cmd f
      else if cmd.startsWith "C04." then OracleC04.handle cmd f
      else if cmd.startsWith "C05." then OracleC05.handle cmd f
      else if cmd.startsWith "C06." then OracleC06.handle cmd f
      else if cmd.startsWith "C07." then OracleC07.handle cmd f
      else if cmd.startsWith "C08." then OracleC08.handle cmd f
      else if cmd.startsWith "C09." then OracleC09.handle cmd f
      else if cmd.startsWith "C10." then OracleC10.handle cmd f
      else if cmd.startsWith "C11." then OracleC11.handle cmd f
      else if cmd.startsWith "C12." then OracleC12.handle cmd f
      else if cmd.startsWith "C13." then OracleC13.handle cmd f
      else if cmd.startsWith "C14." then OracleC14.handle cmd f
      else if cmd.startsWith "C15." then OracleC15.handle cmd f
      else if cmd.startsWith "C16." then OracleC16.handle cmd f
      else if cmd.startsWith "C17." then OracleC17.handle cmd f
      else if cmd.startsWith "C18." then OracleC18.handle cmd f
      else if cmd.startsWith "C19." then OracleC19.handle cmd f
      else if cmd.startsWith "C20." then OracleC20.handle cmd f
      else ("unknown-cmd", "-", "-")
    r.1 ++ "\t" ++ r.2.1 ++ "\t" ++ r.2.2

partial def loop (hin hout : IO.FS.Stream) : IO Unit := do
  let line ← hin.getLine
  if line.isEmpty then return ()
  let l := (line.dropEndWhile (fun c => c == '\n' || c == '\r')).toString
  hout.putStrLn (dispatch l)
  loop hin hout

def main : IO Unit := do
  let hin ← IO.getStdin
  let hout ← IO.getStdout
  loop hin hout
  hout.flush
