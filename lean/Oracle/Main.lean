import Oracle.C20
/-!
Line-protocol oracle. One request per line, tab-separated: `<cmd>\t<field>...`.
One response per line: `<diff>\t<judge>\t<tags>` where `-` means "nothing to report":
* diff  : the model's observation when it differs from the implementation's (correspondence)
* judge : reasons why the implementation's observation violates the property statement
* tags  : branch/size classes of the case (for the input distribution in the evidence)
-/
open Common

def dispatch (line : String) : String :=
  match fields line with
  | [] => "empty\t-\t-"
  | cmd :: f =>
    let r : String × String × String :=
      if cmd.startsWith "C20." then OracleC20.handle cmd f
      else ("unknown-cmd", "-", "-")
    r.1 ++ "\t" ++ r.2.1 ++ "\t" ++ r.2.2

partial def loop (hin hout : IO.FS.Stream) : IO Unit := do
  let line ← hin.getLine
  if line.isEmpty then return ()
  let l := (line.dropEndWhile (fun c => c == '\n' || c == '\r')).toString
  hout.putStrLn (dispatch l)
  loop hin hout

def main : IO Unit := do
  let hin ← IO.getStdin
  let hout ← IO.getStdout
  loop hin hout
  hout.flush
