import Model.C03
/-! Oracle handlers for C05: merge histories over a tiny token space; judge = one owner per token,
sorted duplicate-free token lists, deterministic resolution with the documented winner, lookups
never report inconsistent token information and never panic. -/
namespace OracleC05
open Common Ring

def showD (d : Desc) : String := showDesc (C03.sortById d)

def newer (o t : Inst) : Bool := o.ts > t.ts || (o.ts == t.ts && o.state == .LEFT && t.state != .LEFT)

/-- last-writer-wins map before any conflict resolution, written independently of `C03.merge`
(gossip merges only). -/
def lwwUnion (this othern : Desc) : Desc :=
  let upd := this.map fun t => match C03.get? othern t.id with
    | some o => if newer o t then o else t
    | none => t
  upd ++ othern.filter fun o => (C03.get? this o.id).isNone && (o.ts > 0 || o.state == .LEFT)

/-- the documented winner among claimants: not-leaving beats leaving, then the smaller id. -/
def beats (a b : Inst) : Bool :=
  let la := a.state == .LEAVING
  let lb := b.state == .LEAVING
  if la != lb then lb else a.id < b.id

def expectedOwner (d : Desc) (tok : Nat) : Option String :=
  let cl := d.filter fun i => i.state != .LEFT && i.tokens.contains tok
  match cl with
  | [] => none
  | c :: cs => some (cs.foldl (fun w i => if beats i w then i else w) c).id

/-- the last-writer-wins map of a merge before any conflict resolution: `lwwUnion`, and for a local CAS
(`casNow = some now`) the entries missing from the incoming descriptor become token-less tombstones. -/
def preOf (casNow : Option Int) (this othern : Desc) : Desc :=
  let u := lwwUnion this othern
  match casNow with
  | none => u
  | some now => u.map fun x =>
      if (C03.get? othern x.id).isNone && x.state != .LEFT then { x with state := .LEFT, tokens := [], ts := now } else x

/-- Judge of one merge step (gossip or local CAS) into a well-formed state, from the property text:
the result is well-formed (unique ids, sorted duplicate-free token lists, tombstones hold nothing, no
token held by two entries), and every token claimed by a not-left entry of the last-writer-wins map
is held afterwards by exactly the documented winner among its claimants (not-leaving beats leaving,
then the smaller id) — the sole claimant when there is no collision — and by nobody else ("the loser
simply lacks the token"); no entry holds a token it did not claim. -/
def judge (casNow : Option Int) (this other st : Desc) : List String := Id.run do
  let mut bad : List String := []
  if !C03.uniqueIds st then bad := "duplicate-ids" :: bad
  for i in st do
    if !C03.sortedStrict i.tokens then bad := s!"tokens-not-sorted-unique:{i.id}" :: bad
    if i.state == .LEFT && !i.tokens.isEmpty then bad := s!"left-holds-tokens:{i.id}" :: bad
  if C03.conflictsExist st then bad := "token-held-by-two" :: bad
  let pre := preOf casNow this (C03.normalize other)
  let contested := C03.conflictsExist pre
  let mut seen : List Nat := []
  for t in C03.allTokens pre do
    if !seen.contains t then
      seen := t :: seen
      match expectedOwner pre t with
      | some w =>
        if (st.filter fun i => i.tokens.contains t).map (·.id) != [w] then
          bad := (if contested then s!"wrong-winner:{t}" else s!"token-not-with-its-claimant:{t}") :: bad
      | none => pure ()
  for i in st do
    let claimed := match C03.get? pre i.id with | some p => p.tokens | none => []
    for t in i.tokens do
      if !claimed.contains t then bad := s!"token-never-claimed:{i.id}:{t}" :: bad
  return bad

def handleStep (f : List String) : String × String × String :=
  match f with
  | [cas, now, this, other, st, chg, nres, lk, al] =>
    match parseDesc this, parseDesc other, now.toInt?, parseDesc st with
    | some this, some other, some now, some ist =>
      let cas := cas == "1"
      let m := C03.merge cas now this other
      let ms := showD m.state
      let mc := match m.change with | none => "nil" | some c => showD c
      let diff := if ms == st && mc == chg then "-" else s!"state={ms} change={mc}"
      let pre := C03.wf this
      let j := if pre then judge (if cas then some now else none) this other ist else []
      let j := if nres != "1" then s!"nondeterministic-merge:{nres}-results" :: j else j
      let j := if lk != "inc=0,panic=0" then s!"lookup-broken:{lk}" :: j else j
      -- readers hold snapshots sharing token storage with the replica's value: a merge must neither
      -- change an earlier snapshot nor leave a long-lived client answering differently from a fresh one
      -- likewise a sub-ring (ShuffleShard / ShuffleShardWithLookback / GetSubringForOperationStates) that a
      -- caller obtained BEFORE an update and still holds keeps answering from its own snapshot: the answers
      -- it gave when obtained, never inconsistent token information, never a panic
      let alf := al.splitOn ","
      let readerOK := alf.take 2 == ["alias=0", "snapmut=0"]
      let heldOK := alf.drop 2 == ["heldinc=0", "heldchg=0"]
      let j := if !readerOK then s!"reader-sees-broken-index:{",".intercalate (alf.take 2)}" :: j else j
      let j := if !heldOK then s!"held-subring-sees-later-update:{"+".intercalate (alf.drop 2)}" :: j else j
      let acc := (C03.normalize other).foldl C03.stepEntry { this := this, updated := [], tokCh := false }
      let resolved := acc.tokCh && C03.conflictsExist acc.this
      let tags := s!"cas={cas} resolved={resolved} prewf={pre} chg={m.change.isSome} n={min this.length 4}x{min other.length 4}"
      (diff, if j.isEmpty then "-" else ",".intercalate j, tags)
    | _, _, _, _ => ("bad-input", "-", "-")
  | _ => ("bad-fields", "-", "-")

/-- `C05.order`: one set of updates delivered to two replicas (both starting empty) in two orders.
fields: updates (`|`-separated descriptors), order 1, order 2 (comma-separated indexes), `-` | end state 1,
end state 2. diff: the model's two folds. judge: only what the property claims of EACH replica
(well-formed end state); that the two replicas agree is NOT claimed when tokens collide
(`PC05.winner_depends_on_delivery_order_witness`) — the tags record whether they do. -/
def handleOrder (f : List String) : String × String × String :=
  match f with
  | [ups, o1, o2, _, e1, e2] =>
    match (ups.splitOn "|").mapM parseDesc, natList? o1, natList? o2, parseDesc e1, parseDesc e2 with
    | some us, some p1, some p2, some ie1, some ie2 =>
      let run (p : List Nat) : Desc := p.foldl (fun s i => C03.mergeState s (us.getD i [])) []
      let m1 := run p1
      let m2 := run p2
      let diff := if showD m1 == e1 && showD m2 == e2 then "-" else s!"end1={showD m1} end2={showD m2}"
      let j := (if C03.wf ie1 then [] else ["end-state-1-not-well-formed"]) ++ (if C03.wf ie2 then [] else ["end-state-2-not-well-formed"])
      let owner (d : Desc) (t : Nat) : List String := (d.filter fun i => i.tokens.contains t).map (·.id)
      let toks := (C03.allTokens (us.flatten)).eraseDups
      let differ := toks.any fun t => owner ie1 t != owner ie2 t
      -- a token that ends with a LEAVING holder on one replica although a not-leaving, not-left entry claims it there
      let leavingKeeps (d : Desc) : Bool := toks.any fun t =>
        d.any (fun i => i.tokens.contains t && i.state == .LEAVING) &&
        us.flatten.any (fun u => u.tokens.contains t && u.state != .LEAVING && u.state != .LEFT &&
          (match C03.get? d u.id with | some x => x.ts == u.ts && x.state == u.state | none => false))
      let tags := s!"order diverged={e1 != e2} owners_differ={differ} leaving_keeps_token={leavingKeeps ie1 || leavingKeeps ie2} n={us.length}"
      (diff, if j.isEmpty then "-" else ",".intercalate j, tags)
    | _, _, _, _, _ => ("bad-input", "-", "-")
  | _ => ("bad-fields", "-", "-")

def handle (cmd : String) (f : List String) : String × String × String :=
  if cmd == "C05.step" then handleStep f
  else if cmd == "C05.order" then handleOrder f
  else ("unknown-cmd", "-", "-")

end OracleC05
