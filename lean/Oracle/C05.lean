import Model.C03
/-! Oracle handlers for C05: merge histories over a tiny token space; judge = one owner per token,
sorted duplicate-free token lists, deterministic resolution with the documented winner, lookups
never report inconsistent token information and never panic. -/
namespace OracleC05
open Common Ring

def showD (d : Desc) : String := showDesc (C03.sortById d)

def newer (o t : Inst) : Bool := o.ts > t.ts || (o.ts == t.ts && o.state == .LEFT && t.state != .LEFT)

/-- last-writer-wins map before any conflict resolution, written independently of `C03.merge`
(gossip merges only). -/
def lwwUnion (this othern : Desc) : Desc :=
  let upd := this.map fun t => match C03.get? othern t.id with
    | some o => if newer o t then o else t
    | none => t
  upd ++ othern.filter fun o => (C03.get? this o.id).isNone && (o.ts > 0 || o.state == .LEFT)

/-- the documented winner among claimants: not-leaving beats leaving, then the smaller id. -/
def beats (a b : Inst) : Bool :=
  let la := a.state == .LEAVING
  let lb := b.state == .LEAVING
  if la != lb then lb else a.id < b.id

def expectedOwner (d : Desc) (tok : Nat) : Option String :=
  let cl := d.filter fun i => i.state != .LEFT && i.tokens.contains tok
  match cl with
  | [] => none
  | c :: cs => some (cs.foldl (fun w i => if beats i w then i else w) c).id

def judge (cas : Bool) (this other st : Desc) : List String := Id.run do
  let mut bad : List String := []
  if !C03.uniqueIds st then bad := "duplicate-ids" :: bad
  for i in st do
    if !C03.sortedStrict i.tokens then bad := s!"tokens-not-sorted-unique:{i.id}" :: bad
    if i.state == .LEFT && !i.tokens.isEmpty then bad := s!"left-holds-tokens:{i.id}" :: bad
  if C03.conflictsExist st then bad := "token-held-by-two" :: bad
  if !cas then
    let pre := lwwUnion this (C03.normalize other)
    -- when this merge had to resolve a collision, each token went to the documented winner
    if C03.conflictsExist pre then
      for t in C03.allTokens pre do
        match expectedOwner pre t with
        | some w =>
          if (st.filter fun i => i.tokens.contains t).map (·.id) != [w] then bad := s!"wrong-winner:{t}" :: bad
        | none => pure ()
  return bad

def handleStep (f : List String) : String × String × String :=
  match f with
  | [cas, now, this, other, st, chg, nres, lk, al] =>
    match parseDesc this, parseDesc other, now.toInt?, parseDesc st with
    | some this, some other, some now, some ist =>
      let cas := cas == "1"
      let m := C03.merge cas now this other
      let ms := showD m.state
      let mc := match m.change with | none => "nil" | some c => showD c
      let diff := if ms == st && mc == chg then "-" else s!"state={ms} change={mc}"
      let pre := C03.wf this
      let j := if pre then judge cas this other ist else []
      let j := if nres != "1" then s!"nondeterministic-merge:{nres}-results" :: j else j
      let j := if lk != "inc=0,panic=0" then s!"lookup-broken:{lk}" :: j else j
      -- readers hold snapshots sharing token storage with the replica's value: a merge must neither
      -- change an earlier snapshot nor leave a long-lived client answering differently from a fresh one
      let j := if al != "alias=0,snapmut=0" then s!"reader-sees-broken-index:{al}" :: j else j
      let acc := (C03.normalize other).foldl C03.stepEntry { this := this, updated := [], tokCh := false }
      let resolved := acc.tokCh && C03.conflictsExist acc.this
      let tags := s!"cas={cas} resolved={resolved} prewf={pre} chg={m.change.isSome} n={min this.length 4}x{min other.length 4}"
      (diff, if j.isEmpty then "-" else ",".intercalate j, tags)
    | _, _, _, _ => ("bad-input", "-", "-")
  | _ => ("bad-fields", "-", "-")

def handle (cmd : String) (f : List String) : String × String × String :=
  if cmd == "C05.step" then handleStep f
  else ("unknown-cmd", "-", "-")

end OracleC05
