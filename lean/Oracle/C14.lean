import Model.C14
/-! Oracle handlers for C14: model output (correspondence) and judge (property on impl output). -/
namespace OracleC14
open Common Ring C14

def showRes : Except Err (List Nat) → String
  | .ok l => "ok:" ++ showNatList l
  | .error e => "err:" ++ e.name

/-- `ok:<list>` → `some (some list)`, `err:…` → `some none` -/
def parseRes (s : String) : Option (Option (List Nat)) :=
  if s.startsWith "ok:" then (natList? (s.drop 3).toString).map some
  else if s.startsWith "err:" then some none else none

def bitsOf (tr : List Nat) (keys : List Nat) (f : List Nat → Nat → Bool) : String :=
  if keys.isEmpty then "-" else String.ofList (keys.map fun k => if f tr k then '1' else '0')

/-! ### judge side: written from the property text, independent of the model functions -/

/-- closed `[start,end]` pairs of a flat range list -/
def pairs : List Nat → List (Nat × Nat)
  | s :: e :: r => (s, e) :: pairs r
  | _ => []

def inSomeRange (tr : List Nat) (k : Nat) : Bool := (pairs tr).any fun p => p.1 ≤ k && k ≤ p.2

def ascending : List Nat → Bool
  | a :: b :: r => a ≤ b && ascending (b :: r)
  | _ => true

def wellFormed (tr : List Nat) : Bool := tr.length % 2 == 0 && ascending tr && tr.all (· ≤ 4294967295)

def insertPair (x : Nat × Nat) : List (Nat × Nat) → List (Nat × Nat)
  | [] => [x]
  | y :: ys => if x.1 ≤ y.1 then x :: y :: ys else y :: insertPair x ys

/-- do the closed intervals tile `[0, 2^32-1]` exactly (no gap, no overlap)? returns reason keys -/
def tiling (ivs : List (Nat × Nat)) : List String :=
  let s := ivs.foldr insertPair []
  let rec go (next : Nat) : List (Nat × Nat) → List String
    | [] => if next == 4294967296 then [] else ["tile-gap"]
    | (a, b) :: r =>
      if b < a then ["tile-empty-interval"]
      else if a < next then ["tile-overlap"]
      else if a > next then ["tile-gap"]
      else go (b + 1) r
  go 0 s

def charAt (s : String) (i : Nat) : Char := (s.toList[i]?).getD '?'

/-- exactness on the boundary keys: bit ⇔ owner = who -/
def exactness (bits : String) (owners : List String) (who : String) : List String := Id.run do
  let bl := bits.toList
  let mut bad : List String := []
  if bl.length != owners.length then return ["obs-length-mismatch"]
  for (b, o) in bl.zip owners do
    if b == '1' && o != who then
      if !bad.contains "range-without-ownership" then bad := "range-without-ownership" :: bad
    if b == '0' && o == who then
      if !bad.contains "ownership-without-range" then bad := "ownership-without-range" :: bad
  return bad

def intervalConsistency (tr : List Nat) (keys : List Nat) (bits : String) : List String :=
  let bl := bits.toList
  if bl.length != keys.length then ["obs-length-mismatch"]
  else if (keys.zip bl).all fun (k, b) => (b == '1') == inSomeRange tr k then [] else ["includes-not-interval"]

def bucket (n : Nat) : String :=
  if n ≤ 3 then toString n else if n ≤ 8 then "4-8" else if n ≤ 64 then "9-64" else "65+"

def joinReasons (l : List String) : String := if l.isEmpty then "-" else ",".intercalate l.eraseDups

def handleInst (f : List String) : String × String × String :=
  match f with
  | [ds, cfg, ks, ranges, bits, owners] =>
    match parseDesc ds, cfg.splitOn ",", natList? ks, parseRes ranges with
    | some d, za :: rf :: op :: id :: shard, some keys, some impl =>
      let rfN := rf.toNat?.getD 0
      let m := rangesForInstance d (za == "1") rfN id
      let zone := ((d.get? id).map (·.zone)).getD ""
      let mBits := match m with | .ok tr => bitsOf tr keys includesKey | .error _ => "-"
      let all := tokenInsts d
      let mOwners := match m with
        | .ok _ => if keys.isEmpty then "-" else ",".intercalate (keys.map fun k => (lookupInZoneOf all zone k).getD "~")
        | .error _ => "-"
      let model := [showRes m, mBits, mOwners]
      let diff := if model == [ranges, bits, owners] then "-" else "model=" ++ " ".intercalate model
      let zt := zoneTokens d zone
      -- which inputs may fail (written from the Go doc comment and the property's quantifier): a registered
      -- instance with a zone, on a zone-aware ring with rf = number of zones, whose zone holds a token, must get ranges
      let registered := d.any (·.id == id)
      let mayFail := !(za == "1") || rfN != ((d.map (·.zone)).eraseDups).length || !registered || zone == "" ||
        !(d.any fun i => i.zone == zone && !i.tokens.isEmpty)
      let judge := match impl with
        | none => if mayFail then [] else ["error-on-quantified-ring"]
        | some tr =>
          (if wellFormed tr then [] else ["ranges-malformed"]) ++
          (if keys.isEmpty then [] else intervalConsistency tr keys bits ++ exactness bits (owners.splitOn ",") id)
      let mine := (zt.filter (·.2.id == id)).length
      let first := zt.head?
      let tags := s!"{if shard.isEmpty then "inst" else "subring-inst size=" ++ shard.getD 1 "?"} res={if ranges.startsWith "ok" then "ok" else ranges} op={op} zones={(zonesOf d).length} zt={bucket zt.length} mine={bucket mine} t0={(first.map (·.1 == 0)).getD false} ownFirst={(first.map (·.2.id == id)).getD false} own1={zt.any fun p => p.1 == 1 && p.2.id == id}"
      (diff, joinReasons judge, tags)
    | _, _, _, _ => ("bad-input", "-", "-")
  | _ => ("bad-fields", "-", "-")

def parseAssoc (s : String) : Option (List (String × Option (List Nat))) :=
  if s == "-" then some [] else
  (s.splitOn ";").mapM fun kv => match kv.splitOn "=" with
    | [k, v] => (parseRes v).map fun r => (k, r)
    | _ => none

def handleTile (f : List String) : String × String × String :=
  match f with
  | [ds, cfg, _, obs] =>
    match parseDesc ds, cfg.splitOn ",", parseAssoc obs with
    | some d, za :: rf :: shard, some impl =>
      let rfN := rf.toNat?.getD 0
      let model := ";".intercalate (d.map fun i => i.id ++ "=" ++ showRes (rangesForInstance d (za == "1") rfN i.id))
      let diff := if model == obs then "-" else "model=" ++ model
      -- judge: per zone, if every instance of the zone reported ranges, they tile the key space
      let judge := (zonesOf d).flatMap fun z =>
        let members := (d.filter (·.zone == z)).map (·.id)
        let rs := members.map fun id => (impl.find? (·.1 == id)).bind (·.2)
        let quantified := za == "1" && rfN == ((d.map (·.zone)).eraseDups).length && z != "" &&
          (d.any fun i => i.zone == z && !i.tokens.isEmpty)
        if rs.all Option.isSome then tiling (rs.flatMap fun r => pairs (r.getD []))
        else if quantified then ["error-on-quantified-ring"] else []
      let ok := impl.all (·.2.isSome)
      let tags := s!"{if shard.isEmpty then "tile" else "subring-tile size=" ++ shard.getD 1 "?"} res={if ok then "ok" else "err"} zones={(zonesOf d).length} inst={bucket d.length}"
      (diff, joinReasons judge, tags)
    | _, _, _ => ("bad-input", "-", "-")
  | _ => ("bad-fields", "-", "-")

def showOwner (r : Except Err Int) : String := match r with | .ok p => toString p | .error _ => "!"

def handlePart (f : List String) : String × String × String :=
  match f with
  | [ds, pid, ks, rFull, bFull, rAct, bAct, owners] =>
    match parsePDesc ds, pid.toInt?, natList? ks, parseRes rFull, parseRes rAct with
    | some d, some p, some keys, some implF, some implA =>
      let mF := rangesForPartition d p
      let mA := rangesForPartition d.activeOnly p
      let bitsM := fun (m : Except Err (List Nat)) => match m with | .ok tr => bitsOf tr keys includesKey | .error _ => "-"
      let all := d.tokenParts
      let mOwners := ",".intercalate (keys.map fun k => showOwner (activeForOf all k))
      let model := [showRes mF, bitsM mF, showRes mA, bitsM mA, mOwners]
      let diff := if model == [rFull, bFull, rAct, bAct, owners] then "-" else "model=" ++ " ".intercalate model
      let allActive := d.parts.all (·.state == 2)
      let isActive := ((d.parts.find? (·.id == p)).map (·.state == 2)).getD false
      let os := owners.splitOn ","
      let jF := match implF with
        | none => if d.parts.any (·.id == p) then ["error-on-existing-partition"] else []
        | some tr => (if wellFormed tr then [] else ["ranges-malformed"]) ++ intervalConsistency tr keys bFull ++
            (if allActive then exactness bFull os pid else [])
      let jA := match implA with
        | none => if isActive then ["active-partition-without-ranges"] else []
        | some tr => (if wellFormed tr then [] else ["ranges-malformed"]) ++ intervalConsistency tr keys bAct ++
            exactness bAct os pid
      let nt := ((d.parts.find? (·.id == p)).map (·.tokens.length)).getD 0
      let toks := d.ringTokens
      let tags := s!"part res={if rFull.startsWith "ok" then "ok" else rFull} allActive={allActive} active={isActive} parts={bucket d.parts.length} ring={bucket toks.length} mine={bucket nt} t0={toks.head? == some 0} tmax={toks.getLast? == some 4294967295}"
      (diff, joinReasons (jF ++ jA), tags)
    | _, _, _, _, _ => ("bad-input", "-", "-")
  | _ => ("bad-fields", "-", "-")

def handlePtile (f : List String) : String × String × String :=
  match f with
  | [ds, _, _, full, act] =>
    match parsePDesc ds, parseAssoc full, parseAssoc act with
    | some d, some implF, some implA =>
      let mF := ";".intercalate (d.parts.map fun p => toString p.id ++ "=" ++ showRes (rangesForPartition d p.id))
      let mA := ";".intercalate (d.parts.map fun p => toString p.id ++ "=" ++ showRes (rangesForPartition d.activeOnly p.id))
      let diff := if [mF, mA] == [full, act] then "-" else "model=" ++ mF ++ " " ++ mA
      let hasTok := d.parts.any (!·.tokens.isEmpty)
      let hasActTok := d.parts.any fun p => p.state == 2 && !p.tokens.isEmpty
      let jF := if !implF.all (·.2.isSome) then ["error-on-existing-partition"]
        else if hasTok then tiling (implF.flatMap fun r => pairs (r.2.getD [])) else []
      let jA := if hasActTok then tiling (implA.flatMap fun r => pairs (r.2.getD [])) else []
      let tags := s!"ptile tokens={hasTok} activeTokens={hasActTok} parts={bucket d.parts.length} allActive={d.parts.all (·.state == 2)}"
      (diff, joinReasons (jF ++ jA), tags)
    | _, _, _ => ("bad-input", "-", "-")
  | _ => ("bad-fields", "-", "-")

def handleInc (f : List String) : String × String × String :=
  match f with
  | [rs, ks, _, bits] =>
    match natList? rs, natList? ks with
    | some tr, some keys =>
      let m := bitsOf tr keys includesKey
      let diff := if m == bits then "-" else "model=" ++ m
      let judge := if tr.length % 2 == 0 then intervalConsistency tr keys bits else []
      (diff, joinReasons judge, s!"inc len={tr.length} even={tr.length % 2 == 0}")
    | _, _ => ("bad-input", "-", "-")
  | _ => ("bad-fields", "-", "-")

/-- `C14.alias`: the observation after the caller scribbled over every accessor result documented as a copy
must be what the (immutable) model computes from the descriptor, and must equal the observation before. -/
def handleAlias (f : List String) : String × String × String :=
  match f with
  | [ds, pidsS, ks, before, after] =>
    match parsePDesc ds, (pidsS.splitOn ",").mapM String.toInt?, natList? ks with
    | some d, some pids, some keys =>
      let all := d.tokenParts
      let per := pids.map fun p =>
        let m := rangesForPartition d p
        let bits := match m with | .ok tr => bitsOf tr keys includesKey | .error _ => "-"
        let owners := "+".intercalate ((d.owners.filter (·.partition == p)).map (·.id))
        toString p ++ "=" ++ showRes m ++ "/" ++ bits ++ "/" ++ owners
      let lookups := ",".intercalate (keys.map fun k => showOwner (activeForOf all k))
      let ids := fun (l : List Part) => "+".intercalate (l.map fun p => toString p.id)
      let model := ";".intercalate per ++ "|" ++ lookups ++ "|" ++ ids d.parts ++ "|" ++ ids (d.parts.filter (·.state == 2))
      let diff := if model == after then "-" else "model=" ++ model
      let judge := if before == after then [] else ["accessor-result-aliases-ring-state"]
      (diff, joinReasons judge, s!"alias parts={bucket d.parts.length} ring={bucket all.length} owners={bucket d.owners.length}")
    | _, _, _ => ("bad-input", "-", "-")
  | _ => ("bad-fields", "-", "-")

def handleIalias (f : List String) : String × String × String :=
  match f with
  | [ds, cfg, _, before, after] =>
    match parseDesc ds, cfg.splitOn "," with
    | some d, [za, rf] =>
      let model := ";".intercalate (d.map fun i => i.id ++ "=" ++ showRes (rangesForInstance d (za == "1") (rf.toNat?.getD 0) i.id))
      let diff := if model == after then "-" else "model=" ++ model
      let judge := if before == after then [] else ["accessor-result-aliases-ring-state"]
      (diff, joinReasons judge, s!"ialias inst={bucket d.length}")
    | _, _ => ("bad-input", "-", "-")
  | _ => ("bad-fields", "-", "-")

def handle (cmd : String) (f : List String) : String × String × String :=
  if cmd == "C14.inst" || cmd == "C14.sinst" then handleInst f
  else if cmd == "C14.tile" || cmd == "C14.stile" then handleTile f
  else if cmd == "C14.part" then handlePart f
  else if cmd == "C14.ptile" then handlePtile f
  else if cmd == "C14.inc" then handleInc f
  else if cmd == "C14.alias" then handleAlias f
  else if cmd == "C14.ialias" then handleIalias f
  else ("unknown-cmd", "-", "-")

end OracleC14
