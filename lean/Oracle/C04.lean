import Oracle.C06
/-! Oracle handler for C04 (tombstones block resurrection and are never shown). Same histories and
line format as C06 (`harness/cmd/corr/c06.go`, command `C04.run`): the diff is the replay on the node
model of `Model/C06.lean`; the judge evaluates the C04 statement on the implementation's own
observations (store snapshots incl. tombstones, `Get` views, watcher callbacks, gossip batches,
`LocalState` contents). -/
namespace OracleC04
open Common Ring C06 OracleC06

/-- the replicated entries of a value: (name, timestamp, is-tombstone, full text) -/
def ents : Val → List (String × Int × Bool × String)
  | .ring d => d.map fun i => ("i:" ++ i.id, i.ts, i.state == .LEFT, showInst i)
  | .part p =>
    (p.parts.map fun x => (s!"p:{x.id}", x.stateTs, x.state == C03P.partDeleted, C03P.showPart x)) ++
    (p.owners.map fun o => ("o:" ++ o.id, o.ts, o.state == C03P.ownerDeleted, C03P.showOwner o))

def findEnt (l : List (String × Int × Bool × String)) (name : String) : Option (Int × Bool) :=
  (l.find? (·.1 == name)).map fun x => (x.2.1, x.2.2.1)

/-- retained-tombstone bookkeeping: (node, key, entry name) ↦ timestamp of the tombstone -/
abbrev Tombs := List ((Nat × String × String) × Int)

def tombGet (t : Tombs) (k : Nat × String × String) : Option Int := (t.find? (·.1 == k)).map (·.2)
def tombSet (t : Tombs) (k : Nat × String × String) (v : Int) : Tombs :=
  match t with
  | [] => [(k, v)]
  | (k', v') :: r => if k' == k then (k, v) :: r else (k', v') :: tombSet r k v

structure J where
  bad : List String := []
  tombs : Tombs := []
  prev : List (Nat × Store Val) := []           -- last observed store per node
  fwd : List (Nat × String × String × Int) := []  -- tombstones created by a local update, not yet seen in a gossip batch
  pool : List (Msg Val) := []
  idx : Nat := 0                                  -- index of the current event
  prod : List ((String × String × Int) × Nat) := []     -- (key, entry, timestamp) ↦ event that produced this entry version
  created : List ((String × String × Int) × Nat) := []  -- (key, entry, tombstone timestamp) ↦ first removal event that created it
  forged : Bool := false                          -- a corrupted message decoded to content no writer produced
  collected : Tombs := []                         -- tombstones discarded after their retention (legitimately)
  nGcRes : Nat := 0                               -- an entry came back after its tombstone was collected (allowed; observation)
  nLearnt : Nat := 0                              -- tombstones a node learned from a message without ever having shown the entry
  nTomb : Nat := 0
  nBlocked : Nat := 0
  nSame : Nat := 0
  nStripped : Nat := 0

def J.flag (j : J) (s : String) : J := { j with bad := s :: j.bad }

def prevStore (j : J) (n : Nat) : Store Val := ((j.prev.find? (·.1 == n)).map (·.2)).getD []
def setPrev (j : J) (n : Nat) (st : Store Val) : J :=
  { j with prev := (n, st) :: j.prev.filter (·.1 != n) }

/-- one observed snapshot of node `n` at clock reading `tn` -/
def checkSnap (conf : Conf) (j : J) (n : Nat) (tn : Int) (sn : Snap) : J := Id.run do
  let mut j := j
  -- (a) readers: the value returned by Get has no tombstone and is the stored value minus tombstones
  for (k, e) in sn.store do
    let es := ents e.val
    match lookup sn.view k with
    | none => j := j.flag "get-missing-key"
    | some v =>
      let vs := ents v
      if vs.any (·.2.2.1) then j := j.flag s!"tombstone-visible-to-reader:{k}"
      let want := sortStr ((es.filter fun x => !x.2.2.1).map (·.2.2.2))
      if sortStr (vs.map (·.2.2.2)) != want then j := j.flag s!"reader-view-differs-from-store-minus-tombstones:{k}"
      if es.any (·.2.2.1) then j := { j with nStripped := j.nStripped + 1 }
    -- (b) no resurrection while the tombstone is retained
    for (name, ts, tomb, _) in es do
      match tombGet j.collected (n, k, name) with
      | some t => if !tomb ∧ ts ≤ t then j := { j with nGcRes := j.nGcRes + 1, collected := j.collected.filter (·.1 != (n, k, name)) }
      | none => pure ()
      match tombGet j.tombs (n, k, name) with
      | some t =>
        -- the entry version now visible was produced before the removal whose tombstone the node holds
        if !tomb ∧ !conf.skew then
          match (j.prod.find? (·.1 == (k, name, ts))).map (·.2), (j.created.find? (·.1 == (k, name, t))).map (·.2) with
          | some i, some c => if i < c then j := j.flag s!"resurrected-by-earlier-message:{k}/{name}"
          | _, _ => pure ()
        if !tomb ∧ ts ≤ t then j := j.flag s!"resurrected:{k}/{name}"
        if tomb ∧ ts < t then j := j.flag s!"tombstone-regressed:{k}/{name}"
        if tomb ∧ ts > t then j := { j with tombs := tombSet j.tombs (n, k, name) ts }
        if !tomb ∧ ts > t then j := { j with tombs := j.tombs.filter (·.1 != (n, k, name)) }
      | none =>
        if tomb then j := { j with tombs := tombSet j.tombs (n, k, name) ts, nTomb := j.nTomb + 1 }
  -- (c) tombstones are discarded only once older than the retention
  for ((n', k, name), t) in j.tombs do
    if n' == n then
      let present := match getE sn.store k with
        | some e => (findEnt (ents e.val) name).isSome
        | none => false
      if !present then
        -- a tombstone that vanished before its retention stays on record: the entry must still not come back
        if conf.lit == 0 ∨ t ≥ tn - conf.lit + 2 then j := j.flag s!"tombstone-discarded-before-retention:{k}/{name}"
        else j := { j with tombs := j.tombs.filter (·.1 != (n', k, name)), collected := tombSet j.collected (n', k, name) t }
  return setPrev j n sn.store

def isTombVal (s : String) : Bool :=
  match s.splitOn "^" with
  | [kind, body] => match parseVal kind body with
    | some v => (ents v).any (·.2.2.1)
    | none => false
  | _ => false

/-- does delivering `m` to node `n` try to bring back an entry whose tombstone the node holds? -/
def attempts (j : J) (n : Nat) (m : Msg Val) : Nat × Nat :=
  (ents m.val).foldl (fun (a, b) (name, ts, tomb, _) =>
    match tombGet j.tombs (n, m.key, name) with
    | some t => if !tomb ∧ ts ≤ t then (a + 1, if ts == t then b + 1 else b) else (a, b)
    | none => (a, b)) (0, 0)

/-- node `n` received message `m`: from now on it has LEARNED of every removal the message carries,
whether or not it ever showed the entry: the tombstone must be retained there (or superseded by a
newer entry) and a tombstone that is new to the node must be in its next gossip batch -/
def learn (conf : Conf) (tn : Int) (j : J) (n : Nat) (m : Msg Val) : J := Id.run do
  let mut j := j
  -- a key-delete broadcast reaching a node that lacks the key is dropped as a whole (`curr.value == nil && deleted`)
  if j.forged ∨ m.key.isEmpty ∨ m.deleted then return j
  let before := match getE (prevStore j n) m.key with | some e => ents e.val | none => []
  -- a value of another type under the key makes the merge fail as a whole: nothing is learned
  let kindOk := match getE (prevStore j n) m.key, m.val with
    | some e, .ring _ => (match e.val with | .ring _ => true | _ => false)
    | some e, .part _ => (match e.val with | .part _ => true | _ => false)
    | none, _ => true
  if !kindOk then return j
  for (name, t, tomb, _) in ents m.val do
    -- a tombstone that is already older than the retention when it arrives is collected on the spot
    if tomb ∧ !(conf.lit == 0 ∨ t ≥ tn - conf.lit + 2) then j := { j with collected := tombSet j.collected (n, m.key, name) t }
    if tomb ∧ (conf.lit == 0 ∨ t ≥ tn - conf.lit + 2) then
      let known := match findEnt before name with
        | some (ts, tb) => ts > t || (ts == t && tb)
        | none => false
      if !known then
        if (findEnt before name).isNone then j := { j with nLearnt := j.nLearnt + 1 }
        match tombGet j.tombs (n, m.key, name) with
        | some t0 => if t > t0 then j := { j with tombs := tombSet j.tombs (n, m.key, name) t }
        | none => j := { j with tombs := tombSet j.tombs (n, m.key, name) t, nTomb := j.nTomb + 1 }
        j := { j with fwd := (n, m.key, name, t) :: j.fwd }
  return j

/-- after node `n` received message `m`: every removal the message carries must have taken effect,
i.e. no entry version produced before that removal is still shown by the node -/
def learned (conf : Conf) (j : J) (m : Msg Val) (sn : Snap) : J := Id.run do
  let mut j := j
  if conf.skew then return j
  for (name, t, tomb, _) in ents m.val do
    if tomb then
      match (j.created.find? (·.1 == (m.key, name, t))).map (·.2), getE sn.store m.key with
      | some c, some e =>
        match findEnt (ents e.val) name with
        | some (ts, false) =>
          match (j.prod.find? (·.1 == (m.key, name, ts))).map (·.2) with
          | some i => if i < c then j := j.flag s!"still-shown-after-learning-of-removal:{m.key}/{name}"
          | none => pure ()
        | _ => pure ()
      | _, _ => pure ()
  return j

def judge (conf : Conf) (evs obs : List String) : J := Id.run do
  let mut j : J := {}
  for (ev, ob) in evs.zip obs do
    j := { j with idx := j.idx + 1 }
    let e := ev.splitOn "!"
    let o := ob.splitOn "!"
    if ob.startsWith "PANIC" then
      j := j.flag "panic"
      continue
    let tn : Int := (o.headD "0").toInt?.getD 0
    match e, o with
    | ["cas", n, key, ops], [t0, tn', res, snap] =>
      match n.toNat?, tn'.toInt?, parseSnap snap with
      | some n, some tn, some sn =>
        -- which entry versions this update produced, and which removals it performed
        let t0 := t0.toInt?.getD 0
        for op in (ops.splitOn "+").filterMap parseOp do
          let pr : Option (String × Int) := match op with
            | .hb id d _ _ => some ("i:" ++ id, t0 - d)
            | .pa pid d _ => some (s!"p:{pid}", t0 - d)
            | .oa oid d _ _ => some ("o:" ++ oid, t0 - d)
            | _ => none
          match pr with
          | some (name, ts) => if (j.prod.find? (·.1 == (key, name, ts))).isNone then j := { j with prod := ((key, name, ts), j.idx) :: j.prod }
          | none => pure ()
          let rm : Option String := match op with
            | .rm id => some ("i:" ++ id)
            | .pr pid => some s!"p:{pid}"
            | .orm oid => some ("o:" ++ oid)
            | _ => none
          match rm with
          | some name =>
            let before := match getE (prevStore j n) key with | some e => findEnt (ents e.val) name | none => none
            let after := match getE sn.store key with | some e => findEnt (ents e.val) name | none => none
            match before, after with
            | some (_, false), some (t, true) =>
              if (j.created.find? (·.1 == (key, name, t))).isNone then j := { j with created := ((key, name, t), j.idx) :: j.created }
            | _, _ => pure ()
          | none => pure ()
        -- "removed by a local update ⇒ no longer shown" (first sentence of the property), judged on the updating node
        -- itself: an entry the node showed before the update and that is absent from the update's result (the LAST op
        -- naming it is a removal; replace-in-one-CAS writes `rm:x+hb:z` included), update acknowledged: afterwards the
        -- node holds a tombstone for it — not the live entry, and not nothing (a fresh tombstone is never older than
        -- the retention); the tombstone then goes through the forwarding rule below
        if res == "ok" ∧ !conf.skew then
          let nameOf : Op → Option (String × Bool) := fun op => match op with
            | .rm id => some ("i:" ++ id, true)
            | .pr pid => some (s!"p:{pid}", true)
            | .orm oid => some ("o:" ++ oid, true)
            | .hb id _ _ _ => some ("i:" ++ id, false)
            | .pa pid _ _ => some (s!"p:{pid}", false)
            | .oa oid _ _ _ => some ("o:" ++ oid, false)
            | _ => none
          let named := ((ops.splitOn "+").filterMap parseOp).filterMap nameOf
          for (name, isRm) in named do
            if isRm ∧ ((named.filter (·.1 == name)).getLast?.map (·.2)) == some true then
              let before := match getE (prevStore j n) key with | some e => findEnt (ents e.val) name | none => none
              let after := match getE sn.store key with | some e => findEnt (ents e.val) name | none => none
              match before, after with
              | some (_, false), some (_, false) => j := j.flag s!"still-shown-after-removal-by-local-update:{key}/{name}"
              | some (_, false), none => j := j.flag s!"removal-by-local-update-left-no-tombstone:{key}/{name}"
              | _, _ => pure ()
        -- tombstones this local update created must be forwarded (checked at the node's next gossip)
        if res == "ok" then
          let before := match getE (prevStore j n) key with | some e => ents e.val | none => []
          let after := match getE sn.store key with | some e => ents e.val | none => []
          for (name, ts, tomb, _) in after do
            if tomb ∧ findEnt before name != some (ts, true) ∧ (conf.lit == 0 ∨ ts ≥ tn - conf.lit + 2) then
              j := { j with fwd := (n, key, name, ts) :: j.fwd }
        j := checkSnap conf j n tn sn
      | _, _, _ => j := j.flag "unparsable-observation"
    | ["g", n], [_, msgs, _] =>
      match n.toNat? with
      | some n =>
        let ms := (if msgs == "-" then [] else msgs.splitOn "|").filterMap parseMsg
        for (n', key, name, ts) in j.fwd do
          if n' == n then
            let carried := ms.any fun m => m.key == key && match findEnt (ents m.val) name with
              | some (ts', tomb') => ts' > ts || (ts' == ts && tomb')
              | none => false
            if !carried then j := j.flag s!"tombstone-not-forwarded:{key}/{name}"
        j := { j with fwd := j.fwd.filter (·.1 != n), pool := j.pool ++ ms }
      | none => pure ()
    | ["d", n, m], [_, snap] =>
      match n.toNat?, m.toNat?, parseSnap snap with
      | some n, some m, some sn =>
        match j.pool[m]? with
        | some msg =>
          let (a, b) := attempts j n msg
          j := { j with nBlocked := j.nBlocked + a, nSame := j.nSame + b }
          if !msg.key.isEmpty then
            j := learned conf j msg sn
            j := learn conf tn j n msg
        | none => pure ()
        j := checkSnap conf j n tn sn
      | _, _, _ => j := j.flag "unparsable-observation"
    | ["x", n, _, _, _], [_, cls, _, _, after] =>
      if cls == "ok" then j := { j with forged := true }
      match n.toNat?, parseSnap after with
      | some n, some sn => j := checkSnap conf j n tn sn
      | _, _ => j := j.flag "unparsable-observation"
    | ["pp", a, b], [_, pairs, storeA, snapB] =>
      match a.toNat?, b.toNat?, parseSnap snapB with
      | some _, some b, some sn =>
        let ps := if pairs == "-" then [] else pairs.splitOn "|"
        -- the full-state message carries every stored entry, tombstones included
        if storeA != "-" then
          for en in storeA.splitOn "|" do
            match en.splitOn "=" with
            | [k, rest] =>
              match rest.splitOn "^" with
              | _ :: tail =>
                if !ps.contains ("ok:" ++ k ++ "=" ++ "^".intercalate tail) then
                  j := j.flag s!"full-state-message-lacks-stored-content:{k}"
                  -- a node that exchanged its full state with a node holding a tombstone has learnt of the removal
                  match parseMsg (k ++ "=" ++ "^".intercalate tail) with
                  | some msg => j := learn conf tn j b msg
                  | none => pure ()
              | [] => pure ()
            | _ => pure ()
        for p in ps do
          if p.startsWith "ok:" then
            match parseMsg (p.drop 3).toString with
            | some msg =>
              let (x, y) := attempts j b msg
              j := { j with nBlocked := j.nBlocked + x, nSame := j.nSame + y }
              j := learned conf j msg sn
              j := learn conf tn j b msg
            | none => pure ()
        j := checkSnap conf j b tn sn
      | _, _, _ => j := j.flag "unparsable-observation"
    | ["ppx", _, b, mode, _], [_, pairs, _, snapB, _] =>
      if mode != "trunc" ∧ (pairs.splitOn "|").any (·.startsWith "ok:") then j := { j with forged := true }
      match b.toNat?, parseSnap snapB with
      | some b, some sn => j := checkSnap conf j b tn sn
      | _, _ => j := j.flag "unparsable-observation"
    | ["rs", n], _ =>
      match n.toNat? with
      | some n => j := { j with tombs := j.tombs.filter (·.1.1 != n), fwd := j.fwd.filter (·.1 != n), prev := j.prev.filter (·.1 != n) }
      | none => pure ()
    | [w, n, _], [_, snap] =>
      if w == "w" ∨ w == "wp" ∨ w == "del" then
        match n.toNat?, parseSnap snap with
        | some n, some sn => j := checkSnap conf j n tn sn
        | _, _ => j := j.flag "unparsable-observation"
    | [k], _ =>
      if k == "st" ∨ k == "fin" then
        let snaps := (o.drop 1).take conf.n
        let mut i := 0
        for s in snaps do
          match parseSnap s with
          | some sn => j := checkSnap conf j i tn sn
          | none => j := j.flag "unparsable-observation"
          i := i + 1
        -- watchers are never handed a tombstone
        for (_, _, calls) in parseWLogs (o.getLastD "-") do
          for (k, v) in calls do
            if isTombVal v then j := j.flag s!"tombstone-shown-to-watcher:{k}"
    | _, _ => pure ()
  return j

def handleRun (f : List String) : String × String × String :=
  match f with
  | [cfg, evs, obs] =>
    let conf := parseConf cfg
    -- `ppj`: push/pull with join = true; same behaviour as join = false (tombstones are carried either way)
    let evs := (evs.splitOn " ").map fun e => if e.startsWith "ppj!" then "pp!" ++ (e.drop 4).toString else e
    let obs := obs.splitOn " "
    if evs.length != obs.length then ("event-observation-count", "-", "-") else
    let (_, d) := replay conf evs obs
    let j := judge conf evs obs
    let bad := j.bad.eraseDups
    let tags := s!"n={conf.n} gcres={bucket j.nGcRes} learnt={bucket j.nLearnt} tomb={bucket j.nTomb} blocked={bucket j.nBlocked} samesec={bucket j.nSame} stripped={bucket j.nStripped} lit={conf.lit} gc={bit conf.gc} skew={bit conf.skew} sl={bucket (countEv evs "sl")} rs={bucket (countEv evs "rs!")}"
    (d.getD "-", if bad.isEmpty then "-" else ",".intercalate bad, tags)
  | _ => ("bad-fields", "-", "-")

def handle (cmd : String) (f : List String) : String × String × String :=
  if cmd == "C04.run" then handleRun f else ("unknown-cmd", "-", "-")

end OracleC04
