import Model.C12
/-!
Oracle handlers for C12.

`diff`  : the model's observation where it differs from the implementation's.
`judge` : the property statement evaluated on the implementation's own answers (never via `C12.shard`):
          members ⊆ ring, no read-only member, per-zone size `min(⌈size/zones⌉, eligible)`, equal answers for
          rings that differ only in State/Timestamp/Addr/Versions, `shard s ⊆ shard s'` for `s ≤ s'`,
          at most one instance in and one out after a single add / remove / read-only toggle,
          look-back ⊇ plain shard, look-back ⊇ every still-registered member of a plain shard seen
          at some moment of the window.

Case kinds (TAB separated fields after the command):
* `C12.shard  za desc ident streams s s2 period now op rp | A B C D E`
* `C12.hist   za ident streams s period snaps | As Ls`
* `C12.pshard parts ident stream s s2 period now op | A B C E`
* `C12.phist  ident stream s period snaps | As Ls`
-/
namespace OracleC12
open Common Ring C12

/-! ### parsing helpers -/

def strLe (a b : String) : Bool := decide (a ≤ b)
def sortStr (l : List String) : List String := l.mergeSort strLe

def parseIds (s : String) : List String := if s == "-" || s == "" then [] else (s.splitOn ",").map str?
def showIds (l : List String) : String := if l.isEmpty then "-" else ",".intercalate ((sortStr l).map showStr)
def canonIds (s : String) : String := showIds (parseIds s)

def subset (a b : List String) : Bool := a.all b.contains
def sdiff (a b : List String) : List String := a.filter fun x => !b.contains x
def dedup (l : List String) : List String := l.foldr (fun x acc => if acc.contains x then acc else x :: acc) []

def parseStreams (s : String) : Option (List (String × Array Nat)) :=
  if s == "-" then some [] else
  (s.splitOn "|").mapM fun p => match p.splitOn "=" with
    | [z, vs] => do pure (str? z, (← natList? vs).toArray)
    | _ => none

def startsFn (st : List (String × Array Nat)) : String → Nat → Nat := fun z i =>
  match st.lookup z with
  | some a => a.getD i 0
  | none => 0

inductive Op
  | none
  | rm (id : String)
  | add (i : Inst)
  | ro (id : String) (flag : Bool) (ts : Int)

def parseOp (s : String) : Option Op :=
  if s == "none" then some .none
  else if s.startsWith "rm:" then some (.rm (str? (s.drop 3).toString))
  else if s.startsWith "add:" then (parseInst (s.drop 4).toString).map .add
  else if s.startsWith "ro:" then
    match (s.drop 3).toString.splitOn ":" with
    | [id, f, ts] => ts.toInt?.map fun t => .ro (str? id) (f == "1") t
    | _ => Option.none
  else Option.none

def insertById (i : Inst) : Desc → Desc
  | [] => [i]
  | y :: ys => if strLe i.id y.id then i :: y :: ys else y :: insertById i ys

def applyOp (d : Desc) : Op → Desc
  | .none => d
  | .rm id => d.filter fun i => i.id != id
  | .add i => insertById i d
  | .ro id f ts => d.map fun i => if i.id == id then { i with ro := f, roTs := ts } else i

def opTag : Op → String
  | .none => "none" | .rm _ => "rm" | .add _ => "add" | .ro _ _ _ => "ro"

/-! ### judge helpers (written from the property text) -/

def zonesIn (d : Desc) : List String := dedup (d.map (·.zone))
def eligible (d : Desc) : Desc := d.filter fun i => !i.ro
def hasTokenless (d : Desc) : Bool := d.any fun i => i.tokens.isEmpty
def ceilDiv (a b : Nat) : Nat := if b == 0 then 0 else (a + b - 1) / b

/-- reasons why `obs` is not a legal plain shard of size `s` of ring `d`. -/
def checkPlain (za : Bool) (d : Desc) (s : Int) (obs : List String) (what : String) : List String :=
  let ids := d.map (·.id)
  let r1 := if subset obs ids then [] else ["subset" ++ what]
  let r2 := if obs.all fun m => (d.find? (·.id == m)).all fun i => !i.ro then [] else ["readonly" ++ what]
  let r3 :=
    if hasTokenless d then []
    else if s ≤ 0 then
      (if sortStr obs == sortStr ((eligible d).map (·.id)) then [] else ["size" ++ what])
    else if za then
      let zs := zonesIn d
      let per := ceilDiv s.toNat zs.length
      if zs.all fun z =>
        let el := ((eligible d).filter (·.zone == z)).map (·.id)
        (obs.filter el.contains).length == min per el.length
      then [] else ["size" ++ what]
    else
      if obs.length == min s.toNat (eligible d).length then [] else ["size" ++ what]
  r1 ++ r2 ++ r3

/-- order of requested sizes: `size ≤ 0` means "no sharding = everything". -/
def sizeLe (s s2 : Int) : Bool := if s2 ≤ 0 then true else if s ≤ 0 then false else decide (s ≤ s2)

def coreEq (a b : Desc) : Bool := a.map core == b.map core

def bucket (n : Nat) : String :=
  if n ≤ 1 then toString n else if n ≤ 3 then "2-3" else if n ≤ 8 then "4-8" else if n ≤ 20 then "9-20" else "21+"

def firstDiff : List (String × String × String) → String
  | [] => "-"
  | (lbl, model, impl) :: rest => if model == impl then firstDiff rest else lbl ++ "=" ++ model

def reasons (l : List String) : String := if l.isEmpty then "-" else ",".intercalate (dedup l)

/-! ### C12.shard -/

def handleShard (f : List String) : String × String × String :=
  match f with
  | [za, desc, _ident, streams, s, s2, period, now, op, rp, oA, oB, oC, oD, oE] =>
    match parseDesc desc, parseStreams streams, s.toInt?, s2.toInt?, period.toInt?, now.toInt?, parseOp op, parseDesc rp with
    | some d, some st, some s, some s2, some period, some now, some op, some rp =>
      let za := za == "1"
      let cfg : Cfg := ⟨za⟩
      let starts := startsFn st
      let d' := applyOp d op
      -- A and E through the checked model (token index and owner index apart, `panic` branch explicit)
      let showC := fun (r : Except Err (List String)) => match r with | .ok l => showIds l | .error _ => "panic"
      let mA := showC (shardIdsC cfg d starts s 0 now)
      let mB := showIds (shardIds cfg d starts s2 0 now)
      let mC := showIds (shardIds cfg d' starts s 0 now)
      let mD := showIds (shardIds cfg rp starts s 0 now)
      let mE := showC (shardIdsC cfg d starts s period now)
      let diff := firstDiff [("A", mA, canonIds oA), ("B", mB, canonIds oB), ("C", mC, canonIds oC),
                             ("D", mD, canonIds oD), ("E", mE, canonIds oE)]
      -- judge on the implementation's answers
      let A := parseIds oA; let B := parseIds oB; let C := parseIds oC; let D := parseIds oD; let E := parseIds oE
      let tokless := hasTokenless d || hasTokenless d'
      let j1 := checkPlain za d s A "" ++ checkPlain za d s2 B "_s2" ++ checkPlain za d' s C "_r2" ++ checkPlain za rp s D "_rp"
      let j2 := if coreEq d rp && sortStr A != sortStr D then ["determinism"] else []
      let j3 := if sizeLe s s2 && !subset A B then ["mono"] else []
      let zc := (zonesIn d).length != (zonesIn d').length
      -- one change, exactly as `shard_remove_one` / `shard_add_one` / `shard_set_readonly_one` state it:
      -- x leaves the eligible instances ("out"): nobody but x leaves, at most one enters, nothing changes if x was no member;
      -- x joins them ("in"): the same read from the other side; no operation: the same answer.
      let outRule := fun (x : String) (old new : List String) =>
        !(subset (sdiff old new) [x]) || (sdiff new old).length > 1 || (!old.contains x && sortStr old != sortStr new)
      let changed : Bool := match op with
        | .none => sortStr A != sortStr C
        | .rm x => outRule x A C
        | .add i => outRule i.id C A
        | .ro x f _ => if f then outRule x A C else outRule x C A
      let j4 :=
        if tokless || !changed then []
        else match op with
          | .none => ["one_change"]
          | .ro _ _ _ => ["one_change_ro"]
          | _ => if za && zc then ["one_change_zonecount"] else ["one_change"]
      let j5 := (if subset A E then [] else ["lookback_superset"]) ++ (if subset E (d.map (·.id)) then [] else ["subset_lb"])
      let n := d.length
      let eln := (eligible d).length
      let szc := if s ≤ 0 then "le0" else if s.toNat < n then "lt" else if s.toNat == n then "eq" else "gt"
      let sel := if A.isEmpty then "empty" else if A.length == eln then "all" else "proper"
      let tags := s!"k=shard za={if za then 1 else 0} n={bucket n} zones={(zonesIn d).length} size={szc} op={opTag op} ro={if eln < n then 1 else 0} lb={if period > 0 then 1 else 0} lbext={if E.length > A.length then 1 else 0} sel={sel} moved={if sortStr A != sortStr C then 1 else 0} tokless={if tokless then 1 else 0} nearmax={if (s ≥ maxInt - 511) || (s2 ≥ maxInt - 511) then 1 else 0} zc={if zc then 1 else 0} triv={if n ≤ 1 then 1 else 0}"
      (diff, reasons (j1 ++ j2 ++ j3 ++ j4 ++ j5), tags)
    | _, _, _, _, _, _, _, _ => ("parse-error", "-", "-")
  | _ => ("bad-arity", "-", "-")

/-! ### C12.hist : snaps = `t@size@desc|…` -/

def parseSnap (s : String) : Option (Int × Int × Desc) :=
  match s.splitOn "@" with
  | [t, sz, d] => do pure ((← t.toInt?), (← sz.toInt?), (← parseDesc d))
  | _ => none

/-- indexes `j ≤ k` whose ring state existed at some moment of the window `[t_k - period, t_k]`. -/
def windowIdx (ts : List Int) (k : Nat) (period : Int) : List Nat :=
  match ts[k]? with
  | none => []
  | some tk =>
    let til := tk - period
    let idx := (List.range (k + 1))
    let inside := idx.filter fun j => (ts[j]?.map fun t => decide (t ≥ til)).getD false
    let before := (idx.filter fun j => (ts[j]?.map fun t => decide (t < til)).getD false)
    match before.getLast? with
    | some j => j :: inside
    | none => inside

def handleHist (f : List String) : String × String × String :=
  match f with
  | [za, _ident, streams, s, period, snaps, oAs, oLs] =>
    match parseStreams streams, s.toInt?, period.toInt?, (snaps.splitOn "|").mapM parseSnap with
    | some st, some s, some period, some sn =>
      let za := za == "1"
      let cfg : Cfg := ⟨za⟩
      let starts := startsFn st
      let mAs := sn.map fun (t, sz, d) => showIds (shardIds cfg d starts sz 0 t)
      let mLs := sn.map fun (t, _, d) => showIds (shardIds cfg d starts s period t)
      let iAs := (oAs.splitOn "|").map canonIds
      let iLs := (oLs.splitOn "|").map canonIds
      let diff := if mAs != iAs then "As=" ++ "|".intercalate mAs else if mLs != iLs then "Ls=" ++ "|".intercalate mLs else "-"
      let A := (oAs.splitOn "|").map parseIds
      let L := (oLs.splitOn "|").map parseIds
      let ts := sn.map (·.1)
      let ds := sn.map (·.2.2)
      let zcount := ds.map fun d => (zonesIn d).length
      let zsets := ds.map fun d => sortStr (zonesIn d)
      let szs := sn.map (·.2.1)
      let tokless := ds.any hasTokenless
      let ks := List.range sn.length
      let bad := ks.flatMap fun k =>
        let ids := (ds[k]?.getD []).map (·.id)
        let Lk := L[k]?.getD []
        (windowIdx ts k period).filterMap fun j =>
          let Aj := (A[j]?.getD []).filter ids.contains
          -- only shards of a size not larger than the look-back size are promised to be covered
          if !(sizeLe (szs[j]?.getD 0) s) then none
          else if subset Aj Lk then none
          else
            let zchg := (List.range (k + 1)).any fun m => decide (j ≤ m) && zsets[m]? != zsets[k]?
            some (if za && zchg then "lookback_window_zonecount" else "lookback_window")
      let bad := if tokless then [] else bad
      let ext := ks.any fun k => (L[k]?.getD []).length > (A[k]?.getD []).length
      let tags := s!"k=hist za={if za then 1 else 0} steps={bucket sn.length} lbext={if ext then 1 else 0} zc={if (dedup (zcount.map toString)).length > 1 then 1 else 0} triv=0"
      (diff, reasons bad, tags)
    | _, _, _, _ => ("parse-error", "-", "-")
  | _ => ("bad-arity", "-", "-")

/-! ### partition ring -/

def PState.ofCode : String → Option PState
  | "U" => some .unknown | "P" => some .pending | "A" => some .active | "I" => some .inactive | "D" => some .deleted
  | _ => none

def parsePart (s : String) : Option Part :=
  match s.splitOn "/" with
  | [id, st, ts, toks] => do pure ⟨(← id.toInt?), (← PState.ofCode st), (← ts.toInt?), (← natList? toks)⟩
  | _ => none

def parseParts (s : String) : Option (List Part) := if s == "-" then some [] else (s.splitOn ";").mapM parsePart

def parseInts (s : String) : List Int := if s == "-" || s == "" then [] else (s.splitOn ",").filterMap String.toInt?
def sortInt (l : List Int) : List Int := l.mergeSort fun a b => decide (a ≤ b)
def showInts (l : List Int) : String := if l.isEmpty then "-" else ",".intercalate ((sortInt l).map toString)
def canonInts (s : String) : String := showInts (parseInts s)
def isubset (a b : List Int) : Bool := a.all b.contains
def idiff (a b : List Int) : List Int := a.filter fun x => !b.contains x

inductive POp
  | none
  | rm (id : Int)
  | add (p : Part)
  | st (id : Int) (s : PState) (ts : Int)

def parsePOp (s : String) : Option POp :=
  if s == "none" then some .none
  else if s.startsWith "rm:" then (s.drop 3).toString.toInt?.map .rm
  else if s.startsWith "add:" then (parsePart (s.drop 4).toString).map .add
  else if s.startsWith "st:" then
    match (s.drop 3).toString.splitOn ":" with
    | [id, c, ts] => do pure (.st (← id.toInt?) (← PState.ofCode c) (← ts.toInt?))
    | _ => Option.none
  else Option.none

def insertPart (p : Part) : List Part → List Part
  | [] => [p]
  | y :: ys => if p.id ≤ y.id then p :: y :: ys else y :: insertPart p ys

def applyPOp (ps : List Part) : POp → List Part
  | .none => ps
  | .rm id => ps.filter fun p => p.id != id
  | .add p => insertPart p ps
  | .st id s ts => ps.map fun p => if p.id == id then { p with state := s, stateTs := ts } else p

def pOpTag : POp → String
  | .none => "none" | .rm _ => "rm" | .add _ => "add" | .st _ _ _ => "st"

def activeIds (ps : List Part) : List Int := (ps.filter fun p => p.state == .active).map (·.id)

def checkPPlain (ps : List Part) (s : Int) (obs : List Int) (what : String) : List String :=
  let act := activeIds ps
  let r1 := if isubset obs act then [] else ["p_active_only" ++ what]
  let want := if s ≤ 0 then act.length else min s.toNat act.length
  let r2 := if obs.length == want then [] else ["p_size" ++ what]
  r1 ++ r2

def startsArr (s : String) : Option (Nat → Nat) :=
  (natList? s).map fun l => let a := l.toArray; fun i => a.getD i 0

def handlePShard (f : List String) : String × String × String :=
  match f with
  | [parts, _ident, stream, s, s2, period, now, op, oA, oB, oC, oE] =>
    match parseParts parts, startsArr stream, s.toInt?, s2.toInt?, period.toInt?, now.toInt?, parsePOp op with
    | some ps, some starts, some s, some s2, some period, some now, some op =>
      let ps' := applyPOp ps op
      -- A and E through the checked model (token, owner and partition indexes apart, error returns explicit)
      let showPC := fun (r : Except Err (List Int)) => match r with | .ok l => showInts l | .error _ => "err"
      let mA := showPC (pshardC ps starts s 0 now)
      let mB := showInts (pshard ps starts s2 0 now)
      let mC := showInts (pshard ps' starts s 0 now)
      let mE := showPC (pshardC ps starts s period now)
      let diff := firstDiff [("A", mA, canonInts oA), ("B", mB, canonInts oB), ("C", mC, canonInts oC), ("E", mE, canonInts oE)]
      let A := parseInts oA; let B := parseInts oB; let C := parseInts oC; let E := parseInts oE
      let j1 := checkPPlain ps s A "" ++ checkPPlain ps s2 B "_s2" ++ checkPPlain ps' s C "_r2"
      let j3 := if sizeLe s s2 && !isubset A B then ["p_mono"] else []
      let poutRule := fun (x : Int) (old new : List Int) =>
        !(isubset (idiff old new) [x]) || (idiff new old).length > 1 || (!old.contains x && sortInt old != sortInt new)
      let pchanged : Bool := match op with
        | .none => sortInt A != sortInt C
        | .rm x => poutRule x A C
        | .add p => poutRule p.id C A
        | .st x st' _ => if st' == .active then poutRule x C A else poutRule x A C
      let j4 := if pchanged then ["p_one_change"] else []
      let j5 := (if isubset A E then [] else ["p_lookback_superset"]) ++
                (if isubset E (ps.map (·.id)) && E.all (fun m => (ps.find? (·.id == m)).all fun p => p.state != .pending) then [] else ["p_lookback_members"])
      let n := ps.length
      let act := (activeIds ps).length
      let szc := if s ≤ 0 then "le0" else if s.toNat < act then "lt" else if s.toNat == act then "eq" else "gt"
      let tags := s!"k=pshard n={bucket n} active={bucket act} size={szc} op={pOpTag op} lb={if period > 0 then 1 else 0} lbext={if E.length > A.length then 1 else 0} moved={if sortInt A != sortInt C then 1 else 0} triv={if n ≤ 1 then 1 else 0}"
      (diff, reasons (j1 ++ j3 ++ j4 ++ j5), tags)
    | _, _, _, _, _, _, _ => ("parse-error", "-", "-")
  | _ => ("bad-arity", "-", "-")

def parsePSnap (s : String) : Option (Int × Int × List Part) :=
  match s.splitOn "@" with
  | [t, sz, d] => do pure ((← t.toInt?), (← sz.toInt?), (← parseParts d))
  | _ => none

def handlePHist (f : List String) : String × String × String :=
  match f with
  | [_ident, stream, s, period, snaps, oAs, oLs] =>
    match startsArr stream, s.toInt?, period.toInt?, (snaps.splitOn "|").mapM parsePSnap with
    | some starts, some s, some period, some sn =>
      let mAs := sn.map fun (t, sz, d) => showInts (pshard d starts sz 0 t)
      let mLs := sn.map fun (t, _, d) => showInts (pshard d starts s period t)
      let iAs := (oAs.splitOn "|").map canonInts
      let iLs := (oLs.splitOn "|").map canonInts
      let diff := if mAs != iAs then "As=" ++ "|".intercalate mAs else if mLs != iLs then "Ls=" ++ "|".intercalate mLs else "-"
      let A := (oAs.splitOn "|").map parseInts
      let L := (oLs.splitOn "|").map parseInts
      let ts := sn.map (·.1)
      let ds := sn.map (·.2.2)
      let ks := List.range sn.length
      let bad := ks.flatMap fun k =>
        let ids := (ds[k]?.getD []).map (·.id)
        let Lk := L[k]?.getD []
        (windowIdx ts k period).filterMap fun j =>
          let Aj := (A[j]?.getD []).filter ids.contains
          if !(sizeLe ((sn.map (·.2.1))[j]?.getD 0) s) then none
          else if isubset Aj Lk then none else some "p_lookback_window"
      let ext := ks.any fun k => (L[k]?.getD []).length > (A[k]?.getD []).length
      let tags := s!"k=phist steps={bucket sn.length} lbext={if ext then 1 else 0} triv=0"
      (diff, reasons bad, tags)
    | _, _, _, _ => ("parse-error", "-", "-")
  | _ => ("bad-arity", "-", "-")

def handle (cmd : String) (f : List String) : String × String × String :=
  if cmd == "C12.shard" then handleShard f
  else if cmd == "C12.hist" then handleHist f
  else if cmd == "C12.pshard" then handlePShard f
  else if cmd == "C12.phist" then handlePHist f
  else ("unknown-cmd", "-", "-")

end OracleC12
