import Model.C20
/-! Helper lemmas and proofs for C20. -/
namespace PfC20
open Common C20

/-! ## byte-level facts by exhaustive check over the 256 values -/

theorem u8_ofNat_toNat (c : UInt8) : UInt8.ofNat c.toNat = c := by
  cases c; simp [UInt8.ofNat, UInt8.toNat]

theorem forall_u8 (P : UInt8 → Prop) (h : ∀ n, n < 256 → P (UInt8.ofNat n)) : ∀ c, P c := by
  intro c
  have := h c.toNat c.toNat_lt
  rwa [u8_ofNat_toNat] at this

def documentedB (c : UInt8) : Bool :=
  (97 ≤ c && c ≤ 122) || (65 ≤ c && c ≤ 90) || (48 ≤ c && c ≤ 57) ||
  c == 33 || c == 45 || c == 95 || c == 46 || c == 42 || c == 39 || c == 40 || c == 41

theorem validChar_documentedB : ∀ c, validChar c = true → documentedB c = true := by
  apply forall_u8; decide +kernel

theorem validChar_safe : ∀ c, validChar c = true →
    (c ≠ 47 ∧ c ≠ 92 ∧ c ≠ 124 ∧ c ≠ 58 ∧ c ≠ 61 ∧ c ≠ 0 ∧ c < 128) := by
  apply forall_u8; decide +kernel

theorem valid_iff (s : Bytes) :
    validTenantID s = .ok () ↔ ((∀ c ∈ s, validChar c = true) ∧ s.length ≤ 150 ∧ s ≠ [46] ∧ s ≠ [46, 46]) := by
  unfold validTenantID maxTenantIDLength
  by_cases h1 : s.all validChar = true
  · have h1' : ∀ c ∈ s, validChar c = true := by simpa [List.all_eq_true] using h1
    by_cases h2 : s.length > 150
    · simp [h1, h2]; intro _ h; omega
    · by_cases h3 : s = [46] ∨ s = [46, 46]
      · simp only [h1, h2, h3]; simp
        intro _ _ h4; rcases h3 with h3 | h3
        · exact absurd h3 h4
        · exact h3
      · simp only [h1, h2, h3]; simp; refine ⟨h1', by omega, ?_, ?_⟩ <;> intro h <;> simp [h] at h3
  · have : ¬ ∀ c ∈ s, validChar c = true := by simpa [List.all_eq_true] using h1
    simp [h1]; intro h; exact absurd h this

theorem valid_chars (s : Bytes) (h : validTenantID s = .ok ()) :
    (∀ c ∈ s, (97 ≤ c ∧ c ≤ 122) ∨ (65 ≤ c ∧ c ≤ 90) ∨ (48 ≤ c ∧ c ≤ 57) ∨
      c = 33 ∨ c = 45 ∨ c = 95 ∨ c = 46 ∨ c = 42 ∨ c = 39 ∨ c = 40 ∨ c = 41) ∧
    s.length ≤ 150 ∧ s ≠ [46] ∧ s ≠ [46, 46] := by
  obtain ⟨hc, hl, h1, h2⟩ := (valid_iff s).1 h
  refine ⟨?_, hl, h1, h2⟩
  intro c hcs
  have := validChar_documentedB c (hc c hcs)
  simp only [documentedB, Bool.or_eq_true, Bool.and_eq_true, decide_eq_true_eq, beq_iff_eq] at this
  rcases this with ((((((((((h | h) | h) | h) | h) | h) | h) | h) | h) | h) | h) <;> simp_all

theorem no_separator (s : Bytes) (h : validTenantID s = .ok ()) :
    ∀ c ∈ s, c ≠ 47 ∧ c ≠ 92 ∧ c ≠ 124 ∧ c ≠ 58 ∧ c ≠ 61 ∧ c ≠ 0 ∧ c < 128 := by
  intro c hc
  exact validChar_safe c (((valid_iff s).1 h).1 c hc)

/-! ## `splitOn` is never empty -/

theorem splitOn_ne_nil (sep : UInt8) (s : Bytes) : splitOn sep s ≠ [] := by
  induction s with
  | nil => simp [splitOn]
  | cons c cs ih =>
    unfold splitOn
    cases h : splitOn sep cs with
    | nil => exact absurd h ih
    | cons p ps => by_cases hc : c = sep <;> simp [hc]

/-! ## order facts for `bytesLt` -/

theorem bytesLt_irrefl (a : Bytes) : bytesLt a a = false := by
  induction a with
  | nil => rfl
  | cons x xs ih => simp [bytesLt, ih]

theorem bytesLt_trans : ∀ (a b c : Bytes), bytesLt a b = true → bytesLt b c = true → bytesLt a c = true
  | [], [], _, h, _ => by simp [bytesLt] at h
  | [], _ :: _, [], _, h => by simp [bytesLt] at h
  | [], _ :: _, _ :: _, _, _ => by simp [bytesLt]
  | _ :: _, [], _, h, _ => by simp [bytesLt] at h
  | _ :: _, _ :: _, [], _, h => by simp [bytesLt] at h
  | x :: xs, y :: ys, z :: zs, h1, h2 => by
    simp only [bytesLt] at h1 h2 ⊢
    by_cases hxy : x < y
    · by_cases hyz : y < z
      · have : x < z := UInt8.lt_trans hxy hyz
        simp [this]
      · by_cases hzy : z < y
        · simp [hyz, hzy] at h2
        · have : y = z := by
            have h1 := UInt8.not_lt.mp hyz; have h2 := UInt8.not_lt.mp hzy
            exact UInt8.le_antisymm h2 h1
          subst this; simp [hxy]
    · by_cases hyx : y < x
      · simp [hxy, hyx] at h1
      · have : x = y := by
          have h1 := UInt8.not_lt.mp hxy; have h2 := UInt8.not_lt.mp hyx
          exact UInt8.le_antisymm h2 h1
        subst this
        simp only [hxy, if_false] at h1
        by_cases hxz : x < z
        · simp [hxz]
        · by_cases hzx : z < x
          · simp [hxz, hzx] at h2
          · simp only [hxz, hzx, if_false] at h2 ⊢
            exact bytesLt_trans xs ys zs h1 h2

theorem bytesLt_total : ∀ (a b : Bytes), bytesLt a b = false → a ≠ b → bytesLt b a = true
  | [], [], _, h => absurd rfl h
  | [], _ :: _, h, _ => by simp [bytesLt] at h
  | _ :: _, [], _, _ => by simp [bytesLt]
  | x :: xs, y :: ys, h, hne => by
    simp only [bytesLt] at h ⊢
    by_cases hxy : x < y
    · simp [hxy] at h
    · by_cases hyx : y < x
      · simp [hyx]
      · have : x = y := by
          have h1 := UInt8.not_lt.mp hxy; have h2 := UInt8.not_lt.mp hyx
          exact UInt8.le_antisymm h2 h1
        subst this
        simp only [hxy, if_false] at h ⊢
        exact bytesLt_total xs ys h (by intro e; exact hne (by rw [e]))

/-! ## `insertU` / `sortDedup` -/

theorem mem_insertU (x y : Bytes) (l : List Bytes) : y ∈ insertU x l ↔ y = x ∨ y ∈ l := by
  induction l with
  | nil => simp [insertU]
  | cons z zs ih =>
    unfold insertU
    by_cases h1 : bytesLt x z = true
    · simp [h1]
    · by_cases h2 : x = z
      · subst h2; simp [h1]
      · rw [if_neg h1, if_neg h2, List.mem_cons, ih, List.mem_cons]
        constructor
        · rintro (h | h | h)
          · exact Or.inr (Or.inl h)
          · exact Or.inl h
          · exact Or.inr (Or.inr h)
        · rintro (h | h | h)
          · exact Or.inr (Or.inl h)
          · exact Or.inl h
          · exact Or.inr (Or.inr h)

theorem mem_sortDedup (y : Bytes) (l : List Bytes) : y ∈ sortDedup l ↔ y ∈ l := by
  induction l with
  | nil => simp [sortDedup]
  | cons x xs ih =>
    have : sortDedup (x :: xs) = insertU x (sortDedup xs) := rfl
    rw [this, mem_insertU, ih]; simp

def SSorted (l : List Bytes) : Prop := l.Pairwise (fun a b => bytesLt a b = true)

theorem insertU_sorted (x : Bytes) (l : List Bytes) (h : SSorted l) : SSorted (insertU x l) := by
  induction l with
  | nil => simp [insertU, SSorted]
  | cons z zs ih =>
    unfold SSorted at h ⊢
    rw [List.pairwise_cons] at h
    unfold insertU
    by_cases h1 : bytesLt x z = true
    · rw [if_pos h1, List.pairwise_cons]
      refine ⟨?_, List.pairwise_cons.2 h⟩
      intro b hb
      rcases List.mem_cons.1 hb with rfl | hb
      · exact h1
      · exact bytesLt_trans _ _ _ h1 (h.1 b hb)
    · by_cases h2 : x = z
      · subst h2; rw [if_neg h1, if_pos rfl]; exact List.pairwise_cons.2 h
      · rw [if_neg h1, if_neg h2, List.pairwise_cons]
        refine ⟨?_, ih h.2⟩
        intro b hb
        rcases (mem_insertU x b zs).1 hb with rfl | hb
        · exact bytesLt_total _ _ (by simpa using h1) h2
        · exact h.1 b hb

theorem sortDedup_sorted (l : List Bytes) : SSorted (sortDedup l) := by
  induction l with
  | nil => simp [sortDedup, SSorted]
  | cons x xs ih => exact insertU_sorted x _ ih

theorem insertU_same (x : Bytes) : ∀ l, (∀ y ∈ l, y = x) → l ≠ [] → insertU x l = l
  | [], _, h => absurd rfl h
  | y :: ys, hall, _ => by
    have : y = x := hall y (by simp)
    subst this
    simp [insertU, bytesLt_irrefl]

theorem sortDedup_all_same (x : Bytes) : ∀ l, (∀ y ∈ l, y = x) → l ≠ [] → sortDedup l = [x]
  | [], _, h => absurd rfl h
  | y :: ys, hall, _ => by
    have hy : y = x := hall y (by simp)
    subst hy
    have : sortDedup (y :: ys) = insertU y (sortDedup ys) := rfl
    rw [this]
    by_cases hys : ys = []
    · subst hys; rfl
    · rw [sortDedup_all_same y ys (fun z hz => hall z (by simp [hz])) hys]
      simp [insertU, bytesLt_irrefl]

/-! ## validateAll -/

theorem validateAll_ok (l : List Bytes) : validateAll l = .ok () ↔ ∀ p ∈ l, validTenantID p = .ok () := by
  induction l with
  | nil => simp [validateAll]
  | cons p ps ih =>
    unfold validateAll
    cases h : validTenantID p with
    | error e => simp [h]
    | ok u => cases u; simp [ih, h]

/-! ## resolvers -/

theorem tenantID_sound (s t : Bytes) (h : tenantID s = .ok t) :
    validTenantID t = .ok () ∧ ∀ p ∈ splitOn sepTenants s, trimMeta p = t := by
  unfold tenantID at h
  cases hs : splitOn sepTenants s with
  | nil => simp [hs] at h
  | cons p rest =>
    simp only [hs] at h
    cases hv : validTenantID (trimMeta p) with
    | error e => simp [hv] at h
    | ok u =>
      cases u
      simp only [hv] at h
      by_cases hall : rest.all (fun q => trimMeta q == trimMeta p) = true
      · simp only [hall, if_true] at h
        injection h with h; subst h
        refine ⟨hv, ?_⟩
        intro q hq
        rcases List.mem_cons.1 hq with rfl | hq
        · rfl
        · have := List.all_eq_true.1 hall q hq
          simpa using this
      · simp [hall] at h

theorem tenantID_complete (s t : Bytes) (hv : validTenantID t = .ok ())
    (hall : ∀ p ∈ splitOn sepTenants s, trimMeta p = t) : tenantID s = .ok t := by
  unfold tenantID
  cases hs : splitOn sepTenants s with
  | nil => exact absurd hs (splitOn_ne_nil _ _)
  | cons p rest =>
    rw [hs] at hall
    have hp : trimMeta p = t := hall p (by simp)
    simp only [hp, hv]
    have : rest.all (fun q => trimMeta q == t) = true := by
      rw [List.all_eq_true]; intro q hq; simpa using hall q (by simp [hq])
    simp [this]

theorem tenantIDs_exact (s : Bytes) (l : List Bytes) (h : tenantIDs s = .ok l) :
    l.Pairwise (fun a b => bytesLt a b = true) ∧
    (∀ x, x ∈ l ↔ x ∈ (splitOn sepTenants s).map trimMeta) ∧
    (∀ x ∈ l, validTenantID x = .ok ()) := by
  unfold tenantIDs at h
  simp only at h
  cases hv : validateAll ((splitOn sepTenants s).map trimMeta) with
  | error e => simp [hv] at h
  | ok u =>
    cases u
    simp only [hv] at h
    injection h with h; subst h
    refine ⟨sortDedup_sorted _, fun x => mem_sortDedup x _, ?_⟩
    intro x hx
    exact (validateAll_ok _).1 hv x ((mem_sortDedup x _).1 hx)

theorem resolvers_agree (s t : Bytes) : tenantID s = .ok t ↔ tenantIDs s = .ok [t] := by
  constructor
  · intro h
    obtain ⟨hv, hall⟩ := tenantID_sound s t h
    unfold tenantIDs
    simp only
    have hmem : ∀ y ∈ (splitOn sepTenants s).map trimMeta, y = t := by
      intro y hy
      obtain ⟨p, hp, rfl⟩ := List.mem_map.1 hy
      exact hall p hp
    have hva : validateAll ((splitOn sepTenants s).map trimMeta) = .ok () := by
      rw [validateAll_ok]; intro p hp; rw [hmem p hp]; exact hv
    have hne : (splitOn sepTenants s).map trimMeta ≠ [] := by
      simp [splitOn_ne_nil]
    simp only [hva]
    rw [sortDedup_all_same t _ hmem hne]
  · intro h
    obtain ⟨_, hmem, hvalid⟩ := tenantIDs_exact s [t] h
    apply tenantID_complete s t (hvalid t (by simp))
    intro p hp
    have : trimMeta p ∈ [t] := (hmem _).2 (List.mem_map.2 ⟨p, hp, rfl⟩)
    simpa using this

/-! ## metadata-aware parser -/

theorem validMetadata_ok (m : Bytes) (h : validMetadata m = .ok ()) :
    m.length ≤ 64 ∧ ∀ c ∈ m, validMetaChar c = true := by
  unfold validMetadata maxMetadataLength at h
  by_cases h1 : m.all validMetaChar = true
  · by_cases h2 : m.length > 64
    · simp [h1, h2] at h
    · exact ⟨by omega, by simpa [List.all_eq_true] using h1⟩
  · simp [h1] at h

theorem parseMetadata_ok (src m : Bytes) (h : parseMetadata src = .ok m) :
    m = src ∧ m.length ≤ 64 ∧ (∀ c ∈ m, validMetaChar c = true) ∧
    (m ≠ [] → m.head? = some sepMeta ∧ checkSegments [] (metaSegments m) = true) := by
  unfold parseMetadata at h
  cases hv : validMetadata src with
  | error e => simp [hv] at h
  | ok u =>
    cases u
    obtain ⟨hl, hc⟩ := validMetadata_ok src hv
    simp only [hv] at h
    by_cases h0 : src = []
    · simp [h0] at h; subst h0; subst h; simp
    · simp only [h0, if_false] at h
      by_cases h1 : (src.head? != some sepMeta) = true
      · simp [h1] at h
      · simp only [h1] at h
        by_cases h2 : checkSegments [] (metaSegments src) = true
        · simp only [h2, if_true] at h
          injection h with h; subst h
          refine ⟨rfl, hl, hc, fun _ => ⟨?_, h2⟩⟩
          simpa using h1
        · simp [h2] at h

theorem trimMeta_eq_split (org : Bytes) : (splitTenantAndMeta org).1 = trimMeta org := rfl

theorem parseWithMetadata_sound (s t m : Bytes) (h : parseWithMetadata s = .ok (t, m)) :
    validTenantID t = .ok () ∧ tenantID s = .ok t ∧ m.length ≤ 64 ∧ (∀ c ∈ m, validMetaChar c = true) ∧
    (m ≠ [] → m.head? = some sepMeta ∧ checkSegments [] (metaSegments m) = true) := by
  unfold parseWithMetadata at h
  cases hs : splitOn sepTenants s with
  | nil => simp [hs] at h
  | cons org rest =>
    simp only [hs, splitTenantAndMeta] at h
    cases hv : validTenantID (List.takeWhile (fun x => x != sepMeta) org) with
    | error e => simp [hv] at h
    | ok u =>
      cases u
      simp only [hv] at h
      by_cases hall : rest.all (fun x => x == org) = true
      · simp only [hall, Bool.not_true, Bool.false_eq_true, if_false] at h
        cases hp : parseMetadata (List.dropWhile (fun x => x != sepMeta) org) with
        | error e => simp [hp] at h
        | ok m' =>
          simp only [hp] at h
          injection h with h
          injection h with ht hm
          subst ht; subst hm
          obtain ⟨_, hl, hc, hseg⟩ := parseMetadata_ok _ _ hp
          refine ⟨hv, ?_, hl, hc, hseg⟩
          apply tenantID_complete s _ hv
          intro p hp'
          rw [hs] at hp'
          rcases List.mem_cons.1 hp' with rfl | hp'
          · rfl
          · have := List.all_eq_true.1 hall p hp'
            have : p = org := by simpa using this
            subst this; rfl
      · simp [hall] at h

/-! ## multi-tenant completeness -/

theorem tenantIDs_ok_iff (s : Bytes) :
    (∃ l, tenantIDs s = .ok l) ↔ ∀ p ∈ splitOn sepTenants s, validTenantID (trimMeta p) = .ok () := by
  unfold tenantIDs
  simp only
  constructor
  · rintro ⟨l, h⟩
    cases hv : validateAll ((splitOn sepTenants s).map trimMeta) with
    | error e => simp [hv] at h
    | ok u =>
      cases u
      intro p hp
      exact (validateAll_ok _).1 hv (trimMeta p) (List.mem_map.2 ⟨p, hp, rfl⟩)
  · intro h
    have hva : validateAll ((splitOn sepTenants s).map trimMeta) = .ok () := by
      rw [validateAll_ok]
      intro q hq
      obtain ⟨p, hp, rfl⟩ := List.mem_map.1 hq
      exact h p hp
    exact ⟨sortDedup ((splitOn sepTenants s).map trimMeta), by simp only [hva]⟩

/-! ## transport -/

theorem value_inject (c : Ctx) (o : Bytes) : (injectOrgID c o).value .org = some o := by
  simp [injectOrgID, Ctx.value]

theorem value_inject_user (c : Ctx) (o : Bytes) : (injectOrgID c o).value .user = c.value .user := by
  simp [injectOrgID, Ctx.value]

theorem extract_inject (c : Ctx) (o : Bytes) : extractOrgID (injectOrgID c o) = .ok o := by
  simp [extractOrgID, value_inject]

/-- one hop from a context holding `id`: it succeeds exactly when the carrier is clean, and then the
new context is the receiver's with `id` bound on top. -/
theorem hop_spec (c : Ctx) (id : Bytes) (hc : extractOrgID c = .ok id) (h : Hop) :
    (hopClean id h = true → ∃ recv, hop c h = .ok (injectOrgID recv id)) ∧
    (hopClean id h = false → ∃ e, hop c h = .error e) := by
  cases h with
  | http ex0 recv =>
    simp only [hop, injectHTTP, hc, hopClean]
    generalize headerGet ex0 = ex
    have hget : headerGet [id] = id := rfl
    constructor
    · intro hcl
      simp only [Bool.and_eq_true, bne_iff_ne, ne_eq, Bool.or_eq_true, beq_iff_eq] at hcl
      obtain ⟨hid, hex⟩ := hcl
      have : ¬ (ex ≠ [] ∧ ex ≠ id) := by
        rintro ⟨h1, h2⟩; rcases hex with h | h
        · exact h1 h
        · exact h2 h
      rw [if_neg this]
      exact ⟨recv, by simp [extractHTTP, hget, hid]⟩
    · intro hcl
      by_cases h1 : ex ≠ [] ∧ ex ≠ id
      · rw [if_pos h1]; exact ⟨_, rfl⟩
      · rw [if_neg h1]
        have hid : id = [] := by
          by_cases hid : id = []
          · exact hid
          · exfalso
            have hex : ex = [] ∨ ex = id := by
              by_cases h2 : ex = []
              · exact Or.inl h2
              · right
                by_cases h3 : ex = id
                · exact h3
                · exact absurd ⟨h2, h3⟩ h1
            have : (id != [] && (ex == [] || ex == id)) = true := by
              simp only [Bool.and_eq_true, bne_iff_ne, ne_eq, Bool.or_eq_true, beq_iff_eq]
              exact ⟨hid, hex⟩
            rw [this] at hcl
            exact Bool.noConfusion hcl
        exact ⟨.noOrgID, by simp [extractHTTP, headerGet, hid]⟩
  | grpc ex recv =>
    simp only [hop, injectGRPC, hc, hopClean]
    constructor
    · intro hcl
      simp only [Bool.or_eq_true, beq_iff_eq] at hcl
      rcases hcl with h | h
      · subst h; exact ⟨recv, rfl⟩
      · subst h; exact ⟨recv, by simp [extractGRPC]⟩
    · intro hcl
      simp only [Bool.or_eq_false_iff, beq_eq_false_iff_ne, ne_eq] at hcl
      obtain ⟨h1, h2⟩ := hcl
      match ex, h1, h2 with
      | some [], _, _ => exact ⟨_, rfl⟩
      | some [x], _, h2 =>
        have : x ≠ id := fun h => h2 (by rw [h])
        exact ⟨.differentOrg, by simp [this]⟩
      | some (_ :: _ :: _), _, _ => exact ⟨_, rfl⟩

theorem hop_some (c : Ctx) (id : Bytes) (hc : extractOrgID c = .ok id) (h : Hop) (c' : Ctx) (hh : hop c h = .ok c') :
    extractOrgID c' = .ok id ∧ hopClean id h = true := by
  obtain ⟨h1, h2⟩ := hop_spec c id hc h
  cases hcl : hopClean id h with
  | true =>
    obtain ⟨recv, hr⟩ := h1 hcl
    rw [hh] at hr
    injection hr with hr
    rw [hr]
    exact ⟨extract_inject recv id, rfl⟩
  | false =>
    obtain ⟨e, he⟩ := h2 hcl
    rw [hh] at he
    cases he

theorem transport_identity (c : Ctx) (id : Bytes) (hc : extractOrgID c = .ok id) (hops : List Hop) (i : Nat) (c' : Ctx)
    (h : chain c hops i = .ok c') : extractOrgID c' = .ok id := by
  induction hops generalizing i c with
  | nil => simp only [chain] at h; injection h with h; rw [← h]; exact hc
  | cons hp hs ih =>
    simp only [chain] at h
    cases hh : hop c hp with
    | error e => simp [hh] at h
    | ok c1 =>
      simp only [hh] at h
      exact ih c1 (hop_some c id hc hp c1 hh).1 (i + 1) h

/-- a chain succeeds exactly when every hop is clean. -/
theorem transport_succeeds_iff (c : Ctx) (id : Bytes) (hc : extractOrgID c = .ok id) (hops : List Hop) (i : Nat) :
    (∃ c', chain c hops i = .ok c') ↔ ∀ h ∈ hops, hopClean id h = true := by
  induction hops generalizing i c with
  | nil => simp [chain]
  | cons hp hs ih =>
    simp only [chain, List.mem_cons, forall_eq_or_imp]
    cases hh : hop c hp with
    | error e =>
      simp only [reduceCtorEq, exists_false, false_iff, not_and]
      intro hcl
      obtain ⟨recv, hr⟩ := (hop_spec c id hc hp).1 hcl
      rw [hh] at hr
      cases hr
    | ok c1 =>
      obtain ⟨h1, h2⟩ := hop_some c id hc hp c1 hh
      simp only [h2, true_and]
      exact ih c1 h1 (i + 1)

/-- the index reported with a failure is that of the first hop that is not clean. -/
theorem transport_fails_at (c : Ctx) (id : Bytes) (hc : extractOrgID c = .ok id) (hops : List Hop) (i : Nat) (e : Err) (n : Nat)
    (h : chain c hops i = .error (e, n)) :
    ∃ j, n = i + j ∧ (∀ h ∈ hops.take j, hopClean id h = true) ∧ ∃ hp, hops[j]? = some hp ∧ hopClean id hp = false := by
  induction hops generalizing i c with
  | nil => simp [chain] at h
  | cons hp hs ih =>
    simp only [chain] at h
    cases hh : hop c hp with
    | error e' =>
      simp only [hh, Except.error.injEq, Prod.mk.injEq] at h
      refine ⟨0, by omega, by simp, hp, rfl, ?_⟩
      cases hcl : hopClean id hp with
      | false => rfl
      | true =>
        obtain ⟨recv, hr⟩ := (hop_spec c id hc hp).1 hcl
        rw [hh] at hr
        cases hr
    | ok c1 =>
      simp only [hh] at h
      obtain ⟨h1, h2⟩ := hop_some c id hc hp c1 hh
      obtain ⟨j, hj, hall, hp', hget, hcl⟩ := ih c1 h1 (i + 1) h
      refine ⟨j + 1, by omega, ?_, hp', by simpa using hget, hcl⟩
      intro x hx
      simp only [List.take_succ_cons, List.mem_cons] at hx
      rcases hx with rfl | hx
      · exact h2
      · exact hall x hx

theorem no_default (c : Ctx) (hc : c.value .org = none) (h : Hop) : hop c h = .error .noOrgID := by
  cases h <;> simp [hop, injectHTTP, injectGRPC, extractOrgID, hc]

end PfC20
