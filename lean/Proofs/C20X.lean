import Proofs.C20
import Model.C20X
/-! Proofs for the C20 extension (`Model/C20X.lean`): interceptor chains, tunnelling, user id, LogWith. -/
namespace PfC20
open Common C20

/-! ## the two context keys are independent -/

theorem org_after_injectUser (c : Ctx) (u : Bytes) : extractOrgID (injectUserID c u) = extractOrgID c := by
  simp [extractOrgID, injectUserID, Ctx.value]

theorem user_after_injectOrg (c : Ctx) (o : Bytes) : extractUserID (injectOrgID c o) = extractUserID c := by
  simp [extractUserID, injectOrgID, Ctx.value]

theorem user_extract_inject (c : Ctx) (u : Bytes) : extractUserID (injectUserID c u) = .ok u := by
  simp [extractUserID, injectUserID, Ctx.value]

/-! ## single stages -/

theorem injectHTTP_of (c : Ctx) (id : Bytes) (hc : extractOrgID c = .ok id) (ex : List Bytes) :
    injectHTTP c ex = if headerGet ex ≠ [] ∧ headerGet ex ≠ id then .error .differentOrg else .ok [id] := by
  simp only [injectHTTP, hc]

theorem httpClean_true (id : Bytes) (ex : List Bytes) (h : httpClean id ex = true) :
    id ≠ [] ∧ ¬ (headerGet ex ≠ [] ∧ headerGet ex ≠ id) := by
  simp only [httpClean, Bool.and_eq_true, bne_iff_ne, ne_eq, Bool.or_eq_true, beq_iff_eq] at h
  obtain ⟨hid, hex⟩ := h
  refine ⟨hid, ?_⟩
  rintro ⟨h1, h2⟩
  rcases hex with h | h
  · exact h1 h
  · exact h2 h

theorem httpClean_false (id : Bytes) (ex : List Bytes) (h : httpClean id ex = false) :
    id = [] ∨ (headerGet ex ≠ [] ∧ headerGet ex ≠ id) := by
  by_cases hid : id = []
  · exact Or.inl hid
  · right
    by_cases h1 : headerGet ex = []
    · exfalso; simp [httpClean, hid, h1] at h
    · by_cases h2 : headerGet ex = id
      · exfalso; simp [httpClean, hid, h2] at h
      · exact ⟨h1, h2⟩

theorem extractHTTP_single (recv : Ctx) (id : Bytes) (hid : id ≠ []) :
    extractHTTP recv [id] = .ok (injectOrgID recv id) := by
  simp [extractHTTP, headerGet, hid]

theorem resolve_inject (recv : Ctx) (id : Bytes) : resolveTenantID (injectOrgID recv id) = tenantID id := by
  simp [resolveTenantID, extract_inject]

theorem recvHTTP_single (r : HRecv) (recv : Ctx) (id : Bytes) (hid : id ≠ []) :
    (recvAccepts id r = true → recvHTTP r recv [id] = .ok (injectOrgID recv id)) ∧
    (recvAccepts id r = false → ∃ e, recvHTTP r recv [id] = .error e) := by
  cases r with
  | extract => simp [recvHTTP, extractHTTP_single recv id hid, recvAccepts]
  | auth => simp [recvHTTP, authenticateUser, extractHTTP_single recv id hid, recvAccepts]
  | tenant =>
    simp only [recvHTTP, extractTenantIDFromHTTP, extractHTTP_single recv id hid, resolve_inject, recvAccepts]
    cases tenantID id <;> simp [isOk]

theorem recvHTTP_empty (r : HRecv) (recv : Ctx) : recvHTTP r recv [[]] = .error .noOrgID := by
  cases r <;> simp [recvHTTP, authenticateUser, extractTenantIDFromHTTP, extractHTTP, headerGet]

theorem sendGRPC_eq (s : GSend) (c : Ctx) (md : Option (List Bytes)) : sendGRPC s c md = injectGRPC c md := by
  cases s <;> simp only [sendGRPC, clientInterceptor] <;> cases injectGRPC c md <;> rfl

theorem recvGRPC_eq (r : GRecv) (recv : Ctx) (v : List Bytes) : recvGRPC r recv v = extractGRPC recv v := by
  cases r <;> simp only [recvGRPC, serverInterceptor] <;> cases extractGRPC recv v <;> rfl

/-- a gRPC stage is the plain hop whichever entry points perform it (function call, unary or stream interceptor). -/
theorem stage_grpc_eq_hop (c : Ctx) (ex : Option (List Bytes)) (recv : Ctx) (s : GSend) (r : GRecv) :
    stage c (.grpc ex recv s r) = hop c (.grpc ex recv) := by
  simp only [stage, hop, sendGRPC_eq, recvGRPC_eq]
  cases injectGRPC c ex <;> rfl

/-- the tunnel from a context holding `id`, with the header holding exactly `[id]`. -/
theorem tunnel_of (c : Ctx) (id : Bytes) (hc : extractOrgID c = .ok id) (h : List Bytes) (recv : Ctx) (inner : HRecv) :
    tunnel c h recv inner = recvHTTP inner (injectOrgID recv id) h := by
  simp [tunnel, clientInterceptor, serverInterceptor, injectGRPC, hc, extractGRPC]

theorem stage_spec (c : Ctx) (id : Bytes) (hc : extractOrgID c = .ok id) (s : Stage) :
    (stageClean id s = true → ∃ recv, stage c s = .ok (injectOrgID recv id)) ∧
    (stageClean id s = false → ∃ e, stage c s = .error e) := by
  cases s with
  | grpc ex recv s r =>
    rw [stage_grpc_eq_hop]
    exact hop_spec c id hc (.grpc ex recv)
  | http ex recv r =>
    simp only [stage, stageClean, injectHTTP_of c id hc]
    constructor
    · intro hcl
      simp only [Bool.and_eq_true] at hcl
      obtain ⟨h1, h2⟩ := hcl
      obtain ⟨hid, hno⟩ := httpClean_true id ex h1
      rw [if_neg hno]
      exact ⟨recv, (recvHTTP_single r recv id hid).1 h2⟩
    · intro hcl
      by_cases hconf : headerGet ex ≠ [] ∧ headerGet ex ≠ id
      · rw [if_pos hconf]; exact ⟨_, rfl⟩
      · rw [if_neg hconf]
        by_cases hid : id = []
        · subst hid; exact ⟨_, recvHTTP_empty r recv⟩
        · have hc1 : httpClean id ex = true := by
            cases hh : httpClean id ex with
            | true => rfl
            | false =>
              rcases httpClean_false id ex hh with h | h
              · exact absurd h hid
              · exact absurd h hconf
          rw [hc1, Bool.true_and] at hcl
          exact (recvHTTP_single r recv id hid).2 hcl
  | httpgrpc ex recv r =>
    simp only [stage, stageClean, injectHTTP_of c id hc]
    constructor
    · intro hcl
      simp only [Bool.and_eq_true] at hcl
      obtain ⟨h1, h2⟩ := hcl
      obtain ⟨hid, hno⟩ := httpClean_true id ex h1
      rw [if_neg hno]
      simp only [tunnel_of c id hc]
      exact ⟨injectOrgID recv id, (recvHTTP_single r _ id hid).1 h2⟩
    · intro hcl
      by_cases hconf : headerGet ex ≠ [] ∧ headerGet ex ≠ id
      · rw [if_pos hconf]; exact ⟨_, rfl⟩
      · rw [if_neg hconf]
        simp only [tunnel_of c id hc]
        by_cases hid : id = []
        · subst hid; exact ⟨_, recvHTTP_empty r _⟩
        · have hc1 : httpClean id ex = true := by
            cases hh : httpClean id ex with
            | true => rfl
            | false =>
              rcases httpClean_false id ex hh with h | h
              · exact absurd h hid
              · exact absurd h hconf
          rw [hc1, Bool.true_and] at hcl
          exact (recvHTTP_single r _ id hid).2 hcl

theorem stage_some (c : Ctx) (id : Bytes) (hc : extractOrgID c = .ok id) (s : Stage) (c' : Ctx) (hh : stage c s = .ok c') :
    extractOrgID c' = .ok id ∧ stageClean id s = true := by
  obtain ⟨h1, h2⟩ := stage_spec c id hc s
  cases hcl : stageClean id s with
  | true =>
    obtain ⟨recv, hr⟩ := h1 hcl
    rw [hh] at hr
    injection hr with hr
    rw [hr]
    exact ⟨extract_inject recv id, rfl⟩
  | false =>
    obtain ⟨e, he⟩ := h2 hcl
    rw [hh] at he
    cases he

/-! ## chains, by induction -/

theorem ichain_identity (c : Ctx) (id : Bytes) (hc : extractOrgID c = .ok id) (ss : List Stage) (i : Nat) (c' : Ctx)
    (h : ichain c ss i = .ok c') : extractOrgID c' = .ok id := by
  induction ss generalizing i c with
  | nil => simp only [ichain] at h; injection h with h; rw [← h]; exact hc
  | cons s ss ih =>
    simp only [ichain] at h
    cases hh : stage c s with
    | error e => simp [hh] at h
    | ok c1 =>
      simp only [hh] at h
      exact ih c1 (stage_some c id hc s c1 hh).1 (i + 1) h

theorem ichain_succeeds_iff (c : Ctx) (id : Bytes) (hc : extractOrgID c = .ok id) (ss : List Stage) (i : Nat) :
    (∃ c', ichain c ss i = .ok c') ↔ ∀ s ∈ ss, stageClean id s = true := by
  induction ss generalizing i c with
  | nil => simp [ichain]
  | cons s ss ih =>
    simp only [ichain, List.mem_cons, forall_eq_or_imp]
    cases hh : stage c s with
    | error e =>
      simp only [reduceCtorEq, exists_false, false_iff, not_and]
      intro hcl
      obtain ⟨recv, hr⟩ := (stage_spec c id hc s).1 hcl
      rw [hh] at hr
      cases hr
    | ok c1 =>
      obtain ⟨h1, h2⟩ := stage_some c id hc s c1 hh
      simp only [h2, true_and]
      exact ih c1 h1 (i + 1)

theorem ichain_fails_at (c : Ctx) (id : Bytes) (hc : extractOrgID c = .ok id) (ss : List Stage) (i : Nat) (e : Err) (n : Nat)
    (h : ichain c ss i = .error (e, n)) :
    ∃ j, n = i + j ∧ (∀ s ∈ ss.take j, stageClean id s = true) ∧ ∃ s, ss[j]? = some s ∧ stageClean id s = false := by
  induction ss generalizing i c with
  | nil => simp [ichain] at h
  | cons s ss ih =>
    simp only [ichain] at h
    cases hh : stage c s with
    | error e' =>
      simp only [hh, Except.error.injEq, Prod.mk.injEq] at h
      refine ⟨0, by omega, by simp, s, rfl, ?_⟩
      cases hcl : stageClean id s with
      | false => rfl
      | true =>
        obtain ⟨recv, hr⟩ := (stage_spec c id hc s).1 hcl
        rw [hh] at hr
        cases hr
    | ok c1 =>
      simp only [hh] at h
      obtain ⟨h1, h2⟩ := stage_some c id hc s c1 hh
      obtain ⟨j, hj, hall, s', hget, hcl⟩ := ih c1 h1 (i + 1) h
      refine ⟨j + 1, by omega, ?_, s', by simpa using hget, hcl⟩
      intro x hx
      simp only [List.take_succ_cons, List.mem_cons] at hx
      rcases hx with rfl | hx
      · exact h2
      · exact hall x hx

theorem stage_no_default (c : Ctx) (hc : c.value .org = none) (s : Stage) : stage c s = .error .noOrgID := by
  cases s with
  | http ex recv r => simp [stage, injectHTTP, extractOrgID, hc]
  | grpc ex recv s r => rw [stage_grpc_eq_hop]; exact no_default c hc _
  | httpgrpc ex recv r => simp [stage, injectHTTP, extractOrgID, hc]

/-- the user id does not travel with the org id: after any stage the user id is the receiver's own. -/
theorem stage_user (c : Ctx) (s : Stage) (c' : Ctx) (h : stage c s = .ok c') :
    extractUserID c' = extractUserID (match s with | .http _ recv _ => recv | .grpc _ recv _ _ => recv | .httpgrpc _ recv _ => recv) := by
  have hrecv : ∀ (r : HRecv) (recv : Ctx) (hdr : List Bytes) (c' : Ctx), recvHTTP r recv hdr = .ok c' → extractUserID c' = extractUserID recv := by
    intro r recv hdr c' h
    have hx : ∀ c', extractHTTP recv hdr = .ok c' → extractUserID c' = extractUserID recv := by
      intro c' h
      simp only [extractHTTP] at h
      split at h
      · cases h
      · injection h with h; rw [← h]; exact user_after_injectOrg _ _
    cases r with
    | extract => exact hx c' h
    | auth =>
      simp only [recvHTTP, authenticateUser] at h
      cases h2 : extractHTTP recv hdr with
      | error e => simp [h2] at h
      | ok c2 => simp only [h2] at h; injection h with h; rw [← h]; exact hx c2 h2
    | tenant =>
      simp only [recvHTTP, extractTenantIDFromHTTP] at h
      cases h2 : extractHTTP recv hdr with
      | error e => simp [h2] at h
      | ok c2 =>
        simp only [h2] at h
        cases h3 : resolveTenantID c2 with
        | error e => simp [h3] at h
        | ok t => simp only [h3] at h; injection h with h; rw [← h]; exact hx c2 h2
  have hg : ∀ (recv : Ctx) (v : List Bytes) (c' : Ctx), extractGRPC recv v = .ok c' → extractUserID c' = extractUserID recv := by
    intro recv v c' h
    match v, h with
    | [x], h => simp only [extractGRPC] at h; injection h with h; rw [← h]; exact user_after_injectOrg _ _
  cases s with
  | http ex recv r =>
    simp only [stage] at h
    cases h1 : injectHTTP c ex with
    | error e => simp [h1] at h
    | ok hd => simp only [h1] at h; exact hrecv r recv hd c' h
  | grpc ex recv s r =>
    rw [stage_grpc_eq_hop] at h
    simp only [hop] at h
    cases h1 : injectGRPC c ex with
    | error e => simp [h1] at h
    | ok v => simp only [h1] at h; exact hg recv v c' h
  | httpgrpc ex recv r =>
    simp only [stage] at h
    cases h1 : injectHTTP c ex with
    | error e => simp [h1] at h
    | ok hd =>
      simp only [h1, tunnel, clientInterceptor, serverInterceptor] at h
      cases h2 : injectGRPC c none with
      | error e => simp [h2] at h
      | ok v =>
        simp only [h2] at h
        cases h3 : extractGRPC recv v with
        | error e => simp [h3] at h
        | ok c1 =>
          simp only [h3] at h
          rw [hrecv r c1 hd c' h]
          exact hg recv v c1 h3

/-! ## interceptors: the continuation runs iff injection / extraction succeeds -/

theorem clientInterceptor_spec {α} (c : Ctx) (md : Option (List Bytes)) (k : Ctx → List Bytes → Except Err α) :
    (∀ e, injectGRPC c md = .error e → clientInterceptor c md k = .error e) ∧
    (∀ v, injectGRPC c md = .ok v → clientInterceptor c md k = k c v) := by
  constructor <;> intro x h <;> simp [clientInterceptor, h]

theorem serverInterceptor_spec {α} (recv : Ctx) (vals : List Bytes) (k : Ctx → Except Err α) :
    (vals.length ≠ 1 → serverInterceptor recv vals k = .error .noOrgID) ∧
    (∀ x, vals = [x] → serverInterceptor recv vals k = k (injectOrgID recv x)) := by
  constructor
  · intro h
    match vals, h with
    | [], _ => rfl
    | _ :: _ :: _, _ => rfl
  · intro x h; subst h; rfl

theorem authenticateUser_spec {α} (recv : Ctx) (hdr : List Bytes) (k : Ctx → List Bytes → Except Err α) :
    (headerGet hdr = [] → authenticateUser recv hdr k = .error .noOrgID) ∧
    (headerGet hdr ≠ [] → authenticateUser recv hdr k = k (injectOrgID recv (headerGet hdr)) hdr) := by
  constructor <;> intro h <;> simp [authenticateUser, extractHTTP, h]

/-! ## LogWith -/

theorem logWith_spec (c : Ctx) (kvs : List (String × Bytes)) :
    logWith c kvs = kvs ++ (match c.value .user with | some u => [("userID", u)] | none => [])
      ++ (match c.value .org with | some o => [("orgID", o)] | none => []) := by
  simp only [logWith, extractUserID, extractOrgID]
  cases c.value .user <;> cases c.value .org <;> simp

end PfC20
