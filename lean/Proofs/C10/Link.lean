import Proofs.C10
import Model.C02
/-!
# C10 proofs: link to C02 — a successful batch write means every key was acknowledged by a set of
replicas that satisfies C02's `writeOk` for that key's replica set
-/
namespace PfC10
open C10

/-- indexes still to be counted by a goroutine whose callback succeeded -/
def okPend (i : Nat) (t : Thread) : Nat := if t.out = .ok then pend i t else 0
/-- occurrences of key `i` in the index list the goroutine of replica `t.id` was started with, if its
callback succeeds -/
def okOrig (calls : Groups) (i : Nat) (t : Thread) : Nat := if t.out = .ok then (get calls t.id).count i else 0

theorem advance_out (t : Thread) : t.advance.out = t.out := (advance_id t).2
theorem enter_out (t : Thread) : t.enter.out = t.out := (enter_id t).2
theorem okPend_ite (i : Nat) (c : Prop) [Decidable c] (a b : Thread) :
    okPend i (if c then a else b) = if c then okPend i a else okPend i b := by split <;> rfl

theorem okOrig_ite (calls : Groups) (i : Nat) (c : Prop) [Decidable c] (a b : Thread) :
    okOrig calls i (if c then a else b) = if c then okOrig calls i a else okOrig calls i b := by split <;> rfl
theorem okOrig_advance (calls : Groups) (i : Nat) (t : Thread) : okOrig calls i t.advance = okOrig calls i t := by
  simp [okOrig, (advance_id t).1, (advance_id t).2]
theorem okOrig_enter (calls : Groups) (i : Nat) (t : Thread) : okOrig calls i t.enter = okOrig calls i t := by
  simp [okOrig, (enter_id t).1, (enter_id t).2]
theorem okOrig_st (calls : Groups) (i : Nat) (t : Thread) (st : Stage) :
    okOrig calls i { t with st := st } = okOrig calls i t := rfl
theorem okPend_eq (i : Nat) (t : Thread) : okPend i t = if t.out = .ok then pend i t else 0 := rfl

/-- phase-wise normalisation of `okPend`/`okOrig`/`pend` terms after a step of thread `t` (cf. `cnt_simp`) -/
macro "ok_simp" hk:ident hst:ident ho:ident : tactic =>
  `(tactic| (
    simp only [St.put, St.putItem, sumT_set' _ _ $hk, okPend_ite, okOrig_ite] at *
    try simp only [okOrig_advance, okOrig_enter, okOrig_st] at *
    try simp only [okPend_eq, advance_out, enter_out, $ho:ident, if_true, if_false, reduceIte] at *
    try simp only [pend_ite] at *
    try simp only [pend_advance, pend_enter] at *
    try simp only [$hst:ident, pend_eq] at *))

structure InvL (calls : Groups) (s : St) : Prop where
  so : ∀ t ∈ s.thr, t.st = .sInc → t.out = .ok
  ids : (s.thr.map (·.id)).Nodup
  acc : ∀ (i : Nat) (it : Item), s.items[i]? = some it →
    it.succeeded + (sumT (okPend i) s.thr : Nat) = (sumT (okOrig calls i) s.thr : Nat)

theorem map_set_same {α β} (f : α → β) (l : List α) (k : Nat) (a b : α) (hk : l[k]? = some a) (h : f b = f a) :
    (l.set k b).map f = l.map f := by
  induction l generalizing k with
  | nil => rfl
  | cons x xs ih =>
    cases k with
    | zero => simp at hk; subst hk; simp [h]
    | succ k => simp at hk; simp [ih k hk]

theorem okOrig_set (calls : Groups) (i : Nat) {l : List Thread} {k : Nat} {t t' : Thread} (hk : l[k]? = some t)
    (h1 : t'.id = t.id) (h2 : t'.out = t.out) : sumT (okOrig calls i) (l.set k t') = sumT (okOrig calls i) l := by
  have := sumT_set (okOrig calls i) l k t t' hk
  have e : okOrig calls i t' = okOrig calls i t := by simp [okOrig, h1, h2]
  omega

theorem invL_step {calls : Groups} {s s' : St} (hP : InvP s) (hL : InvL calls s) (h : StepR s s') : InvL calls s' := by
  obtain ⟨l1, l2, l3⟩ := hL
  refine ⟨?_, ?_, ?_⟩
  · intro x hx hs
    rcases step_thread h with heq | ⟨k, t, t', hk, hset, hg⟩
    · exact l1 x (heq ▸ hx) hs
    · rw [hset] at hx
      rcases List.mem_or_eq_of_mem_set hx with hin | rfl
      · exact l1 x hin hs
      · rcases hg with g | ⟨_, rfl⟩
        · rw [g.out]; exact g.si hs
        · simp at hs
  · rcases step_thread h with heq | ⟨k, t, t', hk, hset, hg⟩
    · rw [heq]; exact l2
    · rw [hset, map_set_same _ _ _ _ _ hk]
      · exact l2
      · rcases hg with g | ⟨_, rfl⟩
        · exact g.id
        · rfl
  · intro j itj hj
    cases h with
    | tick k t s' hk hT =>
      have hmem := List.mem_of_getElem? hk
      have hg1 := sumT_ge (okPend j) s.thr k t hk
      have hg2 := sumT_ge (okOrig calls j) s.thr k t hk
      by_cases ho : t.out = .ok
      · cases hT with
        | wgDone hst | eSend hst hc | sSend e hst hc | eFailInc hst | sFailInc hst | sDone hst hd | sPend hst
        | sLoad hst i it hc =>
          have a := l3 j itj hj
          ok_simp hk hst ho <;> arith
        | eStore hst i it hc | eIncC hst ho' i it hc | eIncS hst ho' i it hc | eDec hst i it hc =>
          exact absurd ho (hP.out t hmem (by simp [errStage, hst]))
        | sInc hst i it hc | sDec hst i it hc =>
          obtain ⟨⟨rest, htodo⟩, hit⟩ := curItem_some hc
          simp only [St.putItem] at hj
          rcases getElem?_set_cases hj with ⟨rfl, rfl⟩ | ⟨hne, hj'⟩
          · have a := l3 i it hit
            ok_simp hk hst ho <;> (try simp only [count_head_self htodo] at *) <;> arith
          · have a := l3 j itj hj'
            ok_simp hk hst ho <;> (try simp only [count_head_ne htodo hne] at *) <;> arith
      · cases hT with
        | wgDone hst | eSend hst hc | sSend e hst hc | eFailInc hst | sFailInc hst | sDone hst hd | sPend hst
        | sLoad hst i it hc =>
          have a := l3 j itj hj
          ok_simp hk hst ho <;> arith
        | sInc hst i it hc => exact absurd (l1 t hmem hst) ho
        | eStore hst i it hc | eIncC hst ho' i it hc | eIncS hst ho' i it hc | eDec hst i it hc | sDec hst i it hc =>
          obtain ⟨⟨rest, htodo⟩, hit⟩ := curItem_some hc
          simp only [St.putItem] at hj
          rcases getElem?_set_cases hj with ⟨rfl, rfl⟩ | ⟨hne, hj'⟩
          · have a := l3 i it hit
            ok_simp hk hst ho <;> arith
          · have a := l3 j itj hj'
            ok_simp hk hst ho <;> arith
    | start k t hk hs | ret k t hk hs =>
      have hg1 := sumT_ge (okPend j) s.thr k t hk
      have hg2 := sumT_ge (okOrig calls j) s.thr k t hk
      have a := l3 j itj hj
      by_cases ho : t.out = .ok <;> ok_simp hk hs ho <;> arith
    | cleanup hw hc | cancel | recvDone hr hd | recvErr e hr he | recvCtx hr hc => exact l3 j itj hj

theorem invL_reach {calls : Groups} {s0 s : St} (h0 : WFInit s0) (hL : InvL calls s0) (hr : Reach s0 s) : InvL calls s := by
  induction hr with
  | refl => exact hL
  | step a b ev hra hs ih => exact invL_step (inv_of_reach h0 hra).p ih (step_sound hs)

/-! ### the immutable part of the trackers -/

def cfgOf (it : Item) : Int × Int := (it.minSuccess, it.maxFailures)

theorem cfg_step {s s' : St} (h : StepR s s') : s'.items.map cfgOf = s.items.map cfgOf := by
  cases h with
  | tick k t s' hk hT =>
    cases hT with
    | wgDone hst | eSend hst hc | sSend e hst hc | sDone hst hd | eFailInc hst | sFailInc hst | sPend hst
    | sLoad hst i it hc => rfl
    | eStore hst i it hc | eIncC hst ho i it hc | eIncS hst ho i it hc | eDec hst i it hc | sInc hst i it hc
    | sDec hst i it hc =>
      exact map_set_same cfgOf _ _ _ _ (curItem_some hc).2 rfl
  | start k t hk hs | ret k t hk hs | cleanup hw hc | cancel | recvDone hr hd | recvErr e hr he | recvCtx hr hc => rfl

theorem cfg_reach {s0 s : St} (hr : Reach s0 s) : s.items.map cfgOf = s0.items.map cfgOf := by
  induction hr with
  | refl => rfl
  | step a b ev _ hs ih => rw [cfg_step (step_sound hs), ih]

/-! ### counting -/

theorem count_flatMap_replicate (c : Nat → Nat) (i n : Nat) :
    ((List.range n).flatMap (fun k => List.replicate (c k) k)).count i = if i < n then c i else 0 := by
  induction n with
  | zero => simp
  | succ n ih =>
    rw [List.range_succ, List.flatMap_append, List.count_append, ih]
    simp only [List.flatMap_cons, List.flatMap_nil, List.append_nil, List.count_replicate]
    by_cases h1 : i < n
    · have : ¬ n = i := by omega
      have h2 : i < n + 1 := by omega
      simp [h1, h2, this]
    · by_cases h2 : n = i
      · subst h2; simp
      · have h3 : ¬ i < n + 1 := by omega
        simp [h1, h2, h3]

/-- key `i` occurs in replica `a`'s index list as often as `a` occurs in key `i`'s replica set -/
theorem count_get_group (sets : List (List Nat)) (a i : Nat) :
    (get (group sets) a).count i = (sets.getD i []).count a := by
  rw [group, get_groupFrom]
  simp only [get, List.nil_append, Nat.zero_add]
  rw [count_flatMap_replicate (fun k => (sets.getD k []).count a)]
  split
  · rfl
  · rename_i h
    have : sets.getD i [] = [] := by
      rw [List.getD_eq_getElem?_getD, List.getElem?_eq_none (by omega)]; rfl
    rw [this]; simp

theorem sumT_le_add {α} (f g h : α → Nat) (l : List α) (hle : ∀ a ∈ l, f a ≤ g a + h a) :
    sumT f l ≤ sumT g l + sumT h l := by
  induction l with
  | nil => simp
  | cons x xs ih =>
    simp only [sumT_cons]
    have := hle x (by simp)
    have := ih (fun a ha => hle a (by simp [ha]))
    omega

theorem sumT_ind (p : α → Bool) (l : List α) : sumT (fun a => if p a then 1 else 0) l = (l.filter p).length := by
  induction l with
  | nil => rfl
  | cons x xs ih =>
    simp only [sumT_cons, List.filter_cons, ih]
    cases p x <;> simp <;> omega

theorem nodup_subset_length {l m : List Nat} (hn : l.Nodup) (hs : ∀ a ∈ l, a ∈ m) : l.length ≤ m.length := by
  induction l generalizing m with
  | nil => simp
  | cons x xs ih =>
    simp only [List.nodup_cons] at hn
    have hx : x ∈ m := hs x (by simp)
    have h1 : ∀ a ∈ xs, a ∈ m.erase x := by
      intro a ha
      have hne : a ≠ x := fun h => hn.1 (h ▸ ha)
      exact (List.mem_erase_of_ne hne).mpr (hs a (by simp [ha]))
    have := ih hn.2 h1
    rw [List.length_erase_of_mem hx] at this
    have : 1 ≤ m.length := List.length_pos_of_mem hx
    simp only [List.length_cons]
    omega

theorem nodup_map_of_inj {α} (f : α → Nat) (l : List α) (hW : l.Nodup)
    (hinj : ∀ x ∈ l, ∀ y ∈ l, f x = f y → x = y) : (l.map f).Nodup := by
  induction l with
  | nil => simp
  | cons a as ih =>
    simp only [List.nodup_cons] at hW
    simp only [List.map_cons, List.nodup_cons, List.mem_map, not_exists, not_and]
    refine ⟨?_, ih hW.2 (fun x hx y hy => hinj x (by simp [hx]) y (by simp [hy]))⟩
    intro x hx hfx
    have := hinj x (by simp [hx]) a (by simp) hfx
    exact hW.1 (this ▸ hx)

/-! ### initial state and the final argument -/

theorem invL_init {icount : Int} {ca : Option Nat} {gets : List GetRes} {p : Prep}
    (hp : prepare icount ca gets = .ok p) (out : Nat → Outcome) : InvL p.calls (initSt p out) := by
  obtain ⟨l, h1, h2, h3, _⟩ := prepare_ok hp
  have hn : (keys p.calls).Nodup := by rw [h3]; exact nodup_groupFrom _ [] 0 (by simp [keys])
  refine ⟨?_, ?_, ?_⟩
  · intro t ht hs
    simp only [initSt, mkThreads, List.mem_map] at ht
    obtain ⟨c, _, rfl⟩ := ht
    simp at hs
  · simp only [initSt, mkThreads, List.map_map]
    exact hn
  · intro i it hi
    simp only [initSt] at hi ⊢
    rw [h2, List.getElem?_map] at hi
    cases hl : l[i]? with
    | none => simp [hl] at hi
    | some q =>
      simp [hl] at hi
      subst hi
      simp only [mkItem, Int.zero_add]
      congr 1
      apply sumT_congr
      intro t ht
      simp only [mkThreads, List.mem_map] at ht
      obtain ⟨⟨a, idx⟩, hc, rfl⟩ := ht
      simp only [okPend, okOrig, pend_eq]
      rw [get_of_mem p.calls a idx hn hc]

/-- replica `a` has acknowledged key `i`: its callback returned without error and its goroutine has
counted key `i` (which is in the index list it was called with). -/
def Acked (p : Prep) (s : St) (i a : Nat) : Prop :=
  ∃ t ∈ s.thr, t.id = a ∧ t.out = .ok ∧ i ∈ get p.calls a ∧ pend i t = 0

def ackedB (p : Prep) (s : St) (i a : Nat) : Bool :=
  s.thr.any fun t => t.id == a && t.out == .ok && decide (1 ≤ (get p.calls a).count i) && pend i t == 0

theorem acked_of_ackedB {p : Prep} {s : St} {i a : Nat} (h : ackedB p s i a = true) : Acked p s i a := by
  simp only [ackedB, List.any_eq_true, Bool.and_eq_true, beq_iff_eq, decide_eq_true_eq] at h
  obtain ⟨t, ht, ⟨⟨h1, h2⟩, h3⟩, h4⟩ := h
  exact ⟨t, ht, h1, h2, List.count_pos_iff.mp (by omega), h4⟩

/-- **Link C10 → C02.** In every reachable state in which `done` has been signalled (hence whenever
`DoBatch` reports success), every key `i` has been acknowledged by a set `A` of replicas of its
replication set `W` (`gets[i] = W` under an injective numbering `aid` of the instances) which
satisfies C02's `writeOk A W` — the premise of the read/write quorum-intersection theorems of C02. -/
theorem batch_success_implies_writeOk' {icount : Int} {ca : Option Nat} {gets : List GetRes} {p : Prep}
    {out : Nat → Outcome} {evs : List Ev} {s : St} (hg : GoodGets gets)
    (hp : prepare icount ca gets = .ok p) (hr : run (initSt p out) evs = some s) (hd : 1 ≤ s.nDone)
    (i : Nat) (W : C01.RSet) (aid : Ring.Inst → Nat)
    (hinj : ∀ x ∈ W.instances, ∀ y ∈ W.instances, aid x = aid y → x = y) (hW : W.instances.Nodup)
    (hi : gets[i]? = some (.ok (W.instances.map aid) W.maxErrors)) :
    ∃ A : List Ring.Inst, C02.writeOk A W ∧ ∀ x ∈ A, Acked p s i (aid x) := by
  have hreach := reach_of_run hr
  have hwf := wf_initSt hg hp out
  have hI := inv_of_reach hwf hreach
  have hL := invL_reach hwf (invL_init hp out) hreach
  obtain ⟨l, h1, h2, h3, _⟩ := prepare_ok hp
  -- the tracker of key i
  have hli : l[i]? = some (W.instances.map aid, (W.maxErrors : Int)) := by
    rw [h1, List.getElem?_map] at hi
    cases hl : l[i]? with
    | none => simp [hl] at hi
    | some q =>
      simp [hl] at hi
      obtain ⟨e1, e2⟩ := hi
      rw [← e1, ← e2]
  have hcfg := cfg_reach hreach
  have hlen : i < s.items.length := by
    have : i < l.length := (List.getElem?_eq_some_iff.mp hli).1
    have e := items_length_reach hreach
    simp only [initSt] at e
    rw [e, h2]; simpa using this
  let it := s.items[i]
  have hit : s.items[i]? = some it := List.getElem?_eq_getElem hlen
  have hmin : it.minSuccess = (W.instances.length : Int) - W.maxErrors := by
    have e : (s.items.map cfgOf)[i]? = ((initSt p out).items.map cfgOf)[i]? := by rw [hcfg]
    simp only [List.getElem?_map, hit, initSt, h2, hli, Option.map_some] at e
    have := congrArg Prod.fst (Option.some.inj e)
    simpa [cfgOf, mkItem] using this
  have hS : it.minSuccess ≤ it.succeeded := done_sound' hI hd i it hit
  -- counting
  let P : Thread → Bool := fun t => t.out == .ok && decide (1 ≤ (get p.calls t.id).count i) && pend i t == 0
  have hcount : ∀ a, (get p.calls a).count i = (W.instances.map aid).count a := by
    intro a
    rw [h3, count_get_group, List.getD_eq_getElem?_getD, List.getElem?_map, hli]
    rfl
  have hmapnd : (W.instances.map aid).Nodup := by
    exact nodup_map_of_inj aid _ hW hinj
  have hle1 : ∀ a, (get p.calls a).count i ≤ 1 := by
    intro a; rw [hcount a, nodup_count _ hmapnd a]; split <;> omega
  have hterm : ∀ t ∈ s.thr, okOrig p.calls i t ≤ okPend i t + (if P t then 1 else 0) := by
    intro t _
    have := hle1 t.id
    simp only [okOrig, okPend, P]
    by_cases ho : t.out = .ok
    · by_cases hc : 1 ≤ (get p.calls t.id).count i
      · by_cases hp0 : pend i t = 0
        · simp [ho, hc, hp0]; omega
        · simp [ho, hc, hp0]; omega
      · simp [ho, hc]; omega
    · simp [ho]
  have hsum := sumT_le_add _ _ _ s.thr hterm
  rw [sumT_ind] at hsum
  have hacc := hL.acc i it hit
  have hSle : it.succeeded ≤ ((s.thr.filter P).length : Nat) := by omega
  -- the acknowledging replicas
  refine ⟨W.instances.filter (fun x => ackedB p s i (aid x)), ⟨hW.filter _, fun a ha => (List.mem_filter.mp ha).1, ?_⟩,
    fun x hx => acked_of_ackedB (List.mem_filter.mp hx).2⟩
  have hids : ((s.thr.filter P).map (·.id)).Nodup :=
    hL.ids.sublist ((List.filter_sublist).map _)
  have hsub : ∀ a ∈ (s.thr.filter P).map (·.id), a ∈ (W.instances.filter (fun x => ackedB p s i (aid x))).map aid := by
    intro a ha
    obtain ⟨t, ht, rfl⟩ := List.mem_map.mp ha
    obtain ⟨htm, hPt⟩ := List.mem_filter.mp ht
    simp only [P, Bool.and_eq_true, beq_iff_eq, decide_eq_true_eq] at hPt
    obtain ⟨⟨ho, hc⟩, hp0⟩ := hPt
    have hmem : t.id ∈ W.instances.map aid := by
      rw [hcount] at hc; exact List.count_pos_iff.mp (by omega)
    obtain ⟨x, hx, hxa⟩ := List.mem_map.mp hmem
    refine List.mem_map.mpr ⟨x, List.mem_filter.mpr ⟨hx, ?_⟩, hxa⟩
    simp only [ackedB, List.any_eq_true, Bool.and_eq_true, beq_iff_eq, decide_eq_true_eq]
    exact ⟨t, htm, ⟨⟨⟨hxa.symm, ho⟩, by rw [hxa]; exact hc⟩, hp0⟩⟩
  have hlen2 := nodup_subset_length hids hsub
  simp only [List.length_map] at hlen2
  omega

end PfC10
