import Proofs.C10.InvW
/-! # C10 proofs: the `err` channel and `rpcsFailed` -/
namespace PfC10
open C10

structure InvE (s : St) : Prop where
  fnn : 0 ≤ s.failed
  cnt : (s.nErr : Int) + (sumT sendEC s.thr : Nat) = min s.failed 1
  ch1 : s.errc.isSome → 1 ≤ s.nErr
  ch2 : s.ret = none → 1 ≤ s.nErr → s.errc.isSome
  ch3 : ∀ e, s.errc = some e → s.sentErr = some e
  ret3 : ∀ e, s.ret = some (.err e) → s.sentErr = some e ∧ 1 ≤ s.nErr

theorem invE_step {s s' : St} (hi : InvE s) (h : StepR s s') : InvE s' := by
  obtain ⟨h1, h2, h3, h4, h5, h6⟩ := hi
  cases h with
  | tick k t s' hk hT =>
    have hge := (ge_all hk 0).2.2.2.2.2.2.1
    cases hT <;> refine ⟨?_, ?_, ?_, ?_, ?_, ?_⟩ <;> simp only [St.put, St.putItem, sumT_set' _ _ hk] <;>
      (try split) <;> (try split) <;> simp [sendEC_eq, *] at hge h2 ⊢ <;> (try omega) <;> (try (intros; omega)) <;>
      (try (intro e he; have := (h6 e he).2; omega))
  | start k t hk hs =>
    have hge := (ge_all hk 0).2.2.2.2.2.2.1
    refine ⟨?_, ?_, ?_, ?_, ?_, ?_⟩ <;> simp only [sumT_set' _ _ hk] <;> simp [sendEC_eq, *] at hge ⊢ <;> (try omega) <;> assumption
  | ret k t hk hs =>
    have hge := (ge_all hk 0).2.2.2.2.2.2.1
    refine ⟨?_, ?_, ?_, ?_, ?_, ?_⟩ <;> simp only [sumT_set' _ _ hk] <;> simp [sendEC_eq, *] at hge ⊢ <;> (try omega) <;> assumption
  | cleanup hw hc => exact ⟨h1, h2, h3, h4, h5, h6⟩
  | cancel => exact ⟨h1, h2, h3, h4, h5, h6⟩
  | recvDone hr hd => refine ⟨h1, h2, h3, ?_, h5, ?_⟩ <;> simp_all
  | recvErr e hr he =>
    refine ⟨h1, h2, ?_, ?_, ?_, ?_⟩ <;> simp_all
  | recvCtx hr hc => refine ⟨h1, h2, h3, ?_, h5, ?_⟩ <;> simp_all

end PfC10
