import Proofs.C10.Group
import Proofs.C10.Inv
/-! # C10 proofs: the sequential prefix produces a well-formed initial state -/
namespace PfC10
open C10

/-- what `Ring.Get` produces: a tolerance `0 ≤ MaxErrors < number of replicas`. -/
def GoodGets (gets : List GetRes) : Prop :=
  ∀ g ∈ gets, ∀ addrs me, g = GetRes.ok addrs me → 0 ≤ me ∧ me < (addrs.length : Int)

theorem keyLoop_ok (ca : Option Nat) : ∀ (gets : List GetRes) (i : Nat) (accI : List Item) (accS : List (List Nat))
    (items : List Item) (sets : List (List Nat)), keyLoop ca i gets accI accS = .ok (items, sets) →
    ∃ l : List (List Nat × Int), gets = l.map (fun p => GetRes.ok p.1 p.2) ∧
      items = accI.reverse ++ l.map (fun p => mkItem p.1 p.2) ∧ sets = accS.reverse ++ l.map (·.1) := by
  intro gets
  induction gets with
  | nil =>
    intro i accI accS items sets h
    simp [keyLoop] at h
    exact ⟨[], rfl, by simp [h.1], by simp [h.2]⟩
  | cons g rest ih =>
    intro i accI accS items sets h
    simp only [keyLoop] at h
    split at h
    · simp at h
    · cases g with
      | err => simp at h
      | ok addrs me =>
        simp only at h
        obtain ⟨l, h1, h2, h3⟩ := ih _ _ _ _ _ h
        refine ⟨(addrs, me) :: l, by simp [h1], ?_, ?_⟩
        · rw [h2]; simp
        · rw [h3]; simp

theorem prepare_ok {fix : Bool} {icount : Int} {ca : Option Nat} {gets : List GetRes} {p : Prep}
    (h : prepareWith fix icount ca gets = .ok p) :
    ∃ l : List (List Nat × Int), gets = l.map (fun p => GetRes.ok p.1 p.2) ∧
      p.items = l.map (fun q => mkItem q.1 q.2) ∧ p.calls = group (l.map (·.1)) ∧ p.gets = gets.length := by
  unfold prepareWith at h
  split at h
  · simp at h
  · split at h
    · simp at h
    · rename_i items sets hk
      obtain ⟨l, h1, h2, h3⟩ := keyLoop_ok ca gets 0 [] [] items sets hk
      split at h
      · simp at h
      · split at h
        · simp at h
        · simp at h
          subst h
          simp at h2 h3
          exact ⟨l, h1, h2, by simp [h3], rfl⟩

theorem sumT_map {α β} (f : β → Nat) (g : α → β) (l : List α) : sumT f (l.map g) = sumT (fun a => f (g a)) l := by
  induction l with
  | nil => rfl
  | cons x xs ih => simp [ih]

theorem wf_initSt {fix : Bool} {icount : Int} {ca : Option Nat} {gets : List GetRes} {p : Prep}
    (hg : GoodGets gets) (h : prepareWith fix icount ca gets = .ok p) (out : Nat → Outcome) : WFInit (initSt p out) := by
  obtain ⟨l, h1, h2, h3, _⟩ := prepare_ok h
  refine ⟨?_, ?_, ?_, ?_, rfl, rfl, rfl, ?_, rfl, rfl, rfl, rfl, rfl⟩
  · intro t ht
    simp only [initSt, mkThreads, List.mem_map] at ht
    obtain ⟨c, _, rfl⟩ := ht
    rfl
  · intro t ht i hi
    simp only [initSt, mkThreads, List.mem_map] at ht ⊢
    obtain ⟨⟨a, idx⟩, hc, rfl⟩ := ht
    simp only at hi
    rw [h3] at hc
    have hn : (keys (group (l.map (·.1)))).Nodup := nodup_groupFrom _ [] 0 (by simp [keys])
    have hget := get_of_mem _ a idx hn hc
    rw [group, get_groupFrom] at hget
    rw [← hget] at hi
    simp only [get, List.nil_append, List.mem_flatMap, List.mem_range, List.mem_replicate, Nat.zero_add] at hi
    obtain ⟨k, hk, _, rfl⟩ := hi
    rw [h2]; simpa using hk
  · intro i it hi
    simp only [initSt] at hi ⊢
    rw [h2, List.getElem?_map] at hi
    cases hl : l[i]? with
    | none => simp [hl] at hi
    | some q =>
      simp [hl] at hi
      subst hi
      have hq : GetRes.ok q.1 q.2 ∈ gets := by
        rw [h1]; exact List.mem_map.mpr ⟨q, List.mem_of_getElem? hl, rfl⟩
      obtain ⟨g1, g2⟩ := hg _ hq q.1 q.2 rfl
      have hocc : sumT (fun t : Thread => t.todo.count i) (mkThreads p.calls out) = q.1.length := by
        simp only [mkThreads, sumT_map]
        have := occ_groupFrom i (l.map (·.1)) [] 0
        simp only [occ, sumT_nil, Nat.zero_le, if_true, Nat.sub_zero, Nat.zero_add] at this
        rw [h3]
        simp only [group]
        rw [this, List.getD_eq_getElem?_getD, List.getElem?_map, hl]
        rfl
      refine ⟨?_, ?_, rfl, rfl, rfl, ?_, rfl, ?_⟩
      · simp only [mkItem]; omega
      · simp only [mkItem]; omega
      · simp only [mkItem]; omega
      · rw [hocc]; simp only [mkItem]; omega
  · simp [initSt]
  · simp [initSt, mkThreads]

end PfC10
