import Proofs.C10.Basic
/-! # C10 proofs: the grouping of key indexes by replica address (`group`) -/
namespace PfC10
open C10

abbrev Groups := List (Nat × List Nat)

def keys (m : Groups) : List Nat := m.map (·.1)

/-- index list of the first entry for address `a` (`[]` if none) -/
def get : Groups → Nat → List Nat
  | [], _ => []
  | (b, l) :: r, a => if a = b then l else get r a

/-- occurrences of key index `j` in all index lists -/
def occ (j : Nat) (m : Groups) : Nat := sumT (fun c => c.2.count j) m

/-! ### `addIdx` -/

theorem get_addIdx (m : Groups) (a i b : Nat) :
    get (addIdx m a i) b = if b = a then get m a ++ [i] else get m b := by
  induction m with
  | nil => simp [addIdx, get]
  | cons c r ih =>
    obtain ⟨c, l⟩ := c
    simp only [addIdx]
    by_cases hac : a = c
    · subst hac
      simp only [if_true, get]
      by_cases hb : b = a <;> simp [hb]
    · simp only [if_neg hac, get, ih]
      by_cases hb : b = a
      · subst hb; simp [hac]
      · simp [hb]

theorem keys_addIdx (m : Groups) (a i : Nat) :
    keys (addIdx m a i) = if a ∈ keys m then keys m else keys m ++ [a] := by
  induction m with
  | nil => simp [addIdx, keys]
  | cons c r ih =>
    obtain ⟨c, l⟩ := c
    simp only [addIdx]
    by_cases hac : a = c
    · subst hac; simp [keys]
    · simp only [if_neg hac]
      simp only [keys, List.map_cons, List.mem_cons] at ih ⊢
      rw [ih]
      by_cases hm : a ∈ List.map (fun x => x.1) r <;> simp [hm, hac]

theorem nodup_addIdx (m : Groups) (a i : Nat) (h : (keys m).Nodup) : (keys (addIdx m a i)).Nodup := by
  rw [keys_addIdx]
  split
  · exact h
  · rename_i hn
    exact List.nodup_append.mpr ⟨h, by simp, by intro x hx y hy; simp at hy; subst hy; intro hxy; exact hn (hxy ▸ hx)⟩

theorem occ_addIdx (j : Nat) (m : Groups) (a i : Nat) :
    occ j (addIdx m a i) = occ j m + (if i = j then 1 else 0) := by
  induction m with
  | nil => simp [addIdx, occ, List.count_cons]
  | cons c r ih =>
    obtain ⟨c, l⟩ := c
    simp only [addIdx]
    by_cases hac : a = c
    · subst hac
      simp only [if_true, occ, sumT_cons, List.count_append, List.count_cons, List.count_nil]
      by_cases hij : i = j <;> simp [hij] <;> omega
    · simp only [if_neg hac, occ, sumT_cons] at ih ⊢
      rw [ih]; omega

/-! ### `addKey` -/

theorem get_addKey (addrs : List Nat) (m : Groups) (i b : Nat) :
    get (addKey m addrs i) b = get m b ++ List.replicate (addrs.count b) i := by
  induction addrs generalizing m with
  | nil => simp [addKey]
  | cons a as ih =>
    have : addKey m (a :: as) i = addKey (addIdx m a i) as i := by simp [addKey]
    rw [this, ih, get_addIdx, List.count_cons]
    by_cases hb : b = a
    · subst hb; simp [List.replicate_succ, List.append_assoc]
    · have : (a == b) = false := by simp; exact fun h => hb h.symm
      simp [hb, this]

theorem keys_addKey (addrs : List Nat) (m : Groups) (i b : Nat) :
    b ∈ keys (addKey m addrs i) ↔ b ∈ keys m ∨ b ∈ addrs := by
  induction addrs generalizing m with
  | nil => simp [addKey]
  | cons a as ih =>
    have : addKey m (a :: as) i = addKey (addIdx m a i) as i := by simp [addKey]
    rw [this, ih, keys_addIdx]
    by_cases hm : a ∈ keys m
    · simp only [if_pos hm, List.mem_cons]
      constructor
      · rintro (h | h); exact .inl h; exact .inr (.inr h)
      · rintro (h | h | h); exact .inl h; exact .inl (h ▸ hm); exact .inr h
    · simp only [if_neg hm, List.mem_append, List.mem_singleton, List.mem_cons, List.not_mem_nil, or_false]
      constructor
      · rintro ((h | h) | h); exact .inl h; exact .inr (.inl h); exact .inr (.inr h)
      · rintro (h | h | h); exact .inl (.inl h); exact .inl (.inr h); exact .inr h

theorem nodup_addKey (addrs : List Nat) (m : Groups) (i : Nat) (h : (keys m).Nodup) :
    (keys (addKey m addrs i)).Nodup := by
  induction addrs generalizing m with
  | nil => simpa [addKey] using h
  | cons a as ih =>
    have : addKey m (a :: as) i = addKey (addIdx m a i) as i := by simp [addKey]
    rw [this]; exact ih _ (nodup_addIdx m a i h)

theorem occ_addKey (j : Nat) (addrs : List Nat) (m : Groups) (i : Nat) :
    occ j (addKey m addrs i) = occ j m + (if i = j then addrs.length else 0) := by
  induction addrs generalizing m with
  | nil => simp [addKey]
  | cons a as ih =>
    have : addKey m (a :: as) i = addKey (addIdx m a i) as i := by simp [addKey]
    rw [this, ih, occ_addIdx]
    by_cases hij : i = j <;> simp [hij]; omega

/-! ### `groupFrom` / `group` -/

theorem get_groupFrom (sets : List (List Nat)) (m : Groups) (i0 b : Nat) :
    get (groupFrom m i0 sets) b =
      get m b ++ (List.range sets.length).flatMap (fun k => List.replicate ((sets.getD k []).count b) (i0 + k)) := by
  induction sets generalizing m i0 with
  | nil => simp [groupFrom]
  | cons s rest ih =>
    simp only [groupFrom, ih, get_addKey, List.length_cons, List.range_succ_eq_map, List.flatMap_cons,
      List.flatMap_map, List.append_assoc]
    congr 2
    have : ∀ k, i0 + 1 + k = i0 + (k + 1) := fun k => by omega
    simp only [this, List.getD_cons_succ, Nat.succ_eq_add_one]

theorem keys_groupFrom (sets : List (List Nat)) (m : Groups) (i0 b : Nat) :
    b ∈ keys (groupFrom m i0 sets) ↔ b ∈ keys m ∨ ∃ s ∈ sets, b ∈ s := by
  induction sets generalizing m i0 with
  | nil => simp [groupFrom]
  | cons s rest ih =>
    simp only [groupFrom, ih, keys_addKey, List.mem_cons]
    constructor
    · rintro ((h | h) | ⟨x, hx, h⟩)
      · exact .inl h
      · exact .inr ⟨s, .inl rfl, h⟩
      · exact .inr ⟨x, .inr hx, h⟩
    · rintro (h | ⟨x, hx | hx, h⟩)
      · exact .inl (.inl h)
      · exact .inl (.inr (hx ▸ h))
      · exact .inr ⟨x, hx, h⟩

theorem nodup_groupFrom (sets : List (List Nat)) (m : Groups) (i0 : Nat) (h : (keys m).Nodup) :
    (keys (groupFrom m i0 sets)).Nodup := by
  induction sets generalizing m i0 with
  | nil => simpa [groupFrom] using h
  | cons s rest ih => exact ih _ _ (nodup_addKey s m i0 h)

theorem occ_groupFrom (j : Nat) (sets : List (List Nat)) (m : Groups) (i0 : Nat) :
    occ j (groupFrom m i0 sets) = occ j m + (if i0 ≤ j then (sets.getD (j - i0) []).length else 0) := by
  induction sets generalizing m i0 with
  | nil => simp [groupFrom]
  | cons s rest ih =>
    simp only [groupFrom, ih, occ_addKey]
    by_cases h1 : i0 = j
    · subst h1
      have h3 : ¬ i0 + 1 ≤ i0 := by omega
      simp [h3]
    · by_cases h2 : i0 ≤ j
      · have h3 : i0 + 1 ≤ j := by omega
        have h4 : j - i0 = (j - (i0 + 1)) + 1 := by omega
        simp only [if_neg h1, if_pos h2, if_pos h3]
        rw [h4]; simp
      · have h3 : ¬ i0 + 1 ≤ j := by omega
        simp [h1, h2, h3]

theorem get_of_mem (m : Groups) (a : Nat) (idx : List Nat) (hn : (keys m).Nodup) (h : (a, idx) ∈ m) :
    get m a = idx := by
  induction m with
  | nil => simp at h
  | cons c r ih =>
    obtain ⟨c, l⟩ := c
    simp only [keys, List.map_cons, List.nodup_cons] at hn
    simp only [List.mem_cons, Prod.mk.injEq] at h
    simp only [get]
    rcases h with ⟨rfl, rfl⟩ | h
    · simp
    · have : a ≠ c := by
        intro hac; subst hac
        exact hn.1 (List.mem_map.mpr ⟨(a, idx), h, rfl⟩)
      simp only [if_neg this]
      exact ih hn.2 h

end PfC10
