import Model.C10
/-!
# C10 proofs, part 1: sums over lists, per-thread counters, inversion of `tickThread`
-/
namespace PfC10
open C10

/-! ### sums -/

def sumT {α} (f : α → Nat) (l : List α) : Nat := (l.map f).sum

@[simp] theorem sumT_nil {α} (f : α → Nat) : sumT f [] = 0 := rfl
@[simp] theorem sumT_cons {α} (f : α → Nat) (a : α) (l : List α) : sumT f (a :: l) = f a + sumT f l := by
  simp [sumT]

theorem sumT_set {α} (f : α → Nat) (l : List α) (k : Nat) (a b : α) (h : l[k]? = some a) :
    sumT f (l.set k b) + f a = sumT f l + f b := by
  induction l generalizing k with
  | nil => simp at h
  | cons x xs ih =>
    cases k with
    | zero => simp at h; subst h; simp; omega
    | succ k => simp at h; simp; have := ih k h; omega

theorem sumT_ge {α} (f : α → Nat) (l : List α) (k : Nat) (a : α) (h : l[k]? = some a) : f a ≤ sumT f l := by
  induction l generalizing k with
  | nil => simp at h
  | cons x xs ih =>
    cases k with
    | zero => simp at h; subst h; simp
    | succ k => simp at h; simp; have := ih k h; omega

theorem sumT_eq_zero {α} (f : α → Nat) (l : List α) (h : ∀ a ∈ l, f a = 0) : sumT f l = 0 := by
  induction l with
  | nil => rfl
  | cons x xs ih =>
    simp
    exact ⟨h x (by simp), ih (fun a ha => h a (by simp [ha]))⟩

theorem sumT_le_length {α} (f : α → Nat) (l : List α) (h : ∀ a ∈ l, f a ≤ 1) : sumT f l ≤ l.length := by
  induction l with
  | nil => simp
  | cons x xs ih =>
    simp
    have := h x (by simp)
    have := ih (fun a ha => h a (by simp [ha]))
    omega

/-- if the sum of 0/1 values reaches the length, every value is 1. -/
theorem sumT_full {α} (f : α → Nat) (l : List α) (h : ∀ a ∈ l, f a ≤ 1) (hs : l.length ≤ sumT f l) :
    ∀ a ∈ l, f a = 1 := by
  induction l with
  | nil => simp
  | cons x xs ih =>
    simp at hs
    have h1 := h x (by simp)
    have h2 := sumT_le_length f xs (fun a ha => h a (by simp [ha]))
    intro a ha
    simp at ha
    rcases ha with rfl | ha
    · omega
    · exact ih (fun a ha => h a (by simp [ha])) (by omega) a ha

theorem sumT_lt_length {α} (f : α → Nat) (l : List α) (h : ∀ a ∈ l, f a ≤ 1) (k : Nat) (a : α)
    (hk : l[k]? = some a) (ha : f a = 0) : sumT f l < l.length := by
  apply Nat.lt_of_not_le
  intro hs
  have := sumT_full f l h hs a (List.mem_of_getElem? hk)
  omega

/-! ### per-thread counters

Each counter says how a thread contributes to a shared counter *in the future or right now*.
-/

/-- occurrences of item `i` on which the thread has not yet executed its `Inc` -/
def pend (i : Nat) (t : Thread) : Nat :=
  match t.st with
  | .idle | .inCall | .eStore | .eInc | .sInc => t.todo.count i
  | .wgDone | .fin => 0
  | _ => t.todo.tail.count i

/-- is the head of `todo` item `i`? -/
def headIs (i : Nat) (t : Thread) : Nat := if t.todo.head? = some i then 1 else 0

theorem headIs_st (i : Nat) (t : Thread) (st : Stage) : headIs i { t with st := st } = headIs i t := rfl

/-- committed to `it.remaining.Dec()` on item `i` -/
def decC (i : Nat) (t : Thread) : Nat :=
  match t.st with
  | .eDec | .sDec => headIs i t
  | _ => 0

/-- has stored its error in item `i` but not yet counted it -/
def eIncC (i : Nat) (t : Thread) : Nat :=
  match t.st with
  | .eInc => headIs i t
  | _ => 0

/-- will load the error of item `i` (`sFailInc`, `sLoad`) -/
def loadC (i : Nat) (t : Thread) : Nat :=
  match t.st with
  | .sFailInc | .sLoad => headIs i t
  | _ => 0

def pendC (t : Thread) : Nat := match t.st with | .sPend => 1 | _ => 0
def failC (t : Thread) : Nat := match t.st with | .eFailInc | .sFailInc => 1 | _ => 0
def sendEC (t : Thread) : Nat := match t.st with | .eSend | .sLoad | .sSend _ => 1 | _ => 0
def sendDC (t : Thread) : Nat := match t.st with | .sDone => 1 | _ => 0
def live (t : Thread) : Nat := match t.st with | .fin => 0 | _ => 1

/-- an item whose quorum has been reached -/
def reached (it : Item) : Nat := if it.minSuccess ≤ it.succeeded then 1 else 0

theorem reached_eq (it : Item) : reached it = if it.minSuccess ≤ it.succeeded then 1 else 0 := rfl
@[simp] theorem reached_err (it : Item) (e : Option Nat) : reached { it with err := e } = reached it := rfl
@[simp] theorem reached_fc (it : Item) (x : Int) : reached { it with failedClient := x } = reached it := rfl
@[simp] theorem reached_fs (it : Item) (x : Int) : reached { it with failedServer := x } = reached it := rfl
@[simp] theorem reached_rem (it : Item) (x : Int) : reached { it with remaining := x } = reached it := rfl

/-- how `succeeded.Inc()` changes `reached` -/
theorem reached_succ (it : Item) :
    (it.succeeded + 1 = it.minSuccess ∧ reached it = 0 ∧ reached { it with succeeded := it.succeeded + 1 } = 1) ∨
    (it.succeeded + 1 < it.minSuccess ∧ reached it = 0 ∧ reached { it with succeeded := it.succeeded + 1 } = 0) ∨
    (it.minSuccess < it.succeeded + 1 ∧ reached it = 1 ∧ reached { it with succeeded := it.succeeded + 1 } = 1) := by
  simp only [reached_eq]
  rcases Int.lt_trichotomy (it.succeeded + 1) it.minSuccess with h | h | h
  · right; left; refine ⟨h, ?_, ?_⟩ <;> (split <;> omega)
  · left; refine ⟨h, ?_, ?_⟩ <;> (split <;> omega)
  · right; right; refine ⟨h, ?_, ?_⟩ <;> (split <;> omega)

theorem reached_le (it : Item) : reached it ≤ 1 := by unfold reached; split <;> omega

/-! unfolding equations as ordinary rewrite rules (so that the `_advance`/`_enter` lemmas, which have
higher priority, win over them) -/
theorem pend_eq (i : Nat) (t : Thread) : pend i t = match t.st with
  | .idle | .inCall | .eStore | .eInc | .sInc => t.todo.count i
  | .wgDone | .fin => 0
  | _ => t.todo.tail.count i := rfl
theorem decC_eq (i : Nat) (t : Thread) : decC i t = match t.st with
  | .eDec | .sDec => headIs i t
  | _ => 0 := rfl
theorem eIncC_eq (i : Nat) (t : Thread) : eIncC i t = match t.st with
  | .eInc => headIs i t
  | _ => 0 := rfl
theorem loadC_eq (i : Nat) (t : Thread) : loadC i t = match t.st with
  | .sFailInc | .sLoad => headIs i t
  | _ => 0 := rfl
theorem pendC_eq (t : Thread) : pendC t = match t.st with | .sPend => 1 | _ => 0 := rfl
theorem failC_eq (t : Thread) : failC t = match t.st with | .eFailInc | .sFailInc => 1 | _ => 0 := rfl
theorem sendEC_eq (t : Thread) : sendEC t = match t.st with | .eSend | .sLoad | .sSend _ => 1 | _ => 0 := rfl
theorem sendDC_eq (t : Thread) : sendDC t = match t.st with | .sDone => 1 | _ => 0 := rfl
theorem live_eq (t : Thread) : live t = match t.st with | .fin => 0 | _ => 1 := rfl

/-! ### `advance` / `enter` -/

theorem advance_id (t : Thread) : t.advance.id = t.id ∧ t.advance.out = t.out := by
  unfold Thread.advance; split <;> simp
theorem enter_id (t : Thread) : t.enter.id = t.id ∧ t.enter.out = t.out := by
  unfold Thread.enter; split <;> simp

/-- the stage after `advance`: `wgDone`, `sInc` or `eStore` — never a committed stage. -/
theorem advance_st (t : Thread) :
    (t.advance.st = .wgDone ∧ t.advance.todo = []) ∨
    (t.advance.st = .sInc ∧ t.out = .ok ∧ t.advance.todo = t.todo.tail ∧ t.todo.tail ≠ []) ∨
    (t.advance.st = .eStore ∧ t.out ≠ .ok ∧ t.advance.todo = t.todo.tail ∧ t.todo.tail ≠ []) := by
  unfold Thread.advance
  split
  · simp
  · rename_i r hr
    by_cases ho : t.out = .ok
    · right; left; simp [ho]; intro h; exact hr h
    · right; right; simp [ho]; intro h; exact hr h

theorem enter_st (t : Thread) :
    (t.enter.st = .wgDone ∧ t.todo = [] ∧ t.enter.todo = []) ∨
    (t.enter.st = .sInc ∧ t.out = .ok ∧ t.enter.todo = t.todo ∧ t.todo ≠ []) ∨
    (t.enter.st = .eStore ∧ t.out ≠ .ok ∧ t.enter.todo = t.todo ∧ t.todo ≠ []) := by
  unfold Thread.enter
  split
  · rename_i h; simp [h]
  · rename_i hne
    by_cases ho : t.out = .ok
    · right; left; simp [ho]; intro h; exact hne h
    · right; right; simp [ho]; intro h; exact hne h

@[simp high] theorem pend_advance (i : Nat) (t : Thread) : pend i t.advance = t.todo.tail.count i := by
  rcases advance_st t with ⟨h, h2⟩ | ⟨h, _, h2, _⟩ | ⟨h, _, h2, _⟩
  · unfold pend; rw [h]; simp
    unfold Thread.advance at h2
    split at h2
    · rename_i h3; simp [h3]
    · rename_i r h3; simp at h2; simp [h2] at h3
  · unfold pend; rw [h, h2]
  · unfold pend; rw [h, h2]

@[simp high] theorem pend_enter (i : Nat) (t : Thread) : pend i t.enter = t.todo.count i := by
  rcases enter_st t with ⟨h, h2, _⟩ | ⟨h, _, h2, _⟩ | ⟨h, _, h2, _⟩
  · unfold pend; rw [h]; simp [h2]
  · unfold pend; rw [h, h2]
  · unfold pend; rw [h, h2]

@[simp high] theorem decC_advance (i : Nat) (t : Thread) : decC i t.advance = 0 := by
  rcases advance_st t with ⟨h, _⟩ | ⟨h, _⟩ | ⟨h, _⟩ <;> (unfold decC; rw [h])
@[simp high] theorem eIncC_advance (i : Nat) (t : Thread) : eIncC i t.advance = 0 := by
  rcases advance_st t with ⟨h, _⟩ | ⟨h, _⟩ | ⟨h, _⟩ <;> (unfold eIncC; rw [h])
@[simp high] theorem loadC_advance (i : Nat) (t : Thread) : loadC i t.advance = 0 := by
  rcases advance_st t with ⟨h, _⟩ | ⟨h, _⟩ | ⟨h, _⟩ <;> (unfold loadC; rw [h])
@[simp high] theorem pendC_advance (t : Thread) : pendC t.advance = 0 := by
  rcases advance_st t with ⟨h, _⟩ | ⟨h, _⟩ | ⟨h, _⟩ <;> (unfold pendC; rw [h])
@[simp high] theorem failC_advance (t : Thread) : failC t.advance = 0 := by
  rcases advance_st t with ⟨h, _⟩ | ⟨h, _⟩ | ⟨h, _⟩ <;> (unfold failC; rw [h])
@[simp high] theorem sendEC_advance (t : Thread) : sendEC t.advance = 0 := by
  rcases advance_st t with ⟨h, _⟩ | ⟨h, _⟩ | ⟨h, _⟩ <;> (unfold sendEC; rw [h])
@[simp high] theorem sendDC_advance (t : Thread) : sendDC t.advance = 0 := by
  rcases advance_st t with ⟨h, _⟩ | ⟨h, _⟩ | ⟨h, _⟩ <;> (unfold sendDC; rw [h])
@[simp high] theorem live_advance (t : Thread) : live t.advance = 1 := by
  rcases advance_st t with ⟨h, _⟩ | ⟨h, _⟩ | ⟨h, _⟩ <;> (unfold live; rw [h])

@[simp high] theorem decC_enter (i : Nat) (t : Thread) : decC i t.enter = 0 := by
  rcases enter_st t with ⟨h, _⟩ | ⟨h, _⟩ | ⟨h, _⟩ <;> (unfold decC; rw [h])
@[simp high] theorem eIncC_enter (i : Nat) (t : Thread) : eIncC i t.enter = 0 := by
  rcases enter_st t with ⟨h, _⟩ | ⟨h, _⟩ | ⟨h, _⟩ <;> (unfold eIncC; rw [h])
@[simp high] theorem loadC_enter (i : Nat) (t : Thread) : loadC i t.enter = 0 := by
  rcases enter_st t with ⟨h, _⟩ | ⟨h, _⟩ | ⟨h, _⟩ <;> (unfold loadC; rw [h])
@[simp high] theorem pendC_enter (t : Thread) : pendC t.enter = 0 := by
  rcases enter_st t with ⟨h, _⟩ | ⟨h, _⟩ | ⟨h, _⟩ <;> (unfold pendC; rw [h])
@[simp high] theorem failC_enter (t : Thread) : failC t.enter = 0 := by
  rcases enter_st t with ⟨h, _⟩ | ⟨h, _⟩ | ⟨h, _⟩ <;> (unfold failC; rw [h])
@[simp high] theorem sendEC_enter (t : Thread) : sendEC t.enter = 0 := by
  rcases enter_st t with ⟨h, _⟩ | ⟨h, _⟩ | ⟨h, _⟩ <;> (unfold sendEC; rw [h])
@[simp high] theorem sendDC_enter (t : Thread) : sendDC t.enter = 0 := by
  rcases enter_st t with ⟨h, _⟩ | ⟨h, _⟩ | ⟨h, _⟩ <;> (unfold sendDC; rw [h])
@[simp high] theorem live_enter (t : Thread) : live t.enter = 1 := by
  rcases enter_st t with ⟨h, _⟩ | ⟨h, _⟩ | ⟨h, _⟩ <;> (unfold live; rw [h])

/-! counters commute with `if` on the thread -/
theorem pend_ite (i : Nat) (c : Prop) [Decidable c] (a b : Thread) : pend i (if c then a else b) = if c then pend i a else pend i b := by split <;> rfl
theorem decC_ite (i : Nat) (c : Prop) [Decidable c] (a b : Thread) : decC i (if c then a else b) = if c then decC i a else decC i b := by split <;> rfl
theorem eIncC_ite (i : Nat) (c : Prop) [Decidable c] (a b : Thread) : eIncC i (if c then a else b) = if c then eIncC i a else eIncC i b := by split <;> rfl
theorem loadC_ite (i : Nat) (c : Prop) [Decidable c] (a b : Thread) : loadC i (if c then a else b) = if c then loadC i a else loadC i b := by split <;> rfl
theorem pendC_ite (c : Prop) [Decidable c] (a b : Thread) : pendC (if c then a else b) = if c then pendC a else pendC b := by split <;> rfl
theorem failC_ite (c : Prop) [Decidable c] (a b : Thread) : failC (if c then a else b) = if c then failC a else failC b := by split <;> rfl
theorem sendEC_ite (c : Prop) [Decidable c] (a b : Thread) : sendEC (if c then a else b) = if c then sendEC a else sendEC b := by split <;> rfl
theorem sendDC_ite (c : Prop) [Decidable c] (a b : Thread) : sendDC (if c then a else b) = if c then sendDC a else sendDC b := by split <;> rfl
theorem live_ite (c : Prop) [Decidable c] (a b : Thread) : live (if c then a else b) = if c then live a else live b := by split <;> rfl

/-! ### inversion of `tickThread` -/

theorem curItem_some {s : St} {t : Thread} {i : Nat} {it : Item} (h : curItem s t = some (i, it)) :
    (∃ rest, t.todo = i :: rest) ∧ s.items[i]? = some it := by
  unfold curItem at h
  split at h
  · simp at h
  · rename_i j rest hj
    split at h
    · rename_i it' hi
      simp at h
      obtain ⟨rfl, rfl⟩ := h
      exact ⟨⟨rest, hj⟩, hi⟩
    · simp at h

/-- one constructor per atomic action of `record` / `wg.Done`, with the explicit successor state. -/
inductive TickR (s : St) (k : Nat) (t : Thread) : St → Prop
  | wgDone (h : t.st = .wgDone) :
      TickR s k t ({ s with wg := s.wg - 1 }.put k { t with st := .fin })
  | eSend (h : t.st = .eSend) (hc : s.errc = none) :
      TickR s k t ({ s with errc := some (some t.id), nErr := s.nErr + 1,
                            sentErr := if s.nErr = 0 then some (some t.id) else s.sentErr }.put k t.advance)
  | sSend (e : Option Nat) (h : t.st = .sSend e) (hc : s.errc = none) :
      TickR s k t ({ s with errc := some e, nErr := s.nErr + 1,
                            sentErr := if s.nErr = 0 then some e else s.sentErr }.put k t.advance)
  | sDone (h : t.st = .sDone) (hd : s.done = 0) :
      TickR s k t ({ s with done := s.done + 1, nDone := s.nDone + 1 }.put k t.advance)
  | eFailInc (h : t.st = .eFailInc) :
      TickR s k t ({ s with failed := s.failed + 1 }.put k
        (if s.failed + 1 = 1 then { t with st := .eSend } else t.advance))
  | sFailInc (h : t.st = .sFailInc) :
      TickR s k t ({ s with failed := s.failed + 1 }.put k
        (if s.failed + 1 = 1 then { t with st := .sLoad } else t.advance))
  | sPend (h : t.st = .sPend) :
      TickR s k t ({ s with pending := s.pending - 1 }.put k
        (if s.pending - 1 = 0 then { t with st := .sDone } else t.advance))
  | eStore (h : t.st = .eStore) (i : Nat) (it : Item) (hc : curItem s t = some (i, it)) :
      TickR s k t (s.putItem i { it with err := some t.id } k { t with st := .eInc })
  | eIncC (h : t.st = .eInc) (ho : t.out = .client) (i : Nat) (it : Item) (hc : curItem s t = some (i, it)) :
      TickR s k t (s.putItem i { it with failedClient := it.failedClient + 1 } k
        (if it.failedClient + 1 > it.maxFailures then { t with st := .eFailInc } else { t with st := .eDec }))
  | eIncS (h : t.st = .eInc) (ho : t.out ≠ .client) (i : Nat) (it : Item) (hc : curItem s t = some (i, it)) :
      TickR s k t (s.putItem i { it with failedServer := it.failedServer + 1 } k
        (if it.failedServer + 1 > it.maxFailures then { t with st := .eFailInc } else { t with st := .eDec }))
  | eDec (h : t.st = .eDec) (i : Nat) (it : Item) (hc : curItem s t = some (i, it)) :
      TickR s k t (s.putItem i { it with remaining := it.remaining - 1 } k
        (if it.remaining - 1 = 0 then { t with st := .eFailInc } else t.advance))
  | sInc (h : t.st = .sInc) (i : Nat) (it : Item) (hc : curItem s t = some (i, it)) :
      TickR s k t (s.putItem i { it with succeeded := it.succeeded + 1 } k
        (if it.succeeded + 1 = it.minSuccess then { t with st := .sPend }
         else if it.succeeded + 1 < it.minSuccess then { t with st := .sDec }
         else t.advance))
  | sDec (h : t.st = .sDec) (i : Nat) (it : Item) (hc : curItem s t = some (i, it)) :
      TickR s k t (s.putItem i { it with remaining := it.remaining - 1 } k
        (if it.remaining - 1 = 0 then { t with st := .sFailInc } else t.advance))
  | sLoad (h : t.st = .sLoad) (i : Nat) (it : Item) (hc : curItem s t = some (i, it)) :
      TickR s k t (s.put k { t with st := .sSend it.err })

theorem tick_sound {s s' : St} {k : Nat} {t : Thread} (h : tickThread s k t = some s') : TickR s k t s' := by
  unfold tickThread at h
  split at h
  · simp at h
  · simp at h
  · simp at h
  · rename_i hs; simp at h; subst h; exact .wgDone hs
  · rename_i hs
    split at h
    · simp at h
    · rename_i hc; simp at h; subst h; exact .eSend hs (by simpa using hc)
  · rename_i e hs
    split at h
    · simp at h
    · rename_i hc; simp at h; subst h; exact .sSend e hs (by simpa using hc)
  · rename_i hs
    split at h
    · simp at h
    · rename_i hc; simp at h; subst h; exact .sDone hs (by omega)
  · rename_i hs; simp at h; subst h; exact .eFailInc hs
  · rename_i hs; simp at h; subst h; exact .sFailInc hs
  · rename_i hs; simp at h; subst h; exact .sPend hs
  · rename_i hs
    split at h
    · simp at h
    · rename_i i it hc; simp at h; subst h; exact .eStore hs i it hc
  · rename_i hs
    split at h
    · simp at h
    · rename_i i it hc
      split at h
      · rename_i ho; simp at h; subst h; exact .eIncC hs ho i it hc
      · rename_i ho; simp at h; subst h; exact .eIncS hs ho i it hc
  · rename_i hs
    split at h
    · simp at h
    · rename_i i it hc; simp at h; subst h; exact .eDec hs i it hc
  · rename_i hs
    split at h
    · simp at h
    · rename_i i it hc; simp at h; subst h; exact .sInc hs i it hc
  · rename_i hs
    split at h
    · simp at h
    · rename_i i it hc; simp at h; subst h; exact .sDec hs i it hc
  · rename_i hs
    split at h
    · simp at h
    · rename_i i it hc; simp at h; subst h; exact .sLoad hs i it hc

end PfC10
