import Proofs.C10.InvI
/-! # C10 proofs: a failure signal is claimed only for a key that can no longer reach its quorum -/
namespace PfC10
open C10

/-- item `i` has failed for good: one error family exceeds the tolerance, or nobody is left to
acknowledge it and the quorum is not reached. (Stable under every transition.) -/
def Doomed (s : St) (i : Nat) (it : Item) : Prop :=
  it.maxFailures < it.failedClient ∨ it.maxFailures < it.failedServer ∨
    (sumT (pend i) s.thr = 0 ∧ it.succeeded < it.minSuccess)

theorem getElem?_set_self' {α} {l : List α} {i : Nat} {a : α} (b : α) (h : l[i]? = some a) :
    (l.set i b)[i]? = some b := by
  have := (List.getElem?_eq_some_iff.mp h).1
  simp [List.getElem?_set, this]

theorem getElem?_set_ne' {α} {l : List α} {i j : Nat} (b : α) (hne : i ≠ j) : (l.set i b)[j]? = l[j]? := by
  simp [List.getElem?_set, hne]

theorem doomed_mono {s s' : St} (h : StepR s s') {i : Nat} {it : Item}
    (hj : s.items[i]? = some it) (hd : Doomed s i it) : ∃ it', s'.items[i]? = some it' ∧ Doomed s' i it' := by
  cases h with
  | tick k t s' hk hT =>
    have hg := ge_all hk i
    cases hT with
    | wgDone hst | eSend hst hc | sSend e hst hc | eFailInc hst | sFailInc hst | sDone hst hd' | sPend hst
    | sLoad hst i0 it0 hc =>
      refine ⟨it, hj, ?_⟩
      unfold Doomed at *
      cnt_simp hk hst <;> arith
    | eStore hst i0 it0 hc | eIncC hst ho i0 it0 hc | eIncS hst ho i0 it0 hc | eDec hst i0 it0 hc
    | sInc hst i0 it0 hc | sDec hst i0 it0 hc =>
      obtain ⟨⟨rest, htodo⟩, hit⟩ := curItem_some hc
      by_cases hne : i0 = i
      · subst hne
        have : it0 = it := by rw [hit] at hj; exact Option.some.inj hj
        subst this
        refine ⟨_, getElem?_set_self' _ hit, ?_⟩
        unfold Doomed at *
        cnt_simp hk hst <;> (try simp only [count_head_self htodo, headIs_self htodo] at *) <;> arith
      · refine ⟨it, by simp only [St.putItem]; rw [getElem?_set_ne' _ hne]; exact hj, ?_⟩
        unfold Doomed at *
        cnt_simp hk hst <;> (try simp only [count_head_ne htodo hne, headIs_ne htodo hne] at *) <;> arith
  | start k t hk hs | ret k t hk hs =>
    have hg := ge_all hk i
    refine ⟨it, hj, ?_⟩
    unfold Doomed at *
    cnt_simp hk hs <;> arith
  | cleanup hw hc | cancel | recvDone hr hd' | recvErr e hr he | recvCtx hr hc => exact ⟨it, hj, hd⟩

macro "arith2" : tactic => `(tactic| (repeat' (first | omega | assumption | split | (intro _))))

def InvJ (s : St) : Prop :=
  1 ≤ s.failed + (sumT failC s.thr : Nat) → ∃ i it, s.items[i]? = some it ∧ Doomed s i it

theorem invJ_step {s s' : St} (hI : InvI s) (hE : InvE s) (hJ : InvJ s) (h : StepR s s') : InvJ s' := by
  intro hc'
  by_cases hold : 1 ≤ s.failed + (sumT failC s.thr : Nat)
  · obtain ⟨i, it, hj, hd⟩ := hJ hold
    obtain ⟨it', h1, h2⟩ := doomed_mono h hj hd
    exact ⟨i, it', h1, h2⟩
  · have fnn := hE.fnn
    cases h with
    | tick k t s' hk hT =>
      have hg := ge_all hk 0
      cases hT with
      | wgDone hst | eSend hst hc | sSend e hst hc | eFailInc hst | sFailInc hst | sDone hst hd' | sPend hst
      | sLoad hst i0 it0 hc | eStore hst i0 it0 hc | sInc hst i0 it0 hc =>
        exfalso
        revert hc'
        cnt_simp hk hst <;> arith2
      | eIncC hst ho i0 it0 hc | eIncS hst ho i0 it0 hc | eDec hst i0 it0 hc | sDec hst i0 it0 hc =>
        obtain ⟨⟨rest, htodo⟩, hit⟩ := curItem_some hc
        obtain ⟨a1, a2, a3, a4, a5, a6, a7, a8, a9, a10⟩ := hI i0 it0 hit
        have hg' := ge_all hk i0
        refine ⟨i0, _, getElem?_set_self' _ hit, ?_⟩
        unfold Doomed
        revert hc'
        cnt_simp hk hst <;> (try simp only [count_head_self htodo, headIs_self htodo] at *) <;> arith2
    | start k t hk hs | ret k t hk hs =>
      have hg := ge_all hk 0
      exfalso
      revert hc'
      cnt_simp hk hs <;> arith2
    | cleanup hw hc | cancel | recvDone hr hd' | recvErr e hr he | recvCtx hr hc => exact absurd hc' hold

end PfC10
