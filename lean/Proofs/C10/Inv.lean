import Proofs.C10.InvP
/-! # C10 proofs: the combined invariant, its initial states, and reachability -/
namespace PfC10
open C10

/-- every index a goroutine still has to record denotes an existing tracker -/
def InvT (s : St) : Prop := ∀ t ∈ s.thr, ∀ i ∈ t.todo, i < s.items.length

theorem items_length {s s' : St} (h : StepR s s') : s'.items.length = s.items.length := by
  rcases step_items h with heq | ⟨i0, it0, it', _, hset, _⟩
  · rw [heq]
  · rw [hset, List.length_set]

theorem invT_step {s s' : St} (hT : InvT s) (h : StepR s s') : InvT s' := by
  intro x hx i hi
  rw [items_length h]
  rcases step_thread h with heq | ⟨k, t, t', hk, hset, hg⟩
  · exact hT x (heq ▸ hx) i hi
  · rw [hset] at hx
    rcases List.mem_or_eq_of_mem_set hx with hin | rfl
    · exact hT x hin i hi
    · rcases hg with g | ⟨_, rfl⟩
      · exact hT t (List.mem_of_getElem? hk) i (g.td i hi)
      · exact hT t (List.mem_of_getElem? hk) i hi

/-- a goroutine whose next action reads its current item has one -/
def InvS (s : St) : Prop := ∀ t ∈ s.thr, needsItem t.st → t.todo ≠ []

theorem invS_step {s s' : St} (hS : InvS s) (h : StepR s s') : InvS s' := by
  intro x hx hn
  rcases step_thread h with heq | ⟨k, t, t', hk, hset, hg⟩
  · exact hS x (heq ▸ hx) hn
  · rw [hset] at hx
    rcases List.mem_or_eq_of_mem_set hx with hin | rfl
    · exact hS x hin hn
    · rcases hg with g | ⟨_, rfl⟩
      · exact g.ne (hS t (List.mem_of_getElem? hk)) hn
      · simp [needsItem] at hn

structure Inv (s : St) : Prop where
  w : InvW s
  e : InvE s
  d : InvD s
  i : InvI s
  j : InvJ s
  p : InvP s
  t : InvT s
  s : InvS s

theorem inv_step {s s' : St} (hi : Inv s) (h : StepR s s') : Inv s' :=
  ⟨invW_step hi.w h, invE_step hi.e h, invD_step hi.d h, invI_step_thread hi.i hi.e h,
   invJ_step hi.i hi.e hi.j h, invP_step hi.i hi.p h, invT_step hi.t h, invS_step hi.s h⟩

theorem inv_reach {s0 s : St} (h0 : Inv s0) (hr : Reach s0 s) : Inv s := by
  induction hr with
  | refl => exact h0
  | step a b ev _ hs ih => exact inv_step ih (step_sound hs)

/-- the states in which the caller enters its `select`: trackers fresh, every goroutine spawned and
idle, and the per-key bookkeeping consistent with the grouping: key `i` occurs in the index lists
exactly `minSuccess + maxFailures` (= number of its replicas) times. -/
structure WFInit (s : St) : Prop where
  idle : ∀ t ∈ s.thr, t.st = .idle
  todo : ∀ t ∈ s.thr, ∀ i ∈ t.todo, i < s.items.length
  items : ∀ (i : Nat) (it : Item), s.items[i]? = some it →
    1 ≤ it.minSuccess ∧ 0 ≤ it.maxFailures ∧ it.succeeded = 0 ∧ it.failedClient = 0 ∧ it.failedServer = 0 ∧
    it.remaining = it.minSuccess + it.maxFailures ∧ it.err = none ∧
    ((sumT (fun t => t.todo.count i) s.thr : Nat) : Int) = it.minSuccess + it.maxFailures
  pending : s.pending = s.items.length
  failed : s.failed = 0
  done : s.done = 0
  errc : s.errc = none
  wg : s.wg = s.thr.length
  cleanup : s.cleanup = 0
  ret : s.ret = none
  nDone : s.nDone = 0
  nErr : s.nErr = 0
  sentErr : s.sentErr = none

theorem sumT_congr {α} (f g : α → Nat) (l : List α) (h : ∀ a ∈ l, f a = g a) : sumT f l = sumT g l := by
  induction l with
  | nil => rfl
  | cons x xs ih =>
    simp only [sumT_cons]
    rw [h x (by simp), ih (fun a ha => h a (by simp [ha]))]

theorem sumT_const_one {α} (f : α → Nat) (l : List α) (h : ∀ a ∈ l, f a = 1) : sumT f l = l.length := by
  induction l with
  | nil => rfl
  | cons x xs ih =>
    simp only [sumT_cons, List.length_cons]
    rw [h x (by simp), ih (fun a ha => h a (by simp [ha]))]; omega

theorem inv_init {s : St} (h : WFInit s) : Inv s := by
  have z : ∀ (f : Thread → Nat), (∀ t, t.st = .idle → f t = 0) → sumT f s.thr = 0 :=
    fun f hf => sumT_eq_zero f s.thr (fun t ht => hf t (h.idle t ht))
  have zpendC := z pendC (fun t ht => by rw [pendC_eq, ht])
  have zfailC := z failC (fun t ht => by rw [failC_eq, ht])
  have zsendEC := z sendEC (fun t ht => by rw [sendEC_eq, ht])
  have zsendDC := z sendDC (fun t ht => by rw [sendDC_eq, ht])
  have hlive : sumT live s.thr = s.thr.length :=
    sumT_const_one live s.thr (fun t ht => by rw [live_eq, h.idle t ht])
  have hreach : sumT reached s.items = 0 := by
    apply sumT_eq_zero
    intro it hit
    obtain ⟨i, hi⟩ := List.mem_iff_getElem?.mp hit
    obtain ⟨h1, _, h3, _⟩ := h.items i it hi
    rw [reached_eq]; split <;> omega
  refine ⟨⟨?_, ?_, ?_⟩, ⟨?_, ?_, ?_, ?_, ?_, ?_⟩, ⟨?_, ?_, ?_, ?_, ?_, ?_⟩, ?_, ?_, ⟨?_, ?_, ?_, ?_⟩, h.todo, ?_⟩
  · rw [h.wg, hlive]
  · rw [h.cleanup]; omega
  · rw [h.cleanup]; intro hc; omega
  · rw [h.failed]; omega
  · rw [h.nErr, h.failed, zsendEC]; simp; omega
  · rw [h.errc]; simp
  · rw [h.nErr]; intro _ hc; omega
  · rw [h.errc]; simp
  · rw [h.ret]; simp
  · rw [h.pending, hreach, zpendC]
  · exact .inl zpendC
  · right; rw [h.nDone, zsendDC, hreach]; simp
  · rw [h.done, h.nDone]; omega
  · intro _; rw [h.done, h.nDone]
  · rw [h.ret]; simp
  · intro i it hi
    obtain ⟨h1, h2, h3, h4, h5, h6, h7, h8⟩ := h.items i it hi
    have hp : sumT (pend i) s.thr = sumT (fun t => t.todo.count i) s.thr :=
      sumT_congr _ _ _ (fun t ht => by rw [pend_eq, h.idle t ht])
    have hd := z (decC i) (fun t ht => by rw [decC_eq, ht])
    have hei := z (eIncC i) (fun t ht => by rw [eIncC_eq, ht])
    have hl := z (loadC i) (fun t ht => by rw [loadC_eq, ht])
    refine ⟨h1, h2, by omega, by omega, by omega, ?_, ?_, ?_, ?_, ?_⟩
    · rw [hp]; omega
    · rw [hd, h3, h4, h5, h6]; omega
    · left; rw [hei, h4, h5]; simp
    · exact .inl hl
    · left; omega
  · intro hc; rw [h.failed, zfailC] at hc; omega
  · intro t ht he; rw [h.idle t ht] at he; simp [errStage] at he
  · intro i it a hi he
    rw [(h.items i it hi).2.2.2.2.2.2.1] at he; simp at he
  · intro t ht e he; rw [h.idle t ht] at he; simp at he
  · intro e he; rw [h.sentErr] at he; simp at he
  · intro t ht hn; rw [h.idle t ht] at hn; simp [needsItem] at hn

end PfC10
