import Proofs.C10.Step
/-! # C10 proofs: wait group and cleanup -/
namespace PfC10
open C10

structure InvW (s : St) : Prop where
  wg : s.wg = (sumT live s.thr : Nat)
  cl : s.cleanup ≤ 1
  clwg : s.cleanup = 1 → s.wg = 0

/-- facts `f t ≤ Σ f` for all counters (for `omega`, after rewriting with `sumT_set'`). -/
theorem ge_all {s : St} {k : Nat} {t : Thread} (hk : s.thr[k]? = some t) (j : Nat) :
    pend j t ≤ sumT (pend j) s.thr ∧ decC j t ≤ sumT (decC j) s.thr ∧ eIncC j t ≤ sumT (eIncC j) s.thr ∧
    loadC j t ≤ sumT (loadC j) s.thr ∧ pendC t ≤ sumT pendC s.thr ∧ failC t ≤ sumT failC s.thr ∧
    sendEC t ≤ sumT sendEC s.thr ∧ sendDC t ≤ sumT sendDC s.thr ∧ live t ≤ sumT live s.thr :=
  ⟨sumT_ge _ _ _ _ hk, sumT_ge _ _ _ _ hk, sumT_ge _ _ _ _ hk, sumT_ge _ _ _ _ hk, sumT_ge _ _ _ _ hk,
   sumT_ge _ _ _ _ hk, sumT_ge _ _ _ _ hk, sumT_ge _ _ _ _ hk, sumT_ge _ _ _ _ hk⟩

theorem invW_step {s s' : St} (hi : InvW s) (h : StepR s s') : InvW s' := by
  obtain ⟨h1, h2, h3⟩ := hi
  cases h with
  | tick k t s' hk hT =>
    have hge := (ge_all hk 0).2.2.2.2.2.2.2.2
    cases hT <;> refine ⟨?_, ?_, ?_⟩ <;> simp only [St.put, St.putItem, sumT_set' _ _ hk] <;>
      (try split) <;> (try split) <;> simp [live_eq, *] at hge ⊢ <;> omega
  | start k t hk hs =>
    have hge := (ge_all hk 0).2.2.2.2.2.2.2.2
    refine ⟨?_, ?_, ?_⟩ <;> simp only [sumT_set' _ _ hk] <;> simp [live_eq, *] at hge ⊢ <;> omega
  | ret k t hk hs =>
    have hge := (ge_all hk 0).2.2.2.2.2.2.2.2
    refine ⟨?_, ?_, ?_⟩ <;> simp only [sumT_set' _ _ hk] <;> simp [live_eq, *] at hge ⊢ <;> omega
  | cleanup hw hc => constructor <;> simp_all
  | cancel => exact ⟨h1, h2, h3⟩
  | recvDone hr hd => exact ⟨h1, h2, h3⟩
  | recvErr e hr he => exact ⟨h1, h2, h3⟩
  | recvCtx hr hc => exact ⟨h1, h2, h3⟩

end PfC10
