import Proofs.C10.Link
/-!
# C10 proofs: the reported error comes from a replica OF A KEY THAT FAILED

Strengthening of `InvP` (provenance): the value sent on `err` is the error returned by a replica `a`
that serves a key `i` (`i` is in the index list `a` was called with) whose failure condition has fired
(`Trig`: one family above the tolerance, or the last replica counted).
-/
namespace PfC10
open C10

/-- the failure condition of key `i` has fired (stable under every transition) -/
def Trig (s : St) (i : Nat) : Prop :=
  ∃ it, s.items[i]? = some it ∧
    (it.maxFailures < it.failedClient ∨ it.maxFailures < it.failedServer ∨ it.remaining ≤ 0)

/-- replica `a` returned an error and serves key `i` -/
def ErrFor (calls : Groups) (s : St) (i a : Nat) : Prop := ReturnedErr s a ∧ i ∈ get calls a

def failing (st : Stage) : Prop := st = .eFailInc ∨ st = .eSend ∨ st = .sFailInc ∨ st = .sLoad

theorem trig_mono {s s' : St} (h : StepR s s') {i : Nat} (ht : Trig s i) : Trig s' i := by
  obtain ⟨it, hit, hc⟩ := ht
  cases h with
  | tick k t s' hk hT =>
    cases hT with
    | wgDone hst | eSend hst hc' | sSend e hst hc' | sDone hst hd | eFailInc hst | sFailInc hst | sPend hst
    | sLoad hst i0 it0 hc' => exact ⟨it, hit, hc⟩
    | eStore hst i0 it0 hc' | eIncC hst ho i0 it0 hc' | eIncS hst ho i0 it0 hc' | eDec hst i0 it0 hc'
    | sInc hst i0 it0 hc' | sDec hst i0 it0 hc' =>
      obtain ⟨_, hit0⟩ := curItem_some hc'
      by_cases hne : i0 = i
      · subst hne
        have : it0 = it := by rw [hit0] at hit; exact Option.some.inj hit
        subst this
        refine ⟨_, getElem?_set_self' _ hit0, ?_⟩
        simp only
        omega
      · exact ⟨it, by simp only [St.putItem]; rw [getElem?_set_ne' _ hne]; exact hit, hc⟩
  | start k t hk hs | ret k t hk hs | cleanup hw hc' | cancel | recvDone hr hd | recvErr e hr he | recvCtx hr hc' =>
    exact ⟨it, hit, hc⟩

theorem errFor_mono {calls : Groups} {s s' : St} (h : StepR s s') {i a : Nat} (he : ErrFor calls s i a) :
    ErrFor calls s' i a := ⟨returnedErr_mono h he.1, he.2⟩

/-- what the stepping goroutine looks like afterwards, as far as the failure path is concerned -/
theorem tick_failing {s s' : St} {k : Nat} {t : Thread} (hT : TickR s k t s') (hk : s.thr[k]? = some t)
    (x : Thread) (hx : s'.thr[k]? = some x) (hf : failing x.st) :
    x.todo = t.todo ∧ (failing t.st ∨ ∃ i rest, t.todo = i :: rest ∧ Trig s' i) := by
  have key : ∀ (T' : Thread), s'.thr = s.thr.set k T' → x = T' := by
    intro T' h
    rw [h, getElem?_set_self' _ hk] at hx
    exact (Option.some.inj hx).symm
  have hadv : ¬ failing t.advance.st := by
    rcases advance_st t with h | h | h <;> rw [h.1] <;> simp [failing]
  cases hT with
  | wgDone hst => have := key _ rfl; subst this; simp [failing] at hf
  | eSend hst hc | sSend e hst hc | sDone hst hd => have := key _ rfl; subst this; exact absurd hf hadv
  | eFailInc hst | sFailInc hst =>
    have := key _ rfl; subst this
    split at hf
    · split
      · exact ⟨rfl, .inl (by simp [failing, hst])⟩
      · rename_i h1 h2; exact absurd h1 h2
    · exact absurd hf hadv
  | sPend hst =>
    have := key _ rfl; subst this
    split at hf
    · simp [failing] at hf
    · exact absurd hf hadv
  | eStore hst i it hc => have := key _ rfl; subst this; simp [failing] at hf
  | sLoad hst i it hc => have := key _ rfl; subst this; simp [failing] at hf
  | eIncC hst ho i it hc | eIncS hst ho i it hc =>
    obtain ⟨⟨rest, htodo⟩, hit⟩ := curItem_some hc
    have := key _ rfl; subst this
    split at hf
    · rename_i hgt
      split
      · refine ⟨rfl, .inr ⟨i, rest, htodo, _, getElem?_set_self' _ hit, ?_⟩⟩
        simp only; omega
      · rename_i h2; exact absurd hgt h2
    · simp [failing] at hf
  | eDec hst i it hc | sDec hst i it hc =>
    obtain ⟨⟨rest, htodo⟩, hit⟩ := curItem_some hc
    have := key _ rfl; subst this
    split at hf
    · rename_i hz
      split
      · refine ⟨rfl, .inr ⟨i, rest, htodo, _, getElem?_set_self' _ hit, ?_⟩⟩
        simp only; omega
      · rename_i h2; exact absurd hz h2
    · exact absurd hf hadv
  | sInc hst i it hc =>
    have := key _ rfl; subst this
    split at hf
    · simp [failing] at hf
    · split at hf
      · simp [failing] at hf
      · exact absurd hf hadv

structure InvQ (calls : Groups) (s : St) : Prop where
  sub : ∀ t ∈ s.thr, ∀ i ∈ t.todo, i ∈ get calls t.id
  itemErr : ∀ (i : Nat) (it : Item) (a : Nat), s.items[i]? = some it → it.err = some a → ErrFor calls s i a
  failSt : ∀ t ∈ s.thr, failing t.st → ∃ i rest, t.todo = i :: rest ∧ Trig s i
  sSend : ∀ t ∈ s.thr, ∀ e, t.st = .sSend e → ∃ a i, e = some a ∧ ErrFor calls s i a ∧ Trig s i
  sent : ∀ e, s.sentErr = some e → ∃ a i, e = some a ∧ ErrFor calls s i a ∧ Trig s i

/-- where a changed item's stored error comes from -/
theorem step_items_key {s s' : St} (h : StepR s s') :
    s'.items = s.items ∨ ∃ (i0 : Nat) (it0 it' : Item), s.items[i0]? = some it0 ∧ s'.items = s.items.set i0 it' ∧
      (it'.err = it0.err ∨ ∃ (k : Nat) (t : Thread) (rest : List Nat), s.thr[k]? = some t ∧ t.st = .eStore ∧
        t.todo = i0 :: rest ∧ it'.err = some t.id ∧ s'.thr = s.thr.set k { t with st := .eInc }) := by
  cases h with
  | tick k t s' hk hT =>
    cases hT with
    | wgDone hst | eSend hst hc | sSend e hst hc | sDone hst hd | eFailInc hst | sFailInc hst | sPend hst
    | sLoad hst i it hc => exact .inl rfl
    | eStore hst i it hc =>
      obtain ⟨⟨rest, htodo⟩, hit⟩ := curItem_some hc
      exact .inr ⟨i, it, _, hit, rfl, .inr ⟨k, t, rest, hk, hst, htodo, rfl, rfl⟩⟩
    | eIncC hst ho i it hc | eIncS hst ho i it hc | eDec hst i it hc | sInc hst i it hc | sDec hst i it hc =>
      exact .inr ⟨i, it, _, (curItem_some hc).2, rfl, .inl rfl⟩
  | start k t hk hs | ret k t hk hs | cleanup hw hc | cancel | recvDone hr hd | recvErr e hr he | recvCtx hr hc =>
    exact .inl rfl

theorem invQ_step {calls : Groups} {s s' : St} (hI : InvI s) (hP : InvP s) (hQ : InvQ calls s) (h : StepR s s') :
    InvQ calls s' := by
  obtain ⟨q1, q2, q3, q4, q5⟩ := hQ
  refine ⟨?_, ?_, ?_, ?_, ?_⟩
  · -- todo ⊆ the index list the goroutine was started with
    intro x hx i hi
    rcases step_thread h with heq | ⟨k, t, t', hk, hset, hg⟩
    · exact q1 x (heq ▸ hx) i hi
    · rw [hset] at hx
      rcases List.mem_or_eq_of_mem_set hx with hin | rfl
      · exact q1 x hin i hi
      · rcases hg with g | ⟨_, rfl⟩
        · rw [g.id]; exact q1 t (List.mem_of_getElem? hk) i (g.td i hi)
        · exact q1 t (List.mem_of_getElem? hk) i hi
  · -- stored errors: returned by a replica of that key
    intro i it a hi he
    rcases step_items_key h with heq | ⟨i0, it0, it', hi0, hset, herr⟩
    · exact errFor_mono h (q2 i it a (heq ▸ hi) he)
    · rw [hset] at hi
      rcases getElem?_set_cases hi with ⟨rfl, rfl⟩ | ⟨_, hi'⟩
      · rcases herr with herr | ⟨k, t, rest, hk, hst, htodo, herr, hthr⟩
        · exact errFor_mono h (q2 i0 it0 a hi0 (herr ▸ he))
        · rw [herr] at he
          have ha : t.id = a := Option.some.inj he
          have hmem := List.mem_of_getElem? hk
          refine ⟨⟨{ t with st := .eInc }, hthr ▸ mem_set_self' _ hk, ha, hP.out t hmem (by simp [errStage, hst]),
            by simp, by simp⟩, ?_⟩
          rw [← ha]; exact q1 t hmem i0 (by simp [htodo])
      · exact errFor_mono h (q2 i it a hi' he)
  · -- a goroutine on the failure path works on a key whose failure condition has fired
    intro x hx hf
    cases h with
    | tick k t s' hk hT =>
      obtain ⟨t', h1, hg⟩ := tick_good hT
      rw [h1] at hx
      rcases List.mem_or_eq_of_mem_set hx with hin | rfl
      · obtain ⟨i, rest, h2, h3⟩ := q3 x hin hf
        exact ⟨i, rest, h2, trig_mono (.tick k t s' hk hT) h3⟩
      · have hxk : s'.thr[k]? = some x := by rw [h1]; exact getElem?_set_self' _ hk
        obtain ⟨e1, e2⟩ := tick_failing hT hk x hxk hf
        rcases e2 with e2 | ⟨i, rest, e3, e4⟩
        · obtain ⟨i, rest, h2, h3⟩ := q3 t (List.mem_of_getElem? hk) e2
          exact ⟨i, rest, e1.trans h2, trig_mono (.tick k t s' hk hT) h3⟩
        · exact ⟨i, rest, e1.trans e3, e4⟩
    | start k t hk hs =>
      simp only at hx
      rcases List.mem_or_eq_of_mem_set hx with hin | rfl
      · exact q3 x hin hf
      · simp [failing] at hf
    | ret k t hk hs =>
      simp only at hx
      rcases List.mem_or_eq_of_mem_set hx with hin | rfl
      · exact q3 x hin hf
      · exfalso
        rcases enter_st t with h | h | h <;> rw [h.1] at hf <;> simp [failing] at hf
    | cleanup hw hc | cancel | recvDone hr hd | recvErr e hr he | recvCtx hr hc => exact q3 x hx hf
  · -- a loaded error: stored on the key the goroutine is failing on
    intro x hx e he
    rcases step_thread h with heq | ⟨k, t, t', hk, hset, hg⟩
    · obtain ⟨a, i, ha, h1, h2⟩ := q4 x (heq ▸ hx) e he
      exact ⟨a, i, ha, errFor_mono h h1, trig_mono h h2⟩
    · rw [hset] at hx
      rcases List.mem_or_eq_of_mem_set hx with hin | rfl
      · obtain ⟨a, i, ha, h1, h2⟩ := q4 x hin e he
        exact ⟨a, i, ha, errFor_mono h h1, trig_mono h h2⟩
      · rcases hg with g | ⟨_, rfl⟩
        · obtain ⟨i, it, hc, hst, rfl⟩ := g.ss e he
          obtain ⟨⟨rest, htodo⟩, hit⟩ := curItem_some hc
          have hmem := List.mem_of_getElem? hk
          obtain ⟨i', rest', h2, h3⟩ := q3 t hmem (by simp [failing, hst])
          have hii : i' = i := by rw [htodo] at h2; cases h2; rfl
          subst hii
          have hII := hI i' it hit
          have hge := (ge_all hk i').2.2.2.1
          have hl : loadC i' t = 1 := by rw [loadC_eq, hst]; exact headIs_self htodo
          have hcv : 1 ≤ it.failedClient + it.failedServer := by
            rcases hII.loadOk with h0 | h1
            · omega
            · exact h1
          have hsome : it.err.isSome = true := by
            rcases hII.errSome with h0 | h1
            · have := hII.nnC; have := hII.nnV; omega
            · exact h1
          obtain ⟨a, ha⟩ := Option.isSome_iff_exists.mp hsome
          exact ⟨a, i', ha, errFor_mono h (q2 i' it a hit ha), trig_mono h h3⟩
        · simp at he
  · -- what is sent on `err`
    intro e he
    rcases step_sent h with heq | ⟨k, t, hk, ⟨hst, hs⟩ | ⟨e', hst, hs⟩⟩
    · obtain ⟨a, i, ha, h1, h2⟩ := q5 e (heq ▸ he)
      exact ⟨a, i, ha, errFor_mono h h1, trig_mono h h2⟩
    · rw [hs] at he
      have : e = some t.id := (Option.some.inj he).symm
      have hmem := List.mem_of_getElem? hk
      obtain ⟨i, rest, h2, h3⟩ := q3 t hmem (by simp [failing, hst])
      refine ⟨t.id, i, this, errFor_mono h ⟨⟨t, hmem, rfl, hP.out t hmem (by simp [errStage, hst]), by simp [hst], by simp [hst]⟩,
        q1 t hmem i (by simp [h2])⟩, trig_mono h h3⟩
    · rw [hs] at he
      have : e = e' := (Option.some.inj he).symm
      subst this
      obtain ⟨a, i, ha, h1, h2⟩ := q4 t (List.mem_of_getElem? hk) e hst
      exact ⟨a, i, ha, errFor_mono h h1, trig_mono h h2⟩

theorem invQ_reach {calls : Groups} {s0 s : St} (h0 : WFInit s0) (hQ : InvQ calls s0) (hr : Reach s0 s) : InvQ calls s := by
  induction hr with
  | refl => exact hQ
  | step a b ev hra hs ih =>
    have hI := inv_of_reach h0 hra
    exact invQ_step hI.i hI.p ih (step_sound hs)

theorem invQ_init {icount : Int} {ca : Option Nat} {gets : List GetRes} {p : Prep}
    (hp : prepare icount ca gets = .ok p) (out : Nat → Outcome) : InvQ p.calls (initSt p out) := by
  obtain ⟨l, h1, h2, h3, _⟩ := prepare_ok hp
  have hn : (keys p.calls).Nodup := by rw [h3]; exact nodup_groupFrom _ [] 0 (by simp [keys])
  refine ⟨?_, ?_, ?_, ?_, ?_⟩
  · intro t ht i hi
    simp only [initSt, mkThreads, List.mem_map] at ht
    obtain ⟨⟨a, idx⟩, hc, rfl⟩ := ht
    simp only at hi ⊢
    rw [get_of_mem p.calls a idx hn hc]; exact hi
  · intro i it a hi he
    simp only [initSt] at hi
    rw [h2, List.getElem?_map] at hi
    cases hl : l[i]? with
    | none => simp [hl] at hi
    | some q => simp [hl] at hi; subst hi; simp [mkItem] at he
  · intro t ht hf
    simp only [initSt, mkThreads, List.mem_map] at ht
    obtain ⟨c, _, rfl⟩ := ht
    simp [failing] at hf
  · intro t ht e he
    simp only [initSt, mkThreads, List.mem_map] at ht
    obtain ⟨c, _, rfl⟩ := ht
    simp at he
  · intro e he; simp [initSt] at he

/-- **Provenance, full form.** Whatever has been sent on `err` (hence whatever error `DoBatch` returns) is the
error returned by a replica `a` that serves a key `i` which has failed for good: `i` was among the
indexes `a` was called with, `a`'s callback returned an error, key `i`'s failure condition has fired and
the key has not (and never will have) its quorum. -/
theorem err_provenance_key' {icount : Int} {ca : Option Nat} {gets : List GetRes} {p : Prep}
    {out : Nat → Outcome} {evs : List Ev} {s : St} (hg : GoodGets gets)
    (hp : prepare icount ca gets = .ok p) (hr : run (initSt p out) evs = some s) (e : Option Nat)
    (he : s.sentErr = some e) :
    ∃ (a i : Nat) (it : Item), e = some a ∧ ReturnedErr s a ∧ i ∈ get p.calls a ∧ s.items[i]? = some it ∧
      (it.maxFailures < it.failedClient ∨ it.maxFailures < it.failedServer ∨ it.remaining ≤ 0) ∧
      it.succeeded < it.minSuccess := by
  have hreach := reach_of_run hr
  have hwf := wf_initSt hg hp out
  have hI := inv_of_reach hwf hreach
  obtain ⟨a, i, ha, ⟨h1, h2⟩, it, hit, htr⟩ := (invQ_reach hwf (invQ_init hp out) hreach).sent e he
  refine ⟨a, i, it, ha, h1, h2, hit, htr, ?_⟩
  apply Int.lt_of_not_ge
  intro hq
  have := reached_safe hI hit hq
  omega

end PfC10
