import Proofs.C10.InvW
/-! # C10 proofs: the `done` channel and `rpcsPending` -/
namespace PfC10
open C10

structure InvD (s : St) : Prop where
  pend : s.pending + (sumT reached s.items : Nat) = (s.items.length : Nat) + (sumT pendC s.thr : Nat)
  ppos : sumT pendC s.thr = 0 ∨ 1 ≤ sumT reached s.items
  dn : (s.pending = 0 ∧ 1 ≤ sumT reached s.items ∧ s.nDone + sumT sendDC s.thr = 1) ∨
       ((s.pending ≠ 0 ∨ sumT reached s.items = 0) ∧ s.nDone + sumT sendDC s.thr = 0)
  ch : s.done ≤ s.nDone
  ch2 : s.ret = none → s.done = s.nDone
  retd : s.ret = some .done → s.nDone = 1

theorem reached_sum_le (s : St) : sumT reached s.items ≤ s.items.length :=
  sumT_le_length reached s.items (fun a _ => reached_le a)

/-- facts about the item sums for `omega` -/
theorem item_ge {s : St} {i : Nat} {it : Item} (hi : s.items[i]? = some it) :
    reached it ≤ sumT reached s.items ∧ sumT reached s.items ≤ s.items.length ∧
    (reached it = 0 → sumT reached s.items < s.items.length) :=
  ⟨sumT_ge _ _ _ _ hi, reached_sum_le s, fun h => sumT_lt_length reached s.items (fun a _ => reached_le a) i it hi h⟩

/-- normalise the counters of the old thread `t` (stage known by `hst`) and of the new thread, everywhere. -/
macro "cnt_simp" hk:ident hst:ident : tactic =>
  `(tactic| (
    simp only [St.put, St.putItem, sumT_set' _ _ $hk, pend_ite, decC_ite, eIncC_ite, loadC_ite, pendC_ite,
      failC_ite, sendEC_ite, sendDC_ite, live_ite] at *
    try simp only [pend_advance, decC_advance, eIncC_advance, loadC_advance, pendC_advance, failC_advance,
      sendEC_advance, sendDC_advance, live_advance, pend_enter, decC_enter, eIncC_enter, loadC_enter, pendC_enter,
      failC_enter, sendEC_enter, sendDC_enter, live_enter] at *
    try simp only [$hst:ident, headIs_st, pend_eq, decC_eq, eIncC_eq, loadC_eq, pendC_eq, failC_eq, sendEC_eq, sendDC_eq,
      live_eq] at *))

macro "arith" : tactic => `(tactic| (repeat' (first | omega | assumption | split)))

theorem invD_step {s s' : St} (hi : InvD s) (h : StepR s s') : InvD s' := by
  obtain ⟨h1, h2, h3, h4, h5, h6⟩ := hi
  have hle := reached_sum_le s
  cases h with
  | tick k t s' hk hT =>
    have hg := ge_all hk 0
    have hge1 := hg.2.2.2.2.1
    have hge2 := hg.2.2.2.2.2.2.2.1
    clear hg
    cases hT with
    | wgDone hst | eSend hst hc | sSend e hst hc | eFailInc hst | sFailInc hst | sDone hst hd | sPend hst =>
      refine ⟨?_, ?_, ?_, ?_, ?_, ?_⟩ <;> cnt_simp hk hst <;> arith
    | eStore hst i it hc | eIncC hst ho i it hc | eIncS hst ho i it hc | eDec hst i it hc | sDec hst i it hc =>
      obtain ⟨_, hit⟩ := curItem_some hc
      obtain ⟨g1, g2, g3⟩ := item_ge hit
      refine ⟨?_, ?_, ?_, ?_, ?_, ?_⟩ <;> cnt_simp hk hst <;>
        (try simp only [sumT_set' _ _ hit, List.length_set, reached_err, reached_fc, reached_fs, reached_rem] at *) <;> arith
    | sInc hst i it hc =>
      obtain ⟨_, hit⟩ := curItem_some hc
      obtain ⟨g1, g2, g3⟩ := item_ge hit
      rcases reached_succ it with ⟨r1, r2, r3⟩ | ⟨r1, r2, r3⟩ | ⟨r1, r2, r3⟩ <;>
      (try (have g3' := g3 r2)) <;>
      refine ⟨?_, ?_, ?_, ?_, ?_, ?_⟩ <;> cnt_simp hk hst <;>
        (try simp only [sumT_set' _ _ hit, List.length_set, r2, r3] at *) <;> arith
    | sLoad hst i it hc =>
      refine ⟨?_, ?_, ?_, ?_, ?_, ?_⟩ <;> cnt_simp hk hst <;> arith
  | start k t hk hs =>
    have hg := ge_all hk 0
    have hge1 := hg.2.2.2.2.1
    have hge2 := hg.2.2.2.2.2.2.2.1
    clear hg
    refine ⟨?_, ?_, ?_, ?_, ?_, ?_⟩ <;> cnt_simp hk hs <;> arith
  | ret k t hk hs =>
    have hg := ge_all hk 0
    have hge1 := hg.2.2.2.2.1
    have hge2 := hg.2.2.2.2.2.2.2.1
    clear hg
    refine ⟨?_, ?_, ?_, ?_, ?_, ?_⟩ <;> cnt_simp hk hs <;> arith
  | cleanup hw hc => exact ⟨h1, h2, h3, h4, h5, h6⟩
  | cancel => exact ⟨h1, h2, h3, h4, h5, h6⟩
  | recvDone hr hd =>
    have := h5 hr
    refine ⟨h1, h2, h3, ?_, ?_, ?_⟩ <;> simp <;> omega
  | recvErr e hr he => refine ⟨h1, h2, h3, h4, ?_, ?_⟩ <;> simp
  | recvCtx hr hc => refine ⟨h1, h2, h3, h4, ?_, ?_⟩ <;> simp

end PfC10
