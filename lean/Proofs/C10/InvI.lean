import Proofs.C10.InvD
import Proofs.C10.InvE
/-! # C10 proofs: per-item counter invariant -/
namespace PfC10
open C10

structure ItemInv (s : St) (i : Nat) (it : Item) : Prop where
  minS : 1 ≤ it.minSuccess
  maxF : 0 ≤ it.maxFailures
  nnS : 0 ≤ it.succeeded
  nnC : 0 ≤ it.failedClient
  nnV : 0 ≤ it.failedServer
  total : it.succeeded + it.failedClient + it.failedServer + (sumT (pend i) s.thr : Nat)
            = it.minSuccess + it.maxFailures
  rem : it.remaining + min it.succeeded (it.minSuccess - 1) + min it.failedClient it.maxFailures
          + min it.failedServer it.maxFailures = it.minSuccess + it.maxFailures + (sumT (decC i) s.thr : Nat)
  errSome : it.failedClient + it.failedServer + (sumT (eIncC i) s.thr : Nat) = 0 ∨ it.err.isSome = true
  loadOk : sumT (loadC i) s.thr = 0 ∨ 1 ≤ it.failedClient + it.failedServer
  trig : (it.failedClient ≤ it.maxFailures ∧ it.failedServer ≤ it.maxFailures ∧ 1 ≤ it.remaining) ∨
          1 ≤ s.failed + (sumT failC s.thr : Nat)

def InvI (s : St) : Prop := ∀ i it, s.items[i]? = some it → ItemInv s i it

theorem getElem?_set_cases {α} {l : List α} {i j : Nat} {a b : α} (h : (l.set i a)[j]? = some b) :
    (i = j ∧ b = a) ∨ (i ≠ j ∧ l[j]? = some b) := by
  rw [List.getElem?_set] at h
  split at h
  · rename_i hij
    split at h
    · simp at h; exact .inl ⟨hij, h.symm⟩
    · simp at h
  · rename_i hij; exact .inr ⟨hij, h⟩

theorem headIs_eq (j : Nat) (t : Thread) : headIs j t = if t.todo.head? = some j then 1 else 0 := rfl

theorem count_head_self {t : Thread} {i : Nat} {rest : List Nat} (h : t.todo = i :: rest) :
    t.todo.count i = t.todo.tail.count i + 1 := by simp [h]
theorem count_head_ne {t : Thread} {i j : Nat} {rest : List Nat} (h : t.todo = i :: rest) (hne : i ≠ j) :
    t.todo.count j = t.todo.tail.count j := by simp [h, List.count_cons, hne]
theorem headIs_self {t : Thread} {i : Nat} {rest : List Nat} (h : t.todo = i :: rest) : headIs i t = 1 := by
  simp [headIs, h]
theorem headIs_ne {t : Thread} {i j : Nat} {rest : List Nat} (h : t.todo = i :: rest) (hne : i ≠ j) :
    headIs j t = 0 := by simp [headIs, h, hne]

/-- close an `errSome`-shaped goal: either the sum is still 0, or the error is (still / now) stored -/
macro "err_some" : tactic =>
  `(tactic| first | (right; assumption) | (right; rfl) | (left; omega) | (rename_i hh; rcases hh with hh | hh <;> first | (left; omega) | (right; exact hh)))

theorem invI_step_thread {s s' : St} (hi : InvI s) (hE : InvE s) (h : StepR s s') : InvI s' := by
  cases h with
  | tick k t s' hk hT =>
    cases hT with
    | wgDone hst | eSend hst hc | sSend e hst hc | eFailInc hst | sFailInc hst | sDone hst hd | sPend hst =>
      intro j itj hj
      have hg := ge_all hk j
      obtain ⟨a1, a2, a3, a4, a5, a6, a7, a8, a9, a10⟩ := hi j itj hj
      have fnn := hE.fnn
      refine ⟨a1, a2, a3, a4, a5, ?_, ?_, ?_, ?_, ?_⟩ <;> cnt_simp hk hst <;> arith
    | sLoad hst i it hc =>
      intro j itj hj
      have hg := ge_all hk j
      obtain ⟨a1, a2, a3, a4, a5, a6, a7, a8, a9, a10⟩ := hi j itj hj
      have fnn := hE.fnn
      refine ⟨a1, a2, a3, a4, a5, ?_, ?_, ?_, ?_, ?_⟩ <;> cnt_simp hk hst <;> arith
    | eStore hst i it hc =>
      obtain ⟨⟨rest, htodo⟩, hit⟩ := curItem_some hc
      intro j itj hj
      have hg := ge_all hk j
      have fnn := hE.fnn
      simp only [St.putItem] at hj
      rcases getElem?_set_cases hj with ⟨rfl, rfl⟩ | ⟨hne, hj'⟩
      · obtain ⟨a1, a2, a3, a4, a5, a6, a7, a8, a9, a10⟩ := hi i it hit
        refine ⟨a1, a2, a3, a4, a5, ?_, ?_, .inr rfl, ?_, ?_⟩ <;> cnt_simp hk hst <;>
          simp only [count_head_self htodo, headIs_self htodo] at * <;> arith
      · obtain ⟨a1, a2, a3, a4, a5, a6, a7, a8, a9, a10⟩ := hi j itj hj'
        refine ⟨a1, a2, a3, a4, a5, ?_, ?_, ?_, ?_, ?_⟩ <;> cnt_simp hk hst <;>
          simp only [count_head_ne htodo hne, headIs_ne htodo hne] at * <;> arith
    | eIncC hst ho i it hc | eIncS hst ho i it hc | eDec hst i it hc | sInc hst i it hc | sDec hst i it hc =>
      obtain ⟨⟨rest, htodo⟩, hit⟩ := curItem_some hc
      intro j itj hj
      have hg := ge_all hk j
      have fnn := hE.fnn
      simp only [St.putItem] at hj
      rcases getElem?_set_cases hj with ⟨rfl, rfl⟩ | ⟨hne, hj'⟩
      · obtain ⟨a1, a2, a3, a4, a5, a6, a7, a8, a9, a10⟩ := hi i it hit
        rcases a8 with a8 | a8 <;>
        refine ⟨?_, ?_, ?_, ?_, ?_, ?_, ?_, ?_, ?_, ?_⟩ <;> cnt_simp hk hst <;>
          (try simp only [count_head_self htodo, headIs_self htodo] at *) <;>
          (repeat' (first | omega | assumption | (left; omega) | (right; assumption) | split))
      · obtain ⟨a1, a2, a3, a4, a5, a6, a7, a8, a9, a10⟩ := hi j itj hj'
        refine ⟨a1, a2, a3, a4, a5, ?_, ?_, ?_, ?_, ?_⟩ <;> cnt_simp hk hst <;>
          (try simp only [count_head_ne htodo hne, headIs_ne htodo hne] at *) <;> arith
  | start k t hk hs | ret k t hk hs =>
    intro j itj hj
    have hg := ge_all hk j
    obtain ⟨a1, a2, a3, a4, a5, a6, a7, a8, a9, a10⟩ := hi j itj hj
    refine ⟨a1, a2, a3, a4, a5, ?_, ?_, ?_, ?_, ?_⟩ <;> cnt_simp hk hs <;> arith
  | cleanup hw hc | cancel | recvDone hr hd | recvErr e hr he | recvCtx hr hc =>
    intro j itj hj
    obtain ⟨a1, a2, a3, a4, a5, a6, a7, a8, a9, a10⟩ := hi j itj hj
    exact ⟨a1, a2, a3, a4, a5, a6, a7, a8, a9, a10⟩

end PfC10
