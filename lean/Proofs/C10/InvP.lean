import Proofs.C10.InvJ
/-! # C10 proofs: provenance of the reported error -/
namespace PfC10
open C10

def errStage : Stage → Prop
  | .eStore | .eInc | .eDec | .eFailInc | .eSend => True
  | _ => False

/-- stages whose action reads the current item (or lead to one that does without moving on) -/
def needsItem : Stage → Prop
  | .eStore | .eInc | .eDec | .sInc | .sDec | .sFailInc | .sLoad => True
  | _ => False

/-- relation between a thread before and after one of its own steps (other than `start`). -/
structure Good (s : St) (t t' : Thread) : Prop where
  id : t'.id = t.id
  out : t'.out = t.out
  st1 : t'.st ≠ .idle
  st2 : t'.st ≠ .inCall
  es : errStage t'.st → errStage t.st ∨ t.out ≠ .ok
  ss : ∀ e, t'.st = .sSend e → ∃ i it, curItem s t = some (i, it) ∧ t.st = .sLoad ∧ e = it.err
  td : ∀ i ∈ t'.todo, i ∈ t.todo
  ne : (needsItem t.st → t.todo ≠ []) → needsItem t'.st → t'.todo ≠ []
  si : t'.st = .sInc → t.out = .ok

theorem good_advance (s : St) (t : Thread) : Good s t t.advance := by
  refine ⟨(advance_id t).1, (advance_id t).2, ?_, ?_, ?_, ?_, ?_, ?_, ?_⟩
  case refine_7 =>
    intro hs
    rcases advance_st t with h | h | h
    · rw [h.1] at hs; simp at hs
    · exact h.2.1
    · rw [h.1] at hs; simp at hs
  case refine_6 =>
    intro _ hn
    rcases advance_st t with h | h | h
    · rw [h.1] at hn; exact absurd hn (by simp [needsItem])
    · rw [h.2.2.1]; exact h.2.2.2
    · rw [h.2.2.1]; exact h.2.2.2
  case refine_5 =>
    intro i hi
    rcases advance_st t with ⟨_, h2⟩ | ⟨_, _, h2, _⟩ | ⟨_, _, h2, _⟩ <;> rw [h2] at hi
    · simp at hi
    · exact List.mem_of_mem_tail hi
    · exact List.mem_of_mem_tail hi
  all_goals
    rcases advance_st t with ⟨h, ho⟩ | ⟨h, ho, _⟩ | ⟨h, ho, _⟩ <;> rw [h] <;> simp [errStage, ho]

theorem good_enter (s : St) (t : Thread) : Good s t t.enter := by
  refine ⟨(enter_id t).1, (enter_id t).2, ?_, ?_, ?_, ?_, ?_, ?_, ?_⟩
  case refine_7 =>
    intro hs
    rcases enter_st t with h | h | h
    · rw [h.1] at hs; simp at hs
    · exact h.2.1
    · rw [h.1] at hs; simp at hs
  case refine_6 =>
    intro _ hn
    rcases enter_st t with h | h | h
    · rw [h.1] at hn; exact absurd hn (by simp [needsItem])
    · rw [h.2.2.1]; exact h.2.2.2
    · rw [h.2.2.1]; exact h.2.2.2
  case refine_5 =>
    intro i hi
    rcases enter_st t with h | h | h
    · rw [h.2.2] at hi; simp at hi
    · rw [h.2.2.1] at hi; exact hi
    · rw [h.2.2.1] at hi; exact hi
  all_goals
    rcases enter_st t with ⟨h, ho, _⟩ | ⟨h, ho, _⟩ | ⟨h, ho, _⟩ <;> rw [h] <;> simp [errStage, ho]

theorem good_ite (s : St) (t a b : Thread) (c : Prop) [Decidable c] (ha : Good s t a) (hb : Good s t b) :
    Good s t (if c then a else b) := by split <;> assumption

/-- an atomic action of goroutine `k` replaces exactly thread `k`, in a `Good` way. -/
theorem tick_good {s s' : St} {k : Nat} {t : Thread} (hT : TickR s k t s') :
    ∃ t', s'.thr = s.thr.set k t' ∧ Good s t t' := by
  cases hT with
  | wgDone hst => exact ⟨_, rfl, ⟨rfl, rfl, by simp, by simp, by simp [errStage], by simp, fun _ h => h, fun h hn => by first | (refine h ?_; simp [needsItem, hst]; done) | (exfalso; revert hn; simp [needsItem]; done), by simp⟩⟩
  | eSend hst hc | sSend e hst hc | sDone hst hd => exact ⟨_, rfl, (good_advance s t)⟩
  | eFailInc hst =>
    exact ⟨_, rfl, (good_ite _ _ _ _ _ ⟨rfl, rfl, by simp, by simp, by simp [errStage, hst], by simp, fun _ h => h, fun h hn => by first | (refine h ?_; simp [needsItem, hst]; done) | (exfalso; revert hn; simp [needsItem]; done), by simp⟩ (good_advance s t))⟩
  | sFailInc hst | sPend hst =>
    exact ⟨_, rfl, (good_ite _ _ _ _ _ ⟨rfl, rfl, by simp, by simp, by simp [errStage], by simp, fun _ h => h, fun h hn => by first | (refine h ?_; simp [needsItem, hst]; done) | (exfalso; revert hn; simp [needsItem]; done), by simp⟩ (good_advance s t))⟩
  | eStore hst i it hc => exact ⟨_, rfl, ⟨rfl, rfl, by simp, by simp, by simp [errStage, hst], by simp, fun _ h => h, fun h hn => by first | (refine h ?_; simp [needsItem, hst]; done) | (exfalso; revert hn; simp [needsItem]; done), by simp⟩⟩
  | eIncC hst ho i it hc | eIncS hst ho i it hc =>
    exact ⟨_, rfl, (good_ite _ _ _ _ _ ⟨rfl, rfl, by simp, by simp, by simp [errStage, hst], by simp, fun _ h => h, fun h hn => by first | (refine h ?_; simp [needsItem, hst]; done) | (exfalso; revert hn; simp [needsItem]; done), by simp⟩
      ⟨rfl, rfl, by simp, by simp, by simp [errStage, hst], by simp, fun _ h => h, fun h hn => by first | (refine h ?_; simp [needsItem, hst]; done) | (exfalso; revert hn; simp [needsItem]; done), by simp⟩)⟩
  | eDec hst i it hc =>
    exact ⟨_, rfl, (good_ite _ _ _ _ _ ⟨rfl, rfl, by simp, by simp, by simp [errStage, hst], by simp, fun _ h => h, fun h hn => by first | (refine h ?_; simp [needsItem, hst]; done) | (exfalso; revert hn; simp [needsItem]; done), by simp⟩ (good_advance s t))⟩
  | sInc hst i it hc =>
    exact ⟨_, rfl, (good_ite _ _ _ _ _ ⟨rfl, rfl, by simp, by simp, by simp [errStage], by simp, fun _ h => h, fun h hn => by first | (refine h ?_; simp [needsItem, hst]; done) | (exfalso; revert hn; simp [needsItem]; done), by simp⟩
      (good_ite _ _ _ _ _ ⟨rfl, rfl, by simp, by simp, by simp [errStage], by simp, fun _ h => h, fun h hn => by first | (refine h ?_; simp [needsItem, hst]; done) | (exfalso; revert hn; simp [needsItem]; done), by simp⟩ (good_advance s t)))⟩
  | sDec hst i it hc =>
    exact ⟨_, rfl, (good_ite _ _ _ _ _ ⟨rfl, rfl, by simp, by simp, by simp [errStage], by simp, fun _ h => h, fun h hn => by first | (refine h ?_; simp [needsItem, hst]; done) | (exfalso; revert hn; simp [needsItem]; done), by simp⟩ (good_advance s t))⟩
  | sLoad hst i it hc =>
    exact ⟨_, rfl, ⟨rfl, rfl, by simp, by simp, by simp [errStage], fun e he => ⟨i, it, hc, hst, by simpa using he.symm⟩, fun _ h => h, fun h hn => by first | (refine h ?_; simp [needsItem, hst]; done) | (exfalso; revert hn; simp [needsItem]; done), by simp⟩⟩

/-- a goroutine that executes an atomic action is past its callback and not finished -/
theorem tick_stage {s s' : St} {k : Nat} {t : Thread} (hT : TickR s k t s') :
    t.st ≠ .idle ∧ t.st ≠ .inCall ∧ t.st ≠ .fin := by
  cases hT <;> (rename_i hst; first | (simp [hst]) | skip) <;> simp_all

/-- every transition changes at most one thread, in a `Good` way — or it is `start`. -/
theorem step_thread {s s' : St} (h : StepR s s') :
    s'.thr = s.thr ∨ ∃ k t t', s.thr[k]? = some t ∧ s'.thr = s.thr.set k t' ∧
      (Good s t t' ∨ (t.st = .idle ∧ t' = { t with st := .inCall })) := by
  cases h with
  | tick k t s' hk hT =>
    obtain ⟨t', h1, h2⟩ := tick_good hT
    exact .inr ⟨k, t, t', hk, h1, .inl h2⟩
  | start k t hk hs => exact .inr ⟨k, t, _, hk, rfl, .inr ⟨hs, rfl⟩⟩
  | ret k t hk hs => exact .inr ⟨k, t, _, hk, rfl, .inl (good_enter s t)⟩
  | cleanup hw hc | cancel | recvDone hr hd | recvErr e hr he | recvCtx hr hc => exact .inl rfl

/-- which item a transition changes, and what happens to its stored error. -/
theorem step_items {s s' : St} (h : StepR s s') :
    s'.items = s.items ∨ ∃ i0 it0 it', s.items[i0]? = some it0 ∧ s'.items = s.items.set i0 it' ∧
      (it'.err = it0.err ∨ ∃ (k : Nat) (t : Thread), s.thr[k]? = some t ∧ t.st = .eStore ∧ it'.err = some t.id ∧
        s'.thr = s.thr.set k { t with st := .eInc }) := by
  cases h with
  | tick k t s' hk hT =>
    cases hT with
    | wgDone hst | eSend hst hc | sSend e hst hc | sDone hst hd | eFailInc hst | sFailInc hst | sPend hst
    | sLoad hst i it hc => exact .inl rfl
    | eStore hst i it hc =>
      exact .inr ⟨i, it, _, (curItem_some hc).2, rfl, .inr ⟨k, t, hk, hst, rfl, rfl⟩⟩
    | eIncC hst ho i it hc | eIncS hst ho i it hc | eDec hst i it hc | sInc hst i it hc | sDec hst i it hc =>
      exact .inr ⟨i, it, _, (curItem_some hc).2, rfl, .inl rfl⟩
  | start k t hk hs | ret k t hk hs | cleanup hw hc | cancel | recvDone hr hd | recvErr e hr he | recvCtx hr hc =>
    exact .inl rfl

/-- how the (ghost) record of the first value sent on `err` changes. -/
theorem step_sent {s s' : St} (h : StepR s s') :
    s'.sentErr = s.sentErr ∨ ∃ (k : Nat) (t : Thread), s.thr[k]? = some t ∧
      ((t.st = .eSend ∧ s'.sentErr = some (some t.id)) ∨ (∃ e, t.st = .sSend e ∧ s'.sentErr = some e)) := by
  cases h with
  | tick k t s' hk hT =>
    cases hT with
    | wgDone hst | sDone hst hd | eFailInc hst | sFailInc hst | sPend hst | sLoad hst i it hc
    | eStore hst i it hc | eIncC hst ho i it hc | eIncS hst ho i it hc | eDec hst i it hc | sInc hst i it hc
    | sDec hst i it hc => exact .inl rfl
    | eSend hst hc =>
      by_cases h0 : s.nErr = 0
      · exact .inr ⟨k, t, hk, .inl ⟨hst, by simp [St.put, h0]⟩⟩
      · exact .inl (by simp [St.put, h0])
    | sSend e hst hc =>
      by_cases h0 : s.nErr = 0
      · exact .inr ⟨k, t, hk, .inr ⟨e, hst, by simp [St.put, h0]⟩⟩
      · exact .inl (by simp [St.put, h0])
  | start k t hk hs | ret k t hk hs | cleanup hw hc | cancel | recvDone hr hd | recvErr e hr he | recvCtx hr hc =>
    exact .inl rfl

/-- replica `a`'s callback has returned, and it returned an error. -/
def ReturnedErr (s : St) (a : Nat) : Prop :=
  ∃ t ∈ s.thr, t.id = a ∧ t.out ≠ .ok ∧ t.st ≠ .idle ∧ t.st ≠ .inCall

theorem mem_set_or {α} {l : List α} {k : Nat} {a x : α} (b : α) (hk : l[k]? = some a) (hx : x ∈ l) :
    x ∈ l.set k b ∨ x = a := by
  obtain ⟨m, hm⟩ := List.mem_iff_getElem?.mp hx
  by_cases hkm : k = m
  · subst hkm; rw [hk] at hm; exact .inr (Option.some.inj hm).symm
  · left
    apply List.mem_iff_getElem?.mpr
    exact ⟨m, by rw [getElem?_set_ne' _ hkm]; exact hm⟩

theorem mem_set_self' {α} {l : List α} {k : Nat} {a : α} (b : α) (hk : l[k]? = some a) : b ∈ l.set k b :=
  List.mem_iff_getElem?.mpr ⟨k, getElem?_set_self' b hk⟩

theorem returnedErr_mono {s s' : St} (h : StepR s s') {a : Nat} (hr : ReturnedErr s a) : ReturnedErr s' a := by
  obtain ⟨x, hx, h1, h2, h3, h4⟩ := hr
  rcases step_thread h with heq | ⟨k, t, t', hk, hset, hg⟩
  · exact ⟨x, heq ▸ hx, h1, h2, h3, h4⟩
  · rcases mem_set_or t' hk hx with hin | rfl
    · exact ⟨x, hset ▸ hin, h1, h2, h3, h4⟩
    · rcases hg with g | ⟨hidle, _⟩
      · exact ⟨t', hset ▸ mem_set_self' t' hk, g.id.trans h1, g.out ▸ h2, g.st1, g.st2⟩
      · exact absurd hidle h3

structure InvP (s : St) : Prop where
  out : ∀ t ∈ s.thr, errStage t.st → t.out ≠ .ok
  itemErr : ∀ (i : Nat) (it : Item) (a : Nat), s.items[i]? = some it → it.err = some a → ReturnedErr s a
  sSend : ∀ t ∈ s.thr, ∀ e, t.st = .sSend e → ∃ a, e = some a ∧ ReturnedErr s a
  sent : ∀ e, s.sentErr = some e → ∃ a, e = some a ∧ ReturnedErr s a

theorem invP_step {s s' : St} (hI : InvI s) (hP : InvP s) (h : StepR s s') : InvP s' := by
  obtain ⟨p1, p2, p3, p4⟩ := hP
  refine ⟨?_, ?_, ?_, ?_⟩
  · -- error stages are only entered by threads whose callback returned an error
    intro x hx hes
    rcases step_thread h with heq | ⟨k, t, t', hk, hset, hg⟩
    · exact p1 x (heq ▸ hx) hes
    · rw [hset] at hx
      rcases List.mem_or_eq_of_mem_set hx with hin | rfl
      · exact p1 x hin hes
      · rcases hg with g | ⟨_, rfl⟩
        · rw [g.out]
          rcases g.es hes with h1 | h1
          · exact p1 t (List.mem_of_getElem? hk) h1
          · exact h1
        · simp [errStage] at hes
  · -- stored errors come from replicas that returned them
    intro i it a hi he
    rcases step_items h with heq | ⟨i0, it0, it', hi0, hset, herr⟩
    · exact returnedErr_mono h (p2 i it a (heq ▸ hi) he)
    · rw [hset] at hi
      rcases getElem?_set_cases hi with ⟨rfl, rfl⟩ | ⟨_, hi'⟩
      · rcases herr with herr | ⟨k, t, hk, hst, herr, hthr⟩
        · exact returnedErr_mono h (p2 i0 it0 a hi0 (herr ▸ he))
        · rw [herr] at he
          have ha : t.id = a := Option.some.inj he
          exact ⟨{ t with st := .eInc }, hthr ▸ mem_set_self' _ hk, ha, p1 t (List.mem_of_getElem? hk) (by simp [errStage, hst]),
            by simp, by simp⟩
      · exact returnedErr_mono h (p2 i it a hi' he)
  · -- a loaded error is a stored error
    intro x hx e he
    rcases step_thread h with heq | ⟨k, t, t', hk, hset, hg⟩
    · obtain ⟨a, ha, hr⟩ := p3 x (heq ▸ hx) e he
      exact ⟨a, ha, returnedErr_mono h hr⟩
    · rw [hset] at hx
      rcases List.mem_or_eq_of_mem_set hx with hin | rfl
      · obtain ⟨a, ha, hr⟩ := p3 x hin e he
        exact ⟨a, ha, returnedErr_mono h hr⟩
      · rcases hg with g | ⟨_, rfl⟩
        · obtain ⟨i, it, hc, hst, rfl⟩ := g.ss e he
          obtain ⟨⟨rest, htodo⟩, hit⟩ := curItem_some hc
          have hII := hI i it hit
          have hge := (ge_all hk i).2.2.2.1
          have hl : loadC i t = 1 := by rw [loadC_eq, hst]; exact headIs_self htodo
          have hcv : 1 ≤ it.failedClient + it.failedServer := by
            rcases hII.loadOk with h0 | h1
            · omega
            · exact h1
          have hsome : it.err.isSome = true := by
            rcases hII.errSome with h0 | h1
            · have := hII.nnC; have := hII.nnV; omega
            · exact h1
          obtain ⟨a, ha⟩ := Option.isSome_iff_exists.mp hsome
          exact ⟨a, ha, returnedErr_mono h (p2 i it a hit ha)⟩
        · simp at he
  · -- so is whatever was sent on `err`
    intro e he
    rcases step_sent h with heq | ⟨k, t, hk, ⟨hst, hs⟩ | ⟨e', hst, hs⟩⟩
    · obtain ⟨a, ha, hr⟩ := p4 e (heq ▸ he)
      exact ⟨a, ha, returnedErr_mono h hr⟩
    · rw [hs] at he
      have : e = some t.id := (Option.some.inj he).symm
      refine ⟨t.id, this, returnedErr_mono h ⟨t, List.mem_of_getElem? hk, rfl, ?_, by simp [hst], by simp [hst]⟩⟩
      exact p1 t (List.mem_of_getElem? hk) (by simp [errStage, hst])
    · rw [hs] at he
      have : e = e' := (Option.some.inj he).symm
      subst this
      obtain ⟨a, ha, hr⟩ := p3 t (List.mem_of_getElem? hk) e hst
      exact ⟨a, ha, returnedErr_mono h hr⟩

end PfC10
