import Proofs.C10
/-!
# C10 — the goroutine spawner (`DoBatchOptions.Go`) as a restriction of the model's schedules

A *spawner* is any policy that, looking at the events so far and the current state, says whether an
event may happen NOW (`Spawner`). `o.Go` implementations only ever delay the begin of a submitted
closure (`start k`, `cleanup`) — and, when they run closures inline on the caller's goroutine, the
caller's `select` (`recv…`); the definition allows any restriction at all.

* `runSp_run`: every spawner-restricted run is a run of the model, so every safety theorem of
  `Props/C10.lean` (all of which quantify over `run`) holds under every spawner (`spawner_safe`).
* `spawner_live`: a spawner that (1) never blocks a closure that is already running, (2) starts some
  submitted closure whenever none is in progress, (3) lets the cleanup closure run once all calls
  finished (`Live`: "every submitted task is eventually run") can always complete: from every
  reachable state there is a continuation ALLOWED BY THE SPAWNER after which every goroutine has
  finished and cleanup has run once.
* `waiter_first_pool1_stuck`: what `Live` excludes — a single worker that is parked in the cleanup
  closure's `wg.Wait()` while the callbacks are queued behind it (seeded change C10-1: the waiter
  handed to `o.Go` BEFORE the callbacks, pool of one worker): nothing ever starts, cleanup never runs.
-/
namespace PfC10
open C10

/-- scheduling policy of `o.Go`: history, state, event ↦ may it happen now? -/
abbrev Spawner := List Ev → St → Ev → Bool

/-- run a schedule under a spawner: every event must be allowed by the spawner AND enabled in the model. -/
def runSp (sp : Spawner) : List Ev → St → List Ev → Option St
  | _, s, [] => some s
  | hist, s, e :: es =>
    if sp hist s e = true then
      match step s e with
      | some s' => runSp sp (hist ++ [e]) s' es
      | none => none
    else none

/-- **Refinement**: a spawner only removes schedules. -/
theorem runSp_run (sp : Spawner) : ∀ (evs hist : List Ev) (s s' : St),
    runSp sp hist s evs = some s' → run s evs = some s' := by
  intro evs
  induction evs with
  | nil => intro hist s s' h; simpa [runSp, run] using h
  | cons e es ih =>
    intro hist s s' h
    simp only [runSp] at h
    by_cases hsp : sp hist s e = true
    · rw [if_pos hsp] at h
      cases hs : step s e with
      | none => simp [hs] at h
      | some s1 =>
        simp only [hs] at h
        simp only [run, hs]
        exact ih _ _ _ h
    · rw [if_neg hsp] at h; simp at h

theorem runSp_append (sp : Spawner) : ∀ (evs hist evs' : List Ev) (s s1 s2 : St),
    runSp sp hist s evs = some s1 → runSp sp (hist ++ evs) s1 evs' = some s2 →
    runSp sp hist s (evs ++ evs') = some s2 := by
  intro evs
  induction evs with
  | nil => intro hist evs' s s1 s2 h1 h2; simp [runSp] at h1; subst h1; simpa using h2
  | cons e es ih =>
    intro hist evs' s s1 s2 h1 h2
    simp only [runSp, List.cons_append] at h1 ⊢
    by_cases hsp : sp hist s e = true
    · rw [if_pos hsp] at h1 ⊢
      cases hs : step s e with
      | none => simp [hs] at h1
      | some sa =>
        simp only [hs] at h1 ⊢
        refine ih _ _ _ _ _ h1 ?_
        simpa [List.append_assoc] using h2
    · rw [if_neg hsp] at h1; simp at h1

/-- the default spawner `go f()` restricts nothing: its runs are exactly the model's. -/
def spDefault : Spawner := fun _ _ _ => true

theorem run_runSp_default : ∀ (evs hist : List Ev) (s s' : St),
    run s evs = some s' → runSp spDefault hist s evs = some s' := by
  intro evs
  induction evs with
  | nil => intro hist s s' h; simpa [runSp, run] using h
  | cons e es ih =>
    intro hist s s' h
    simp only [run] at h
    simp only [runSp, spDefault, if_true]
    cases hs : step s e with
    | none => simp [hs] at h
    | some s1 => simp only [hs] at h ⊢; exact ih _ _ _ h

/-- closures in progress (started, not finished). -/
def busy (s : St) : Nat := (s.thr.filter fun t => t.st != .idle && t.st != .fin).length

/-- a pool of `w` workers with a queue: a submitted closure begins only while fewer than `w` are in progress. -/
def spPool (w : Nat) : Spawner := fun _ s e =>
  match e with
  | .start _ => decide (busy s < w)
  | _ => true

/-- inline execution `Go: func(f){ f() }`: one closure at a time, and the caller reaches its `select`
only after the last closure (the cleanup waiter) has returned. -/
def spInline : Spawner := fun _ s e =>
  match e with
  | .start _ => decide (busy s < 1)
  | .recvDone | .recvErr | .recvCtx => decide (s.cleanup = 1)
  | _ => true

/-- "the spawner eventually runs every submitted task". -/
structure Live (sp : Spawner) : Prop where
  /-- a closure that is running is not held up by the spawner (its callback may return, `record` proceeds) -/
  running : ∀ hist s k, sp hist s (.ret k) = true ∧ sp hist s (.tick k) = true
  /-- when no closure is in progress and some are still queued, the spawner lets one of them begin -/
  starts : ∀ hist s, (∀ t ∈ s.thr, t.st = .idle ∨ t.st = .fin) → (∃ t ∈ s.thr, t.st = .idle) →
    ∃ k t, s.thr[k]? = some t ∧ t.st = .idle ∧ sp hist s (.start k) = true
  /-- once every call has finished the cleanup closure is run -/
  cleans : ∀ hist s, (∀ t ∈ s.thr, t.st = .fin) → sp hist s .cleanup = true

theorem mu_pos {t : Thread} (h : t.st ≠ .fin) : 0 < mu t := by
  unfold mu
  split <;> first | omega | (exfalso; exact h ‹_›)

theorem busy_zero {s : St} (h : ∀ t ∈ s.thr, t.st = .idle ∨ t.st = .fin) : busy s = 0 := by
  unfold busy
  rw [List.length_eq_zero_iff, List.filter_eq_nil_iff]
  intro t ht
  rcases h t ht with h | h <;> simp [h]

theorem exists_idle_idx {s : St} (h : ∃ t ∈ s.thr, t.st = .idle) :
    ∃ (k : Nat) (t : Thread), s.thr[k]? = some t ∧ t.st = Stage.idle := by
  obtain ⟨t, ht, hi⟩ := h
  obtain ⟨k, hk⟩ := List.mem_iff_getElem?.mp ht
  exact ⟨k, t, hk, hi⟩

theorem live_default : Live spDefault :=
  ⟨fun _ _ _ => ⟨rfl, rfl⟩, fun _ _ _ h => by
    obtain ⟨k, t, hk, hi⟩ := exists_idle_idx h; exact ⟨k, t, hk, hi, rfl⟩, fun _ _ _ => rfl⟩

theorem live_pool (w : Nat) (hw : 1 ≤ w) : Live (spPool w) :=
  ⟨fun _ _ _ => ⟨rfl, rfl⟩, fun _ s hall h => by
    obtain ⟨k, t, hk, hi⟩ := exists_idle_idx h
    refine ⟨k, t, hk, hi, ?_⟩
    simp only [spPool, busy_zero hall]
    exact decide_eq_true (by omega), fun _ _ _ => rfl⟩

theorem live_inline : Live spInline :=
  ⟨fun _ _ _ => ⟨rfl, rfl⟩, fun _ s hall h => by
    obtain ⟨k, t, hk, hi⟩ := exists_idle_idx h
    refine ⟨k, t, hk, hi, ?_⟩
    simp only [spInline, busy_zero hall]
    exact decide_eq_true (by omega), fun _ _ _ => rfl⟩

/-- **Liveness under a live spawner**: from every state satisfying the invariant there is a
continuation allowed by the spawner (goroutine events and `cleanup` only) after which every
goroutine has finished and `Cleanup()` has run exactly once. -/
theorem spawner_live {sp : Spawner} (hl : Live sp) : ∀ (n : Nat) (hist : List Ev) (s : St), Inv s →
    sumT mu s.thr < n →
    ∃ evs s', runSp sp hist s evs = some s' ∧ (∀ t ∈ s'.thr, t.st = .fin) ∧ s'.cleanup = 1 ∧
      ∀ e ∈ evs, isThreadEv e = true ∨ e = .cleanup := by
  intro n
  induction n with
  | zero => intro _ _ _ h; omega
  | succ n ih =>
    intro hist s hi hn
    -- one allowed + enabled goroutine event, then the induction hypothesis
    have next : ∀ ev s1, isThreadEv ev = true → sp hist s ev = true → step s ev = some s1 →
        ∃ evs s', runSp sp hist s evs = some s' ∧ (∀ t ∈ s'.thr, t.st = .fin) ∧ s'.cleanup = 1 ∧
          ∀ e ∈ evs, isThreadEv e = true ∨ e = .cleanup := by
      intro ev s1 hte hsp hs
      have hlt := (mu_step hs).1 hte
      obtain ⟨evs, s', h1, h2, h3, h4⟩ := ih (hist ++ [ev]) s1 (inv_step hi (step_sound hs)) (by omega)
      refine ⟨ev :: evs, s', ?_, h2, h3, ?_⟩
      · simp only [runSp, if_pos hsp, hs]; exact h1
      · intro e he
        rcases List.mem_cons.mp he with rfl | he
        · exact .inl hte
        · exact h4 e he
    by_cases hall : ∀ t ∈ s.thr, t.st = .fin
    · obtain ⟨hc1, _, hwg⟩ := cleanup_after_all' hi
      by_cases hc : s.cleanup = 1
      · exact ⟨[], s, rfl, hall, hc, fun e he => absurd he (by simp)⟩
      · have hc0 : s.cleanup = 0 := by omega
        have hw0 : s.wg = 0 := hwg.mpr hall
        refine ⟨[.cleanup], { s with cleanup := 1 }, ?_, hall, rfl, fun e he => ?_⟩
        · simp only [runSp, if_pos (hl.cleans hist s hall), step, hw0, hc0, and_self, if_true]
        · simp only [List.mem_cons, List.mem_nil_iff, or_false] at he; exact .inr he
    · by_cases hprog : ∃ t ∈ s.thr, t.st ≠ .idle ∧ t.st ≠ .fin
      · obtain ⟨t, ht, hni, hnf⟩ := hprog
        obtain ⟨k, hk⟩ := List.mem_iff_getElem?.mp ht
        obtain ⟨ev, hev, hen⟩ := no_deadlock' hi hk hnf
        obtain ⟨s1, hs1⟩ := Option.isSome_iff_exists.mp hen
        rcases hev with rfl | rfl | rfl
        · -- `start k` is not enabled: the thread is not idle
          simp only [step, hk, if_neg hni] at hs1; simp at hs1
        · exact next _ s1 rfl (hl.running hist s k).1 hs1
        · exact next _ s1 rfl (hl.running hist s k).2 hs1
      · have hidle : ∀ t ∈ s.thr, t.st = .idle ∨ t.st = .fin := by
          intro t ht
          by_cases h1 : t.st = .idle
          · exact .inl h1
          · by_cases h2 : t.st = .fin
            · exact .inr h2
            · exact absurd ⟨t, ht, h1, h2⟩ hprog
        have hsome : ∃ t ∈ s.thr, t.st = .idle := by
          apply Classical.byContradiction
          intro hno
          apply hall
          intro t ht
          rcases hidle t ht with h | h
          · exact absurd ⟨t, ht, h⟩ hno
          · exact h
        obtain ⟨k, t, hk, hti, hsp⟩ := hl.starts hist s hidle hsome
        exact next (.start k) { s with thr := s.thr.set k { t with st := .inCall } } rfl hsp
          (by simp only [step, hk, if_pos hti])

/-- the policy of seeded change C10-1 under a pool of ONE worker: the cleanup waiter was handed to the
pool first and occupies the only worker in `wg.Wait()`; no queued callback begins before `wg = 0`. -/
def spWaiterFirstPool1 : Spawner := fun _ s e =>
  match e with
  | .start _ => decide (s.wg = 0)
  | _ => true

/-- **What `Live` excludes**: under that policy, from a state with every goroutine still queued
(`idle`) and `wg ≠ 0`, NO schedule ever starts a callback or runs cleanup. -/
theorem waiter_first_pool1_stuck : ∀ (evs hist : List Ev) (a s : St),
    (∀ t ∈ a.thr, t.st = .idle) → a.wg ≠ 0 → a.cleanup = 0 →
    runSp spWaiterFirstPool1 hist a evs = some s → s.thr = a.thr ∧ s.wg = a.wg ∧ s.cleanup = 0 := by
  intro evs
  induction evs with
  | nil => intro hist a s _ _ hc h; simp [runSp] at h; subst h; exact ⟨rfl, rfl, hc⟩
  | cons e es ih =>
    intro hist a s hidle hw hc h
    simp only [runSp] at h
    by_cases hsp : spWaiterFirstPool1 hist a e = true
    · rw [if_pos hsp] at h
      cases hs : step a e with
      | none => simp [hs] at h
      | some a1 =>
        simp only [hs] at h
        have keep : a1.thr = a.thr ∧ a1.wg = a.wg ∧ a1.cleanup = a.cleanup := by
          cases e with
          | start k => simp [spWaiterFirstPool1, hw] at hsp
          | ret k =>
            simp only [step] at hs
            split at hs
            · rename_i t hk
              have := hidle t (List.mem_of_getElem? hk)
              simp [this] at hs
            · simp at hs
          | tick k =>
            simp only [step] at hs
            split at hs
            · rename_i t hk
              have := hidle t (List.mem_of_getElem? hk)
              simp [tickThread, this] at hs
            · simp at hs
          | cleanup => simp [step, hw] at hs
          | cancel => simp only [step, Option.some.injEq] at hs; subst hs; exact ⟨rfl, rfl, rfl⟩
          | recvDone =>
            simp only [step] at hs
            split at hs
            · simp only [Option.some.injEq] at hs; subst hs; exact ⟨rfl, rfl, rfl⟩
            · simp at hs
          | recvErr =>
            simp only [step] at hs
            split at hs
            · simp only [Option.some.injEq] at hs; subst hs; exact ⟨rfl, rfl, rfl⟩
            · simp at hs
          | recvCtx =>
            simp only [step] at hs
            split at hs
            · simp only [Option.some.injEq] at hs; subst hs; exact ⟨rfl, rfl, rfl⟩
            · simp at hs
        obtain ⟨k1, k2, k3⟩ := keep
        have := ih (hist ++ [e]) a1 s (by rw [k1]; exact hidle) (by rw [k2]; exact hw) (by rw [k3]; exact hc) h
        rw [k1, k2] at this
        exact this
    · rw [if_neg hsp] at h; simp at h

/-- … and indeed that policy is not `Live`. -/
theorem waiter_first_pool1_not_live : ¬ Live spWaiterFirstPool1 := by
  intro hl
  let s : St := { items := [], thr := [{ id := 0, out := .ok, todo := [] }], pending := 0, wg := 1 }
  obtain ⟨k, t, _, _, hsp⟩ := hl.starts [] s (by intro t ht; simp [s] at ht; subst ht; exact .inl rfl)
    ⟨{ id := 0, out := .ok, todo := [] }, by simp [s], rfl⟩
  simp [spWaiterFirstPool1, s] at hsp

end PfC10
