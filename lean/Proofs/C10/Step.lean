import Proofs.C10.Basic
/-!
# C10 proofs, part 2: inversion of `step`, rewriting of sums under `List.set`
-/
namespace PfC10
open C10

theorem sumT_set' {α} (f : α → Nat) {l : List α} {k : Nat} {a : α} (b : α) (h : l[k]? = some a) :
    sumT f (l.set k b) = sumT f l - f a + f b := by
  have := sumT_set f l k a b h
  have := sumT_ge f l k a h
  omega

/-- every transition, with the explicit successor state. -/
inductive StepR (s : St) : St → Prop
  | tick (k : Nat) (t : Thread) (s' : St) (hk : s.thr[k]? = some t) (h : TickR s k t s') : StepR s s'
  | start (k : Nat) (t : Thread) (hk : s.thr[k]? = some t) (hs : t.st = .idle) :
      StepR s { s with thr := s.thr.set k { t with st := .inCall } }
  | ret (k : Nat) (t : Thread) (hk : s.thr[k]? = some t) (hs : t.st = .inCall) :
      StepR s { s with thr := s.thr.set k t.enter }
  | cleanup (hw : s.wg = 0) (hc : s.cleanup = 0) : StepR s { s with cleanup := 1 }
  | cancel : StepR s { s with ctx := true }
  | recvDone (hr : s.ret = none) (hd : 1 ≤ s.done) : StepR s { s with done := s.done - 1, ret := some .done }
  | recvErr (e : Option Nat) (hr : s.ret = none) (he : s.errc = some e) :
      StepR s { s with errc := none, ret := some (.err e) }
  | recvCtx (hr : s.ret = none) (hc : s.ctx = true) : StepR s { s with ret := some .ctx }

theorem step_sound {s s' : St} {ev : Ev} (h : step s ev = some s') : StepR s s' := by
  cases ev with
  | start k =>
    simp only [step] at h
    split at h
    · rename_i t hk
      split at h
      · rename_i hs; simp at h; subst h; exact .start k t hk hs
      · simp at h
    · simp at h
  | ret k =>
    simp only [step] at h
    split at h
    · rename_i t hk
      split at h
      · rename_i hs; simp at h; subst h; exact .ret k t hk hs
      · simp at h
    · simp at h
  | tick k =>
    simp only [step] at h
    split at h
    · rename_i t hk; exact .tick k t s' hk (tick_sound h)
    · simp at h
  | cleanup =>
    simp only [step] at h
    split at h
    · rename_i hc; simp at h; subst h; exact .cleanup hc.1 hc.2
    · simp at h
  | cancel => simp only [step] at h; simp at h; subst h; exact .cancel
  | recvDone =>
    simp only [step] at h
    split at h
    · rename_i hc; simp at h; subst h
      refine .recvDone ?_ hc.2
      have := hc.1; revert this; cases s.ret <;> simp
    · simp at h
  | recvErr =>
    simp only [step] at h
    split at h
    · rename_i e hr he; simp at h; subst h; exact .recvErr e hr he
    · simp at h
  | recvCtx =>
    simp only [step] at h
    split at h
    · rename_i hc; simp at h; subst h
      refine .recvCtx ?_ hc.2
      have := hc.1; revert this; cases s.ret <;> simp
    · simp at h

/-- reachability by any schedule -/
inductive Reach (s0 : St) : St → Prop
  | refl : Reach s0 s0
  | step (s s' : St) (ev : Ev) (hr : Reach s0 s) (hs : step s ev = some s') : Reach s0 s'

theorem reach_run {s0 s : St} (evs : List Ev) : ∀ a, Reach s0 a → run a evs = some s → Reach s0 s := by
  induction evs with
  | nil => intro a ha h; simp [run] at h; subst h; exact ha
  | cons e es ih =>
    intro a ha h
    simp only [run] at h
    split at h
    · rename_i a' he; exact ih a' (Reach.step a a' e ha he) h
    · simp at h

theorem reach_of_run {s0 s : St} {evs : List Ev} (h : run s0 evs = some s) : Reach s0 s :=
  reach_run evs s0 .refl h

end PfC10
