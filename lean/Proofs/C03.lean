import Model.C03
/-! Proofs for C03 (ring descriptor merge is a CRDT). Part 1: association lists and the merge loop. -/
namespace PfC03
open Ring C03

/-! ## association lists -/

theorem get?_cons (x : Inst) (xs : Desc) (k : String) :
    get? (x :: xs) k = if x.id = k then some x else get? xs k := by
  simp [get?]

theorem get?_id {d : Desc} {k : String} {x : Inst} (h : get? d k = some x) : x.id = k := by
  induction d with
  | nil => simp [get?] at h
  | cons y ys ih =>
    unfold get? at h
    by_cases hy : y.id = k
    · rw [if_pos hy] at h; injection h with h; subst h; exact hy
    · rw [if_neg hy] at h; exact ih h

theorem get?_mem {d : Desc} {k : String} {x : Inst} (h : get? d k = some x) : x ∈ d := by
  induction d with
  | nil => simp [get?] at h
  | cons y ys ih =>
    unfold get? at h
    by_cases hy : y.id = k
    · rw [if_pos hy] at h; injection h with h; subst h; simp
    · rw [if_neg hy] at h; exact List.mem_cons_of_mem _ (ih h)

theorem get?_none_iff {d : Desc} {k : String} : get? d k = none ↔ k ∉ ids d := by
  induction d with
  | nil => simp [get?, ids]
  | cons y ys ih =>
    unfold get?
    by_cases hy : y.id = k
    · rw [if_pos hy]; simp [ids, hy]
    · rw [if_neg hy, ih]; simp only [ids, List.map_cons, List.mem_cons, not_or]
      constructor
      · intro h; exact ⟨fun e => hy e.symm, h⟩
      · intro h; exact h.2

theorem get?_of_mem_nodup {d : Desc} {x : Inst} (hn : (ids d).Nodup) (hx : x ∈ d) : get? d x.id = some x := by
  induction d with
  | nil => simp at hx
  | cons y ys ih =>
    simp only [ids, List.map_cons, List.nodup_cons] at hn
    unfold get?
    rcases List.mem_cons.1 hx with rfl | hx
    · simp
    · have : y.id ≠ x.id := by
        intro e; apply hn.1; rw [e]; exact List.mem_map.2 ⟨x, hx, rfl⟩
      rw [if_neg this]; exact ih hn.2 hx

theorem get?_upsert_same (e : Inst) (d : Desc) : get? (upsert e d) e.id = some e := by
  induction d with
  | nil => simp [upsert, get?]
  | cons x xs ih =>
    unfold upsert
    by_cases h : x.id = e.id
    · rw [if_pos h]; simp [get?]
    · rw [if_neg h]; unfold get?; rw [if_neg h]; exact ih

theorem get?_upsert_other (e : Inst) (d : Desc) (k : String) (hk : k ≠ e.id) :
    get? (upsert e d) k = get? d k := by
  induction d with
  | nil => simp [upsert, get?]; intro h; exact absurd h.symm hk
  | cons x xs ih =>
    unfold upsert
    by_cases h : x.id = e.id
    · rw [if_pos h]; unfold get?
      have h1 : ¬ e.id = k := fun e' => hk e'.symm
      have h2 : ¬ x.id = k := fun e' => hk (by rw [← e', h])
      rw [if_neg h1, if_neg h2]
    · rw [if_neg h]; unfold get?
      by_cases hx : x.id = k
      · rw [if_pos hx, if_pos hx]
      · rw [if_neg hx, if_neg hx]; exact ih

theorem get?_upsert (e : Inst) (d : Desc) (k : String) :
    get? (upsert e d) k = if k = e.id then some e else get? d k := by
  by_cases h : k = e.id
  · rw [if_pos h, h]; exact get?_upsert_same e d
  · rw [if_neg h]; exact get?_upsert_other e d k h

theorem ids_upsert_mem (e : Inst) (d : Desc) (k : String) : k ∈ ids (upsert e d) ↔ k = e.id ∨ k ∈ ids d := by
  have h1 := @get?_none_iff (upsert e d) k
  have h2 := @get?_none_iff d k
  rw [get?_upsert] at h1
  by_cases h : k = e.id
  · rw [if_pos h] at h1; simp at h1; simp [h, h1]; rw [← h]; exact h1
  · rw [if_neg h] at h1
    constructor
    · intro hm; right; exact Classical.byContradiction fun hn => (h1.1 (h2.2 hn)) hm
    · rintro (hm | hm)
      · exact absurd hm h
      · exact Classical.byContradiction fun hn => (h2.1 (h1.2 hn)) hm

theorem upsert_nodup (e : Inst) (d : Desc) (hn : (ids d).Nodup) : (ids (upsert e d)).Nodup := by
  induction d with
  | nil => simp [upsert, ids]
  | cons x xs ih =>
    simp only [ids, List.map_cons, List.nodup_cons] at hn
    unfold upsert
    by_cases h : x.id = e.id
    · rw [if_pos h]; simp only [ids, List.map_cons, List.nodup_cons]; rw [← h]; exact hn
    · rw [if_neg h]; simp only [ids, List.map_cons, List.nodup_cons]
      refine ⟨?_, ih hn.2⟩
      intro hm
      have := (ids_upsert_mem e xs x.id).1 hm
      rcases this with h' | h'
      · exact h h'
      · exact hn.1 h'

theorem mem_upsert {e x : Inst} {d : Desc} (h : x ∈ upsert e d) : x = e ∨ x ∈ d := by
  induction d with
  | nil => simp [upsert] at h; exact Or.inl h
  | cons y ys ih =>
    unfold upsert at h
    by_cases hy : y.id = e.id
    · rw [if_pos hy] at h
      rcases List.mem_cons.1 h with h | h
      · exact Or.inl h
      · exact Or.inr (List.mem_cons_of_mem _ h)
    · rw [if_neg hy] at h
      rcases List.mem_cons.1 h with h | h
      · exact Or.inr (by rw [h]; simp)
      · rcases ih h with h | h
        · exact Or.inl h
        · exact Or.inr (List.mem_cons_of_mem _ h)

/-! ## the per-key step -/

-- `rk` / `rkO` (rank in the last-writer-wins order) are defined in `Model/C03.lean`

/-- the acceptance test of the merge loop on the current value `t` of the key -/
def accept (t : Option Inst) (o : Inst) : Bool :=
  decide (o.ts > curTs t) || decide (o.ts = curTs t ∧ curLeft t = false ∧ o.state = .LEFT)

theorem stepEntry_this (acc : Acc) (o : Inst) :
    (stepEntry acc o).this = if accept (get? acc.this o.id) o then upsert o acc.this else acc.this := by
  unfold stepEntry accept
  split
  · rename_i h; simp [h]
  · rename_i h; split
    · rename_i h2; simp [h2]
    · rename_i h2; simp [h, h2]

theorem stepEntry_updated (acc : Acc) (o : Inst) :
    (stepEntry acc o).updated = if accept (get? acc.this o.id) o then acc.updated ++ [o.id] else acc.updated := by
  unfold stepEntry accept
  split
  · rename_i h; simp [h]
  · rename_i h; split
    · rename_i h2; simp [h2]
    · rename_i h2; simp [h, h2]

/-- with positive timestamps the acceptance test is a comparison of ranks -/
theorem accept_iff (t : Option Inst) (o : Inst) (ho : o.ts ≥ 1) (ht : ∀ x, t = some x → x.ts ≥ 1) :
    accept t o = decide (rkO t < rk o) := by
  unfold accept rkO rk
  cases t with
  | none =>
    simp only [curTs, curLeft]
    have : o.ts > 0 := by omega
    simp [this]
    split <;> omega
  | some x =>
    simp only [curTs, curLeft]
    have hx := ht x rfl
    by_cases hl : x.state = .LEFT <;> by_cases hol : o.state = .LEFT <;> simp [hl, hol] <;>
      (try (by_cases h : x.ts < o.ts <;> simp [h] <;> omega)) <;> omega

/-- one key's value after the step -/
def stepOpt (t : Option Inst) (o : Inst) : Option Inst := if accept t o then some o else t

theorem get?_stepEntry (acc : Acc) (o : Inst) (k : String) :
    get? (stepEntry acc o).this k = if k = o.id then stepOpt (get? acc.this k) o else get? acc.this k := by
  rw [stepEntry_this]
  by_cases hk : k = o.id
  · subst hk; rw [if_pos rfl]; unfold stepOpt
    by_cases ha : accept (get? acc.this o.id) o = true
    · rw [if_pos ha, if_pos ha, get?_upsert_same]
    · rw [if_neg ha, if_neg ha]
  · rw [if_neg hk]
    by_cases ha : accept (get? acc.this o.id) o = true
    · rw [if_pos ha, get?_upsert_other _ _ _ hk]
    · rw [if_neg ha]

/-- value of key `k` after folding the loop over `other` (unique ids) -/
def joinOpt (t : Option Inst) : Option Inst → Option Inst
  | none => t
  | some o => stepOpt t o

theorem get?_foldl (other : Desc) (acc : Acc) (k : String) (hn : (ids other).Nodup) :
    get? (other.foldl stepEntry acc).this k = joinOpt (get? acc.this k) (get? other k) := by
  induction other generalizing acc with
  | nil => simp [get?, joinOpt]
  | cons o os ih =>
    simp only [ids, List.map_cons, List.nodup_cons] at hn
    rw [List.foldl_cons, ih _ hn.2, get?_stepEntry, get?_cons o os k]
    by_cases hk : k = o.id
    · have : get? os k = none := get?_none_iff.2 (by rw [hk]; exact hn.1)
      rw [if_pos hk, if_pos hk.symm, this]; simp [joinOpt]
    · have : ¬ o.id = k := fun e => hk e.symm
      rw [if_neg hk, if_neg this]

theorem foldl_nodup (other : Desc) (acc : Acc) (hn : (ids acc.this).Nodup) :
    (ids (other.foldl stepEntry acc).this).Nodup := by
  induction other generalizing acc with
  | nil => exact hn
  | cons o os ih =>
    rw [List.foldl_cons]; apply ih
    rw [stepEntry_this]
    split
    · exact upsert_nodup _ _ hn
    · exact hn

theorem foldl_mem (other : Desc) (acc : Acc) (x : Inst) (hx : x ∈ (other.foldl stepEntry acc).this) :
    x ∈ acc.this ∨ x ∈ other := by
  induction other generalizing acc with
  | nil => exact Or.inl hx
  | cons o os ih =>
    rw [List.foldl_cons] at hx
    rcases ih _ hx with h | h
    · rw [stepEntry_this] at h
      split at h
      · rcases mem_upsert h with h | h
        · exact Or.inr (by rw [h]; simp)
        · exact Or.inl h
      · exact Or.inl h
    · exact Or.inr (List.mem_cons_of_mem _ h)

/-- no update recorded ⇒ nothing was written -/
theorem foldl_updated_nil (other : Desc) (acc : Acc) (h : (other.foldl stepEntry acc).updated = []) :
    (other.foldl stepEntry acc).this = acc.this ∧ acc.updated = [] := by
  induction other generalizing acc with
  | nil => exact ⟨rfl, h⟩
  | cons o os ih =>
    rw [List.foldl_cons] at h ⊢
    obtain ⟨h1, h2⟩ := ih _ h
    rw [stepEntry_updated] at h2
    rw [h1, stepEntry_this]
    by_cases ha : accept (get? acc.this o.id) o = true
    · rw [if_pos ha] at h2; simp at h2
    · rw [if_neg ha] at h2 ⊢; exact ⟨rfl, h2⟩

end PfC03
