import Model.C18
/-! C18: the dependency graph — `listDeps`, `orderedDeps`, `addDependency`. -/
namespace PfC18
open C18

/-- `Reach g m x`: `x` is a transitive dependency of `m` (a path of at least one edge). -/
inductive Reach (g : Graph) : Mod → Mod → Prop
  | direct {m d : Mod} : d ∈ g.depsOf m → Reach g m d
  | step {m d x : Mod} : d ∈ g.depsOf m → Reach g d x → Reach g m x

theorem Reach.trans {g : Graph} {a b c : Mod} (h1 : Reach g a b) (h2 : Reach g b c) : Reach g a c := by
  induction h1 with
  | direct hd => exact .step hd h2
  | step hd _ ih => exact .step hd (ih h2)

/-- a rank that strictly decreases along every dependency edge: the graph is acyclic. -/
def Ranked (g : Graph) (r : Mod → Nat) : Prop := ∀ m, ∀ d ∈ g.depsOf m, r d < r m

/-- acyclic and well formed: dependencies are registered modules, one dependency list per module. -/
structure Acyclic (g : Graph) : Prop where
  ranked : ∃ r, Ranked g r
  closed : ∀ m, ∀ d ∈ g.depsOf m, d < g.n
  len : g.deps.length = g.n

theorem Ranked.reach {g : Graph} {r : Mod → Nat} (hr : Ranked g r) {m x : Mod} (h : Reach g m x) : r x < r m := by
  induction h with
  | direct hd => exact hr _ _ hd
  | step hd _ ih => exact Nat.lt_trans ih (hr _ _ hd)

theorem Acyclic.irrefl {g : Graph} (h : Acyclic g) (m : Mod) : ¬ Reach g m m := by
  obtain ⟨r, hr⟩ := h.ranked
  intro hm
  exact Nat.lt_irrefl _ (hr.reach hm)

/-! ### `mapM` in `Option` -/

/-- pointwise: `f` maps the i-th element of the first list to `some` of the i-th of the second. -/
inductive AllSome {α β : Type} (f : α → Option β) : List α → List β → Prop
  | nil : AllSome f [] []
  | cons {a : α} {b : β} {as : List α} {bs : List β} : f a = some b → AllSome f as bs → AllSome f (a :: as) (b :: bs)

theorem mapM_some_iff {α β : Type} (f : α → Option β) (l : List α) (ys : List β) :
    l.mapM f = some ys ↔ AllSome f l ys := by
  induction l generalizing ys with
  | nil =>
    simp only [List.mapM_nil]
    constructor
    · intro h; cases h; exact .nil
    · intro h; cases h; rfl
  | cons a as ih =>
    simp only [List.mapM_cons]
    constructor
    · intro h
      cases hfa : f a with
      | none => simp [hfa] at h
      | some y =>
        cases hm : as.mapM f with
        | none => simp [hfa, hm] at h
        | some ys' =>
          simp [hfa, hm] at h
          subst h
          exact .cons hfa ((ih ys').mp hm)
    · intro h
      cases h with
      | cons h1 h2 =>
        rename_i y ys'
        rw [h1, (ih ys').mpr h2]
        rfl

/-! ### `listDeps` -/

theorem listDeps_mem (g : Graph) (fuel : Nat) (m : Mod) (l : List Mod) (h : listDeps g fuel m = some l) (x : Mod) :
    x ∈ l ↔ Reach g m x := by
  induction fuel generalizing m l with
  | zero => simp [listDeps] at h
  | succ k ih =>
    simp only [listDeps] at h
    split at h
    · cases h
    · rename_i rest hrest
      cases h
      have hf := (mapM_some_iff _ _ _).mp hrest
      simp only [List.mem_append, List.mem_flatten]
      constructor
      · rintro (hx | ⟨l', hl', hx⟩)
        · exact .direct hx
        · -- l' is the list of some dependency d
          have : ∀ (ds : List Mod) (rs : List (List Mod)), AllSome (listDeps g k) ds rs →
              l' ∈ rs → ∃ d ∈ ds, listDeps g k d = some l' := by
            intro ds rs hfa
            induction hfa with
            | nil => intro h; cases h
            | cons h1 _ ih2 =>
              intro hm
              simp only [List.mem_cons] at hm
              rcases hm with rfl | hm
              · exact ⟨_, List.mem_cons_self .., h1⟩
              · obtain ⟨d, hd, hl⟩ := ih2 hm
                exact ⟨d, List.mem_cons_of_mem _ hd, hl⟩
          obtain ⟨d, hd, hl⟩ := this _ _ hf hl'
          exact .step hd ((ih d l' hl).mp hx)
      · intro hr
        cases hr with
        | direct hd => exact Or.inl hd
        | step hd hdx =>
          rename_i d
          right
          have : ∀ (ds : List Mod) (rs : List (List Mod)), AllSome (listDeps g k) ds rs →
              d ∈ ds → ∃ l', l' ∈ rs ∧ listDeps g k d = some l' := by
            intro ds rs hfa
            induction hfa with
            | nil => intro h; cases h
            | cons h1 _ ih2 =>
              intro hm
              simp only [List.mem_cons] at hm
              rcases hm with rfl | hm
              · exact ⟨_, List.mem_cons_self .., h1⟩
              · obtain ⟨l', hl', hl⟩ := ih2 hm
                exact ⟨l', List.mem_cons_of_mem _ hl', hl⟩
          obtain ⟨l', hl', hl⟩ := this _ _ hf hd
          exact ⟨l', hl', (ih d l' hl).mpr hdx⟩

/-- on a ranked (acyclic) graph the recursion bottoms out as soon as the depth exceeds the rank. -/
theorem listDeps_some (g : Graph) (r : Mod → Nat) (hr : Ranked g r) (fuel : Nat) (m : Mod) (h : r m < fuel) :
    ∃ l, listDeps g fuel m = some l := by
  induction fuel generalizing m with
  | zero => omega
  | succ k ih =>
    simp only [listDeps]
    have : ∀ ds : List Mod, (∀ d ∈ ds, r d < k) → ∃ rs, ds.mapM (listDeps g k) = some rs := by
      intro ds
      induction ds with
      | nil => intro _; exact ⟨[], rfl⟩
      | cons d ds ih2 =>
        intro hall
        obtain ⟨l, hl⟩ := ih d (hall d (List.mem_cons_self ..))
        obtain ⟨rs, hrs⟩ := ih2 (fun x hx => hall x (List.mem_cons_of_mem _ hx))
        exact ⟨l :: rs, by simp [List.mapM_cons, hl, hrs]⟩
    obtain ⟨rs, hrs⟩ := this (g.depsOf m) (fun d hd => by have := hr m d hd; omega)
    rw [hrs]
    exact ⟨_, rfl⟩

/-- a module that (transitively) depends on itself makes `listDeps` diverge, whatever the depth. -/
theorem listDeps_self_loop (g : Graph) (m : Mod) (h : m ∈ g.depsOf m) : ∀ fuel, listDeps g fuel m = none := by
  intro fuel
  induction fuel with
  | zero => rfl
  | succ k ih =>
    simp only [listDeps]
    have : (g.depsOf m).mapM (listDeps g k) = none := by
      have : ∀ ds : List Mod, m ∈ ds → ds.mapM (listDeps g k) = none := by
        intro ds
        induction ds with
        | nil => intro h; cases h
        | cons d ds ih2 =>
          intro hm
          simp only [List.mem_cons] at hm
          simp only [List.mapM_cons]
          rcases hm with rfl | hm
          · rw [ih]; rfl
          · rw [ih2 hm]
            cases listDeps g k d <;> rfl
      exact this _ h
    rw [this]

theorem mapM_none_of_mem (g : Graph) (k : Nat) (ds : List Mod) (d : Mod) (hd : d ∈ ds) (hn : listDeps g k d = none) :
    ds.mapM (listDeps g k) = none := by
  induction ds with
  | nil => cases hd
  | cons a as ih =>
    simp only [List.mem_cons] at hd
    simp only [List.mapM_cons]
    rcases hd with rfl | hd
    · rw [hn]; rfl
    · rw [ih hd]
      cases listDeps g k a <;> rfl

/-- a module on a dependency cycle (of any length) makes `listDeps` diverge, whatever the depth. -/
theorem listDeps_cycle (g : Graph) : ∀ (fuel : Nat) (m : Mod), Reach g m m → listDeps g fuel m = none := by
  intro fuel
  induction fuel with
  | zero => intro m _; rfl
  | succ k ih =>
    intro m hm
    -- some direct dependency of m lies on a cycle as well
    have : ∃ d ∈ g.depsOf m, Reach g d d := by
      cases hm with
      | direct hd => exact ⟨m, hd, .direct hd⟩
      | step hd hdm => exact ⟨_, hd, hdm.trans (.direct hd)⟩
    obtain ⟨d, hd, hdd⟩ := this
    simp only [listDeps]
    rw [mapM_none_of_mem g k _ d hd (ih d hdd)]

theorem mem_dedup (l : List Mod) (x : Mod) : x ∈ dedup l ↔ x ∈ l := by
  induction l with
  | nil => simp [dedup]
  | cons a as ih =>
    simp only [dedup]
    split
    · rename_i hc
      simp only [List.mem_cons, ih]
      constructor
      · exact Or.inr
      · rintro (rfl | h)
        · simpa using hc
        · exact h
    · simp [ih]

theorem nodup_dedup (l : List Mod) : (dedup l).Nodup := by
  induction l with
  | nil => simp [dedup]
  | cons a as ih =>
    simp only [dedup]
    split
    · exact ih
    · rename_i hc
      refine List.nodup_cons.mpr ⟨?_, ih⟩
      rw [mem_dedup]
      simpa using hc

/-! ### counting lemmas (pigeonhole) -/

theorem nodup_subset_length (l₁ l₂ : List Mod) (hn : l₁.Nodup) (hs : ∀ x ∈ l₁, x ∈ l₂) : l₁.length ≤ l₂.length := by
  induction l₁ generalizing l₂ with
  | nil => simp
  | cons a as ih =>
    have ha : a ∈ l₂ := hs a (List.mem_cons_self ..)
    have hn' := List.nodup_cons.mp hn
    have := ih (l₂.erase a) hn'.2 (fun x hx => by
      have hx2 := hs x (List.mem_cons_of_mem _ hx)
      have hne : x ≠ a := fun h => hn'.1 (h ▸ hx)
      exact (List.mem_erase_of_ne hne).mpr hx2)
    rw [List.length_erase_of_mem ha] at this
    have hpos : 0 < l₂.length := List.length_pos_of_mem ha
    simp only [List.length_cons]
    omega

theorem subset_of_nodup_length (l₁ l₂ : List Mod) (hn : l₁.Nodup) (hs : ∀ x ∈ l₁, x ∈ l₂) (hn2 : l₂.Nodup)
    (hlen : l₂.length ≤ l₁.length) : ∀ x ∈ l₂, x ∈ l₁ := by
  intro x hx
  apply Classical.byContradiction
  intro hnx
  have := nodup_subset_length l₁ (l₂.erase x) hn (fun y hy => by
    have hy2 := hs y hy
    have hne : y ≠ x := fun h => hnx (h ▸ hy)
    exact (List.mem_erase_of_ne hne).mpr hy2)
  rw [List.length_erase_of_mem hx] at this
  have hpos : 0 < l₂.length := List.length_pos_of_mem hx
  omega

/-! ### `orderedDeps` -/

/-- every element's dependencies occur before it (`seen` = what occurred before the list starts). -/
def topoFrom (g : Graph) : List Mod → List Mod → Prop
  | _, [] => True
  | seen, x :: xs => (∀ d ∈ g.depsOf x, d ∈ seen) ∧ topoFrom g (x :: seen) xs

theorem topo_snoc (g : Graph) (seen acc : List Mod) (n : Mod) :
    topoFrom g seen (acc ++ [n]) ↔ topoFrom g seen acc ∧ ∀ d ∈ g.depsOf n, d ∈ seen ∨ d ∈ acc := by
  induction acc generalizing seen with
  | nil => simp [topoFrom]
  | cons a as ih =>
    simp only [List.cons_append, topoFrom, ih, List.mem_cons]
    constructor
    · rintro ⟨h1, h2, h3⟩
      refine ⟨⟨h1, h2⟩, fun d hd => ?_⟩
      rcases h3 d hd with (h | h) | h
      · exact Or.inr (Or.inl h)
      · exact Or.inl h
      · exact Or.inr (Or.inr h)
    · rintro ⟨⟨h1, h2⟩, h3⟩
      refine ⟨h1, h2, fun d hd => ?_⟩
      rcases h3 d hd with h | h | h
      · exact Or.inl (Or.inr h)
      · exact Or.inl (Or.inl h)
      · exact Or.inr h

/-- the body of one iteration of the `range uniq` loop. -/
def pstep (g : Graph) (uniq : List Mod) (acc : List Mod) (name : Mod) : List Mod :=
  if !uniq.contains name || acc.contains name then acc
  else if (g.depsOf name).all acc.contains then acc ++ [name] else acc

theorem pass_eq_foldl (g : Graph) (uniq order acc : List Mod) : pass g uniq order acc = order.foldl (pstep g uniq) acc := rfl

structure PInv (g : Graph) (uniq acc : List Mod) : Prop where
  nodup : acc.Nodup
  sub : ∀ x ∈ acc, x ∈ uniq
  topo : topoFrom g [] acc

theorem pstep_inv (g : Graph) (uniq acc : List Mod) (name : Mod) (h : PInv g uniq acc) : PInv g uniq (pstep g uniq acc name) := by
  unfold pstep
  split
  · exact h
  · rename_i hc
    simp only [Bool.or_eq_true, Bool.not_eq_true', not_or] at hc
    split
    · rename_i hall
      refine ⟨?_, ?_, ?_⟩
      · rw [List.nodup_append]
        refine ⟨h.nodup, by simp, ?_⟩
        intro a ha b hb
        simp only [List.mem_singleton] at hb
        subst hb
        intro hab; subst hab
        have := hc.2
        simp at this
        exact this ha
      · intro x hx
        simp only [List.mem_append, List.mem_singleton] at hx
        rcases hx with hx | rfl
        · exact h.sub x hx
        · have := hc.1; simpa using this
      · rw [topo_snoc]
        refine ⟨h.topo, fun d hd => Or.inr ?_⟩
        have := List.all_eq_true.mp hall d hd
        simpa using this
    · exact h

theorem pstep_prefix (g : Graph) (uniq acc : List Mod) (name : Mod) : acc <+: pstep g uniq acc name := by
  unfold pstep
  split
  · exact List.prefix_refl _
  · split
    · exact List.prefix_append _ _
    · exact List.prefix_refl _

theorem pass_inv (g : Graph) (uniq order acc : List Mod) (h : PInv g uniq acc) : PInv g uniq (pass g uniq order acc) := by
  rw [pass_eq_foldl]
  induction order generalizing acc with
  | nil => exact h
  | cons n ns ih => exact ih _ (pstep_inv g uniq acc n h)

theorem pass_prefix (g : Graph) (uniq order acc : List Mod) : acc <+: pass g uniq order acc := by
  rw [pass_eq_foldl]
  induction order generalizing acc with
  | nil => exact List.prefix_refl _
  | cons n ns ih => exact List.IsPrefix.trans (pstep_prefix g uniq acc n) (ih _)

/-- a module of `uniq` that the pass visits and whose dependencies are all added already is added. -/
theorem pass_adds (g : Graph) (uniq order acc : List Mod) (x : Mod) (hx : x ∈ order) (hu : x ∈ uniq)
    (hd : ∀ d ∈ g.depsOf x, d ∈ acc) : x ∈ pass g uniq order acc := by
  rw [pass_eq_foldl]
  induction order generalizing acc with
  | nil => cases hx
  | cons n ns ih =>
    simp only [List.foldl_cons]
    have hpre := pstep_prefix g uniq acc n
    simp only [List.mem_cons] at hx
    by_cases hxn : x = n
    · subst hxn
      have hin : x ∈ pstep g uniq acc x := by
        unfold pstep
        by_cases hacc : x ∈ acc
        · have : (!uniq.contains x || acc.contains x) = true := by simp [hacc]
          rw [if_pos this]; exact hacc
        · have : ¬ (!uniq.contains x || acc.contains x) = true := by simp [hu, hacc]
          rw [if_neg this]
          have hall : (g.depsOf x).all acc.contains = true := by
            rw [List.all_eq_true]; intro d hdd; simpa using hd d hdd
          rw [if_pos hall]; simp
      have := pass_prefix g uniq ns (pstep g uniq acc x)
      rw [pass_eq_foldl] at this
      exact List.IsPrefix.subset this hin
    · rcases hx with hx | hx
      · exact absurd hx hxn
      · exact ih _ hx (fun d hdd => List.IsPrefix.subset hpre (hd d hdd))

theorem exists_min_rank (r : Mod → Nat) (P : Mod → Prop) (x : Mod) (hx : P x) :
    ∃ y, P y ∧ ∀ z, P z → r y ≤ r z := by
  induction hn : r x using Nat.strongRecOn generalizing x with
  | _ n ih =>
    by_cases h : ∃ z, P z ∧ r z < r x
    · obtain ⟨z, hz, hlt⟩ := h
      exact ih (r z) (by omega) z hz rfl
    · refine ⟨x, hx, fun z hz => ?_⟩
      apply Classical.byContradiction
      intro hlt
      exact h ⟨z, hz, by omega⟩

/-- on an acyclic graph a pass that visits all of `uniq` adds at least one module while one is missing. -/
theorem pass_progress (g : Graph) (r : Mod → Nat) (hr : Ranked g r) (uniq order acc : List Mod)
    (hclosed : ∀ x ∈ uniq, ∀ d ∈ g.depsOf x, d ∈ uniq) (hord : ∀ x ∈ uniq, x ∈ order)
    (hmiss : ∃ x ∈ uniq, x ∉ acc) : acc.length < (pass g uniq order acc).length := by
  obtain ⟨x0, hx0u, hx0a⟩ := hmiss
  obtain ⟨x, ⟨hxu, hxa⟩, hmin⟩ := exists_min_rank r (fun y => y ∈ uniq ∧ y ∉ acc) x0 ⟨hx0u, hx0a⟩
  have hdeps : ∀ d ∈ g.depsOf x, d ∈ acc := by
    intro d hd
    apply Classical.byContradiction
    intro hnd
    have := hmin d ⟨hclosed x hxu d hd, hnd⟩
    have := hr x d hd
    omega
  have hin := pass_adds g uniq order acc x (hord x hxu) hxu hdeps
  obtain ⟨extra, hex⟩ := pass_prefix g uniq order acc
  rw [← hex] at hin ⊢
  simp only [List.mem_append] at hin
  rcases hin with h | h
  · exact absurd h hxa
  · have : 0 < extra.length := List.length_pos_of_mem h
    simp; omega

theorem passes_spec (g : Graph) (r : Mod → Nat) (hr : Ranked g r) (uniq : List Mod) (hun : uniq.Nodup)
    (orders : Nat → List Mod) (hclosed : ∀ x ∈ uniq, ∀ d ∈ g.depsOf x, d ∈ uniq)
    (hord : ∀ k, ∀ x ∈ uniq, x ∈ orders k) (fuel k : Nat) (res : List Mod) (hi : PInv g uniq res)
    (hf : uniq.length - res.length < fuel + 1) :
    ∃ out, passes g uniq orders fuel k res = some out ∧ PInv g uniq out ∧ uniq.length ≤ out.length := by
  induction fuel generalizing k res with
  | zero =>
    simp only [passes]
    have : uniq.length ≤ res.length := by omega
    rw [if_pos this]
    exact ⟨res, rfl, hi, this⟩
  | succ f ih =>
    simp only [passes]
    split
    · rename_i hle; exact ⟨res, rfl, hi, hle⟩
    · rename_i hlt
      have hmiss : ∃ x ∈ uniq, x ∉ res := by
        apply Classical.byContradiction
        intro hno
        have hall : ∀ x ∈ uniq, x ∈ res := fun x hx => Classical.byContradiction fun hn => hno ⟨x, hx, hn⟩
        have := nodup_subset_length uniq res hun hall
        omega
      have hp := pass_progress g r hr uniq (orders k) res hclosed (hord k) hmiss
      have hle := nodup_subset_length _ _ (pass_inv g uniq (orders k) res hi).nodup (pass_inv g uniq (orders k) res hi).sub
      exact ih (k + 1) _ (pass_inv g uniq (orders k) res hi) (by omega)

/-- **orderedDeps**: for every acyclic graph and every choice of map-iteration orders (each visiting all
the keys), the result exists, has no duplicates, consists exactly of the transitive dependencies of `m`
and lists every module after all the modules it depends on. -/
theorem orderedDeps_spec (g : Graph) (r : Mod → Nat) (hr : Ranked g r) (fuel : Nat) (m : Mod) (hfuel : r m < fuel)
    (orders : Nat → List Mod) (hord : ∀ k x, Reach g m x → x ∈ orders k) :
    ∃ res, orderedDeps g fuel orders m = some res ∧ res.Nodup ∧ (∀ x, x ∈ res ↔ Reach g m x) ∧ topoFrom g [] res := by
  obtain ⟨deps, hdeps⟩ := listDeps_some g r hr fuel m hfuel
  have hmem := listDeps_mem g fuel m deps hdeps
  unfold orderedDeps
  rw [hdeps]
  simp only
  have hun := nodup_dedup deps
  have hu : ∀ x, x ∈ dedup deps ↔ Reach g m x := fun x => by rw [mem_dedup, hmem]
  have hclosed : ∀ x ∈ dedup deps, ∀ d ∈ g.depsOf x, d ∈ dedup deps := by
    intro x hx d hd
    rw [hu] at hx ⊢
    exact hx.trans (.direct hd)
  obtain ⟨out, ho, hinv, hlen⟩ := passes_spec g r hr (dedup deps) hun orders hclosed
    (fun k x hx => hord k x ((hu x).mp hx)) ((dedup deps).length + 1) 0 [] ⟨by simp, by simp, trivial⟩ (by simp; omega)
  refine ⟨out, ho, hinv.nodup, fun x => ?_, hinv.topo⟩
  rw [← hu]
  exact ⟨hinv.sub x, subset_of_nodup_length out (dedup deps) hinv.nodup hinv.sub hun hlen x⟩

/-! ### finite graphs: no cycle ⇒ a rank exists -/

theorem countP_le_of_imp (p q : Mod → Bool) (l : List Mod) (h : ∀ x ∈ l, p x = true → q x = true) :
    l.countP p ≤ l.countP q := by
  induction l with
  | nil => simp
  | cons a as ih =>
    have ih' := ih (fun x hx => h x (List.mem_cons_of_mem _ hx))
    have ha := h a (List.mem_cons_self ..)
    simp only [List.countP_cons]
    cases hp : p a <;> cases hq : q a <;> simp_all <;> omega

theorem countP_lt_of_imp (p q : Mod → Bool) (l : List Mod) (h : ∀ x ∈ l, p x = true → q x = true)
    (x : Mod) (hx : x ∈ l) (hqx : q x = true) (hpx : p x = false) : l.countP p < l.countP q := by
  induction l with
  | nil => cases hx
  | cons a as ih =>
    simp only [List.countP_cons]
    have hle := countP_le_of_imp p q as (fun y hy => h y (List.mem_cons_of_mem _ hy))
    simp only [List.mem_cons] at hx
    rcases hx with rfl | hx
    · simp [hqx, hpx]; omega
    · have := ih (fun y hy => h y (List.mem_cons_of_mem _ hy)) hx
      have ha := h a (List.mem_cons_self ..)
      cases hp : p a <;> cases hq : q a <;> simp_all <;> omega

open Classical in
/-- on a graph whose dependency lists mention registered modules only, the number of modules reachable
from `m` is a rank as soon as no module reaches itself. -/
theorem ranked_of_no_cycle (g : Graph) (hclosed : ∀ m, ∀ d ∈ g.depsOf m, d < g.n) (hno : ∀ m, ¬ Reach g m m) :
    ∃ r, Ranked g r := by
  refine ⟨fun m => (List.range g.n).countP (fun x => decide (Reach g m x)), ?_⟩
  intro m d hd
  apply countP_lt_of_imp _ _ _ _ d (List.mem_range.mpr (hclosed m d hd))
  · simpa using (Reach.direct hd : Reach g m d)
  · simpa using hno d
  · intro x _ hx
    simp only [decide_eq_true_eq] at hx ⊢
    exact .step hd hx

/-- **`listDeps` returns for every module iff the graph is acyclic** (finite, well-formed graph). -/
theorem listDeps_terminates_iff (g : Graph) (hclosed : ∀ m, ∀ d ∈ g.depsOf m, d < g.n) :
    (∀ m, ∃ fuel l, listDeps g fuel m = some l) ↔ ∃ r, Ranked g r := by
  constructor
  · intro h
    apply ranked_of_no_cycle g hclosed
    intro m hm
    obtain ⟨fuel, l, hl⟩ := h m
    rw [listDeps_cycle g fuel m hm] at hl
    cases hl
  · rintro ⟨r, hr⟩ m
    obtain ⟨l, hl⟩ := listDeps_some g r hr (r m + 1) m (Nat.lt_succ_self _)
    exact ⟨_, l, hl⟩

/-! ### `AddDependency` -/

theorem depsOf_setDeps (g : Graph) (name : Mod) (ds : List Mod) (hn : name < g.deps.length) (m : Mod) :
    ({ g with deps := setDeps g.deps name (· ++ ds) } : Graph).depsOf m =
      if m = name then g.depsOf name ++ ds else g.depsOf m := by
  simp only [Graph.depsOf, setDeps, List.getD_eq_getElem?_getD, List.getElem?_mapIdx]
  by_cases hm : m = name
  · subst hm
    rw [if_pos rfl]
    rw [List.getElem?_eq_getElem hn]
    simp
  · rw [if_neg hm]
    cases h : g.deps[m]? with
    | none => simp
    | some l => simp [hm]

theorem addCheck_ok (g : Graph) (fuel : Nat) (name : Mod) (ds : List Mod) (h : addCheck g fuel name ds = .ok) :
    ∀ d ∈ ds, g.has d = true ∧ d ≠ name ∧ ∃ l, listDeps g fuel d = some l ∧ name ∉ l := by
  induction ds with
  | nil => intro d hd; cases hd
  | cons a as ih =>
    simp only [addCheck] at h
    split at h
    · cases h
    · rename_i hhas
      split at h
      · cases h
      · rename_i hself
        split at h
        · cases h
        · rename_i prev hprev
          split at h
          · cases h
          · rename_i hnc
            intro d hd
            simp only [List.mem_cons] at hd
            rcases hd with rfl | hd
            · refine ⟨by simpa using hhas, hself, ?_⟩
              unfold dependenciesFor at hprev
              cases hl : listDeps g fuel d with
              | none => rw [hl] at hprev; cases hprev
              | some l =>
                rw [hl] at hprev
                simp at hprev
                subst hprev
                refine ⟨l, rfl, ?_⟩
                intro hin
                apply hnc
                simpa using (mem_dedup l name).mpr hin
            · exact ih h d hd

theorem le_sum_of_mem (f : Mod → Nat) (l : List Mod) (x : Mod) (h : x ∈ l) : f x ≤ (l.map f).sum := by
  induction l with
  | nil => cases h
  | cons a as ih =>
    simp only [List.map_cons, List.sum_cons, List.mem_cons] at h ⊢
    rcases h with rfl | h
    · omega
    · have := ih h; omega

open Classical in
/-- **AddDependency keeps the graph acyclic**: whatever would close a cycle — through existing edges or
as a self dependency — is rejected. -/
theorem addDependency_acyclic (g : Graph) (hg : Acyclic g) (fuel : Nat) (name : Mod) (ds : List Mod) (g' : Graph)
    (h : addDependency g fuel name ds = (.ok, g')) : Acyclic g' := by
  unfold addDependency at h
  split at h
  · cases h
  · rename_i hhas
    have hname : name < g.n := by simpa [Graph.has] using hhas
    have hnl : name < g.deps.length := by rw [hg.len]; exact hname
    split at h
    · rename_i hck
      cases h
      have hchk := addCheck_ok g fuel name ds hck
      have hne : ∀ d ∈ ds, d ≠ name := fun d hd => (hchk d hd).2.1
      obtain ⟨r, hr⟩ := hg.ranked
      have hdep := depsOf_setDeps g name ds hnl
      -- the new dependencies do not reach `name`
      have hnr : ∀ d ∈ ds, ¬ Reach g d name := by
        intro d hd hreach
        obtain ⟨_, _, l, hl, hnl'⟩ := hchk d hd
        exact hnl' ((listDeps_mem g fuel d l hl name).mpr hreach)
      refine ⟨?_, ?_, ?_⟩
      · -- shift the rank of everything that reaches `name` above the new dependencies
        let K := 1 + (ds.map r).sum
        refine ⟨fun x => r x + (if x = name ∨ Reach g x name then K else 0), ?_⟩
        intro m d hd
        rw [hdep] at hd
        show r d + (if d = name ∨ Reach g d name then K else 0) < r m + (if m = name ∨ Reach g m name then K else 0)
        have hold : d ∈ g.depsOf m → r d + (if d = name ∨ Reach g d name then K else 0) <
            r m + (if m = name ∨ Reach g m name then K else 0) := by
          intro hdm
          have hlt := hr m d hdm
          by_cases hde : d = name ∨ Reach g d name
          · have hme : m = name ∨ Reach g m name := by
              right
              rcases hde with rfl | hde
              · exact .direct hdm
              · exact .step hdm hde
            rw [if_pos hde, if_pos hme]; omega
          · rw [if_neg hde]; split <;> omega
        by_cases hm : m = name
        · subst hm
          rw [if_pos rfl] at hd
          simp only [List.mem_append] at hd
          rcases hd with hd | hd
          · exact hold hd
          · have h1 : ¬ (d = m ∨ Reach g d m) := by
              rintro (h | h)
              · exact hne d hd h
              · exact hnr d hd h
            rw [if_neg h1, if_pos (Or.inl rfl)]
            have := le_sum_of_mem r ds d hd
            show r d + 0 < r m + (1 + (ds.map r).sum)
            omega
        · rw [if_neg hm] at hd
          exact hold hd
      · intro m d hd
        rw [hdep] at hd
        show d < g.n
        by_cases hm : m = name
        · rw [if_pos hm] at hd
          simp only [List.mem_append] at hd
          rcases hd with hd | hd
          · exact hg.closed name d hd
          · have := (hchk d hd).1
            simpa [Graph.has] using this
        · rw [if_neg hm] at hd
          exact hg.closed m d hd
      · show (setDeps g.deps name (· ++ ds)).length = g.n
        simp [setDeps, hg.len]
    · rename_i hnot
      simp only [Prod.mk.injEq] at h
      exact absurd h.1 hnot

end PfC18
