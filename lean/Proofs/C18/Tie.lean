import Proofs.C18.InitFail
import Proofs.C18.Live
/-! C18: the wrappers' dependency sets ARE the graph's (`dependenciesFor`, `inverseDeps`), and the
run-time theorems restated over the graph. -/
namespace PfC18
open C18 C17

theorem dependenciesFor_mem (g : Graph) (fuel : Nat) (m : Mod) (l : List Mod) (h : dependenciesFor g fuel m = some l)
    (x : Mod) : x ∈ l ↔ Reach g m x := by
  unfold dependenciesFor at h
  cases hl : listDeps g fuel m with
  | none => rw [hl] at h; cases h
  | some d =>
    rw [hl] at h
    simp at h
    subst h
    rw [mem_dedup]
    exact listDeps_mem g fuel m d hl x

theorem dependenciesFor_some (g : Graph) (r : Mod → Nat) (hr : Ranked g r) (fuel : Nat) (hf : ∀ m, r m < fuel) (m : Mod) :
    ∃ l, dependenciesFor g fuel m = some l := by
  obtain ⟨d, hd⟩ := listDeps_some g r hr fuel m (hf m)
  exact ⟨dedup d, by simp [dependenciesFor, hd]⟩

/-- the fold inside `inverseDeps`. -/
def invFold (g : Graph) (fuel : Nat) (m : Mod) (acc : List Mod) (x : Mod) : Option (List Mod) :=
  match dependenciesFor g fuel x with
  | none => none
  | some ds => some (if ds.contains m then acc ++ [x] else acc)

theorem inverseDeps_eq (g : Graph) (fuel : Nat) (m : Mod) :
    inverseDeps g fuel m = (List.range g.n).foldlM (invFold g fuel m) [] := rfl

theorem invFold_spec (g : Graph) (r : Mod → Nat) (hr : Ranked g r) (fuel : Nat) (hf : ∀ m, r m < fuel) (m : Mod)
    (xs acc : List Mod) :
    ∃ l, xs.foldlM (invFold g fuel m) acc = some l ∧ ∀ y, y ∈ l ↔ y ∈ acc ∨ (y ∈ xs ∧ Reach g y m) := by
  induction xs generalizing acc with
  | nil => exact ⟨acc, rfl, fun y => by simp⟩
  | cons x xs ih =>
    obtain ⟨ds, hds⟩ := dependenciesFor_some g r hr fuel hf x
    have hmem := dependenciesFor_mem g fuel x ds hds m
    simp only [List.foldlM_cons, invFold, hds]
    show ∃ l, (xs.foldlM (invFold g fuel m) (if ds.contains m then acc ++ [x] else acc)) = some l ∧ _
    obtain ⟨l, hl, hspec⟩ := ih (if ds.contains m then acc ++ [x] else acc)
    refine ⟨l, hl, fun y => ?_⟩
    rw [hspec]
    by_cases hc : ds.contains m = true
    · have hreach : Reach g x m := hmem.mp (by simpa using hc)
      simp only [hc, if_true, List.mem_append, List.mem_cons, List.not_mem_nil, or_false]
      constructor
      · rintro ((h | rfl) | ⟨h1, h2⟩)
        · exact Or.inl h
        · exact Or.inr ⟨Or.inl rfl, hreach⟩
        · exact Or.inr ⟨Or.inr h1, h2⟩
      · rintro (h | ⟨rfl | h1, h2⟩)
        · exact Or.inl (Or.inl h)
        · exact Or.inl (Or.inr rfl)
        · exact Or.inr ⟨h1, h2⟩
    · have hnr : ¬ Reach g x m := fun h => hc (by simpa using hmem.mpr h)
      simp only [hc, List.mem_cons]
      constructor
      · rintro (h | ⟨h1, h2⟩)
        · exact Or.inl h
        · exact Or.inr ⟨Or.inr h1, h2⟩
      · rintro (h | ⟨rfl | h1, h2⟩)
        · exact Or.inl h
        · exact absurd h2 hnr
        · exact Or.inr ⟨h1, h2⟩

/-- **`inverseDependenciesForModule(m)`** = the registered modules that transitively depend on `m`. -/
theorem inverseDeps_spec (g : Graph) (r : Mod → Nat) (hr : Ranked g r) (fuel : Nat) (hf : ∀ m, r m < fuel) (m : Mod) :
    ∃ l, inverseDeps g fuel m = some l ∧ ∀ y, y ∈ l ↔ y < g.n ∧ Reach g y m := by
  obtain ⟨l, hl, hspec⟩ := invFold_spec g r hr fuel hf m (List.range g.n) []
  refine ⟨l, by rw [inverseDeps_eq]; exact hl, fun y => ?_⟩
  rw [hspec]; simp

/-- **the wrappers' dependency sets are the graph's**: for an acyclic graph, wrapper `m` waits at start for
exactly the modules with a service that `m` transitively depends on, and at stop for exactly the modules with a
service that transitively depend on `m`. -/
theorem wrapperSys_deps (g : Graph) (hg : Acyclic g) (svcs : List Mod) (m x : Mod) :
    (x ∈ (wrapperSys g (g.n + 1) svcs).startDeps m ↔ x ∈ svcs ∧ Reach g m x) ∧
    (x ∈ (wrapperSys g (g.n + 1) svcs).stopDeps m ↔ x ∈ svcs ∧ x < g.n ∧ Reach g x m) := by
  obtain ⟨r, hr, hb⟩ := ranked_bounded g hg
  have hf : ∀ m, r m < g.n + 1 := fun m => by have := hb m; omega
  obtain ⟨ds, hds⟩ := dependenciesFor_some g r hr _ hf m
  obtain ⟨is, his, hisp⟩ := inverseDeps_spec g r hr _ hf m
  simp only [wrapperSys, hds, his, Option.getD_some, List.mem_filter, List.contains_iff_mem]
  rw [dependenciesFor_mem g _ m ds hds x, hisp]
  exact ⟨⟨fun h => ⟨h.2, h.1⟩, fun h => ⟨h.2, h.1⟩⟩, ⟨fun h => ⟨h.2, h.1⟩, fun h => ⟨h.2, h.1⟩⟩⟩

theorem wrapperSys_init (g : Graph) (fuel : Nat) (svcs : List Mod) :
    wrapperSys g fuel svcs = Sys.init svcs (wrapperSys g fuel svcs).startDeps (wrapperSys g fuel svcs).stopDeps := rfl

theorem run_startDeps (s : Sys) (evs : List REv) : (s.run evs).startDeps = s.startDeps := by
  induction evs generalizing s with
  | nil => rfl
  | cons e es ih => exact (ih _).trans (step_startDeps s e)

theorem wrapperSys_rinv (g : Graph) (fuel : Nat) (svcs : List Mod) (evs : List REv) :
    RInv ((wrapperSys g fuel svcs).run evs) := by
  rw [wrapperSys_init]; exact rinv_run _ (rinv_init _ _ _) evs

theorem wrapperSys_stopRanked (g : Graph) (hg : Acyclic g) (svcs : List Mod) :
    StopRanked svcs (wrapperSys g (g.n + 1) svcs).stopDeps := by
  obtain ⟨r, hr, hb⟩ := ranked_bounded g hg
  refine ⟨fun y => g.n - r y, fun m _ x hx => ?_⟩
  have h := ((wrapperSys_deps g hg svcs m x).2.mp hx)
  refine ⟨h.1, ?_⟩
  have := hr.reach h.2.2
  have := hb x
  show g.n - r x < g.n - r m
  omega

/-! ### the run-time theorems over the graph -/

/-- reachable states of the wrapper system of graph `g` with service modules `svcs`. -/
def wrun (g : Graph) (svcs : List Mod) (evs : List REv) : Sys := (wrapperSys g (g.n + 1) svcs).run evs

theorem wrun_deps (g : Graph) (hg : Acyclic g) (svcs : List Mod) (evs : List REv) (m x : Mod) :
    (x ∈ (wrun g svcs evs).startDeps m ↔ x ∈ svcs ∧ Reach g m x) ∧
    (x ∈ (wrun g svcs evs).stopDeps m ↔ x ∈ svcs ∧ x < g.n ∧ Reach g x m) := by
  unfold wrun
  rw [run_startDeps, run_stopDeps]
  exact wrapperSys_deps g hg svcs m x

theorem g_start_after_deps (g : Graph) (hg : Acyclic g) (svcs : List Mod) (evs : List REv) (m d : Mod)
    (hd : d ∈ svcs) (hr : Reach g m d) (hi : ((wrun g svcs evs).st m).inner ≠ .new) :
    ((wrun g svcs evs).st d).wasRunning = true :=
  (wrapperSys_rinv g _ svcs evs).deps m (Or.inl hi) d ((wrun_deps g hg svcs evs m d).1.mpr ⟨hd, hr⟩)

theorem g_stop_after_dependants (g : Graph) (hg : Acyclic g) (svcs : List Mod) (evs : List REv) (m : Mod) :
    (((wrun g svcs evs).st m).stoppedByWrapper = true →
      ∀ x ∈ svcs, x < g.n → Reach g x m → ((wrun g svcs evs).st x).ph.terminal = true) ∧
    (((wrun g svcs evs).st m).iStopReq = true → ((wrun g svcs evs).st m).stoppedByWrapper = false →
      ((wrun g svcs evs).st m).wasRunning = false ∧
      ∀ x ∈ svcs, Reach g x m → m ∈ svcs → ((wrun g svcs evs).st x).inner = .new) := by
  have hi := wrapperSys_rinv g (g.n + 1) svcs evs
  refine ⟨fun h x hx hxn hr => hi.stopped m h x ((wrun_deps g hg svcs evs m x).2.mpr ⟨hx, hxn, hr⟩), ?_⟩
  intro h1 h2
  have hw : ((wrun g svcs evs).st m).wasRunning = false := by
    rcases hi.req m h1 with h | h
    · unfold wrun at h2; rw [h2] at h; cases h
    · exact h
  refine ⟨hw, fun x hx hr hm => ?_⟩
  apply Classical.byContradiction
  intro hne
  have := g_start_after_deps g hg svcs evs x m hm hr hne
  rw [hw] at this; cases this

theorem g_dep_failure (g : Graph) (hg : Acyclic g) (svcs : List Mod) (evs more : List REv) (d : Mod) (hd : d ∈ svcs)
    (hf : ((wrun g svcs evs).st d).ph = .failed) (hw : ((wrun g svcs evs).st d).wasRunning = false)
    (m : Mod) (hr : Reach g m d) :
    let s' := wrun g svcs (evs ++ more)
    (s'.st d).ph = .failed ∧ (s'.st m).inner = .new ∧
      ((s'.st m).started = true → (s'.st m).ph ≠ .term ∧ (s'.st m).ph ≠ .run) := by
  intro s'
  have hs' : s' = (wrun g svcs evs).run more := by simp [s', wrun, run_append]
  obtain ⟨h1, h2⟩ := failed_to_start_stable_run (wrun g svcs evs) more d hf hw
  rw [← hs'] at h1 h2
  have hi := wrapperSys_rinv g (g.n + 1) svcs (evs ++ more)
  have hdm := (wrun_deps g hg svcs (evs ++ more) m d).1.mpr ⟨hd, hr⟩
  refine ⟨h1, ?_, fun hs => ⟨?_, ?_⟩⟩
  · apply Classical.byContradiction
    intro hne
    have := hi.deps m (Or.inl hne) d hdm
    rw [show ((wrapperSys g (g.n + 1) svcs).run (evs ++ more)) = s' from rfl, h2] at this; cases this
  · intro ht
    have := hi.deps m (Or.inr (Or.inr ⟨ht, hs⟩)) d hdm
    rw [show ((wrapperSys g (g.n + 1) svcs).run (evs ++ more)) = s' from rfl, h2] at this; cases this
  · intro hrn
    have := hi.deps m (Or.inr (Or.inl (by show pastDeps (s'.st m).ph = true; rw [hrn]; rfl))) d hdm
    rw [show ((wrapperSys g (g.n + 1) svcs).run (evs ++ more)) = s' from rfl, h2] at this; cases this

theorem g_can_finish (g : Graph) (hg : Acyclic g) (svcs : List Mod) (evs : List REv) :
    ∀ m ∈ svcs, (((wrun g svcs evs).run (finishSchedule svcs)).st m).ph.terminal = true := by
  apply finish_all svcs (wrun g svcs evs)
  · unfold wrun; rw [wrapperSys_init]; exact sane_run _ evs (sane_init _ _ _)
  · unfold wrun; rw [run_stopDeps]; exact wrapperSys_stopRanked g hg svcs

/-! ### `AddDependency`: the exact acceptance condition -/

theorem addCheck_complete (g : Graph) (r : Mod → Nat) (hr : Ranked g r) (fuel : Nat) (hf : ∀ m, r m < fuel)
    (name : Mod) (ds : List Mod) (h : ∀ d ∈ ds, d < g.n ∧ d ≠ name ∧ ¬ Reach g d name) :
    addCheck g fuel name ds = .ok := by
  induction ds with
  | nil => rfl
  | cons d ds ih =>
    obtain ⟨h1, h2, h3⟩ := h d (List.mem_cons_self ..)
    obtain ⟨prev, hprev⟩ := dependenciesFor_some g r hr fuel hf d
    have hnc : prev.contains name = false := by
      cases hc : prev.contains name
      · rfl
      · exact absurd ((dependenciesFor_mem g fuel d prev hprev name).mp (by simpa using hc)) h3
    simp only [addCheck, Graph.has, h1, decide_true, Bool.not_true, Bool.false_eq_true, if_false, h2, hprev, hnc]
    exact ih (fun x hx => h x (List.mem_cons_of_mem _ hx))

/-- **`AddDependency` succeeds exactly when** the module and the new dependencies are registered, none of
them is the module itself and none already (transitively) depends on it — i.e. exactly when the new edges
close no cycle. (Soundness alone would be satisfied by a function that rejects everything.) -/
theorem addDependency_ok_iff (g : Graph) (hg : Acyclic g) (name : Mod) (ds : List Mod) :
    (addDependency g (g.n + 1) name ds).1 = .ok ↔
      name < g.n ∧ ∀ d ∈ ds, d < g.n ∧ d ≠ name ∧ ¬ Reach g d name := by
  obtain ⟨r, hr, hb⟩ := ranked_bounded g hg
  have hf : ∀ m, r m < g.n + 1 := fun m => by have := hb m; omega
  constructor
  · intro h
    unfold addDependency at h
    split at h
    · simp at h
    · rename_i hhas
      have hname : name < g.n := by simpa [Graph.has] using hhas
      split at h
      · rename_i hck
        refine ⟨hname, fun d hd => ?_⟩
        obtain ⟨a1, a2, l, hl, hnl⟩ := addCheck_ok g _ name ds hck d hd
        exact ⟨by simpa [Graph.has] using a1, a2, fun hre => hnl ((listDeps_mem g _ d l hl name).mpr hre)⟩
      · rename_i hne
        simp only at h
        exact absurd h hne
  · rintro ⟨hname, hds⟩
    have hck := addCheck_complete g r hr _ hf name ds hds
    unfold addDependency
    simp [Graph.has, hname, hck]

end PfC18
