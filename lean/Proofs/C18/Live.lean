import Proofs.C18.Run
import Proofs.C18.Graph
/-! C18: the system of wrappers can always finish (`finishSchedule`). -/
namespace PfC18
open C18 C17

/-- the module an event is about. -/
def REv.target : REv → Mod
  | .wStart m | .wStop m | .awaitOk m _ | .awaitFail m _ | .awaitCancelled m | .depsDone m | .innerUp m
  | .innerStartFailed m | .cleanupDone m | .runExit m | .stopLooks m | .dependantsGone m | .innerStopped m
  | .iStartRet m _ | .iRunRet m _ | .iStopRet m _ => m

theorem local_target (s : Sys) (e : REv) (k : Mod) (x : ModSt) (h : s.local e = some (k, x)) : k = REv.target e := by
  cases e <;> simp only [Sys.local] at h <;> (repeat' split at h) <;> (try cases h) <;> rfl

/-- an event changes nothing but the state of its own module. -/
theorem step_frame (s : Sys) (e : REv) (k : Mod) (hk : k ≠ REv.target e) : (s.step e).st k = s.st k := by
  unfold Sys.step
  split
  · rfl
  · rename_i m x h
    have := local_target s e m x h
    simp only [Sys.set]
    rw [if_neg (by rw [this]; exact hk)]

theorem step_stopDeps' (s : Sys) (e : REv) : (s.step e).stopDeps = s.stopDeps := step_stopDeps s e

/-- Terminated / Failed wrappers stay as they are. -/
theorem terminal_absorbing (s : Sys) (e : REv) (m : Mod) (h : (s.st m).ph.terminal = true) :
    ((s.step e).st m).ph = (s.st m).ph := by
  unfold Sys.step
  split
  · rfl
  · rename_i k x hl
    simp only [Sys.set]
    split
    · rename_i hkm
      subst hkm
      cases hph : (s.st m).ph <;> rw [hph] at h <;> simp [WPhase.terminal] at h <;>
        (cases e <;> simp only [Sys.local] at hl <;> (repeat' split at hl) <;> (try cases hl) <;> simp_all)
    · rfl

theorem terminal_absorbing_run (s : Sys) (evs : List REv) (m : Mod) (h : (s.st m).ph.terminal = true) :
    ((s.run evs).st m).ph.terminal = true := by
  induction evs generalizing s with
  | nil => exact h
  | cons e es ih =>
    apply ih
    rw [terminal_absorbing s e m h]; exact h

/-! ### one module, the events of `modSched` -/

inductive LK | wStop | awaitCancelled | innerStartFailed | runExit | stopLooks | dependantsGone
  | iStartRet | iRunRet | iStopRet | cleanupDone | innerStopped
deriving DecidableEq, Repr

def LK.ev (m : Mod) : LK → REv
  | .wStop => .wStop m | .awaitCancelled => .awaitCancelled m | .innerStartFailed => .innerStartFailed m
  | .runExit => .runExit m | .stopLooks => .stopLooks m | .dependantsGone => .dependantsGone m
  | .iStartRet => .iStartRet m true
  | .iRunRet => .iRunRet m true | .iStopRet => .iStopRet m true | .cleanupDone => .cleanupDone m
  | .innerStopped => .innerStopped m

def LK.all : List LK :=
  [.wStop, .awaitCancelled, .innerStartFailed, .runExit, .stopLooks, .dependantsGone, .iStartRet, .iRunRet, .iStopRet,
   .cleanupDone, .innerStopped]

theorem modSched_eq (m : Mod) : modSched m = LK.all.map (LK.ev m) := rfl

/-- what these events do to the module's own record; `dt` = all its dependants are terminal. -/
def lstep (dt : Bool) (x : ModSt) : LK → ModSt
  | .wStop =>
    match x.ph with
    | .idle => { x with ph := .term }
    | .term | .failed | .stopEntry | .stopWait | .innerStop => x
    | _ => { x with wctx := true }
  | .awaitCancelled =>
    match x.ph with
    | .waitDeps _ => if x.wctx then { x with ph := .failed } else x
    | _ => x
  | .innerStartFailed =>
    if x.ph = .innerStart ∧ (x.wctx ∨ x.inner = .stopping ∨ x.inner = .terminated ∨ x.inner = .failed) then
      { (innerStopAsync x) with ph := .startCleanup }
    else x
  | .runExit => if x.ph = .run ∧ (x.wctx ∨ x.inner.terminal) then { x with ph := .stopEntry } else x
  | .stopLooks =>
    if x.ph = .stopEntry then
      (if x.inner = .running then { x with ph := .stopWait }
       else { x with ph := if x.inner = .failed then .failed else .term })
    else x
  | .dependantsGone =>
    if x.ph = .stopWait ∧ dt then { (innerStopAsync x) with ph := .innerStop, stoppedByWrapper := true } else x
  | .iStartRet =>
    if x.inner = .starting then { x with inner := if x.iStopReq then .stopping else .running } else x
  | .iRunRet => if x.inner = .running then { x with inner := .stopping, iFail := false } else x
  | .iStopRet =>
    if x.inner = .stopping then { x with inner := if x.iFail || false then .failed else .terminated, iFail := x.iFail || false } else x
  | .cleanupDone => if x.ph = .startCleanup ∧ x.inner.terminal then { x with ph := .failed } else x
  | .innerStopped =>
    if x.ph = .innerStop ∧ x.inner.terminal then { x with ph := if x.inner = .failed then .failed else .term } else x

theorem local_lstep_some (s : Sys) (m : Mod) (k : LK) (j : Mod) (x : ModSt) (h : s.local (k.ev m) = some (j, x)) :
    j = m ∧ x = lstep ((s.stopDeps m).all fun j => (s.st j).ph.terminal) (s.st m) k := by
  cases k <;> simp only [LK.ev, Sys.local] at h <;> (repeat' split at h) <;> (try cases h) <;> simp_all [lstep]

theorem local_lstep_none (s : Sys) (m : Mod) (k : LK) (h : s.local (k.ev m) = none) :
    lstep ((s.stopDeps m).all fun j => (s.st j).ph.terminal) (s.st m) k = s.st m := by
  cases k with
  | dependantsGone =>
    simp only [LK.ev, Sys.local] at h
    split at h
    · cases h
    · rename_i hg
      simp only [lstep]
      rw [if_neg hg]
  | _ => simp only [LK.ev, Sys.local] at h <;> (repeat' split at h) <;> (try cases h) <;> simp_all [lstep]

theorem step_self (s : Sys) (m : Mod) (k : LK) :
    (s.step (k.ev m)).st m = lstep ((s.stopDeps m).all fun j => (s.st j).ph.terminal) (s.st m) k := by
  unfold Sys.step
  cases hl : s.local (k.ev m) with
  | none => exact (local_lstep_none s m k hl).symm
  | some p =>
    obtain ⟨j, x⟩ := p
    obtain ⟨rfl, rfl⟩ := local_lstep_some s m k j x hl
    simp [Sys.set]

/-- in the two phases that wait for the inner service to terminate, the inner service has been started
(or was terminated by `innerStopAsync`): it is never New there. True in every reachable state (`sane_run`). -/
def Sane (x : ModSt) : Prop := (x.ph = .startCleanup ∨ x.ph = .innerStop) → x.inner ≠ .new

theorem lt_idle (w : Bool) (i : SState) (q f a b c : Bool) :
    (LK.all.foldl (lstep true) ⟨.idle, w, i, q, f, a, b, c⟩).ph.terminal = true := by
  cases i <;> cases w <;> cases q <;> cases f <;>
    simp [LK.all, lstep, innerStopAsync, WPhase.terminal, SState.terminal]

theorem lt_wait (ok : List Mod) (w : Bool) (i : SState) (q f a b c : Bool) :
    (LK.all.foldl (lstep true) ⟨(.waitDeps ok), w, i, q, f, a, b, c⟩).ph.terminal = true := by
  cases i <;> cases w <;> cases q <;> cases f <;>
    simp [LK.all, lstep, innerStopAsync, WPhase.terminal, SState.terminal]

theorem lt_istart (w : Bool) (i : SState) (q f a b c : Bool) :
    (LK.all.foldl (lstep true) ⟨.innerStart, w, i, q, f, a, b, c⟩).ph.terminal = true := by
  cases i <;> cases w <;> cases q <;> cases f <;>
    simp [LK.all, lstep, innerStopAsync, WPhase.terminal, SState.terminal]

theorem lt_clean (w : Bool) (i : SState) (q f a b c : Bool) (hi : i ≠ .new) :
    (LK.all.foldl (lstep true) ⟨.startCleanup, w, i, q, f, a, b, c⟩).ph.terminal = true := by
  cases i <;> cases w <;> cases q <;> cases f <;>
    simp [LK.all, lstep, innerStopAsync, WPhase.terminal, SState.terminal] at hi ⊢

theorem lt_run (w : Bool) (i : SState) (q f a b c : Bool) :
    (LK.all.foldl (lstep true) ⟨.run, w, i, q, f, a, b, c⟩).ph.terminal = true := by
  cases i <;> cases w <;> cases q <;> cases f <;>
    simp [LK.all, lstep, innerStopAsync, WPhase.terminal, SState.terminal]

theorem lt_sentry (w : Bool) (i : SState) (q f a b c : Bool) :
    (LK.all.foldl (lstep true) ⟨.stopEntry, w, i, q, f, a, b, c⟩).ph.terminal = true := by
  cases i <;> cases w <;> cases q <;> cases f <;>
    simp [LK.all, lstep, innerStopAsync, WPhase.terminal, SState.terminal]

theorem lt_swait (w : Bool) (i : SState) (q f a b c : Bool) :
    (LK.all.foldl (lstep true) ⟨.stopWait, w, i, q, f, a, b, c⟩).ph.terminal = true := by
  cases i <;> cases w <;> cases q <;> cases f <;>
    simp [LK.all, lstep, innerStopAsync, WPhase.terminal, SState.terminal]

theorem lt_istop (w : Bool) (i : SState) (q f a b c : Bool) (hi : i ≠ .new) :
    (LK.all.foldl (lstep true) ⟨.innerStop, w, i, q, f, a, b, c⟩).ph.terminal = true := by
  cases i <;> cases w <;> cases q <;> cases f <;>
    simp [LK.all, lstep, innerStopAsync, WPhase.terminal, SState.terminal] at hi ⊢

theorem lt_term (w : Bool) (i : SState) (q f a b c : Bool) :
    (LK.all.foldl (lstep true) ⟨.term, w, i, q, f, a, b, c⟩).ph.terminal = true := by
  cases i <;> cases w <;> cases q <;> cases f <;>
    simp [LK.all, lstep, innerStopAsync, WPhase.terminal, SState.terminal]

theorem lt_failed (w : Bool) (i : SState) (q f a b c : Bool) :
    (LK.all.foldl (lstep true) ⟨.failed, w, i, q, f, a, b, c⟩).ph.terminal = true := by
  cases i <;> cases w <;> cases q <;> cases f <;>
    simp [LK.all, lstep, innerStopAsync, WPhase.terminal, SState.terminal]

/-- on the module's own record the schedule always ends in a terminal phase, provided the dependants are terminal. -/
theorem lsched_terminal (x : ModSt) (hs : Sane x) : (LK.all.foldl (lstep true) x).ph.terminal = true := by
  obtain ⟨ph, wctx, inner, iStopReq, iFail, wasRunning, started, sbw⟩ := x
  cases ph with
  | idle => exact lt_idle ..
  | waitDeps ok => exact lt_wait ..
  | innerStart => exact lt_istart ..
  | startCleanup => exact lt_clean _ _ _ _ _ _ _ (hs (Or.inl rfl))
  | run => exact lt_run ..
  | stopEntry => exact lt_sentry ..
  | stopWait => exact lt_swait ..
  | innerStop => exact lt_istop _ _ _ _ _ _ _ (hs (Or.inr rfl))
  | term => exact lt_term ..
  | failed => exact lt_failed ..

/-! ### `Sane` is an invariant -/

theorem sane_step (s : Sys) (e : REv) (h : ∀ m, Sane (s.st m)) : ∀ m, Sane ((s.step e).st m) := by
  intro m
  unfold Sys.step
  split
  · exact h m
  · rename_i k x hl
    simp only [Sys.set]
    split
    · rename_i hkm
      subst hkm
      have hm := h m
      unfold Sane at hm ⊢
      cases e <;> simp only [Sys.local] at hl <;> (repeat' split at hl) <;> (try cases hl) <;>
        simp_all [innerStopAsync] <;> (try (split <;> simp_all))
    · exact h m

theorem sane_run (s : Sys) (evs : List REv) (h : ∀ m, Sane (s.st m)) : ∀ m, Sane ((s.run evs).st m) := by
  induction evs generalizing s with
  | nil => exact h
  | cons e es ih => exact ih _ (sane_step s e h)

theorem run_stopDeps (s : Sys) (evs : List REv) : (s.run evs).stopDeps = s.stopDeps := by
  induction evs generalizing s with
  | nil => rfl
  | cons e es ih => exact (ih _).trans (step_stopDeps s e)

theorem run_append (s : Sys) (a b : List REv) : s.run (a ++ b) = (s.run a).run b := by
  simp [Sys.run, List.foldl_append]

/-! ### one module's turn, one round, all rounds -/

theorem run_lks (s : Sys) (m : Mod) (ks : List LK) (hd : ∀ x ∈ s.stopDeps m, (s.st x).ph.terminal = true) :
    (s.run (ks.map (LK.ev m))).st m = ks.foldl (lstep true) (s.st m) := by
  induction ks generalizing s with
  | nil => rfl
  | cons k ks ih =>
    simp only [List.map_cons, List.foldl_cons]
    show ((s.step (k.ev m)).run _).st m = _
    have hdt : ((s.stopDeps m).all fun j => (s.st j).ph.terminal) = true := by
      rw [List.all_eq_true]; exact hd
    rw [ih (s.step (k.ev m)) (by
      intro x hx
      rw [step_stopDeps] at hx
      rw [terminal_absorbing s _ x (hd x hx)]; exact hd x hx)]
    rw [step_self, hdt]

/-- a module all of whose dependants are terminal is terminal after its own turn. -/
theorem modSched_finishes (s : Sys) (m : Mod) (hs : Sane (s.st m))
    (hd : ∀ x ∈ s.stopDeps m, (s.st x).ph.terminal = true) : ((s.run (modSched m)).st m).ph.terminal = true := by
  rw [modSched_eq, run_lks s m LK.all hd]
  exact lsched_terminal _ hs

theorem round_finishes (l : List Mod) (s : Sys) (m : Mod) (hm : m ∈ l) (hs : ∀ k, Sane (s.st k))
    (hd : ∀ x ∈ s.stopDeps m, (s.st x).ph.terminal = true) :
    ((s.run (l.flatMap modSched)).st m).ph.terminal = true := by
  induction l generalizing s with
  | nil => cases hm
  | cons a rest ih =>
    simp only [List.flatMap_cons, run_append]
    by_cases hma : m = a
    · subst hma
      exact terminal_absorbing_run _ _ _ (modSched_finishes s m (hs m) hd)
    · simp only [List.mem_cons] at hm
      rcases hm with h | h
      · exact absurd h hma
      · refine ih _ h (sane_run s _ hs) ?_
        intro x hx
        rw [run_stopDeps] at hx
        exact terminal_absorbing_run s _ x (hd x hx)

/-- the dependants of every module are modules of the system and come strictly earlier in some rank:
the "stops after" relation is acyclic (it is the inverse of the transitive dependency relation of a DAG). -/
def StopRanked (mods : List Mod) (stopDeps : Mod → List Mod) : Prop :=
  ∃ rk : Mod → Nat, ∀ m ∈ mods, ∀ x ∈ stopDeps m, x ∈ mods ∧ rk x < rk m

def nonTerm (s : Sys) (m : Mod) : Bool := !(s.st m).ph.terminal

theorem round_progress (mods : List Mod) (s : Sys) (hs : ∀ k, Sane (s.st k)) (hr : StopRanked mods s.stopDeps) :
    mods.countP (nonTerm (s.run (mods.flatMap modSched))) ≤ mods.countP (nonTerm s) ∧
    (mods.countP (nonTerm s) ≠ 0 →
      mods.countP (nonTerm (s.run (mods.flatMap modSched))) < mods.countP (nonTerm s)) := by
  have hmono : ∀ x ∈ mods, nonTerm (s.run (mods.flatMap modSched)) x = true → nonTerm s x = true := by
    intro x _ hx
    unfold nonTerm at hx ⊢
    cases ht : (s.st x).ph.terminal
    · rfl
    · rw [terminal_absorbing_run s _ x ht] at hx; cases hx
  refine ⟨countP_le_of_imp _ _ _ hmono, fun hne => ?_⟩
  obtain ⟨rk, hrk⟩ := hr
  -- a non-terminal module of minimal rank: all its dependants are terminal
  have hex : ∃ m, m ∈ mods ∧ nonTerm s m = true := by
    apply Classical.byContradiction
    intro hno
    apply hne
    rw [List.countP_eq_zero]
    intro x hx hnx
    exact hno ⟨x, hx, hnx⟩
  obtain ⟨m0, hm0⟩ := hex
  obtain ⟨m, ⟨hmm, hmn⟩, hmin⟩ := exists_min_rank rk (fun y => y ∈ mods ∧ nonTerm s y = true) m0 hm0
  have hd : ∀ x ∈ s.stopDeps m, (s.st x).ph.terminal = true := by
    intro x hx
    obtain ⟨hxm, hlt⟩ := hrk m hmm x hx
    cases ht : (s.st x).ph.terminal
    · have := hmin x ⟨hxm, by simp [nonTerm, ht]⟩
      omega
    · rfl
  have hfin := round_finishes mods s m hmm hs hd
  exact countP_lt_of_imp _ _ _ hmono m hmm hmn (by simp [nonTerm, hfin])

def roundN (mods : List Mod) : Nat → Sys → Sys
  | 0, s => s
  | j + 1, s => roundN mods j (s.run (mods.flatMap modSched))

theorem run_rounds (mods : List Mod) (j : Nat) (s : Sys) :
    s.run ((List.replicate j (mods.flatMap modSched)).flatten) = roundN mods j s := by
  induction j generalizing s with
  | zero => rfl
  | succ j ih =>
    simp only [List.replicate_succ, List.flatten_cons, run_append, roundN]
    exact ih _

theorem rounds_count (mods : List Mod) (j : Nat) (s : Sys) (hs : ∀ k, Sane (s.st k))
    (hr : StopRanked mods s.stopDeps) :
    mods.countP (nonTerm (roundN mods j s)) ≤ mods.countP (nonTerm s) - j := by
  induction j generalizing s with
  | zero => simp [roundN]
  | succ j ih =>
    simp only [roundN]
    have hp := round_progress mods s hs hr
    have := ih (s.run (mods.flatMap modSched)) (sane_run s _ hs) (by rw [run_stopDeps]; exact hr)
    by_cases h0 : mods.countP (nonTerm s) = 0
    · omega
    · have := hp.2 h0; omega

/-- **the system can always finish**: from any state in which `Sane` holds (every reachable state), with
an acyclic "stops after" relation, `finishSchedule` leaves every module terminal. -/
theorem finish_all (mods : List Mod) (s : Sys) (hs : ∀ k, Sane (s.st k)) (hr : StopRanked mods s.stopDeps) :
    ∀ m ∈ mods, ((s.run (finishSchedule mods)).st m).ph.terminal = true := by
  intro m hm
  unfold finishSchedule
  rw [run_rounds]
  have h := rounds_count mods mods.length s hs hr
  have hle : mods.countP (nonTerm s) ≤ mods.length := List.countP_le_length
  have h0 : mods.countP (nonTerm (roundN mods mods.length s)) = 0 := by omega
  rw [List.countP_eq_zero] at h0
  have := h0 m hm
  simpa [nonTerm] using this

theorem sane_init (mods : List Mod) (sd td : Mod → List Mod) : ∀ m, Sane ((Sys.init mods sd td).st m) := by
  intro m h
  simp [Sys.init] at h

end PfC18
