import Model.C18
/-! C18: invariants of the run-time system of wrappers (`Sys.step`). -/
namespace PfC18
open C18 C17

/-- phases in which the wrapper has got past waiting for its dependencies. -/
def pastDeps : WPhase → Bool
  | .innerStart | .startCleanup | .run | .stopEntry | .stopWait | .innerStop => true
  | _ => false

def beforeRun : WPhase → Bool
  | .idle | .waitDeps _ | .innerStart | .startCleanup => true
  | _ => false

def beforeCleanup : WPhase → Bool
  | .idle | .waitDeps _ | .innerStart => true
  | _ => false

structure RInv (s : Sys) : Prop where
  deps : ∀ m, ((s.st m).inner ≠ .new ∨ pastDeps (s.st m).ph = true ∨ ((s.st m).ph = .term ∧ (s.st m).started = true)) →
      ∀ d ∈ s.startDeps m, (s.st d).wasRunning = true
  oks : ∀ m ok, (s.st m).ph = .waitDeps ok → ∀ d ∈ ok, (s.st d).wasRunning = true
  runs : ∀ m, (s.st m).ph = .run → (s.st m).wasRunning = true
  early : ∀ m, beforeRun (s.st m).ph = true → (s.st m).wasRunning = false
  stopped : ∀ m, (s.st m).stoppedByWrapper = true → ∀ k ∈ s.stopDeps m, (s.st k).ph.terminal = true
  req : ∀ m, (s.st m).iStopReq = true → (s.st m).stoppedByWrapper = true ∨ (s.st m).wasRunning = false
  idle : ∀ m, (s.st m).ph = .idle → (s.st m).started = false ∧ (s.st m).inner = .new
  noReq : ∀ m, beforeCleanup (s.st m).ph = true → (s.st m).iStopReq = false

theorem step_startDeps (s : Sys) (e : REv) : (s.step e).startDeps = s.startDeps := by
  unfold Sys.step; split <;> rfl

theorem step_stopDeps (s : Sys) (e : REv) : (s.step e).stopDeps = s.stopDeps := by
  unfold Sys.step; split <;> rfl

/-- everything the invariant needs to know about the module an event changes. -/
structure LocalOK (s : Sys) (m : Mod) (x' : ModSt) : Prop where
  mono : (s.st m).wasRunning = true → x'.wasRunning = true
  absorb : (s.st m).ph.terminal = true → x'.ph = (s.st m).ph
  deps : (x'.inner ≠ .new ∨ pastDeps x'.ph = true ∨ (x'.ph = .term ∧ x'.started = true)) →
      ∀ d ∈ s.startDeps m, (s.st d).wasRunning = true
  oks : ∀ ok, x'.ph = .waitDeps ok → ∀ d ∈ ok, (s.st d).wasRunning = true
  runs : x'.ph = .run → x'.wasRunning = true
  early : beforeRun x'.ph = true → x'.wasRunning = false
  stopped : x'.stoppedByWrapper = true → ∀ k ∈ s.stopDeps m, (s.st k).ph.terminal = true
  req : x'.iStopReq = true → x'.stoppedByWrapper = true ∨ x'.wasRunning = false
  idle : x'.ph = .idle → x'.started = false ∧ x'.inner = .new
  noReq : beforeCleanup x'.ph = true → x'.iStopReq = false

theorem local_ok (s : Sys) (hi : RInv s) (e : REv) (m : Mod) (x' : ModSt) (h : s.local e = some (m, x')) :
    LocalOK s m x' := by
  have hd := hi.deps
  have ho := hi.oks
  have hr := hi.runs
  have he := hi.early
  have hs := hi.stopped
  have hq := hi.req
  have hl := hi.idle
  have hn := hi.noReq
  -- an update that leaves every field the invariant reads unchanged
  have frame : ∀ x'' : ModSt, x''.ph = (s.st m).ph → x''.inner = (s.st m).inner → x''.wasRunning = (s.st m).wasRunning →
      x''.started = (s.st m).started → x''.stoppedByWrapper = (s.st m).stoppedByWrapper →
      x''.iStopReq = (s.st m).iStopReq → LocalOK s m x'' := by
    intro x'' h1 h2 h3 h4 h5 h6
    refine ⟨?_, ?_, ?_, ?_, ?_, ?_, ?_, ?_, ?_, ?_⟩
    · rw [h3]; exact id
    · rw [h1]; exact fun _ => rfl
    · rw [h1, h2, h4]; exact hd m
    · rw [h1]; exact ho m
    · rw [h1, h3]; exact hr m
    · rw [h1, h3]; exact he m
    · rw [h5]; exact hs m
    · rw [h6, h5, h3]; exact hq m
    · rw [h1, h4, h2]; exact hl m
    · rw [h1, h6]; exact hn m
  -- an update that only moves the wrapper to `failed`
  have toFailed : ∀ x'' : ModSt, (s.st m).ph.terminal = false → x''.ph = .failed → x''.inner = (s.st m).inner →
      x''.wasRunning = (s.st m).wasRunning → x''.stoppedByWrapper = (s.st m).stoppedByWrapper →
      x''.iStopReq = (s.st m).iStopReq → LocalOK s m x'' := by
    intro x'' h0 h1 h2 h3 h5 h6
    refine ⟨?_, ?_, ?_, ?_, ?_, ?_, ?_, ?_, ?_, ?_⟩
    · rw [h3]; exact id
    · rw [h0]; intro hh; cases hh
    · rw [h1, h2]
      intro hh
      rcases hh with hh | hh | hh
      · exact hd m (Or.inl hh)
      · cases hh
      · cases hh.1
    · rw [h1]; intro ok hh; cases hh
    · rw [h1]; intro hh; cases hh
    · rw [h1]; intro hh; cases hh
    · rw [h5]; exact hs m
    · rw [h6, h5, h3]; exact hq m
    · rw [h1]; intro hh; cases hh
    · rw [h1]; intro hh; cases hh
  cases e with
  | wStart k =>
    simp only [Sys.local] at h
    split at h
    · rename_i hph
      cases h
      have := hl m hph
      have h2 := he m (by rw [hph]; rfl)
      have h3 := hn m (by rw [hph]; rfl)
      refine ⟨by simp [h2], by simp [hph, WPhase.terminal], ?_, ?_, ?_, ?_, ?_, ?_, ?_, ?_⟩
      · simp [pastDeps, this.2]
      · intro ok h0 d hd'; simp at h0; subst h0; cases hd'
      · simp
      · simp [h2]
      · exact hs m
      · exact hq m
      · simp
      · simp [h3]
    · cases h
  | wStop k =>
    simp only [Sys.local] at h
    split at h
    · rename_i hph
      cases h
      have := hl m hph
      have h2 := he m (by rw [hph]; rfl)
      have h3 := hn m (by rw [hph]; rfl)
      refine ⟨by simp, by simp [hph, WPhase.terminal], ?_, ?_, ?_, ?_, ?_, ?_, ?_, ?_⟩
      · simp [pastDeps, this.1, this.2]
      · simp
      · simp
      · simp [beforeRun]
      · exact hs m
      · exact hq m
      · simp
      · simp [beforeCleanup]
    all_goals first | (cases h; exact frame _ rfl rfl rfl rfl rfl rfl) | cases h
  | awaitOk k d =>
    simp only [Sys.local] at h
    split at h
    · rename_i ok hph
      split at h
      · rename_i hg
        cases h
        have h2 := he m (by rw [hph]; rfl)
        have h3 := hn m (by rw [hph]; rfl)
        have hdr := hr d hg.2.2
        refine ⟨id, by simp [hph, WPhase.terminal], ?_, ?_, ?_, ?_, hs m, hq m, ?_, ?_⟩
        · simp only [pastDeps]
          intro hh
          rcases hh with hh | hh | hh
          · exact hd m (Or.inl hh)
          · cases hh
          · cases hh.1
        · intro ok' h0 d' hd'
          simp at h0; subst h0
          simp only [List.mem_cons] at hd'
          rcases hd' with rfl | hd'
          · exact hdr
          · exact ho m ok hph d' hd'
        · simp
        · simp [h2]
        · simp
        · simp [h3]
      · cases h
    · cases h
  | awaitFail k d =>
    simp only [Sys.local] at h
    split at h
    · rename_i ok hph
      split at h
      · cases h; exact toFailed _ (by rw [hph]; rfl) rfl rfl rfl rfl rfl
      · cases h
    · cases h
  | awaitCancelled k =>
    simp only [Sys.local] at h
    split at h
    · rename_i ok hph
      split at h
      · cases h; exact toFailed _ (by rw [hph]; rfl) rfl rfl rfl rfl rfl
      · cases h
    · cases h
  | depsDone k =>
    simp only [Sys.local] at h
    split at h
    · rename_i ok hph
      split at h
      · rename_i hall
        split at h
        · cases h
          have h2 := he m (by rw [hph]; rfl)
          have h3 := hn m (by rw [hph]; rfl)
          refine ⟨id, by simp [hph, WPhase.terminal], ?_, ?_, ?_, ?_, hs m, hq m, ?_, ?_⟩
          · intro _ d hd'
            have := List.all_eq_true.mp hall d hd'
            exact ho m ok hph d (by simpa using this)
          · simp
          · simp
          · simp [h2]
          · simp
          · simp [h3]
        · cases h; exact toFailed _ (by rw [hph]; rfl) rfl rfl rfl rfl rfl
      · cases h
    · cases h
  | innerUp k =>
    simp only [Sys.local] at h
    split at h
    · rename_i hg
      cases h
      have h3 := hn m (by rw [hg.1]; rfl)
      have hdm := hd m (Or.inr (Or.inl (by rw [hg.1]; rfl)))
      refine ⟨by intro hh; simp [hh], by simp [hg.1, WPhase.terminal], fun _ => hdm, ?_, ?_, ?_, hs m, ?_, ?_, ?_⟩
      · intro ok hh; split at hh <;> cases hh
      · intro hh; split at hh
        · cases hh
        · rename_i hw; simp [hw]
      · intro hh; split at hh <;> simp [beforeRun] at hh
      · simp [h3]
      · intro hh; split at hh <;> cases hh
      · intro hh; split at hh <;> simp [beforeCleanup] at hh
    · cases h
  | innerStartFailed k =>
    simp only [Sys.local] at h
    split at h
    · rename_i hg
      cases h
      have h2 := he m (by rw [hg.1]; rfl)
      have hdm := hd m (Or.inr (Or.inl (by rw [hg.1]; rfl)))
      have hsw : (innerStopAsync (s.st m)).stoppedByWrapper = (s.st m).stoppedByWrapper := by
        unfold innerStopAsync; split <;> rfl
      have hwr : (innerStopAsync (s.st m)).wasRunning = (s.st m).wasRunning := by
        unfold innerStopAsync; split <;> rfl
      refine ⟨(by rw [h2]; intro hh; cases hh), by simp [hg.1, WPhase.terminal], fun _ => hdm, by simp, by simp, ?_, ?_, ?_, by simp, by simp [beforeCleanup]⟩
      · intro _; simp only; rw [hwr]; exact h2
      · simp only; rw [hsw]; exact hs m
      · intro _; right; simp only; rw [hwr]; exact h2
    · cases h
  | cleanupDone k =>
    simp only [Sys.local] at h
    split at h
    · rename_i hg
      cases h; exact toFailed _ (by rw [hg.1]; rfl) rfl rfl rfl rfl rfl
    · cases h
  | runExit k =>
    simp only [Sys.local] at h
    split at h
    · rename_i hg
      cases h
      have hdm := hd m (Or.inr (Or.inl (by rw [hg.1]; rfl)))
      refine ⟨id, by simp [hg.1, WPhase.terminal], fun _ => hdm, by simp, by simp, by simp [beforeRun], hs m, hq m, by simp, by simp [beforeCleanup]⟩
    · cases h
  | stopLooks k =>
    simp only [Sys.local] at h
    split at h
    · rename_i hg
      split at h
      · cases h
        have hdm := hd m (Or.inr (Or.inl (by rw [hg]; rfl)))
        refine ⟨id, by simp [hg, WPhase.terminal], fun _ => hdm, by simp, by simp, by simp [beforeRun], hs m, hq m, by simp, by simp [beforeCleanup]⟩
      · cases h
        have hdm := hd m (Or.inr (Or.inl (by rw [hg]; rfl)))
        refine ⟨id, by simp [hg, WPhase.terminal], fun _ => hdm, ?_, ?_, ?_, hs m, hq m, ?_, ?_⟩
        · intro ok hh; split at hh <;> cases hh
        · intro hh; split at hh <;> cases hh
        · intro hh; split at hh <;> simp [beforeRun] at hh
        · intro hh; split at hh <;> cases hh
        · intro hh; split at hh <;> simp [beforeCleanup] at hh
    · cases h
  | dependantsGone k =>
    simp only [Sys.local] at h
    split at h
    · rename_i hg
      cases h
      have hdm := hd m (Or.inr (Or.inl (by rw [hg.1]; rfl)))
      have hwr : (innerStopAsync (s.st m)).wasRunning = (s.st m).wasRunning := by
        unfold innerStopAsync; split <;> rfl
      refine ⟨by simp only; rw [hwr]; exact id, by simp [hg.1, WPhase.terminal], fun _ => hdm, by simp, by simp, by simp [beforeRun], ?_, by simp, by simp, by simp [beforeCleanup]⟩
      intro _ k' hk'
      exact List.all_eq_true.mp hg.2 k' hk'
    · cases h
  | innerStopped k =>
    simp only [Sys.local] at h
    split at h
    · rename_i hg
      cases h
      have hdm := hd m (Or.inr (Or.inl (by rw [hg.1]; rfl)))
      refine ⟨id, by simp [hg.1, WPhase.terminal], fun _ => hdm, ?_, ?_, ?_, hs m, hq m, ?_, ?_⟩
      · intro ok hh; split at hh <;> cases hh
      · intro hh; split at hh <;> cases hh
      · intro hh; split at hh <;> simp [beforeRun] at hh
      · intro hh; split at hh <;> cases hh
      · intro hh; split at hh <;> simp [beforeCleanup] at hh
    · cases h
  | iStartRet k ok =>
    simp only [Sys.local] at h
    split at h
    · rename_i hg
      split at h <;> cases h <;>
        exact ⟨id, fun _ => rfl, fun _ => hd m (Or.inl (by rw [hg]; simp)), ho m, hr m, he m, hs m, hq m,
          fun hh => (by have := (hl m hh).2; rw [hg] at this; cases this), hn m⟩
    · cases h
  | iRunRet k ok =>
    simp only [Sys.local] at h
    split at h
    · rename_i hg
      cases h
      exact ⟨id, fun _ => rfl, fun _ => hd m (Or.inl (by rw [hg]; simp)), ho m, hr m, he m, hs m, hq m,
        fun hh => (by have := (hl m hh).2; rw [hg] at this; cases this), hn m⟩
    · cases h
  | iStopRet k ok =>
    simp only [Sys.local] at h
    split at h
    · rename_i hg
      cases h
      exact ⟨id, fun _ => rfl, fun _ => hd m (Or.inl (by rw [hg]; simp)), ho m, hr m, he m, hs m, hq m,
        fun hh => (by have := (hl m hh).2; rw [hg] at this; cases this), hn m⟩
    · cases h

theorem rinv_set (s : Sys) (hi : RInv s) (m : Mod) (x' : ModSt) (hl : LocalOK s m x') : RInv (s.set m x') := by
  -- facts about any module of the new state in terms of the old one
  have wr : ∀ d, (s.st d).wasRunning = true → ((s.set m x').st d).wasRunning = true := by
    intro d h
    simp only [Sys.set]
    split
    · rename_i hd; subst hd; exact hl.mono h
    · exact h
  have tm : ∀ k, (s.st k).ph.terminal = true → ((s.set m x').st k).ph.terminal = true := by
    intro k h
    simp only [Sys.set]
    split
    · rename_i hk; subst hk; rw [hl.absorb h]; exact h
    · exact h
  refine ⟨?_, ?_, ?_, ?_, ?_, ?_, ?_, ?_⟩
  · intro k hk d hd
    apply wr
    simp only [Sys.set] at hk hd
    split at hk
    · rename_i hkm; subst hkm; exact hl.deps hk d hd
    · exact hi.deps k hk d hd
  · intro k ok hk d hd
    apply wr
    simp only [Sys.set] at hk
    split at hk
    · rename_i hkm; subst hkm; exact hl.oks ok hk d hd
    · exact hi.oks k ok hk d hd
  · intro k hk
    simp only [Sys.set] at hk ⊢
    split
    · rename_i hkm; rw [if_pos hkm] at hk; exact hl.runs hk
    · rename_i hkm; rw [if_neg hkm] at hk; exact hi.runs k hk
  · intro k hk
    simp only [Sys.set] at hk ⊢
    split
    · rename_i hkm; rw [if_pos hkm] at hk; exact hl.early hk
    · rename_i hkm; rw [if_neg hkm] at hk; exact hi.early k hk
  · intro k hk j hj
    apply tm
    simp only [Sys.set] at hk hj
    split at hk
    · rename_i hkm; subst hkm; exact hl.stopped hk j hj
    · exact hi.stopped k hk j hj
  · intro k hk
    simp only [Sys.set] at hk ⊢
    split
    · rename_i hkm; rw [if_pos hkm] at hk; exact hl.req hk
    · rename_i hkm; rw [if_neg hkm] at hk; exact hi.req k hk
  · intro k hk
    simp only [Sys.set] at hk ⊢
    split
    · rename_i hkm; rw [if_pos hkm] at hk; exact hl.idle hk
    · rename_i hkm; rw [if_neg hkm] at hk; exact hi.idle k hk
  · intro k hk
    simp only [Sys.set] at hk ⊢
    split
    · rename_i hkm; rw [if_pos hkm] at hk; exact hl.noReq hk
    · rename_i hkm; rw [if_neg hkm] at hk; exact hi.noReq k hk

theorem rinv_step (s : Sys) (hi : RInv s) (e : REv) : RInv (s.step e) := by
  unfold Sys.step
  split
  · exact hi
  · rename_i m x h
    exact rinv_set s hi m x (local_ok s hi e m x h)

theorem rinv_run (s : Sys) (hi : RInv s) (evs : List REv) : RInv (s.run evs) := by
  induction evs generalizing s with
  | nil => exact hi
  | cons e es ih => exact ih _ (rinv_step s hi e)

/-- progress: while a dependency `d` of a started, not yet terminal module `m` has failed to start, `m` is
still waiting for its dependencies, the step "`m` looks at `d`" is enabled, and it makes `m` Failed. -/
theorem fail_step_enabled (s : Sys) (hi : RInv s) (m d : Mod) (hd : d ∈ s.startDeps m)
    (hf : (s.st d).ph = .failed) (hw : (s.st d).wasRunning = false)
    (hs : (s.st m).started = true) (hnt : (s.st m).ph.terminal = false) :
    (∃ ok, (s.st m).ph = .waitDeps ok) ∧ ((s.step (.awaitFail m d)).st m).ph = .failed := by
  have hnd : ∀ ok, (s.st m).ph = .waitDeps ok → d ∉ ok := by
    intro ok hph hin
    have := hi.oks m ok hph d hin
    rw [hw] at this; cases this
  have hpast : pastDeps (s.st m).ph = false := by
    cases hp : pastDeps (s.st m).ph
    · rfl
    · have := hi.deps m (Or.inr (Or.inl hp)) d hd
      rw [hw] at this; cases this
  have hidle : (s.st m).ph ≠ .idle := by
    intro h; have := (hi.idle m h).1; rw [hs] at this; cases this
  cases hph : (s.st m).ph with
  | waitDeps ok =>
    refine ⟨⟨ok, rfl⟩, ?_⟩
    have hguard : (s.startDeps m).contains d = true ∧ ¬ ok.contains d = true ∧ (s.st d).ph.latched = true ∧ (s.st d).ph ≠ .run := by
      refine ⟨by simpa using hd, by simpa using hnd ok hph, by rw [hf]; rfl, by rw [hf]; intro h; cases h⟩
    simp only [Sys.step, Sys.local, hph]
    rw [if_pos hguard]
    simp [Sys.set]
  | idle => exact absurd hph hidle
  | innerStart => rw [hph] at hpast; cases hpast
  | startCleanup => rw [hph] at hpast; cases hpast
  | run => rw [hph] at hpast; cases hpast
  | stopEntry => rw [hph] at hpast; cases hpast
  | stopWait => rw [hph] at hpast; cases hpast
  | innerStop => rw [hph] at hpast; cases hpast
  | term => rw [hph] at hnt; cases hnt
  | failed => rw [hph] at hnt; cases hnt

/-- a wrapper that failed without ever running stays so. -/
theorem failed_to_start_stable (s : Sys) (e : REv) (d : Mod)
    (hf : (s.st d).ph = .failed) (hw : (s.st d).wasRunning = false) :
    ((s.step e).st d).ph = .failed ∧ ((s.step e).st d).wasRunning = false := by
  unfold Sys.step
  split
  · exact ⟨hf, hw⟩
  · rename_i m x h
    simp only [Sys.set]
    split
    · rename_i hdm
      subst hdm
      -- every enabled event on d needs a phase other than `failed`, except the inner service's returns
      cases e <;> simp only [Sys.local] at h <;> (repeat' split at h) <;> (try cases h) <;> simp_all
    · exact ⟨hf, hw⟩

theorem failed_to_start_stable_run (s : Sys) (evs : List REv) (d : Mod)
    (hf : (s.st d).ph = .failed) (hw : (s.st d).wasRunning = false) :
    ((s.run evs).st d).ph = .failed ∧ ((s.run evs).st d).wasRunning = false := by
  induction evs generalizing s with
  | nil => exact ⟨hf, hw⟩
  | cons e es ih =>
    obtain ⟨h1, h2⟩ := failed_to_start_stable s e d hf hw
    exact ih _ h1 h2

/-- the initial system: every wrapper and inner service New. -/
def Sys.init (mods : List Mod) (startDeps stopDeps : Mod → List Mod) : Sys :=
  { mods, startDeps, stopDeps, st := fun _ => {} }

theorem rinv_init (mods : List Mod) (sd td : Mod → List Mod) : RInv (Sys.init mods sd td) := by
  refine ⟨?_, ?_, ?_, ?_, ?_, ?_, ?_, ?_⟩ <;> intro m <;> simp [Sys.init, pastDeps]

end PfC18
