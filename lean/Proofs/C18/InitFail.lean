import Proofs.C18.Init
/-! C18: `InitModuleServices` on every path, including the failing ones (`initLoopT`, `initModuleT`,
`initModulesT` keep the state at the moment the error is returned). -/
namespace PfC18
open C18

def initErrOf (cfg : Cfg) (x : Mod) : Bool := cfg.initErr.getD x false
def hasSvcOf (cfg : Cfg) (x : Mod) : Bool := cfg.hasSvc.getD x false

/-- the traced functions agree with the `Except`-valued ones. -/
theorem initLoop_eq (cfg : Cfg) (L : List Mod) (st : InitState) :
    initLoop cfg L st = match initLoopT cfg L st with
      | (s, none) => .ok s
      | (_, some e) => .error e := by
  induction L generalizing st with
  | nil => rfl
  | cons n rest ih =>
    simp only [initLoop, initLoopT]
    split
    · exact ih st
    · split
      · split
        · rfl
        · split
          · rw [ih]
          · rw [ih]
      · rw [ih]

theorem initModule_eq (g : Graph) (cfg : Cfg) (fuel : Nat) (orders : Nat → List Mod) (name : Mod) (st : InitState) :
    initModule g cfg fuel orders name st = match initModuleT g cfg fuel orders name st with
      | (s, none) => .ok s
      | (_, some e) => .error e := by
  unfold initModule initModuleT
  split
  · rfl
  · split
    · rfl
    · exact initLoop_eq _ _ _

theorem initModules_eq (g : Graph) (cfg : Cfg) (fuel : Nat) (orders : Nat → Nat → List Mod) (c : Nat) (ts : List Mod)
    (st : InitState) :
    initModules g cfg fuel orders c ts st = match initModulesT g cfg fuel orders c ts st with
      | (s, none) => .ok s
      | (_, some e) => .error e := by
  induction ts generalizing c st with
  | nil => rfl
  | cons t rest ih =>
    simp only [initModules, initModulesT]
    rw [initModule_eq]
    cases h : initModuleT g cfg fuel (orders c) t st with
    | mk s oe =>
      cases oe with
      | none => simp only; exact ih _ _
      | some e => rfl

/-- every module's direct dependencies are in the list (or were seen before it started). -/
theorem topo_closed (g : Graph) (seen l : List Mod) (h : topoFrom g seen l) :
    ∀ x ∈ l, ∀ d ∈ g.depsOf x, d ∈ seen ∨ d ∈ l := by
  induction l generalizing seen with
  | nil => intro x hx; cases hx
  | cons a as ih =>
    simp only [topoFrom] at h
    intro x hx d hd
    simp only [List.mem_cons] at hx
    rcases hx with rfl | hx
    · exact Or.inl (h.1 d hd)
    · rcases ih _ h.2 x hx d hd with h' | h'
      · simp only [List.mem_cons] at h'
        rcases h' with rfl | h'
        · exact Or.inr (List.mem_cons_self ..)
        · exact Or.inl h'
      · exact Or.inr (List.mem_cons_of_mem _ h')

theorem topo_reach_closed (g : Graph) (l : List Mod) (h : topoFrom g [] l) (x y : Mod) (hx : x ∈ l) (hr : Reach g x y) :
    y ∈ l := by
  induction hr with
  | direct hd =>
    rcases topo_closed g [] l h _ hx _ hd with h' | h'
    · cases h'
    · exact h'
  | step hd _ ih =>
    rcases topo_closed g [] l h _ hx _ hd with h' | h'
    · cases h'
    · exact ih h'

/-- the part of the invariant that holds at every return, error or not. -/
structure TInv (g : Graph) (cfg : Cfg) (P : Mod → Prop) (st : InitState) : Prop where
  nodup : st.inited.Nodup
  topo : topoFrom g [] st.inited
  sub : ∀ x ∈ st.inited, P x
  clean : ∀ x ∈ st.inited, hasInitOf cfg x = true → initErrOf cfg x = false
  svcs : st.svcs = st.inited.filter (fun x => hasInitOf cfg x && hasSvcOf cfg x)

/-- what `initLoopT` leaves behind. -/
def LoopPost (g : Graph) (cfg : Cfg) (L : List Mod) (r : InitState × Option InitErr) : Prop :=
  match r.2 with
  | none => r.1.log = r.1.inited.filter (hasInitOf cfg) ∧ ∀ x ∈ L, x ∈ r.1.inited
  | some e => ∃ n, e = .initFailed n ∧ n ∈ L ∧ n ∉ r.1.inited ∧ hasInitOf cfg n = true ∧ initErrOf cfg n = true ∧
      r.1.log = r.1.inited.filter (hasInitOf cfg) ++ [n] ∧ ∀ d ∈ g.depsOf n, d ∈ r.1.inited

theorem initLoopT_spec (g : Graph) (cfg : Cfg) (P : Mod → Prop) (L S : List Mod) (st : InitState)
    (hi : TInv g cfg P st) (hlog : st.log = st.inited.filter (hasInitOf cfg))
    (hP : ∀ x ∈ L, P x) (hS : ∀ x ∈ S, x ∈ st.inited) (ht : topoFrom g S L) :
    TInv g cfg P (initLoopT cfg L st).1 ∧ (∀ x ∈ st.inited, x ∈ (initLoopT cfg L st).1.inited) ∧
      LoopPost g cfg L (initLoopT cfg L st) := by
  induction L generalizing S st with
  | nil => exact ⟨hi, fun x hx => hx, by simp [LoopPost, initLoopT, hlog]⟩
  | cons n rest ih =>
    simp only [topoFrom] at ht
    have hrestP : ∀ x ∈ rest, P x := fun x hx => hP x (List.mem_cons_of_mem _ hx)
    -- lifting the post-condition of the tail to the whole list
    have lift : ∀ (st1 : InitState), (∀ x ∈ st.inited, x ∈ st1.inited) → n ∈ st1.inited →
        TInv g cfg P (initLoopT cfg rest st1).1 ∧ (∀ x ∈ st1.inited, x ∈ (initLoopT cfg rest st1).1.inited) ∧
          LoopPost g cfg rest (initLoopT cfg rest st1) →
        TInv g cfg P (initLoopT cfg rest st1).1 ∧ (∀ x ∈ st.inited, x ∈ (initLoopT cfg rest st1).1.inited) ∧
          LoopPost g cfg (n :: rest) (initLoopT cfg rest st1) := by
      intro st1 hsub hn ⟨a1, a2, a3⟩
      refine ⟨a1, fun x hx => a2 x (hsub x hx), ?_⟩
      unfold LoopPost at a3 ⊢
      cases hoe : (initLoopT cfg rest st1).2 with
      | none =>
        rw [hoe] at a3
        refine ⟨a3.1, fun x hx => ?_⟩
        simp only [List.mem_cons] at hx
        rcases hx with rfl | hx
        · exact a2 _ hn
        · exact a3.2 x hx
      | some e =>
        rw [hoe] at a3
        obtain ⟨m, h1, h2, h3⟩ := a3
        exact ⟨m, h1, List.mem_cons_of_mem _ h2, h3⟩
    -- the state after n has been marked initialised keeps the invariant
    have key : ∀ (st1 : InitState), n ∉ st.inited → st1.inited = st.inited ++ [n] →
        (hasInitOf cfg n = true → initErrOf cfg n = false) →
        st1.svcs = st.svcs ++ (if hasInitOf cfg n && hasSvcOf cfg n then [n] else []) → TInv g cfg P st1 := by
      intro st1 hn h1 hcl h2
      refine ⟨?_, ?_, ?_, ?_, ?_⟩
      · rw [h1, List.nodup_append]
        refine ⟨hi.nodup, by simp, ?_⟩
        intro a ha b hb
        simp only [List.mem_singleton] at hb
        subst hb
        intro hab; subst hab; exact hn ha
      · rw [h1, topo_snoc]
        exact ⟨hi.topo, fun d hd => Or.inr (hS d (ht.1 d hd))⟩
      · rw [h1]
        intro x hx
        simp only [List.mem_append, List.mem_singleton] at hx
        rcases hx with hx | rfl
        · exact hi.sub x hx
        · exact hP _ (List.mem_cons_self ..)
      · rw [h1]
        intro x hx
        simp only [List.mem_append, List.mem_singleton] at hx
        rcases hx with hx | rfl
        · exact hi.clean x hx
        · exact hcl
      · rw [h2, h1, hi.svcs, List.filter_append]
        congr 1
        simp only [List.filter_cons, List.filter_nil]
    have hS' : ∀ (st1 : InitState), st1.inited = st.inited ++ [n] → ∀ x ∈ n :: S, x ∈ st1.inited := by
      intro st1 h1 x hx
      rw [h1]
      simp only [List.mem_cons] at hx
      rcases hx with rfl | hx
      · simp
      · simp [hS x hx]
    simp only [initLoopT]
    split
    · rename_i hin
      have hin' : n ∈ st.inited := by simpa using hin
      exact lift st (fun x hx => hx) hin' (ih (n :: S) st hi hlog hrestP (by
        intro x hx; simp only [List.mem_cons] at hx
        rcases hx with rfl | hx
        · exact hin'
        · exact hS x hx) ht.2)
    · rename_i hnin
      have hnin' : n ∉ st.inited := by simpa using hnin
      split
      · rename_i hhi
        have hhi' : hasInitOf cfg n = true := hhi
        split
        · -- initFn returns an error
          rename_i herr
          refine ⟨⟨hi.nodup, hi.topo, hi.sub, hi.clean, hi.svcs⟩, fun x hx => hx, ?_⟩
          refine ⟨n, rfl, List.mem_cons_self .., hnin', hhi', herr, by simp [hlog], fun d hd => hS d (ht.1 d hd)⟩
        · rename_i hnerr
          have hne' : initErrOf cfg n = false := by
            unfold initErrOf; cases h : cfg.initErr.getD n false <;> simp_all
          split
          · rename_i hsv
            have hsv' : hasSvcOf cfg n = true := hsv
            have hst1 := key { st with log := st.log ++ [n], svcs := st.svcs ++ [n], inited := st.inited ++ [n] } hnin' rfl
              (fun _ => hne') (by simp [hhi', hsv'])
            exact lift _ (fun x hx => by show x ∈ st.inited ++ [n]; simp [hx]) (by show n ∈ st.inited ++ [n]; simp)
              (ih (n :: S) _ hst1 (by
                show st.log ++ [n] = (st.inited ++ [n]).filter (hasInitOf cfg)
                rw [List.filter_append, hlog]; simp [hhi']) hrestP (hS' _ rfl) ht.2)
          · rename_i hsv
            have hsv' : hasSvcOf cfg n = false := by
              unfold hasSvcOf; cases h : cfg.hasSvc.getD n false <;> simp_all
            have hst1 := key { st with log := st.log ++ [n], inited := st.inited ++ [n] } hnin' rfl
              (fun _ => hne') (by simp [hsv'])
            exact lift _ (fun x hx => by show x ∈ st.inited ++ [n]; simp [hx]) (by show n ∈ st.inited ++ [n]; simp)
              (ih (n :: S) _ hst1 (by
                show st.log ++ [n] = (st.inited ++ [n]).filter (hasInitOf cfg)
                rw [List.filter_append, hlog]; simp [hhi']) hrestP (hS' _ rfl) ht.2)
      · rename_i hhi
        have hhi' : hasInitOf cfg n = false := by
          unfold hasInitOf; cases h : cfg.hasInit.getD n false <;> simp_all
        have hst1 := key { st with inited := st.inited ++ [n] } hnin' rfl
          (fun h => by rw [hhi'] at h; cases h) (by simp [hhi'])
        exact lift _ (fun x hx => by show x ∈ st.inited ++ [n]; simp [hx]) (by show n ∈ st.inited ++ [n]; simp)
          (ih (n :: S) _ hst1 (by
            show st.log = (st.inited ++ [n]).filter (hasInitOf cfg)
            rw [List.filter_append, hlog]; simp [hhi']) hrestP (hS' _ rfl) ht.2)

theorem TInv.mono {g : Graph} {cfg : Cfg} {P Q : Mod → Prop} {st : InitState} (h : TInv g cfg P st)
    (hpq : ∀ x, P x → Q x) : TInv g cfg Q st :=
  ⟨h.nodup, h.topo, fun x hx => hpq x (h.sub x hx), h.clean, h.svcs⟩

theorem needed_append (g : Graph) (pre : List Mod) (t x : Mod) :
    Needed g (pre ++ [t]) x ↔ Needed g pre x ∨ x = t ∨ Reach g t x := by
  unfold Needed
  simp only [List.mem_append, List.mem_singleton]
  constructor
  · rintro ((h | h) | ⟨u, (hu | hu), hr⟩)
    · exact Or.inl (Or.inl h)
    · exact Or.inr (Or.inl h)
    · exact Or.inl (Or.inr ⟨u, hu, hr⟩)
    · subst hu; exact Or.inr (Or.inr hr)
  · rintro ((h | ⟨u, hu, hr⟩) | h | h)
    · exact Or.inl (Or.inl h)
    · exact Or.inr ⟨u, Or.inl hu, hr⟩
    · exact Or.inl (Or.inr h)
    · exact Or.inr ⟨t, Or.inr rfl, h⟩

/-- what `InitModuleServices(targets...)` leaves behind, on each of its exits. -/
def ModsPost (g : Graph) (cfg : Cfg) (targets : List Mod) (r : InitState × Option InitErr) : Prop :=
  match r.2 with
  | none =>
    (∀ t ∈ targets, g.has t = true) ∧ r.1.log = r.1.inited.filter (hasInitOf cfg) ∧
      ∀ x, x ∈ r.1.inited ↔ Needed g targets x
  | some (.unrecognised t) =>
    ∃ pre post, targets = pre ++ t :: post ∧ g.has t = false ∧ (∀ u ∈ pre, g.has u = true) ∧
      r.1.log = r.1.inited.filter (hasInitOf cfg) ∧ ∀ x, x ∈ r.1.inited ↔ Needed g pre x
  | some (.initFailed n) =>
    ∃ pre t post, targets = pre ++ t :: post ∧ (n = t ∨ Reach g t n) ∧ n ∉ r.1.inited ∧
      hasInitOf cfg n = true ∧ initErrOf cfg n = true ∧
      r.1.log = r.1.inited.filter (hasInitOf cfg) ++ [n] ∧
      (∀ d, Reach g n d → d ∈ r.1.inited) ∧ (∀ x ∈ r.1.inited, ¬ Reach g x n) ∧
      (∀ x ∈ r.1.inited, Needed g (pre ++ [t]) x) ∧ (∀ x, Needed g pre x → x ∈ r.1.inited)
  | some .crash => False

theorem initModulesT_spec (g : Graph) (cfg : Cfg) (r : Mod → Nat) (hr : Ranked g r) (fuel : Nat)
    (orders : Nat → Nat → List Mod) (targets : List Mod)
    (hfuel : ∀ t ∈ targets, r t < fuel) (hord : ∀ c k t x, t ∈ targets → Reach g t x → x ∈ orders c k) :
    ∀ (ts pre : List Mod) (c : Nat) (st : InitState), targets = pre ++ ts → (∀ u ∈ pre, g.has u = true) →
      TInv g cfg (Needed g pre) st → st.log = st.inited.filter (hasInitOf cfg) →
      (∀ x, Needed g pre x → x ∈ st.inited) →
      TInv g cfg (Needed g targets) (initModulesT g cfg fuel orders c ts st).1 ∧
        ModsPost g cfg targets (initModulesT g cfg fuel orders c ts st) := by
  intro ts
  induction ts with
  | nil =>
    intro pre c st htg hpre hi hlog hall
    have : targets = pre := by simpa using htg
    subst this
    exact ⟨hi, hpre, hlog, fun x => ⟨hi.sub x, hall x⟩⟩
  | cons t rest ih =>
    intro pre c st htg hpre hi hlog hall
    have htmem : t ∈ targets := by rw [htg]; simp
    have hsubN : ∀ x, Needed g pre x → Needed g targets x := by
      intro x hx
      rcases hx with hx | ⟨u, hu, hru⟩
      · exact Or.inl (by rw [htg]; simp [hx])
      · exact Or.inr ⟨u, by rw [htg]; simp [hu], hru⟩
    simp only [initModulesT]
    rcases Bool.eq_false_or_eq_true (g.has t) with hhas' | hhas''
    rotate_left
    · -- unknown target
      have hR : initModuleT g cfg fuel (orders c) t st = (st, some (.unrecognised t)) := by
        unfold initModuleT; simp [hhas'']
      rw [hR]
      simp only
      refine ⟨hi.mono hsubN, ?_⟩
      exact ⟨pre, rest, htg, hhas'', hpre, hlog, fun x => ⟨hi.sub x, hall x⟩⟩
    · obtain ⟨res, hres, _, hmem, htopo⟩ := orderedDeps_spec g r hr fuel t (hfuel t htmem) (orders c)
        (fun k x hx => hord c k t x htmem hx)
      have hR : initModuleT g cfg fuel (orders c) t st = initLoopT cfg (res ++ [t]) st := by
        unfold initModuleT; simp [hhas', hres]
      rw [hR]
      have hL : topoFrom g [] (res ++ [t]) := by
        rw [topo_snoc]
        exact ⟨htopo, fun d hd => Or.inr ((hmem d).mpr (.direct hd))⟩
      have hPL : ∀ x ∈ res ++ [t], Needed g (pre ++ [t]) x := by
        intro x hx
        rw [needed_append]
        simp only [List.mem_append, List.mem_singleton] at hx
        rcases hx with hx | rfl
        · exact Or.inr (Or.inr ((hmem x).mp hx))
        · exact Or.inr (Or.inl rfl)
      have hi' : TInv g cfg (Needed g (pre ++ [t])) st :=
        hi.mono (fun x hx => (needed_append g pre t x).mpr (Or.inl hx))
      obtain ⟨a1, a2, a3⟩ := initLoopT_spec g cfg (Needed g (pre ++ [t])) (res ++ [t]) [] st hi' hlog hPL (by simp) hL
      have hsubN2 : ∀ x, Needed g (pre ++ [t]) x → Needed g targets x := by
        intro x hx
        rw [needed_append] at hx
        rcases hx with hx | rfl | hx
        · exact hsubN x hx
        · exact Or.inl htmem
        · exact Or.inr ⟨t, htmem, hx⟩
      cases hoe : (initLoopT cfg (res ++ [t]) st).2 with
      | some e =>
        -- an init function failed
        have hsplit : initLoopT cfg (res ++ [t]) st = ((initLoopT cfg (res ++ [t]) st).1, some e) := by
          rw [← hoe]
        rw [hsplit]
        simp only
        refine ⟨a1.mono hsubN2, ?_⟩
        unfold LoopPost at a3
        rw [hoe] at a3
        obtain ⟨n, he, hnL, hnin, hh1, hh2, hlog', hdeps⟩ := a3
        subst he
        refine ⟨pre, t, rest, htg, ?_, hnin, hh1, hh2, hlog', ?_, ?_, a1.sub, fun x hx => a2 x (hall x hx)⟩
        · simp only [List.mem_append, List.mem_singleton] at hnL
          rcases hnL with h | h
          · exact Or.inr ((hmem n).mp h)
          · exact Or.inl h
        · intro d hd
          cases hd with
          | direct h => exact hdeps d h
          | step h hrest => exact topo_reach_closed g _ a1.topo _ d (hdeps _ h) hrest
        · intro x hx hxn
          exact hnin (topo_reach_closed g _ a1.topo x n hx hxn)
      | none =>
        have hsplit : initLoopT cfg (res ++ [t]) st = ((initLoopT cfg (res ++ [t]) st).1, none) := by
          rw [← hoe]
        rw [hsplit]
        simp only
        unfold LoopPost at a3
        rw [hoe] at a3
        refine ih (pre ++ [t]) (c + 1) _ (by rw [htg]; simp) ?_ a1 a3.1 ?_
        · intro u hu
          simp only [List.mem_append, List.mem_singleton] at hu
          rcases hu with hu | rfl
          · exact hpre u hu
          · exact hhas'
        · intro x hx
          rw [needed_append] at hx
          rcases hx with hx | rfl | hx
          · exact a2 x (hall x hx)
          · exact a3.2 _ (by simp)
          · exact a3.2 x (by simp [(hmem x).mpr hx])

/-- `InitModuleServices` from scratch, all exits. -/
theorem init_all_exits (g : Graph) (cfg : Cfg) (r : Mod → Nat) (hr : Ranked g r) (fuel : Nat)
    (orders : Nat → Nat → List Mod) (targets : List Mod)
    (hfuel : ∀ t ∈ targets, r t < fuel) (hord : ∀ c k t x, t ∈ targets → Reach g t x → x ∈ orders c k) :
    TInv g cfg (Needed g targets) (initModulesT g cfg fuel orders 0 targets {}).1 ∧
      ModsPost g cfg targets (initModulesT g cfg fuel orders 0 targets {}) := by
  refine initModulesT_spec g cfg r hr fuel orders targets hfuel hord targets [] 0 {} rfl (by simp)
    ⟨by simp, trivial, by simp, by simp, by simp⟩ (by simp) ?_
  intro x hx
  rcases hx with hx | ⟨u, hu, _⟩
  · cases hx
  · cases hu

/-! ### graphs that `AddDependency` can build -/

open Classical in
/-- an acyclic graph has a rank bounded by the number of modules (the number of reachable modules). -/
theorem ranked_bounded (g : Graph) (hg : Acyclic g) : ∃ r, Ranked g r ∧ ∀ m, r m ≤ g.n := by
  refine ⟨fun m => (List.range g.n).countP (fun x => decide (Reach g m x)), ?_, ?_⟩
  · intro m d hd
    apply countP_lt_of_imp _ _ _ _ d (List.mem_range.mpr (hg.closed m d hd))
    · simpa using (Reach.direct hd : Reach g m d)
    · simpa using hg.irrefl d
    · intro x _ hx
      simp only [decide_eq_true_eq] at hx ⊢
      exact .step hd hx
  · intro m
    have := List.countP_le_length (p := fun x => decide (Reach g m x)) (l := List.range g.n)
    simpa using this

theorem empty_acyclic (n : Nat) : Acyclic (Graph.empty n) := by
  have hd : ∀ m, (Graph.empty n).depsOf m = [] := by
    intro m
    simp only [Graph.depsOf, Graph.empty, List.getD_eq_getElem?_getD]
    cases h : (List.replicate n ([] : List Mod))[m]? with
    | none => rfl
    | some l =>
      have := List.mem_of_getElem? h
      simp at this
      simp [this.2]
  refine ⟨⟨fun _ => 0, ?_⟩, ?_, by simp [Graph.empty]⟩
  · intro m d hdm; rw [hd m] at hdm; cases hdm
  · intro m d hdm; rw [hd m] at hdm; cases hdm

theorem addDependency_n (g : Graph) (fuel : Nat) (name : Mod) (ds : List Mod) :
    (addDependency g fuel name ds).2.n = g.n := by
  unfold addDependency
  split
  · rfl
  · split <;> rfl

/-- whatever `AddDependency` answers, the graph it leaves is acyclic. -/
theorem addDependency_keeps_acyclic (g : Graph) (hg : Acyclic g) (fuel : Nat) (name : Mod) (ds : List Mod) :
    Acyclic (addDependency g fuel name ds).2 := by
  cases h : addDependency g fuel name ds with
  | mk res g' =>
    cases res with
    | ok => exact addDependency_acyclic g hg fuel name ds g' h
    | noSuchModule | circular | crash =>
      have : g' = g := by
        unfold addDependency at h
        split at h
        · simp only [Prod.mk.injEq] at h
          first | exact h.2.symm | exact absurd h.1 (by decide)
        · split at h
          · simp at h
          · simp only [Prod.mk.injEq] at h; exact h.2.symm
      rw [this]; exact hg

/-- the graph after a sequence of `AddDependency` calls on `n` registered modules (results ignored). -/
def buildGraph (n : Nat) (calls : List (Mod × List Mod)) : Graph :=
  calls.foldl (fun g c => (addDependency g (g.n + 1) c.1 c.2).2) (Graph.empty n)

theorem buildGraph_acyclic (n : Nat) (calls : List (Mod × List Mod)) :
    Acyclic (buildGraph n calls) ∧ (buildGraph n calls).n = n := by
  unfold buildGraph
  suffices h : ∀ g, Acyclic g → (Acyclic (calls.foldl (fun g c => (addDependency g (g.n + 1) c.1 c.2).2) g) ∧
      (calls.foldl (fun g c => (addDependency g (g.n + 1) c.1 c.2).2) g).n = g.n) from h _ (empty_acyclic n)
  induction calls with
  | nil => intro g hg; exact ⟨hg, rfl⟩
  | cons c cs ih =>
    intro g hg
    simp only [List.foldl_cons]
    have := ih _ (addDependency_keeps_acyclic g hg (g.n + 1) c.1 c.2)
    rw [addDependency_n] at this
    exact this

theorem addCheck_no_crash (g : Graph) (r : Mod → Nat) (hr : Ranked g r) (fuel : Nat) (hf : ∀ m, r m < fuel)
    (name : Mod) (ds : List Mod) : addCheck g fuel name ds ≠ .crash := by
  induction ds with
  | nil => simp [addCheck]
  | cons d ds ih =>
    simp only [addCheck]
    split
    · simp
    · split
      · simp
      · split
        · rename_i hnone
          obtain ⟨l, hl⟩ := listDeps_some g r hr fuel d (hf d)
          simp [dependenciesFor, hl] at hnone
        · split
          · simp
          · exact ih

theorem addDependency_no_crash (g : Graph) (hg : Acyclic g) (name : Mod) (ds : List Mod) :
    (addDependency g (g.n + 1) name ds).1 ≠ .crash := by
  obtain ⟨r, hr, hb⟩ := ranked_bounded g hg
  have hc := addCheck_no_crash g r hr (g.n + 1) (fun m => by have := hb m; omega) name ds
  unfold addDependency
  split
  · simp
  · split
    · simp
    · rename_i res hne _
      simpa using hc

/-! ### module options -/

theorem applyOpts_visible_targetable (opts : List ModOpt) : (applyOpts opts).1 = true → (applyOpts opts).2 = true := by
  unfold applyOpts
  suffices h : ∀ (acc : Bool × Bool), (acc.1 = true → acc.2 = true) →
      ((opts.foldl (fun _ o => match o with
        | .userInvisible => (false, false)
        | .userInvisibleTargetable => (false, true)) acc).1 = true →
       (opts.foldl (fun _ o => match o with
        | .userInvisible => (false, false)
        | .userInvisibleTargetable => (false, true)) acc).2 = true) from h _ (fun _ => rfl)
  induction opts with
  | nil => intro acc h; exact h
  | cons o os ih =>
    intro acc _
    simp only [List.foldl_cons]
    apply ih
    cases o <;> simp

theorem applyOpts_last_wins (opts : List ModOpt) (o : ModOpt) :
    applyOpts (opts ++ [o]) = match o with
      | .userInvisible => (false, false)
      | .userInvisibleTargetable => (false, true) := by
  cases o <;> simp [applyOpts, List.foldl_append]

end PfC18
