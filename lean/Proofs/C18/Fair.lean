import Proofs.C18.Run
import Proofs.C18.Live
import Proofs.C18.Tie
/-!
# C18: liveness under weak fairness — "if a dependency fails to start, its dependants fail as well"

Infinite schedules `σ : Nat → REv`; `runN s σ k` = the state after the first `k` events of `σ`.
The events are split into the steps of the wrappers' own goroutines (`REv.internal`: a wait returning, the
wrapper moving on) and the choices of the environment (`wStart`, `wStop`, the inner service's functions
returning). WEAK FAIRNESS is demanded of the internal events only: an internal event that is enabled from
some point on without interruption is eventually taken. Nothing is assumed about the environment (it may
stay silent for ever, or keep starting / stopping wrappers).
-/
namespace PfC18
open C18 C17

/-- the first `k` events of an infinite schedule. -/
def prefixOf (σ : Nat → REv) (k : Nat) : List REv := (List.range k).map σ

/-- the state after the first `k` events of `σ`. -/
def runN (s : Sys) (σ : Nat → REv) (k : Nat) : Sys := s.run (prefixOf σ k)

theorem runN_zero (s : Sys) (σ : Nat → REv) : runN s σ 0 = s := rfl

theorem runN_succ (s : Sys) (σ : Nat → REv) (k : Nat) : runN s σ (k + 1) = (runN s σ k).step (σ k) := by
  simp [runN, prefixOf, List.range_succ, Sys.run, List.foldl_append]

/-- an event is enabled: `Sys.step` does something (a step that is not enabled is a no-op). -/
def Enabled (s : Sys) (e : REv) : Prop := (s.local e).isSome = true

instance (s : Sys) (e : REv) : Decidable (Enabled s e) := by unfold Enabled; infer_instance

/-- the steps of the wrapper goroutines of the modules `mods` (as opposed to the environment's events: the
user starting / stopping a wrapper, the inner service's three functions returning): a wait on a dependency
returning (`awaitOk`, `awaitFail`, `awaitCancelled`), the wrapper moving on in `start` / `run` / `stop`. -/
def internalEvents (mods : List Mod) : List REv :=
  mods.flatMap fun m =>
    [REv.awaitCancelled m, .depsDone m, .innerUp m, .innerStartFailed m, .cleanupDone m, .runExit m,
     .stopLooks m, .dependantsGone m, .innerStopped m] ++ mods.flatMap fun d => [REv.awaitOk m d, .awaitFail m d]

theorem awaitFail_internal (mods : List Mod) (m d : Mod) (hm : m ∈ mods) (hd : d ∈ mods) :
    REv.awaitFail m d ∈ internalEvents mods := by
  simp only [internalEvents, List.mem_flatMap]
  exact ⟨m, hm, List.mem_append_right _ (List.mem_flatMap.mpr ⟨d, hd, by simp⟩)⟩

/-- weak fairness of the wrapper goroutines: for every goroutine step `e` of a module of the system and
every position `n` there is a later position at which `e` is not enabled or is the event taken (so `e`
cannot stay enabled for ever without being taken). Nothing is required of the environment's events. -/
def WeaklyFair (s : Sys) (σ : Nat → REv) : Prop :=
  ∀ e ∈ internalEvents s.mods, ∀ n, ∃ k, n ≤ k ∧ (¬ Enabled (runN s σ k) e ∨ σ k = e)

theorem step_mods (s : Sys) (e : REv) : (s.step e).mods = s.mods := by
  unfold Sys.step; split <;> rfl

theorem run_mods (s : Sys) (evs : List REv) : (s.run evs).mods = s.mods := by
  induction evs generalizing s with
  | nil => rfl
  | cons e es ih => exact (ih _).trans (step_mods s e)

theorem rinv_runN (s : Sys) (hi : RInv s) (σ : Nat → REv) (k : Nat) : RInv (runN s σ k) := rinv_run s hi _

theorem runN_startDeps (s : Sys) (σ : Nat → REv) (k : Nat) : (runN s σ k).startDeps = s.startDeps :=
  run_startDeps s _

/-- the state at position `n + j` is the state `j` events after position `n`. -/
theorem runN_add (s : Sys) (σ : Nat → REv) (n j : Nat) :
    runN s σ (n + j) = runN (runN s σ n) (fun i => σ (n + i)) j := by
  induction j with
  | zero => rfl
  | succ j ih => rw [← Nat.add_assoc, runN_succ, runN_succ, ih]

theorem failed_to_start_stable_runN (s : Sys) (σ : Nat → REv) (d : Mod)
    (hf : (s.st d).ph = .failed) (hw : (s.st d).wasRunning = false) (k : Nat) :
    ((runN s σ k).st d).ph = .failed ∧ ((runN s σ k).st d).wasRunning = false :=
  failed_to_start_stable_run s _ d hf hw

/-- a phase that is terminal at position `k` is the phase at every later position. -/
theorem terminal_stays_runN (s : Sys) (σ : Nat → REv) (m : Mod) (k : Nat)
    (h : ((runN s σ k).st m).ph.terminal = true) (j : Nat) (hj : k ≤ j) :
    ((runN s σ j).st m).ph = ((runN s σ k).st m).ph := by
  obtain ⟨i, rfl⟩ := Nat.exists_eq_add_of_le hj
  induction i with
  | zero => rfl
  | succ i ih =>
    rw [← Nat.add_assoc, runN_succ]
    have := ih (Nat.le_add_right k i)
    rw [terminal_absorbing _ _ m (by rw [this]; exact h), this]

/-- `started` is never reset. -/
theorem started_mono (s : Sys) (e : REv) (m : Mod) (h : (s.st m).started = true) :
    ((s.step e).st m).started = true := by
  unfold Sys.step
  split
  · exact h
  · rename_i k x hl
    simp only [Sys.set]
    split
    · rename_i hkm
      subst hkm
      cases e <;> simp only [Sys.local] at hl <;> (repeat' split at hl) <;> (try cases hl) <;>
        simp_all [innerStopAsync] <;> (try (split <;> simp_all))
    · exact h

theorem started_mono_runN (s : Sys) (σ : Nat → REv) (m : Mod) (k : Nat)
    (h : ((runN s σ k).st m).started = true) (j : Nat) (hj : k ≤ j) : ((runN s σ j).st m).started = true := by
  obtain ⟨i, rfl⟩ := Nat.exists_eq_add_of_le hj
  induction i with
  | zero => exact h
  | succ i ih =>
    rw [← Nat.add_assoc, runN_succ]
    exact started_mono _ _ m (ih (Nat.le_add_right k i))

/-- a started wrapper one of whose start dependencies failed to start is never Terminated: terminal means Failed. -/
theorem terminal_is_failed (s : Sys) (hi : RInv s) (m d : Mod) (hd : d ∈ s.startDeps m)
    (hw : (s.st d).wasRunning = false) (hs : (s.st m).started = true) (ht : (s.st m).ph.terminal = true) :
    (s.st m).ph = .failed := by
  cases hph : (s.st m).ph <;> rw [hph] at ht <;> simp [WPhase.terminal] at ht
  have := hi.deps m (Or.inr (Or.inr ⟨hph, hs⟩)) d hd
  rw [hw] at this; cases this

/-- **liveness under weak fairness, on any system satisfying the run-time invariant**: `d` failed to start
(Failed, never Running), `m` awaits `d` at start, `m` is started at position `n` of a weakly fair schedule:
then at some later position `m` is Failed, stays Failed for ever, and its inner service is never started. -/
theorem fair_dep_failure (s : Sys) (hi : RInv s) (σ : Nat → REv) (hfair : WeaklyFair s σ) (m d : Mod)
    (hmm : m ∈ s.mods) (hdd : d ∈ s.mods)
    (hd : d ∈ s.startDeps m) (hf : (s.st d).ph = .failed) (hw : (s.st d).wasRunning = false)
    (n : Nat) (hs : ((runN s σ n).st m).started = true) :
    ∃ k, n ≤ k ∧ ∀ j, k ≤ j → ((runN s σ j).st m).ph = .failed := by
  obtain ⟨k, hnk, hk⟩ := hfair (.awaitFail m d) (awaitFail_internal _ m d hmm hdd) n
  have hik := rinv_runN s hi σ k
  have hdk : d ∈ (runN s σ k).startDeps m := by rw [runN_startDeps]; exact hd
  obtain ⟨hfk, hwk⟩ := failed_to_start_stable_runN s σ d hf hw k
  have hsk := started_mono_runN s σ m n hs k hnk
  -- either `m` is already terminal at `k`, or the failing step is enabled there
  cases hterm : ((runN s σ k).st m).ph.terminal with
  | true =>
    have hfl := terminal_is_failed _ hik m d hdk hwk hsk hterm
    exact ⟨k, hnk, fun j hj => by rw [terminal_stays_runN s σ m k hterm j hj, hfl]⟩
  | false =>
    obtain ⟨⟨ok, hph⟩, hstep⟩ := fail_step_enabled _ hik m d hdk hfk hwk hsk hterm
    have hen : Enabled (runN s σ k) (.awaitFail m d) := by
      -- the step changes the phase, so it is not the no-op of a disabled event
      unfold Enabled
      cases hl : (runN s σ k).local (.awaitFail m d) with
      | some _ => rfl
      | none =>
        exfalso
        have : (runN s σ k).step (.awaitFail m d) = runN s σ k := by unfold Sys.step; rw [hl]
        rw [this, hph] at hstep; cases hstep
    rcases hk with hk | hk
    · exact absurd hen hk
    · have hk1 : ((runN s σ (k + 1)).st m).ph = .failed := by rw [runN_succ, hk]; exact hstep
      refine ⟨k + 1, Nat.le_succ_of_le hnk, fun j hj => ?_⟩
      rw [terminal_stays_runN s σ m (k + 1) (by rw [hk1]; rfl) j hj, hk1]

/-- … uniformly for all the dependants in a finite list that are started at position `n`. -/
theorem fair_dep_failure_all (s : Sys) (hi : RInv s) (σ : Nat → REv) (hfair : WeaklyFair s σ) (d : Mod)
    (hdd : d ∈ s.mods) (hf : (s.st d).ph = .failed) (hw : (s.st d).wasRunning = false) (n : Nat)
    (ms : List Mod) (hsub : ∀ m ∈ ms, m ∈ s.mods) :
    ∃ K, n ≤ K ∧ ∀ m ∈ ms, d ∈ s.startDeps m → ((runN s σ n).st m).started = true →
      ∀ j, K ≤ j → ((runN s σ j).st m).ph = .failed := by
  induction ms with
  | nil => exact ⟨n, Nat.le_refl n, fun _ hm => by cases hm⟩
  | cons a ms ih =>
    obtain ⟨K, hK, hall⟩ := ih (fun m hm => hsub m (List.mem_cons_of_mem _ hm))
    by_cases ha : d ∈ s.startDeps a ∧ ((runN s σ n).st a).started = true
    · obtain ⟨k, hk, hak⟩ := fair_dep_failure s hi σ hfair a d (hsub a List.mem_cons_self) hdd ha.1 hf hw n ha.2
      refine ⟨max K k, Nat.le_trans hK (Nat.le_max_left K k), fun m hm hdm hsm j hj => ?_⟩
      rcases List.mem_cons.mp hm with rfl | hm
      · exact hak j (Nat.le_trans (Nat.le_max_right K k) hj)
      · exact hall m hm hdm hsm j (Nat.le_trans (Nat.le_max_left K k) hj)
    · refine ⟨K, hK, fun m hm hdm hsm j hj => ?_⟩
      rcases List.mem_cons.mp hm with rfl | hm
      · exact absurd ⟨hdm, hsm⟩ ha
      · exact hall m hm hdm hsm j hj

/-! ### on the graph -/

theorem wrun_runN (g : Graph) (svcs : List Mod) (evs : List REv) (σ : Nat → REv) (k : Nat) :
    runN (wrun g svcs evs) σ k = wrun g svcs (evs ++ prefixOf σ k) := by
  simp [runN, wrun, run_append]

theorem g_fair_dep_failure (g : Graph) (hg : Acyclic g) (svcs : List Mod) (evs : List REv) (d : Mod) (hd : d ∈ svcs)
    (hf : ((wrun g svcs evs).st d).ph = .failed) (hw : ((wrun g svcs evs).st d).wasRunning = false)
    (σ : Nat → REv) (hfair : WeaklyFair (wrun g svcs evs) σ) (m : Mod) (hm : m ∈ svcs) (hr : Reach g m d)
    (n : Nat) (hs : ((runN (wrun g svcs evs) σ n).st m).started = true) :
    (∃ k, n ≤ k ∧ ∀ j, k ≤ j → ((runN (wrun g svcs evs) σ j).st m).ph = .failed) ∧
    ∀ j, ((runN (wrun g svcs evs) σ j).st m).inner = .new := by
  have hi : RInv (wrun g svcs evs) := wrapperSys_rinv g _ svcs evs
  have hdm := (wrun_deps g hg svcs evs m d).1.mpr ⟨hd, hr⟩
  have hmods : (wrun g svcs evs).mods = svcs := run_mods _ evs
  refine ⟨fair_dep_failure _ hi σ hfair m d (by rw [hmods]; exact hm) (by rw [hmods]; exact hd) hdm hf hw n hs, fun j => ?_⟩
  rw [wrun_runN]
  exact (g_dep_failure g hg svcs evs (prefixOf σ j) d hd hf hw m hr).2.1

theorem g_fair_dep_failure_all (g : Graph) (hg : Acyclic g) (svcs : List Mod) (evs : List REv) (d : Mod) (hd : d ∈ svcs)
    (hf : ((wrun g svcs evs).st d).ph = .failed) (hw : ((wrun g svcs evs).st d).wasRunning = false)
    (σ : Nat → REv) (hfair : WeaklyFair (wrun g svcs evs) σ) (n : Nat) :
    ∃ K, n ≤ K ∧ ∀ m ∈ svcs, Reach g m d → ((runN (wrun g svcs evs) σ n).st m).started = true →
      ∀ j, K ≤ j → ((runN (wrun g svcs evs) σ j).st m).ph = .failed := by
  have hi : RInv (wrun g svcs evs) := wrapperSys_rinv g _ svcs evs
  have hmods : (wrun g svcs evs).mods = svcs := run_mods _ evs
  obtain ⟨K, hK, hall⟩ := fair_dep_failure_all _ hi σ hfair d (by rw [hmods]; exact hd) hf hw n svcs (fun m hm => by rw [hmods]; exact hm)
  exact ⟨K, hK, fun m hm hr hs j hj =>
    hall m hm ((wrun_deps g hg svcs evs m d).1.mpr ⟨hd, hr⟩) hs j hj⟩

/-! ### fair schedules exist; fairness is needed -/

/-- round robin over a finite list of events. -/
def roundRobin (l : List REv) (dflt : REv) : Nat → REv := fun k => l.getD (k % l.length) dflt

theorem roundRobin_recurrent (l : List REv) (dflt e : REv) (he : e ∈ l) (n : Nat) :
    ∃ k, n ≤ k ∧ roundRobin l dflt k = e := by
  obtain ⟨i, hi, hie⟩ := List.getElem_of_mem he
  have hpos : 0 < l.length := Nat.lt_of_le_of_lt (Nat.zero_le i) hi
  refine ⟨n * l.length + i, ?_, ?_⟩
  · calc n = n * 1 := (Nat.mul_one n).symm
      _ ≤ n * l.length := Nat.mul_le_mul_left n hpos
      _ ≤ n * l.length + i := Nat.le_add_right _ _
  · unfold roundRobin
    rw [Nat.mul_comm, Nat.mul_add_mod, Nat.mod_eq_of_lt hi]
    simp [List.getD, hi, hie]

/-- **fair schedules exist**: round robin over the goroutine steps of the system's modules is weakly fair
from every state (whatever the default event). -/
theorem roundRobin_weaklyFair (s : Sys) (dflt : REv) : WeaklyFair s (roundRobin (internalEvents s.mods) dflt) := by
  intro e he n
  obtain ⟨k, hk, hek⟩ := roundRobin_recurrent _ dflt e he n
  exact ⟨k, hk, Or.inr hek⟩

/-- a schedule made of one event that is not enabled never changes the state. -/
theorem runN_const_disabled (s : Sys) (e : REv) (h : s.local e = none) (k : Nat) : runN s (fun _ => e) k = s := by
  induction k with
  | zero => rfl
  | succ k ih => rw [runN_succ, ih]; unfold Sys.step; rw [h]

end PfC18
