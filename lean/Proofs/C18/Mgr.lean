import Proofs.C18.Graph
import Proofs.C18.Init
import Proofs.C18.InitFail
import Proofs.C18.Tie
/-!
# C18: managers built by ANY sequence of `RegisterModule` / `AddDependency` calls

`RegisterModule` on an existing name replaces the module: its own dependency list is dropped (edges are
only ever removed), edges pointing to it survive. Acyclicity is an invariant of every call sequence, and so
everything proved for acyclic graphs (order of initialisation, the queries) holds for every manager.
-/
namespace PfC18
open C18

/-! ### `depsOf` after the two kinds of registration -/

theorem depsOf_setDeps_f (g : Graph) (name : Mod) (f : List Mod → List Mod) (hn : name < g.deps.length) (m : Mod) :
    ({ g with deps := setDeps g.deps name f } : Graph).depsOf m =
      if m = name then f (g.depsOf name) else g.depsOf m := by
  simp only [Graph.depsOf, setDeps, List.getD_eq_getElem?_getD, List.getElem?_mapIdx]
  by_cases hm : m = name
  · subst hm
    rw [if_pos rfl]
    rw [List.getElem?_eq_getElem hn]
    simp
  · rw [if_neg hm]
    cases h : g.deps[m]? with
    | none => simp
    | some l => simp [hm]

theorem depsOf_ge (g : Graph) (m : Mod) (h : g.deps.length ≤ m) : g.depsOf m = [] := by
  simp [Graph.depsOf, List.getD_eq_getElem?_getD, List.getElem?_eq_none h]

theorem depsOf_snoc (g : Graph) (m : Mod) :
    ({ n := g.n + 1, deps := g.deps ++ [[]] } : Graph).depsOf m = g.depsOf m := by
  simp only [Graph.depsOf, List.getD_eq_getElem?_getD]
  by_cases h : m < g.deps.length
  · rw [List.getElem?_append_left h]
  · have h' : g.deps.length ≤ m := Nat.le_of_not_lt h
    rw [List.getElem?_append_right h', List.getElem?_eq_none h']
    cases hm : m - g.deps.length with
    | zero => simp
    | succ k => simp

theorem reach_congr (g g' : Graph) (h : ∀ m, g'.depsOf m = g.depsOf m) {a b : Mod} (hr : Reach g a b) : Reach g' a b := by
  induction hr with
  | direct hd => exact .direct (by rw [h]; exact hd)
  | step hd _ ih => exact .step (by rw [h]; exact hd) ih

/-! ### registering a NEW name -/

/-- the graph after registering a new name. -/
def snocGraph (g : Graph) : Graph := { n := g.n + 1, deps := g.deps ++ [[]] }

theorem snoc_acyclic (g : Graph) (hg : Acyclic g) : Acyclic (snocGraph g) := by
  obtain ⟨r, hr⟩ := hg.ranked
  refine ⟨⟨r, fun m d hd => ?_⟩, fun m d hd => ?_, ?_⟩
  · rw [snocGraph, depsOf_snoc] at hd; exact hr m d hd
  · rw [snocGraph, depsOf_snoc] at hd; exact Nat.lt_succ_of_lt (hg.closed m d hd)
  · simp [snocGraph, hg.len]

theorem snoc_reach (g : Graph) (a b : Mod) : Reach (snocGraph g) a b ↔ Reach g a b :=
  ⟨reach_congr _ _ (fun m => (depsOf_snoc g m).symm), reach_congr _ _ (fun m => depsOf_snoc g m)⟩

/-! ### registering an EXISTING name again -/

/-- the graph after `RegisterModule` on the registered name `m`. -/
def resetGraph (g : Graph) (m : Mod) : Graph := { g with deps := setDeps g.deps m (fun _ => []) }

theorem depsOf_reset (g : Graph) (hg : Acyclic g) (m : Mod) (hm : m < g.n) (k : Mod) :
    (resetGraph g m).depsOf k = if k = m then [] else g.depsOf k :=
  depsOf_setDeps_f g m (fun _ => []) (by rw [hg.len]; exact hm) k

theorem reset_acyclic (g : Graph) (hg : Acyclic g) (m : Mod) (hm : m < g.n) : Acyclic (resetGraph g m) := by
  obtain ⟨r, hr⟩ := hg.ranked
  have hd := depsOf_reset g hg m hm
  refine ⟨⟨r, fun k d hk => ?_⟩, fun k d hk => ?_, ?_⟩
  · rw [hd] at hk
    by_cases h : k = m
    · rw [if_pos h] at hk; cases hk
    · rw [if_neg h] at hk; exact hr k d hk
  · rw [hd] at hk
    show d < g.n
    by_cases h : k = m
    · rw [if_pos h] at hk; cases hk
    · rw [if_neg h] at hk; exact hg.closed k d hk
  · show (setDeps g.deps m (fun _ => [])).length = g.n
    simp [setDeps, hg.len]

/-- re-registration only removes edges. -/
theorem reset_reach_sub (g : Graph) (hg : Acyclic g) (m : Mod) (hm : m < g.n) {a b : Mod}
    (h : Reach (resetGraph g m) a b) : Reach g a b := by
  have hd := depsOf_reset g hg m hm
  induction h with
  | @direct k d hk =>
    rw [hd] at hk
    by_cases h : k = m
    · rw [if_pos h] at hk; cases hk
    · rw [if_neg h] at hk; exact .direct hk
  | @step k d x hk _ ih =>
    rw [hd] at hk
    by_cases h : k = m
    · rw [if_pos h] at hk; cases hk
    · rw [if_neg h] at hk; exact .step hk ih

/-- … exactly the paths through the module's own edges: a path survives iff it does not leave from `m`;
in particular everything that depended on `m` still does. -/
theorem reset_keeps_dependants (g : Graph) (hg : Acyclic g) (m : Mod) (hm : m < g.n) {x : Mod}
    (h : Reach g x m) : Reach (resetGraph g m) x m := by
  have hd := depsOf_reset g hg m hm
  -- generalise the end point so that the induction goes through: every node on the path reaches `m`
  suffices hs : ∀ a b, Reach g a b → (b = m ∨ Reach g b m) → Reach (resetGraph g m) a b from hs x m h (Or.inl rfl)
  intro a b hab
  induction hab with
  | @direct k d hk =>
    intro hb
    have hne : k ≠ m := by
      rintro rfl
      rcases hb with rfl | hb
      · exact hg.irrefl _ (.direct hk)
      · exact hg.irrefl _ (.step hk hb)
    exact .direct (by rw [hd, if_neg hne]; exact hk)
  | @step k d y hk hrest ih =>
    intro hb
    have hkm : Reach g k m := by
      rcases hb with rfl | hb
      · exact .step hk hrest
      · exact .step hk (hrest.trans hb)
    have hne : k ≠ m := by rintro rfl; exact hg.irrefl _ hkm
    exact .step (by rw [hd, if_neg hne]; exact hk) (ih hb)

/-! ### the invariant of every call sequence -/

structure MInv (M : Mgr) : Prop where
  acyclic : Acyclic M.g
  lenInit : M.hasInit.length = M.g.n
  lenFlags : M.flags.length = M.g.n
  visTarget : ∀ m, (M.flags.getD m (false, false)).1 = true → (M.flags.getD m (false, false)).2 = true

theorem minv_empty : MInv {} := by
  refine ⟨empty_acyclic 0, rfl, rfl, fun m h => ?_⟩
  simp at h

theorem registerModule_g (M : Mgr) (m : Mod) (hi : Bool) (opts : List ModOpt) :
    (registerModule M m hi opts).g = if m < M.g.n then resetGraph M.g m else snocGraph M.g := by
  unfold registerModule; split <;> rfl

theorem getD_set_flags (l : List (Bool × Bool)) (m k : Nat) (v : Bool × Bool) :
    (l.set m v).getD k (false, false) = if k = m ∧ m < l.length then v else l.getD k (false, false) := by
  simp only [List.getD_eq_getElem?_getD, List.getElem?_set]
  by_cases h : m = k
  · subst h
    by_cases hl : m < l.length
    · simp [hl]
    · simp [hl]
  · have h' : ¬ k = m := fun e => h e.symm
    simp [h, h']

theorem getD_snoc_flags (l : List (Bool × Bool)) (k : Nat) (v : Bool × Bool) :
    (l ++ [v]).getD k (false, false) = if k < l.length then l.getD k (false, false) else if k = l.length then v else (false, false) := by
  simp only [List.getD_eq_getElem?_getD]
  by_cases h : k < l.length
  · rw [List.getElem?_append_left h, if_pos h]
  · rw [if_neg h, List.getElem?_append_right (Nat.le_of_not_lt h)]
    by_cases h2 : k = l.length
    · subst h2; simp
    · rw [if_neg h2]
      have : k - l.length ≠ 0 := by omega
      cases hk : k - l.length with
      | zero => exact absurd hk this
      | succ j => simp

theorem minv_register (M : Mgr) (hM : MInv M) (m : Mod) (hi : Bool) (opts : List ModOpt) :
    MInv (registerModule M m hi opts) := by
  have hvt := applyOpts_visible_targetable opts
  unfold registerModule
  split
  · rename_i hm
    refine ⟨reset_acyclic M.g hM.acyclic m hm, ?_, ?_, fun k hk => ?_⟩
    · simp [hM.lenInit]
    · simp [hM.lenFlags]
    · simp only [getD_set_flags] at hk ⊢
      split
      · rename_i hc; rw [if_pos hc] at hk; exact hvt hk
      · rename_i hc; rw [if_neg hc] at hk; exact hM.visTarget k hk
  · refine ⟨snoc_acyclic M.g hM.acyclic, ?_, ?_, fun k hk => ?_⟩
    · simp [hM.lenInit]
    · simp [hM.lenFlags]
    · simp only [getD_snoc_flags] at hk ⊢
      split
      · rename_i hc; rw [if_pos hc] at hk; exact hM.visTarget k hk
      · rename_i hc
        rw [if_neg hc] at hk
        split
        · rename_i hc2; rw [if_pos hc2] at hk; exact hvt hk
        · rename_i hc2; rw [if_neg hc2] at hk; cases hk

theorem minv_call (M : Mgr) (hM : MInv M) (c : MCall) : MInv (M.call c).2 := by
  cases c with
  | register m hi opts => exact minv_register M hM m hi opts
  | addDep name ds =>
    simp only [Mgr.call]
    refine ⟨addDependency_keeps_acyclic M.g hM.acyclic _ name ds, ?_, ?_, hM.visTarget⟩
    · show M.hasInit.length = (addDependency M.g (M.g.n + 1) name ds).2.n
      rw [addDependency_n]; exact hM.lenInit
    · show M.flags.length = (addDependency M.g (M.g.n + 1) name ds).2.n
      rw [addDependency_n]; exact hM.lenFlags

theorem minv_build (calls : List MCall) : MInv (buildMgr calls) := by
  unfold buildMgr
  suffices h : ∀ M, MInv M → MInv (calls.foldl (fun M c => (M.call c).2) M) from h _ minv_empty
  induction calls with
  | nil => intro M h; exact h
  | cons c cs ih => intro M h; exact ih _ (minv_call M h c)

/-- the manager after some calls followed by more calls. -/
theorem buildMgr_append (a b : List MCall) :
    buildMgr (a ++ b) = b.foldl (fun M c => (M.call c).2) (buildMgr a) := by
  simp [buildMgr, List.foldl_append]

theorem buildMgr_snoc (a : List MCall) (c : MCall) : buildMgr (a ++ [c]) = ((buildMgr a).call c).2 := by
  simp [buildMgr, List.foldl_append]

/-! ### the queries -/

theorem dependenciesForModule_spec (M : Mgr) (hM : MInv M) (m : Mod) :
    (M.g.has m = false → M.dependenciesForModule (M.g.n + 1) m = .nilDeref) ∧
    (M.g.has m = true → ∃ l, M.dependenciesForModule (M.g.n + 1) m = .val l ∧ ∀ x, x ∈ l ↔ Reach M.g m x) := by
  obtain ⟨r, hr, hb⟩ := ranked_bounded M.g hM.acyclic
  have hf : ∀ m, r m < M.g.n + 1 := fun m => by have := hb m; omega
  refine ⟨fun h => by simp [Mgr.dependenciesForModule, h], fun h => ?_⟩
  obtain ⟨l, hl⟩ := dependenciesFor_some M.g r hr _ hf m
  exact ⟨l, by simp [Mgr.dependenciesForModule, h, hl], dependenciesFor_mem M.g _ m l hl⟩

theorem userVisibleNames_spec (M : Mgr) :
    M.userVisibleModuleNames.Pairwise (· < ·) ∧
    ∀ m, m ∈ M.userVisibleModuleNames ↔ M.isUserVisibleModule m = true := by
  refine ⟨List.Pairwise.sublist List.filter_sublist List.pairwise_lt_range, fun m => ?_⟩
  simp only [Mgr.userVisibleModuleNames, List.mem_filter, List.mem_range]
  refine ⟨fun h => h.2, fun h => ⟨?_, h⟩⟩
  simp only [Mgr.isUserVisibleModule, Graph.has, Bool.and_eq_true, decide_eq_true_eq] at h
  exact h.1

/-- the module number a `RegisterModule` call ends up with. -/
def regNumber (M : Mgr) (m : Mod) : Mod := if m < M.g.n then m else M.g.n

theorem register_flags (M : Mgr) (hM : MInv M) (m : Mod) (hi : Bool) (opts : List ModOpt) :
    let M' := registerModule M m hi opts
    M'.isModuleRegistered (regNumber M m) = true ∧
    M'.isUserVisibleModule (regNumber M m) = (applyOpts opts).1 ∧
    M'.isTargetableModule (regNumber M m) = (applyOpts opts).2 ∧
    M'.hasInit.getD (regNumber M m) false = hi ∧
    ∀ k, k ≠ regNumber M m → M'.isModuleRegistered k = M.isModuleRegistered k ∧
      M'.isUserVisibleModule k = M.isUserVisibleModule k ∧ M'.isTargetableModule k = M.isTargetableModule k := by
  intro M'
  by_cases hm : m < M.g.n
  · have hM' : M' = { g := resetGraph M.g m, hasInit := M.hasInit.set m hi, flags := M.flags.set m (applyOpts opts) } := by
      simp only [M', registerModule, if_pos hm]; rfl
    have hn : M'.g.n = M.g.n := by rw [hM']; rfl
    have hfl : m < M.flags.length := by rw [hM.lenFlags]; exact hm
    have hil : m < M.hasInit.length := by rw [hM.lenInit]; exact hm
    simp only [regNumber, if_pos hm, Mgr.isModuleRegistered, Mgr.isUserVisibleModule, Mgr.isTargetableModule, Graph.has, hn]
    rw [hM']
    simp only [getD_set_flags]
    refine ⟨by simpa using hm, by simp [hm, hfl], by simp [hm, hfl], by simp [List.getD_eq_getElem?_getD, hil], fun k hk => ?_⟩
    simp [hk]
  · have hM' : M' = { g := snocGraph M.g, hasInit := M.hasInit ++ [hi], flags := M.flags ++ [applyOpts opts] } := by
      simp only [M', registerModule, if_neg hm]; rfl
    have hn : M'.g.n = M.g.n + 1 := by rw [hM']; rfl
    simp only [regNumber, if_neg hm, Mgr.isModuleRegistered, Mgr.isUserVisibleModule, Mgr.isTargetableModule, Graph.has, hn]
    rw [hM']
    simp only [getD_snoc_flags, hM.lenFlags]
    refine ⟨by simp, by simp, by simp, by simp [List.getD_eq_getElem?_getD, ← hM.lenInit], fun k hk => ?_⟩
    by_cases hkn : k < M.g.n
    · have : k < M.g.n + 1 := Nat.lt_succ_of_lt hkn
      simp [hkn, this]
    · have hk' : k ≠ M.g.n := by simpa [regNumber, hm] using hk
      have h1 : ¬ k < M.g.n + 1 :=
        Nat.not_lt.mpr (Nat.succ_le_of_lt (Nat.lt_of_le_of_ne (Nat.le_of_not_lt hkn) (Ne.symm hk')))
      simp [hkn, h1]

end PfC18
