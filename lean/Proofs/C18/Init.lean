import Proofs.C18.Graph
/-! C18: `InitModuleServices` — every needed module once, after its dependencies, nothing else. -/
namespace PfC18
open C18

def hasInitOf (cfg : Cfg) (x : Mod) : Bool := cfg.hasInit.getD x false

/-- `x` is one of the targets or a transitive dependency of one. -/
def Needed (g : Graph) (targets : List Mod) (x : Mod) : Prop := x ∈ targets ∨ ∃ t ∈ targets, Reach g t x

structure IInv (g : Graph) (cfg : Cfg) (P : Mod → Prop) (st : InitState) : Prop where
  nodup : st.inited.Nodup
  topo : topoFrom g [] st.inited
  sub : ∀ x ∈ st.inited, P x
  log : st.log = st.inited.filter (hasInitOf cfg)

theorem topo_mono (g : Graph) (s1 s2 l : List Mod) (h : ∀ x ∈ s1, x ∈ s2) (ht : topoFrom g s1 l) : topoFrom g s2 l := by
  induction l generalizing s1 s2 with
  | nil => trivial
  | cons a as ih =>
    simp only [topoFrom] at ht ⊢
    refine ⟨fun d hd => h d (ht.1 d hd), ih (a :: s1) (a :: s2) ?_ ht.2⟩
    intro x hx
    simp only [List.mem_cons] at hx ⊢
    rcases hx with rfl | hx
    · exact Or.inl rfl
    · exact Or.inr (h x hx)

theorem initLoop_ok (g : Graph) (cfg : Cfg) (P : Mod → Prop) (L : List Mod) (S : List Mod) (st st' : InitState)
    (hi : IInv g cfg P st) (hP : ∀ x ∈ L, P x) (hS : ∀ x ∈ S, x ∈ st.inited) (ht : topoFrom g S L)
    (h : initLoop cfg L st = .ok st') :
    IInv g cfg P st' ∧ (∀ x ∈ L, x ∈ st'.inited) ∧ (∀ x ∈ st.inited, x ∈ st'.inited) := by
  induction L generalizing S st with
  | nil => simp only [initLoop] at h; cases h; exact ⟨hi, by simp, fun x hx => hx⟩
  | cons n rest ih =>
    simp only [topoFrom] at ht
    simp only [initLoop] at h
    have hrestP : ∀ x ∈ rest, P x := fun x hx => hP x (List.mem_cons_of_mem _ hx)
    -- the state after `n` has been marked initialised
    have key : ∀ (st1 : InitState), n ∉ st.inited → st1.inited = st.inited ++ [n] →
        st1.log = st.log ++ (if hasInitOf cfg n then [n] else []) → IInv g cfg P st1 := by
      intro st1 hn h1 h2
      refine ⟨?_, ?_, ?_, ?_⟩
      · rw [h1, List.nodup_append]
        refine ⟨hi.nodup, by simp, ?_⟩
        intro a ha b hb
        simp only [List.mem_singleton] at hb
        subst hb
        intro hab; subst hab; exact hn ha
      · rw [h1, topo_snoc]
        exact ⟨hi.topo, fun d hd => Or.inr (hS d (ht.1 d hd))⟩
      · rw [h1]
        intro x hx
        simp only [List.mem_append, List.mem_singleton] at hx
        rcases hx with hx | rfl
        · exact hi.sub x hx
        · exact hP _ (List.mem_cons_self ..)
      · rw [h2, h1, hi.log, List.filter_append]
        congr 1
        simp only [List.filter_cons, List.filter_nil]
    split at h
    · rename_i hin
      have hin' : n ∈ st.inited := by simpa using hin
      obtain ⟨h1, h2, h3⟩ := ih (n :: S) st hi hrestP (by
        intro x hx; simp only [List.mem_cons] at hx
        rcases hx with rfl | hx
        · exact hin'
        · exact hS x hx) ht.2 h
      refine ⟨h1, ?_, h3⟩
      intro x hx
      simp only [List.mem_cons] at hx
      rcases hx with rfl | hx
      · exact h3 _ hin'
      · exact h2 x hx
    · rename_i hnin
      have hnin' : n ∉ st.inited := by simpa using hnin
      split at h
      · rename_i hhi
        split at h
        · cases h
        · -- initFn ran without error
          have fin : ∀ st1 : InitState, st1.inited = st.inited ++ [n] → st1.log = st.log ++ [n] →
              initLoop cfg rest st1 = .ok st' →
              IInv g cfg P st' ∧ (∀ x ∈ n :: rest, x ∈ st'.inited) ∧ (∀ x ∈ st.inited, x ∈ st'.inited) := by
            intro st1 e1 e2 hl
            have hst1 := key st1 hnin' e1 (by rw [e2]; unfold hasInitOf; rw [if_pos hhi])
            obtain ⟨h1, h2, h3⟩ := ih (n :: S) st1 hst1 hrestP (by
              intro x hx; simp only [List.mem_cons] at hx
              rw [e1]
              rcases hx with rfl | hx
              · simp
              · simp [hS x hx]) ht.2 hl
            refine ⟨h1, ?_, fun x hx => h3 x (by rw [e1]; simp [hx])⟩
            intro x hx
            simp only [List.mem_cons] at hx
            rcases hx with rfl | hx
            · exact h3 _ (by rw [e1]; simp)
            · exact h2 x hx
          by_cases hsv : cfg.hasSvc.getD n false = true
          · simp only [hsv, if_true] at h
            exact fin _ rfl rfl h
          · simp only [hsv] at h
            exact fin _ rfl rfl h
      · rename_i hhi
        have hst1 := key { st with inited := st.inited ++ [n] } hnin' rfl (by
          unfold hasInitOf; rw [if_neg hhi]; simp)
        obtain ⟨h1, h2, h3⟩ := ih (n :: S) _ hst1 hrestP (by
          intro x hx; simp only [List.mem_cons] at hx
          show x ∈ _ ++ [n]
          rcases hx with rfl | hx
          · simp
          · simp [hS x hx]) ht.2 h
        refine ⟨h1, ?_, fun x hx => h3 x (by show x ∈ _ ++ [n]; simp [hx])⟩
        intro x hx
        simp only [List.mem_cons] at hx
        rcases hx with rfl | hx
        · exact h3 _ (by show x ∈ _ ++ [x]; simp)
        · exact h2 x hx

theorem initModule_ok (g : Graph) (cfg : Cfg) (r : Mod → Nat) (hr : Ranked g r) (fuel : Nat) (orders : Nat → List Mod)
    (name : Mod) (hfuel : r name < fuel) (hord : ∀ k x, Reach g name x → x ∈ orders k)
    (P : Mod → Prop) (hPn : P name) (hPr : ∀ x, Reach g name x → P x) (st st' : InitState) (hi : IInv g cfg P st)
    (h : initModule g cfg fuel orders name st = .ok st') :
    IInv g cfg P st' ∧ name ∈ st'.inited ∧ (∀ x, Reach g name x → x ∈ st'.inited) ∧ (∀ x ∈ st.inited, x ∈ st'.inited) := by
  unfold initModule at h
  split at h
  · cases h
  · obtain ⟨res, hres, _, hmem, htopo⟩ := orderedDeps_spec g r hr fuel name hfuel orders hord
    rw [hres] at h
    simp only at h
    have hL : topoFrom g [] (res ++ [name]) := by
      rw [topo_snoc]
      exact ⟨htopo, fun d hd => Or.inr ((hmem d).mpr (.direct hd))⟩
    obtain ⟨h1, h2, h3⟩ := initLoop_ok g cfg P (res ++ [name]) [] st st' hi (by
      intro x hx
      simp only [List.mem_append, List.mem_singleton] at hx
      rcases hx with hx | rfl
      · exact hPr x ((hmem x).mp hx)
      · exact hPn) (by simp) hL h
    exact ⟨h1, h2 name (by simp), fun x hx => h2 x (by simp [(hmem x).mpr hx]), h3⟩

theorem initModules_ok (g : Graph) (cfg : Cfg) (r : Mod → Nat) (hr : Ranked g r) (fuel : Nat)
    (orders : Nat → Nat → List Mod) (P : Mod → Prop) (ts : List Mod) (c : Nat) (st st' : InitState)
    (hfuel : ∀ t ∈ ts, r t < fuel) (hord : ∀ c k t x, t ∈ ts → Reach g t x → x ∈ orders c k)
    (hP : ∀ t ∈ ts, P t ∧ ∀ x, Reach g t x → P x) (hi : IInv g cfg P st)
    (h : initModules g cfg fuel orders c ts st = .ok st') :
    IInv g cfg P st' ∧ (∀ t ∈ ts, t ∈ st'.inited ∧ ∀ x, Reach g t x → x ∈ st'.inited) ∧ (∀ x ∈ st.inited, x ∈ st'.inited) := by
  induction ts generalizing c st with
  | nil => simp only [initModules] at h; cases h; exact ⟨hi, by simp, fun x hx => hx⟩
  | cons t rest ih =>
    simp only [initModules] at h
    split at h
    · cases h
    · rename_i st1 h1
      have ht := List.mem_cons_self (a := t) (l := rest)
      obtain ⟨a1, a2, a3, a4⟩ := initModule_ok g cfg r hr fuel (orders c) t (hfuel t ht)
        (fun k x hx => hord c k t x ht hx) P (hP t ht).1 (hP t ht).2 st st1 hi h1
      obtain ⟨b1, b2, b3⟩ := ih (c + 1) st1 (fun t' ht' => hfuel t' (List.mem_cons_of_mem _ ht'))
        (fun c k t' x ht' => hord c k t' x (List.mem_cons_of_mem _ ht'))
        (fun t' ht' => hP t' (List.mem_cons_of_mem _ ht')) a1 h
      refine ⟨b1, ?_, fun x hx => b3 x (a4 x hx)⟩
      intro t' ht'
      simp only [List.mem_cons] at ht'
      rcases ht' with rfl | ht'
      · exact ⟨b3 _ a2, fun x hx => b3 x (a3 x hx)⟩
      · exact b2 t' ht'

/-- **InitModuleServices**, success case, for every acyclic graph, every target list and every map
iteration order: the `initFn` call order is the sub-sequence (modules that have an `initFn`) of a
duplicate-free list `inited` that contains exactly the needed modules, each after all the modules it
depends on. -/
theorem init_spec (g : Graph) (cfg : Cfg) (r : Mod → Nat) (hr : Ranked g r) (fuel : Nat)
    (orders : Nat → Nat → List Mod) (targets : List Mod) (st : InitState)
    (hfuel : ∀ t ∈ targets, r t < fuel) (hord : ∀ c k t x, t ∈ targets → Reach g t x → x ∈ orders c k)
    (h : initModules g cfg fuel orders 0 targets {} = .ok st) :
    ∃ inited : List Mod, inited.Nodup ∧ topoFrom g [] inited ∧ (∀ x, x ∈ inited ↔ Needed g targets x) ∧
      st.log = inited.filter (hasInitOf cfg) := by
  obtain ⟨h1, h2, _⟩ := initModules_ok g cfg r hr fuel orders (Needed g targets) targets 0 {} st hfuel hord
    (fun t ht => ⟨Or.inl ht, fun x hx => Or.inr ⟨t, ht, hx⟩⟩)
    ⟨by simp, trivial, by simp, by simp⟩ h
  refine ⟨st.inited, h1.nodup, h1.topo, fun x => ⟨h1.sub x, ?_⟩, h1.log⟩
  rintro (hx | ⟨t, ht, hx⟩)
  · exact (h2 x hx).1
  · exact (h2 t ht).2 x hx

end PfC18
