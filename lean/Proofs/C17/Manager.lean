import Proofs.C17
/-!
C17: the manager. `vs : List SState` ("views") is the state of each service according to the
notifications handed to the manager so far; an event `changed i n` is *legal* when `n` is a legal edge
out of the current view of service `i` (this is what a service's listener delivers, by
`listener_sees_all_in_order` and `legal_edges`).
-/
namespace PfC17
open C17

/-! ### listeners of the manager (same shape as for a service) -/

structure MLsnOK (log : List MNotif) (z : Bool) (l : MLsn) : Prop where
  reg : l.regAt ≤ log.length
  live : l.removed = false → l.seen ++ l.queue = log.drop l.regAt ∧ l.closed = z
  gone : l.removed = true → l.seen <+: log.drop l.regAt

theorem mnotify_ok (log : List MNotif) (n : MNotif) (close : Bool) (cap : Nat)
    (hlen : log.length + 1 ≤ cap) (ls : List MLsn) (h : ∀ l ∈ ls, MLsnOK log false l) :
    (mnotify n close cap ls).2 = [] ∧ ∀ l ∈ (mnotify n close cap ls).1, MLsnOK (log ++ [n]) close l := by
  induction ls with
  | nil => simp [mnotify]
  | cons l ls ih =>
    have hl := h l (by simp)
    have ih' := ih (fun x hx => h x (by simp [hx]))
    simp only [mnotify]
    have key : (l.send n close cap).2 = [] ∧ MLsnOK (log ++ [n]) close (l.send n close cap).1 := by
      unfold MLsn.send
      by_cases hr : l.removed = true
      · rw [if_pos hr]
        refine ⟨rfl, ?_, ?_, ?_⟩
        · have := hl.reg; simp; omega
        · intro h0; rw [hr] at h0; cases h0
        · intro _
          have hp := hl.gone hr
          rw [List.drop_append_of_le_length hl.reg]
          exact List.IsPrefix.trans hp (List.prefix_append _ _)
      · have hr' : l.removed = false := by cases hx : l.removed <;> simp_all
        rw [if_neg hr]
        obtain ⟨hsq, hcl⟩ := hl.live hr'
        rw [if_neg (by simp [hcl])]
        have hq : l.queue.length < cap := by
          have : (l.seen ++ l.queue).length = (log.drop l.regAt).length := by rw [hsq]
          simp at this
          omega
        rw [if_neg (by omega)]
        refine ⟨rfl, ?_, ?_, ?_⟩
        · have := hl.reg; simp; omega
        · intro _
          refine ⟨?_, rfl⟩
          simp only
          rw [List.drop_append_of_le_length hl.reg, ← hsq, List.append_assoc]
        · intro h0; simp [hr'] at h0
    refine ⟨?_, ?_⟩
    · simp [key.1, ih'.1]
    · intro x hx
      simp only [List.mem_cons] at hx
      rcases hx with rfl | hx
      · exact key.2
      · exact ih'.2 x hx

theorem mdeliverTo_ok (log : List MNotif) (z : Bool) (id : Nat) (ls : List MLsn)
    (h : ∀ l ∈ ls, MLsnOK log z l) : ∀ l ∈ mdeliverTo id ls, MLsnOK log z l := by
  induction ls with
  | nil => simp [mdeliverTo]
  | cons l ls ih =>
    have hl := h l (by simp)
    have ih' := ih (fun x hx => h x (by simp [hx]))
    simp only [mdeliverTo]
    split
    · rename_i hc
      split
      · exact h
      · rename_i n q hq
        intro x hx
        simp only [List.mem_cons] at hx
        rcases hx with rfl | hx
        · have hr' : l.removed = false := by cases hx : l.removed <;> simp_all
          obtain ⟨hsq, hcl⟩ := hl.live hr'
          refine ⟨hl.reg, ?_, ?_⟩
          · intro _
            refine ⟨?_, hcl⟩
            simp only
            rw [← hsq, hq]; simp
          · intro h0; simp [hr'] at h0
        · exact h x (by simp [hx])
    · intro x hx
      simp only [List.mem_cons] at hx
      rcases hx with rfl | hx
      · exact hl
      · exact ih' x hx

theorem mremoveFrom_ok (log : List MNotif) (z : Bool) (id : Nat) (ls : List MLsn)
    (h : ∀ l ∈ ls, MLsnOK log z l) : ∀ l ∈ mremoveFrom id ls, MLsnOK log z l := by
  induction ls with
  | nil => simp [mremoveFrom]
  | cons l ls ih =>
    have hl := h l (by simp)
    have ih' := ih (fun x hx => h x (by simp [hx]))
    simp only [mremoveFrom]
    split
    · intro x hx
      simp only [List.mem_cons] at hx
      rcases hx with rfl | hx
      · refine ⟨hl.reg, ?_, ?_⟩
        · intro h0; simp at h0
        · intro _
          simp only
          by_cases hr : l.removed = true
          · exact hl.gone hr
          · have hr' : l.removed = false := by cases hx : l.removed <;> simp_all
            rw [← (hl.live hr').1]
            exact List.prefix_append _ _
      · exact h x (by simp [hx])
    · intro x hx
      simp only [List.mem_cons] at hx
      rcases hx with rfl | hx
      · exact hl
      · exact ih' x hx

/-! ### `eraseFirst` and counting -/

theorem length_eraseFirst (i : Nat) (l : List Nat) (h : i ∈ l) : (eraseFirst i l).length + 1 = l.length := by
  induction l with
  | nil => cases h
  | cons x xs ih =>
    simp only [eraseFirst]
    split
    · simp
    · rename_i hne
      simp only [List.mem_cons] at h
      rcases h with rfl | h
      · exact absurd rfl hne
      · simp [ih h]

theorem mem_eraseFirst_of_ne (i j : Nat) (l : List Nat) (hne : j ≠ i) (h : j ∈ l) : j ∈ eraseFirst i l := by
  induction l with
  | nil => cases h
  | cons x xs ih =>
    simp only [eraseFirst]
    simp only [List.mem_cons] at h
    split
    · rename_i hx
      rcases h with rfl | h
      · exact absurd hx hne
      · exact h
    · rcases h with rfl | h
      · simp
      · simp [ih h]

theorem count_terminal (vs : List SState) :
    vs.count .terminated + vs.count .failed = vs.length ↔ ∀ x ∈ vs, x.terminal = true := by
  have key : ∀ l : List SState, l.count .terminated + l.count .failed ≤ l.length ∧
      (l.count .terminated + l.count .failed = l.length ↔ ∀ x ∈ l, x.terminal = true) := by
    intro l
    induction l with
    | nil => simp
    | cons a as ih =>
      obtain ⟨h1, h2⟩ := ih
      rw [List.forall_mem_cons, ← h2]
      cases a <;> simp [List.count_cons, SState.terminal] <;> omega
  exact (key vs).2

theorem rank3_iff (vs : List SState) :
    (0 < vs.count .terminated + vs.count .failed ∨ 0 < vs.count .stopping) ↔ ∃ x ∈ vs, 3 ≤ x.rank := by
  constructor
  · intro h
    have : 0 < vs.count .terminated ∨ 0 < vs.count .failed ∨ 0 < vs.count .stopping := by omega
    rcases this with h | h | h
    · exact ⟨.terminated, List.count_pos_iff.mp h, by simp [SState.rank]⟩
    · exact ⟨.failed, List.count_pos_iff.mp h, by simp [SState.rank]⟩
    · exact ⟨.stopping, List.count_pos_iff.mp h, by simp [SState.rank]⟩
  · rintro ⟨x, hx, hr⟩
    cases x <;> simp [SState.rank] at hr
    · right; exact List.count_pos_iff.mpr hx
    · left; have := List.count_pos_iff.mpr hx; omega
    · left; have := List.count_pos_iff.mpr hx; omega

/-! ### legal notifications and what they do to the views -/

structure LegalEv (vs : List SState) (i : Nat) (n : Notif) : Prop where
  lt : i < vs.length
  frm : vs[i]? = some n.frm
  edge : legalEdge n.frm n.to = true

theorem set_mem_of_ne (vs : List SState) (i j : Nat) (to : SState) (hj : j < vs.length) (hne : j ≠ i) :
    vs[j] ∈ vs.set i to := by
  have h : j < (vs.set i to).length := by simpa using hj
  have := List.getElem_mem h
  rw [List.getElem_set] at this
  simpa [Ne.symm hne] using this

theorem frm_mem {vs : List SState} {i : Nat} {n : Notif} (h : LegalEv vs i n) : n.frm ∈ vs := by
  have := h.frm
  rw [List.getElem?_eq_some_iff] at this
  obtain ⟨hl, he⟩ := this
  rw [← he]; exact List.getElem_mem hl

theorem frm_get {vs : List SState} {i : Nat} {n : Notif} (h : LegalEv vs i n) : vs[i]'h.lt = n.frm := by
  have := h.frm
  rw [List.getElem?_eq_some_iff] at this
  exact this.2

theorem v_rank3_mono {vs : List SState} {i : Nat} {n : Notif} (h : LegalEv vs i n)
    (hk : ∃ x ∈ vs, 3 ≤ x.rank) : ∃ x ∈ vs.set i n.to, 3 ≤ x.rank := by
  obtain ⟨x, hx, hr⟩ := hk
  obtain ⟨j, hj, rfl⟩ := List.mem_iff_getElem.mp hx
  by_cases hji : j = i
  · subst hji
    refine ⟨n.to, List.mem_set h.lt _, ?_⟩
    have := legalEdge_rank _ _ h.edge
    rw [frm_get h] at hr
    omega
  · exact ⟨vs[j], set_mem_of_ne vs i j n.to hj hji, hr⟩

theorem v_allrun_after {vs : List SState} {i : Nat} {n : Notif} (h : LegalEv vs i n)
    (ha : ∀ x ∈ vs.set i n.to, x = .running) :
    ¬ (∀ x ∈ vs, x = .running) ∧ ¬ (∃ x ∈ vs, 3 ≤ x.rank) := by
  have hto : n.to = .running := ha _ (List.mem_set h.lt _)
  refine ⟨?_, ?_⟩
  · intro hall
    have hf := hall _ (frm_mem h)
    have := h.edge
    rw [hf, hto] at this
    simp [legalEdge] at this
  · intro hk
    obtain ⟨x, hx, hr⟩ := v_rank3_mono h hk
    rw [ha x hx] at hr
    simp [SState.rank] at hr

theorem v_allrun_before {vs : List SState} {i : Nat} {n : Notif} (h : LegalEv vs i n)
    (ha : ∀ x ∈ vs, x = .running) : ∃ x ∈ vs.set i n.to, 3 ≤ x.rank := by
  refine ⟨n.to, List.mem_set h.lt _, ?_⟩
  have hf := ha _ (frm_mem h)
  have := legalEdge_rank _ _ h.edge
  rw [hf] at this
  have h2 : SState.running.rank = 2 := rfl
  omega

theorem v_not_terminal {vs : List SState} {i : Nat} {n : Notif} (h : LegalEv vs i n) :
    ¬ (∀ x ∈ vs, x.terminal = true) := by
  intro hall
  have := hall _ (frm_mem h)
  rw [legalEdge_nonterminal _ _ h.edge] at this
  cases this

theorem v_count_failed {vs : List SState} {i : Nat} {n : Notif} (h : LegalEv vs i n) :
    (vs.set i n.to).count .failed = vs.count .failed + (if n.to = .failed then 1 else 0) := by
  rw [List.count_set h.lt, frm_get h]
  have hnf : n.frm ≠ .failed := by
    intro hf
    have := legalEdge_nonterminal _ _ h.edge
    rw [hf] at this; cases this
  simp [hnf]

theorem v_terminal_rank3 {vs : List SState} {i : Nat} {n : Notif} (h : LegalEv vs i n)
    (ht : ∀ x ∈ vs.set i n.to, x.terminal = true) : ∃ x ∈ vs.set i n.to, 3 ≤ x.rank := by
  refine ⟨n.to, List.mem_set h.lt _, ?_⟩
  have := ht _ (List.mem_set h.lt _)
  revert this
  cases n.to <;> simp [SState.terminal, SState.rank]

/-! ### `byState` agrees with the views -/

structure Cnt (m : Mgr) (vs : List SState) : Prop where
  n_pos : 0 < m.n
  len : vs.length = m.n
  mem : ∀ i (h : i < vs.length), i ∈ m.byState vs[i]
  cnt : ∀ st, (m.byState st).length = vs.count st

theorem edge_ne {a b : SState} (h : legalEdge a b = true) : a ≠ b := by
  intro hab; subst hab
  have := legalEdge_rank _ _ h
  omega

theorem cnt_move (m : Mgr) (vs : List SState) (i : Nat) (n : Notif) (hc : Cnt m vs) (hl : LegalEv vs i n) :
    Cnt (m.move i n.frm n.to) (vs.set i n.to) := by
  have hne := edge_ne hl.edge
  have hfi : i ∈ m.byState n.frm := by have := hc.mem i hl.lt; rwa [frm_get hl] at this
  refine ⟨hc.n_pos, by simpa [Mgr.move] using hc.len, ?_, ?_⟩
  · intro j hj
    have hj' : j < vs.length := by simpa using hj
    rw [List.getElem_set]
    simp only [Mgr.move]
    by_cases hij : i = j
    · subst hij
      simp
    · rw [if_neg hij]
      have hm := hc.mem j hj'
      by_cases h1 : vs[j] = n.to
      · rw [if_pos h1, if_neg (Ne.symm hne)]
        rw [h1] at hm
        simp [hm]
      · rw [if_neg h1]
        by_cases h2 : vs[j] = n.frm
        · rw [if_pos h2]
          rw [h2] at hm
          exact mem_eraseFirst_of_ne i j _ (Ne.symm hij) hm
        · rw [if_neg h2]; exact hm
  · intro st
    rw [List.count_set hl.lt, frm_get hl]
    simp only [Mgr.move]
    have hlen := length_eraseFirst i _ hfi
    have hcf := hc.cnt n.frm
    have hct := hc.cnt n.to
    have hcs := hc.cnt st
    by_cases h1 : st = n.to
    · subst h1
      rw [if_pos rfl, if_neg (Ne.symm hne)]
      simp [hne]
      omega
    · rw [if_neg h1]
      by_cases h2 : st = n.frm
      · subst h2
        rw [if_pos rfl]
        simp [Ne.symm h1]
        omega
      · rw [if_neg h2]
        simp [Ne.symm h1, Ne.symm h2]
        omega

/-! ### flags, latches and the notification log -/

structure Rest (m : Mgr) (vs : List SState) : Prop where
  stH : m.state = .healthy ↔ ∀ x ∈ vs, x = .running
  stZ : m.state = .stopped ↔ ∀ x ∈ vs, x.terminal = true
  fail : ∀ j (h : j < vs.length), m.log.count (.failure j) = if vs[j] = .failed then 1 else 0
  hcount : m.log.count .healthy ≤ 1
  hreach : m.log.count .healthy = 1 → (∀ x ∈ vs, x = .running) ∨ ∃ x ∈ vs, 3 ≤ x.rank
  hnow : (∀ x ∈ vs, x = .running) → m.log.count .healthy = 1
  hcl : m.healthyCloses = if m.healthyClosed then 1 else 0
  hrel : m.healthyClosed = true ↔ (m.log.count .healthy = 1 ∨ ∃ x ∈ vs, 3 ≤ x.rank)
  zc : m.stoppedCloses = m.log.count .stopped
  zle : m.log.count .stopped ≤ 1
  zrel : m.log.count .stopped = 1 ↔ ∀ x ∈ vs, x.terminal = true
  loglen : m.log.length = m.log.count .healthy + m.log.count .stopped + vs.count .failed
  bad : m.bad = []
  lsn : ∀ l ∈ m.lsns, MLsnOK m.log (decide (m.log.count .stopped = 1)) l

theorem notifyAll_lsn (m : Mgr) (x : MNotif) (close : Bool) (hb : m.bad = []) (hlen : m.log.length + 1 ≤ m.n + 2)
    (h : ∀ l ∈ m.lsns, MLsnOK m.log false l) :
    (m.notifyAll x close).bad = [] ∧ ∀ l ∈ (m.notifyAll x close).lsns, MLsnOK (m.log ++ [x]) close l := by
  have := mnotify_ok m.log x close (m.n + 2) hlen m.lsns h
  exact ⟨by simp [Mgr.notifyAll, hb, this.1], this.2⟩

/-- the running / done / stopping tests of `recompute` in terms of the views. -/
theorem cnt_tests (m : Mgr) (vs : List SState) (hc : Cnt m vs) :
    ((m.byState .running).length = m.n ↔ ∀ x ∈ vs, x = .running) ∧
    ((m.byState .terminated).length + (m.byState .failed).length = m.n ↔ ∀ x ∈ vs, x.terminal = true) ∧
    ((decide ((m.byState .terminated).length + (m.byState .failed).length > 0) ||
        decide ((m.byState .stopping).length > 0)) = true ↔ ∃ x ∈ vs, 3 ≤ x.rank) := by
  rw [hc.cnt, hc.cnt, hc.cnt, hc.cnt, ← hc.len]
  refine ⟨?_, count_terminal vs, ?_⟩
  · rw [List.count_eq_length]
    constructor
    · intro h x hx; exact (h x hx).symm
    · intro h x hx; exact (h x hx).symm
  · rw [← rank3_iff]; simp

/-- what holds between `reportFailure` and `recompute` (relative to the new views `vs`). -/
structure PreRest (m : Mgr) (vs : List SState) : Prop where
  fail : ∀ j (h : j < vs.length), m.log.count (.failure j) = if vs[j] = .failed then 1 else 0
  hcount : m.log.count .healthy ≤ 1
  hfresh : (∀ x ∈ vs, x = .running) → m.log.count .healthy = 0 ∧ m.healthyClosed = false
  hreach : m.log.count .healthy = 1 → ∃ x ∈ vs, 3 ≤ x.rank
  hcl : m.healthyCloses = if m.healthyClosed then 1 else 0
  hclosedWhy : m.healthyClosed = true → (m.log.count .healthy = 1 ∨ ∃ x ∈ vs, 3 ≤ x.rank)
  hclosedH : m.log.count .healthy = 1 → m.healthyClosed = true
  z0 : m.log.count .stopped = 0
  zc0 : m.stoppedCloses = 0
  loglen : m.log.length = m.log.count .healthy + vs.count .failed
  bad : m.bad = []
  lsn : ∀ l ∈ m.lsns, MLsnOK m.log false l

theorem rest_recompute (m : Mgr) (vs : List SState) (hc : Cnt m vs) (hp : PreRest m vs) : Rest m.recompute vs := by
  obtain ⟨t1, t2, t3⟩ := cnt_tests m vs hc
  have hcf : vs.count .failed ≤ m.n := by rw [← hc.len]; exact List.count_le_length
  have hne : vs ≠ [] := by intro h; have := hc.len; rw [h] at this; have := hc.n_pos; simp at *; omega
  obtain ⟨x0, hx0⟩ := List.exists_mem_of_ne_nil vs hne
  have hH := hp.hcount
  unfold Mgr.recompute
  simp only
  split
  · -- all running: Healthy
    rename_i hA
    have hA' := t1.mp hA
    obtain ⟨hH0, hcl0⟩ := hp.hfresh hA'
    have hnT : ¬ ∀ x ∈ vs, x.terminal = true := by
      intro h; have := h x0 hx0; rw [hA' x0 hx0] at this; cases this
    have hl := mnotify_ok m.log .healthy false (m.n + 2) (by have := hp.loglen; omega) m.lsns hp.lsn
    refine ⟨?_, ?_, ?_, ?_, ?_, ?_, ?_, ?_, ?_, ?_, ?_, ?_, by simp [Mgr.notifyAll, hp.bad, hl.1], ?_⟩
    · exact ⟨fun _ => hA', fun _ => by simp [Mgr.notifyAll]⟩
    · exact ⟨fun h => by simp [Mgr.notifyAll] at h, fun h => absurd h hnT⟩
    · intro j hj; simp [Mgr.notifyAll, List.count_append]; exact hp.fail j hj
    · simp [Mgr.notifyAll, List.count_append, hH0]
    · intro _; exact Or.inl hA'
    · intro _; simp [Mgr.notifyAll, List.count_append, hH0]
    · have := hp.hcl; rw [hcl0] at this; simp [Mgr.notifyAll, this]
    · simp [Mgr.notifyAll, List.count_append, hH0]
    · simp [Mgr.notifyAll, List.count_append, hp.zc0, hp.z0]
    · simp [Mgr.notifyAll, List.count_append, hp.z0]
    · exact ⟨fun h => by simp [Mgr.notifyAll, List.count_append, hp.z0] at h, fun h => absurd h hnT⟩
    · simp [Mgr.notifyAll, List.count_append, hp.z0, hp.loglen, hH0]; omega
    · simpa [Mgr.notifyAll, List.count_append, hp.z0] using hl.2
  · rename_i hA
    have hA' : ¬ ∀ x ∈ vs, x = .running := fun h => hA (t1.mpr h)
    split
    · -- all terminal: Stopped
      rename_i hT
      have hT' := t2.mp hT
      have hK : ∃ x ∈ vs, 3 ≤ x.rank := by
        refine ⟨x0, hx0, ?_⟩
        have := hT' x0 hx0
        revert this; cases x0 <;> simp [SState.terminal, SState.rank]
      have hl := mnotify_ok m.log .stopped true (m.n + 2) (by have := hp.loglen; omega) m.lsns hp.lsn
      refine ⟨?_, ?_, ?_, ?_, ?_, ?_, ?_, ?_, ?_, ?_, ?_, ?_, by simp [Mgr.notifyAll, hp.bad, hl.1], ?_⟩
      · exact ⟨fun h => by simp [Mgr.notifyAll] at h, fun h => absurd h hA'⟩
      · exact ⟨fun _ => hT', fun _ => by simp [Mgr.notifyAll]⟩
      · intro j hj; simp [Mgr.notifyAll, List.count_append]; exact hp.fail j hj
      · simpa [Mgr.notifyAll, List.count_append] using hH
      · intro _; exact Or.inr hK
      · intro h; exact absurd h hA'
      · have := hp.hcl
        cases hcc : m.healthyClosed <;> simp [Mgr.notifyAll, hcc] at this ⊢ <;> omega
      · exact ⟨fun _ => Or.inr hK, fun _ => by simp [Mgr.notifyAll]⟩
      · simp [Mgr.notifyAll, List.count_append, hp.zc0, hp.z0]
      · simp [Mgr.notifyAll, List.count_append, hp.z0]
      · exact ⟨fun _ => hT', fun _ => by simp [Mgr.notifyAll, List.count_append, hp.z0]⟩
      · simp [Mgr.notifyAll, List.count_append, hp.z0, hp.loglen]; omega
      · simpa [Mgr.notifyAll, List.count_append, hp.z0] using hl.2
    · -- neither
      rename_i hT
      have hT' : ¬ ∀ x ∈ vs, x.terminal = true := fun h => hT (t2.mpr h)
      refine ⟨?_, ?_, hp.fail, hH, ?_, ?_, ?_, ?_, ?_, ?_, ?_, ?_, hp.bad, ?_⟩
      · exact ⟨fun h => by simp at h, fun h => absurd h hA'⟩
      · exact ⟨fun h => by simp at h, fun h => absurd h hT'⟩
      · intro h; exact Or.inr (hp.hreach h)
      · intro h; exact absurd h hA'
      · have := hp.hcl
        simp only
        cases hcc : m.healthyClosed <;> simp [hcc] at this ⊢
        · by_cases hK : ∃ x ∈ vs, 3 ≤ x.rank
          · have := t3.mpr hK; simp at this; simp [this]; omega
          · have hk2 : ¬ _ := fun h => hK (t3.mp h)
            simp at hk2; simp [hk2]; omega
        · omega
      · simp only [Bool.or_eq_true]
        constructor
        · rintro (h | h)
          · rcases hp.hclosedWhy h with h | h
            · exact Or.inl h
            · exact Or.inr h
          · exact Or.inr (t3.mp (by simpa using h))
        · rintro (h | h)
          · exact Or.inl (hp.hclosedH h)
          · have := t3.mpr h; simp at this; exact Or.inr (by simpa using this)
      · simp [hp.zc0, hp.z0]
      · simp [hp.z0]
      · exact ⟨fun h => by simp [hp.z0] at h, fun h => absurd h hT'⟩
      · simp [hp.z0, hp.loglen]
      · simpa [hp.z0] using hp.lsn

theorem pre_of_rest (m : Mgr) (vs : List SState) (i : Nat) (n : Notif) (hc : Cnt m vs) (hr : Rest m vs)
    (hl : LegalEv vs i n) : PreRest ((m.move i n.frm n.to).reportFailure i n.to) (vs.set i n.to) := by
  have hnT := v_not_terminal hl
  have hz0 : m.log.count .stopped = 0 := by
    have h1 := hr.zle
    have h2 : ¬ m.log.count .stopped = 1 := fun h => hnT (hr.zrel.mp h)
    omega
  have hcf := v_count_failed hl
  have hcfn : (vs.set i n.to).count .failed ≤ m.n := by
    have : (vs.set i n.to).length = m.n := by simpa using hc.len
    rw [← this]; exact List.count_le_length
  have hlen := hr.loglen
  have hH := hr.hcount
  have hlsn : ∀ l ∈ m.lsns, MLsnOK m.log false l := by simpa [hz0] using hr.lsn
  have hfresh : (∀ x ∈ vs.set i n.to, x = .running) → m.log.count .healthy = 0 ∧ m.healthyClosed = false := by
    intro hA
    obtain ⟨h1, h2⟩ := v_allrun_after hl hA
    have hh : ¬ m.log.count .healthy = 1 := by
      intro h; rcases hr.hreach h with h | h
      · exact h1 h
      · exact h2 h
    refine ⟨by omega, ?_⟩
    cases hcc : m.healthyClosed
    · rfl
    · rcases hr.hrel.mp hcc with h | h
      · exact absurd h hh
      · exact absurd h h2
  have hreach : m.log.count .healthy = 1 → ∃ x ∈ vs.set i n.to, 3 ≤ x.rank := by
    intro h; rcases hr.hreach h with h | h
    · exact v_allrun_before hl h
    · exact v_rank3_mono hl h
  have hwhy : m.healthyClosed = true → (m.log.count .healthy = 1 ∨ ∃ x ∈ vs.set i n.to, 3 ≤ x.rank) := by
    intro h; rcases hr.hrel.mp h with h | h
    · exact Or.inl h
    · exact Or.inr (v_rank3_mono hl h)
  have hfail : ∀ j (h : j < (vs.set i n.to).length),
      m.log.count (.failure j) + (if n.to = .failed ∧ j = i then 1 else 0) = if (vs.set i n.to)[j] = .failed then 1 else 0 := by
    intro j hj
    have hj' : j < vs.length := by simpa using hj
    rw [List.getElem_set, hr.fail j hj']
    by_cases hji : i = j
    · subst hji
      have hnf : ¬ vs[i] = .failed := by
        rw [frm_get hl]; intro hf
        have := legalEdge_nonterminal _ _ hl.edge
        rw [hf] at this; cases this
      simp [hnf]
    · have : ¬ j = i := fun h => hji h.symm
      simp [hji, this]
  unfold Mgr.reportFailure
  split
  · rename_i hto
    have hn := mnotify_ok m.log (.failure i) false (m.n + 2) (by omega) m.lsns hlsn
    rw [if_pos hto] at hcf
    refine ⟨?_, ?_, ?_, ?_, ?_, ?_, ?_, ?_, ?_, ?_, ?_, ?_⟩
    · intro j hj
      have := hfail j hj
      simp only [eq_true hto, true_and] at this
      rw [← this]
      simp [Mgr.notifyAll, Mgr.move, List.count_append]
      by_cases hji : j = i
      · simp [hji]
      · have : ¬ i = j := fun h => hji h.symm
        simp [hji, this, List.count_cons]
    · simpa [Mgr.notifyAll, Mgr.move, List.count_append] using hH
    · simpa [Mgr.notifyAll, Mgr.move, List.count_append] using hfresh
    · simpa [Mgr.notifyAll, Mgr.move, List.count_append] using hreach
    · simpa [Mgr.notifyAll, Mgr.move] using hr.hcl
    · simpa [Mgr.notifyAll, Mgr.move, List.count_append] using hwhy
    · simpa [Mgr.notifyAll, Mgr.move, List.count_append] using fun h => hr.hrel.mpr (Or.inl h)
    · simpa [Mgr.notifyAll, Mgr.move, List.count_append] using hz0
    · simpa [Mgr.notifyAll, Mgr.move, hz0] using hr.zc
    · simp [Mgr.notifyAll, Mgr.move, List.count_append]; omega
    · simp [Mgr.notifyAll, Mgr.move, hr.bad, hn.1]
    · simpa [Mgr.notifyAll, Mgr.move] using hn.2
  · rename_i hto
    rw [if_neg hto] at hcf
    refine ⟨?_, ?_, ?_, ?_, ?_, ?_, ?_, ?_, ?_, ?_, ?_, ?_⟩
    · intro j hj
      have := hfail j hj
      simp only [eq_false hto, false_and, if_false, Nat.add_zero] at this
      simpa [Mgr.move] using this
    · simpa [Mgr.move] using hH
    · simpa [Mgr.move] using hfresh
    · simpa [Mgr.move] using hreach
    · simpa [Mgr.move] using hr.hcl
    · simpa [Mgr.move] using hwhy
    · simpa [Mgr.move] using fun h => hr.hrel.mpr (Or.inl h)
    · simpa [Mgr.move] using hz0
    · simpa [Mgr.move, hz0] using hr.zc
    · simp [Mgr.move]; omega
    · simp [Mgr.move, hr.bad]
    · simpa [Mgr.move] using hlsn

/-- the whole manager invariant. -/
structure MInv (m : Mgr) (vs : List SState) : Prop where
  cnt : Cnt m vs
  rest : Rest m vs

theorem minv_changed (m : Mgr) (vs : List SState) (i : Nat) (n : Notif) (h : MInv m vs) (hl : LegalEv vs i n) :
    MInv (m.changed i n.frm n.to) (vs.set i n.to) := by
  have hc1 := cnt_move m vs i n h.cnt hl
  have hc2 : Cnt ((m.move i n.frm n.to).reportFailure i n.to) (vs.set i n.to) := by
    unfold Mgr.reportFailure
    split
    · exact ⟨hc1.n_pos, hc1.len, hc1.mem, hc1.cnt⟩
    · exact hc1
  have hp := pre_of_rest m vs i n h.cnt h.rest hl
  refine ⟨?_, rest_recompute _ _ hc2 hp⟩
  unfold Mgr.changed Mgr.recompute
  simp only
  split
  · exact ⟨hc2.n_pos, hc2.len, hc2.mem, hc2.cnt⟩
  · split
    · exact ⟨hc2.n_pos, hc2.len, hc2.mem, hc2.cnt⟩
    · exact ⟨hc2.n_pos, hc2.len, hc2.mem, hc2.cnt⟩

theorem minv_init (n : Nat) (hn : 0 < n) : MInv (Mgr.init n) (List.replicate n .new) := by
  have hne : ¬ (∀ x ∈ List.replicate n SState.new, x = SState.running) := by
    intro h; have := h .new (by simp; omega); cases this
  have hnt : ¬ (∀ x ∈ List.replicate n SState.new, x.terminal = true) := by
    intro h; have := h .new (by simp; omega); cases this
  have hnk : ¬ (∃ x ∈ List.replicate n SState.new, 3 ≤ x.rank) := by
    rintro ⟨x, hx, hr⟩; simp at hx; rw [hx.2] at hr; simp [SState.rank] at hr
  refine ⟨⟨hn, by simp [Mgr.init], ?_, ?_⟩, ⟨?_, ?_, ?_, ?_, ?_, ?_, ?_, ?_, ?_, ?_, ?_, ?_, ?_, ?_⟩⟩
  · intro i h
    simp at h
    simp [Mgr.init, h]
  · intro st
    cases st <;> simp [Mgr.init, List.count_replicate]
  · exact ⟨fun h => by simp [Mgr.init] at h, fun h => absurd h hne⟩
  · exact ⟨fun h => by simp [Mgr.init] at h, fun h => absurd h hnt⟩
  · intro j h; simp [Mgr.init]
  · simp [Mgr.init]
  · intro h; simp [Mgr.init] at h
  · intro h; exact absurd h hne
  · simp [Mgr.init]
  · exact ⟨fun h => by simp [Mgr.init] at h, fun h => by
      rcases h with h | h
      · simp [Mgr.init] at h
      · exact absurd h hnk⟩
  · simp [Mgr.init]
  · simp [Mgr.init]
  · exact ⟨fun h => by simp [Mgr.init] at h, fun h => absurd h hnt⟩
  · simp [Mgr.init, List.count_replicate]
  · simp [Mgr.init]
  · intro l hl; simp [Mgr.init] at hl

/-- the views after a list of events (only `changed` moves them). -/
def viewsAfter : List SState → List MEv → List SState
  | vs, [] => vs
  | vs, .changed i n :: es => viewsAfter (vs.set i n.to) es
  | vs, _ :: es => viewsAfter vs es

/-- every `changed i n` in the list is a legal edge out of the then-current view of service `i`. -/
def LegalFeed : List SState → List MEv → Prop
  | _, [] => True
  | vs, .changed i n :: es => LegalEv vs i n ∧ LegalFeed (vs.set i n.to) es
  | vs, _ :: es => LegalFeed vs es

theorem viewsAfter_length (vs : List SState) (evs : List MEv) : (viewsAfter vs evs).length = vs.length := by
  induction evs generalizing vs with
  | nil => rfl
  | cons e es ih => cases e <;> simp [viewsAfter, ih]

theorem minv_lsns (m m' : Mgr) (vs : List SState) (h : MInv m vs)
    (h1 : m'.n = m.n) (h2 : m'.byState = m.byState) (h3 : m'.state = m.state) (h4 : m'.healthyClosed = m.healthyClosed)
    (h5 : m'.healthyCloses = m.healthyCloses) (h6 : m'.stoppedCloses = m.stoppedCloses) (h7 : m'.log = m.log)
    (h8 : m'.bad = m.bad) (h9 : ∀ l ∈ m'.lsns, MLsnOK m.log (decide (m.log.count .stopped = 1)) l) : MInv m' vs := by
  obtain ⟨hc, hr⟩ := h
  refine ⟨⟨by rw [h1]; exact hc.n_pos, by rw [h1]; exact hc.len, by rw [h2]; exact hc.mem, by rw [h2]; exact hc.cnt⟩, ?_⟩
  refine ⟨by rw [h3]; exact hr.stH, by rw [h3]; exact hr.stZ, by rw [h7]; exact hr.fail, by rw [h7]; exact hr.hcount,
    by rw [h7]; exact hr.hreach, by rw [h7]; exact hr.hnow, by rw [h5, h4]; exact hr.hcl, by rw [h4, h7]; exact hr.hrel,
    by rw [h6, h7]; exact hr.zc, by rw [h7]; exact hr.zle, by rw [h7]; exact hr.zrel, by rw [h7]; exact hr.loglen,
    by rw [h8]; exact hr.bad, by rw [h7]; exact h9⟩

theorem minv_step (m : Mgr) (vs : List SState) (e : MEv) (h : MInv m vs) (hl : LegalFeed vs [e]) :
    MInv (m.step e) (viewsAfter vs [e]) := by
  cases e with
  | changed i n => exact minv_changed m vs i n h hl.1
  | addListener =>
    simp only [Mgr.step, viewsAfter]
    split
    · exact minv_lsns m _ vs h rfl rfl rfl rfl rfl rfl rfl rfl h.rest.lsn
    · rename_i hns
      refine minv_lsns m _ vs h rfl rfl rfl rfl rfl rfl rfl rfl ?_
      intro l hl'
      simp only [List.mem_append, List.mem_singleton] at hl'
      rcases hl' with hl' | rfl
      · exact h.rest.lsn l hl'
      · have hz : ¬ m.log.count .stopped = 1 := fun hz => hns (h.rest.stZ.mpr (h.rest.zrel.mp hz))
        refine ⟨by simp, ?_, ?_⟩
        · intro _; simp [hz]
        · intro h0; simp at h0
  | removeListener id =>
    exact minv_lsns m _ vs h rfl rfl rfl rfl rfl rfl rfl rfl (mremoveFrom_ok _ _ id _ h.rest.lsn)
  | deliver id =>
    exact minv_lsns m _ vs h rfl rfl rfl rfl rfl rfl rfl rfl (mdeliverTo_ok _ _ id _ h.rest.lsn)

theorem minv_run (m : Mgr) (vs : List SState) (evs : List MEv) (h : MInv m vs) (hl : LegalFeed vs evs) :
    MInv (m.run evs) (viewsAfter vs evs) := by
  induction evs generalizing m vs with
  | nil => exact h
  | cons e es ih =>
    cases e with
    | changed i n =>
      exact ih _ _ (minv_step m vs (.changed i n) h ⟨hl.1, trivial⟩) hl.2
    | addListener => exact ih _ _ (minv_step m vs .addListener h trivial) hl
    | removeListener id => exact ih _ _ (minv_step m vs (.removeListener id) h trivial) hl
    | deliver id => exact ih _ _ (minv_step m vs (.deliver id) h trivial) hl

theorem latches_of_minv (m : Mgr) (vs : List SState) (hi : MInv m vs) :
    m.healthyCloses ≤ 1 ∧ m.stoppedCloses ≤ 1 ∧ m.log.count .healthy ≤ 1 ∧ m.log.count .stopped ≤ 1 ∧
    (m.awaitHealthy ≠ none ↔ (m.log.count .healthy = 1 ∨ ∃ x ∈ vs, 3 ≤ x.rank)) ∧
    (m.awaitStopped ≠ none ↔ ∀ x ∈ vs, x.terminal = true) := by
  have h := hi.rest
  have h1 := h.hcl
  have h2 := h.zc
  have h3 := h.zle
  refine ⟨by rw [h1]; split <;> omega, by omega, h.hcount, h3, ?_, ?_⟩
  · rw [← h.hrel]
    unfold Mgr.awaitHealthy
    cases hcc : m.healthyClosed <;> simp [hcc] at h1 <;> simp [h1]
  · rw [← h.zrel]
    unfold Mgr.awaitStopped
    constructor
    · intro hne; by_cases hz : m.stoppedCloses = 0
      · simp [hz] at hne
      · omega
    · intro hz
      have : m.stoppedCloses ≠ 0 := by omega
      simp [this]

theorem listeners_of_minv (m : Mgr) (vs : List SState) (hi : MInv m vs) :
    m.bad = [] ∧ m.log.length ≤ vs.length + 2 ∧
    ∀ l ∈ m.lsns, (l.removed = false → l.seen ++ l.queue = m.log.drop l.regAt) ∧
                  (l.removed = true → l.seen <+: m.log.drop l.regAt) := by
  have h := hi.rest
  refine ⟨h.bad, ?_, fun l hl' => ⟨fun hr => ((h.lsn l hl').live hr).1, (h.lsn l hl').gone⟩⟩
  have h1 := h.loglen
  have h2 := h.hcount
  have h3 := h.zle
  have h4 : vs.count SState.failed ≤ vs.length := List.count_le_length
  omega

end PfC17
