import Model.C17
/-! C17: failure watcher (unbuffered channel, Close waiting for blocked listener goroutines). -/
namespace PfC17
open C17

structure FWInv (w : FW) : Prop where
  acct : w.forwarded ++ w.blocked = w.entered
  closes : w.chanCloses = if w.closed then 1 else 0
  excl : ¬ (w.closed = true ∧ w.closing = true)
  drained : w.closed = true → w.blocked = []
  closingBlocked : w.closing = true → w.blocked ≠ []

theorem fwinv_init : FWInv {} := ⟨rfl, rfl, by simp, fun _ => rfl, by simp⟩

theorem fwinv_step (w : FW) (e : FEv) (h : FWInv w) : FWInv (w.step e) := by
  obtain ⟨h1, h2, h3, h4, h5⟩ := h
  cases e with
  | watch =>
    simp only [FW.step]
    split
    · exact ⟨h1, h2, h3, h4, h5⟩
    · split <;> exact ⟨h1, h2, h3, h4, h5⟩
  | failure i e =>
    simp only [FW.step]
    split
    · exact ⟨h1, h2, h3, h4, h5⟩
    · rename_i hc
      exact ⟨by simp [← h1, List.append_assoc], h2, h3, fun hcl => absurd hcl hc, fun _ => (by simp)⟩
  | recv =>
    simp only [FW.step]
    split
    · exact ⟨h1, h2, h3, h4, h5⟩
    · rename_i x rest hb
      have hnc : w.closed = false := by
        cases hcl : w.closed
        · rfl
        · have := h4 hcl; rw [this] at hb; cases hb
      have hacc : (w.forwarded ++ [x]) ++ rest = w.entered := by rw [← h1, hb]; simp
      split
      · rename_i hfin
        simp only [Bool.and_eq_true, List.isEmpty_iff] at hfin
        refine ⟨by simpa [FW.finishClose, hfin.2] using hacc, by simp [FW.finishClose, h2, hnc], by simp [FW.finishClose],
          fun _ => (by simp [FW.finishClose, hfin.2]), by simp [FW.finishClose]⟩
      · rename_i hfin
        refine ⟨hacc, h2, h3, fun hcl => (by rw [hnc] at hcl; cases hcl), ?_⟩
        intro hcg
        show rest ≠ []
        intro hr
        apply hfin
        show (w.closing && rest.isEmpty) = true
        simp [show w.closing = true from hcg, hr]
  | close =>
    simp only [FW.step]
    split
    · exact ⟨h1, h2, h3, h4, h5⟩
    · rename_i hc
      have hnc : w.closed = false := by cases hcl : w.closed <;> simp_all
      split
      · exact ⟨h1, h2, h3, h4, h5⟩
      · split
        · rename_i hb
          have hbe : w.blocked = [] := by simpa using hb
          exact ⟨by simpa [FW.finishClose] using h1, by simp [FW.finishClose, h2, hnc], by simp [FW.finishClose],
            fun _ => (by simp [FW.finishClose, hbe]), by simp [FW.finishClose]⟩
        · rename_i hb
          exact ⟨h1, h2, by simp [hnc], h4, fun _ => (by simpa using hb)⟩

theorem fwinv_run (evs : List FEv) : FWInv (({} : FW).run evs) := by
  suffices h : ∀ w, FWInv w → FWInv (w.run evs) from h _ fwinv_init
  induction evs with
  | nil => intro w h; exact h
  | cons e es ih => intro w h; exact ih _ (fwinv_step w e h)

theorem recv_cons (w : FW) (x : Nat × ErrId) (rest : List (Nat × ErrId)) (hb : w.blocked = x :: rest) :
    (w.step .recv).blocked = rest ∧ (w.step .recv).entered = w.entered ∧
    (w.step .recv).forwarded = w.forwarded ++ [x] ∧
    (w.closing = true → (rest = [] → (w.step .recv).closed = true ∧ (w.step .recv).closing = false) ∧
                        (rest ≠ [] → (w.step .recv).closing = true)) := by
  simp only [FW.step, hb]
  split
  · rename_i hfin
    simp only [Bool.and_eq_true, List.isEmpty_iff] at hfin
    refine ⟨by simp [FW.finishClose], by simp [FW.finishClose], by simp [FW.finishClose], fun _ => ⟨fun _ => (by simp [FW.finishClose]), fun h => absurd hfin.2 h⟩⟩
  · rename_i hfin
    refine ⟨rfl, rfl, rfl, fun hc => ⟨fun hr => ?_, fun _ => hc⟩⟩
    exact absurd (by simp [hc, hr]) hfin

/-- reading everything that is blocked lets a pending Close() complete. -/
theorem drain_completes (n : Nat) (w : FW) (h : FWInv w) (hn : w.blocked.length = n) :
    (w.run (List.replicate n .recv)).blocked = [] ∧ (w.run (List.replicate n .recv)).forwarded = w.entered ∧
    (w.closing = true → (w.run (List.replicate n .recv)).closed = true ∧ (w.run (List.replicate n .recv)).closing = false) := by
  induction n generalizing w with
  | zero =>
    have hb : w.blocked = [] := List.length_eq_zero_iff.mp hn
    exact ⟨hb, by rw [← h.acct, hb]; simp [FW.run], fun hc => absurd hb (h.closingBlocked hc)⟩
  | succ k ih =>
    cases hb : w.blocked with
    | nil => rw [hb] at hn; cases hn
    | cons x rest =>
      obtain ⟨r1, r2, _, r4⟩ := recv_cons w x rest hb
      have hk : (w.step .recv).blocked.length = k := by rw [r1]; rw [hb] at hn; simpa using hn
      obtain ⟨a1, a2, a3⟩ := ih (w.step .recv) (fwinv_step w .recv h) hk
      have hrun : w.run (List.replicate (k + 1) .recv) = (w.step .recv).run (List.replicate k .recv) := by
        simp [List.replicate_succ, FW.run]
      rw [hrun]
      refine ⟨a1, by rw [a2, r2], fun hc => ?_⟩
      by_cases hr : rest = []
      · -- the Close completed at this very receive, and a closed watcher stays closed
        obtain ⟨c1, c2⟩ := (r4 hc).1 hr
        have hk0 : k = 0 := by rw [r1, hr] at hk; simpa using hk.symm
        subst hk0
        exact ⟨by simpa [FW.run] using c1, by simpa [FW.run] using c2⟩
      · exact a3 ((r4 hc).2 hr)

end PfC17
