import Model.C17
/-! C17: failure watcher. -/
namespace PfC17
open C17

/-- the failures of watched services that happen before the first `Close`. -/
def failuresBeforeClose : List FEv → List (Nat × ErrId)
  | [] => []
  | .failure i e :: es => (i, e) :: failuresBeforeClose es
  | .close :: _ => []
  | .watch :: es => failuresBeforeClose es

theorem fw_closed_stays (w : FW) (evs : List FEv) (h : w.closed = true) :
    (w.run evs).closed = true ∧ (w.run evs).forwarded = w.forwarded ∧ (w.run evs).chanCloses = w.chanCloses := by
  induction evs generalizing w with
  | nil => exact ⟨h, rfl, rfl⟩
  | cons e es ih =>
    cases e with
    | watch =>
      have := ih (w.step .watch) (by simp [FW.step, h])
      simpa [FW.run, FW.step, h] using this
    | failure i e =>
      have := ih (w.step (.failure i e)) (by simp [FW.step, h])
      simpa [FW.run, FW.step, h] using this
    | close =>
      have := ih (w.step .close) (by simp [FW.step, h])
      simpa [FW.run, FW.step, h] using this

theorem fw_forwarded (w : FW) (evs : List FEv) (h : w.closed = false) :
    (w.run evs).forwarded = w.forwarded ++ failuresBeforeClose evs := by
  induction evs generalizing w with
  | nil => simp [FW.run, failuresBeforeClose]
  | cons e es ih =>
    cases e with
    | watch =>
      have := ih (w.step .watch) (by simp [FW.step, h])
      simpa [FW.run, FW.step, h, failuresBeforeClose] using this
    | failure i e =>
      have := ih (w.step (.failure i e)) (by simp [FW.step, h])
      simpa [FW.run, FW.step, h, failuresBeforeClose] using this
    | close =>
      have := (fw_closed_stays (w.step .close) es (by simp [FW.step, h])).2.1
      simpa [FW.run, FW.step, h, failuresBeforeClose] using this

theorem fw_chan_closes (w : FW) (evs : List FEv) (h : w.chanCloses = if w.closed then 1 else 0) :
    (w.run evs).chanCloses = if (w.run evs).closed then 1 else 0 := by
  induction evs generalizing w with
  | nil => exact h
  | cons e es ih =>
    apply ih
    cases e <;> cases hc : w.closed <;> simp [FW.step, hc] at h ⊢ <;> omega

end PfC17
