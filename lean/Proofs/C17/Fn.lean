import Proofs.C17
/-! C17: the invariant about the three functions, errors and the failure cause. -/
namespace PfC17
open C17

def Call.kind : Call → Nat
  | .start _ => 0 | .run _ => 1 | .stop _ _ => 2

/-- strict upper bound of the kinds of function that can have been invoked when `main()` is at `pc`. -/
def maxKind : PC → Nat
  | .idle | .atStart => 0
  | .inStart | .gotStart _ | .toRunning | .atRun => 1
  | .inRun | .toStopping _ _ | .preCancel _ | .atStop _ => 2
  | .inStop _ | .toEnd _ | .done => 3

/-- starting has not (yet) succeeded at these program counters … -/
def preStart : PC → Bool
  | .idle | .atStart | .inStart | .gotStart (some _) => true
  | _ => false
/-- … and has succeeded at these (`done` can be either). -/
def postStart : PC → Bool
  | .gotStart none | .toRunning | .atRun | .inRun | .toStopping _ _ | .preCancel _ | .atStop _ | .inStop _ | .toEnd _ => true
  | _ => false
def afterStopCall : PC → Bool
  | .inStop _ | .toEnd _ => true
  | _ => false
def ctxMustBeCancelled : PC → Bool
  | .atStop _ | .inStop _ | .toEnd _ => true
  | _ => false

def stopRan (s : Svc) : Prop := ∃ c ∈ s.calls, Call.kind c = 2

def errsOK (pc : PC) (st : SState) (errs : List ErrId) (failure : Option ErrId) : Prop :=
  match pc with
  | .idle | .atStart | .inStart | .toRunning | .atRun | .inRun => errs = [] ∧ failure = none
  | .gotStart r => errs = r.toList ∧ failure = none
  | .toStopping _ f | .preCancel f | .atStop f | .inStop f => errs = f.toList ∧ failure = none
  | .toEnd f => errs.head? = f ∧ failure = none
  | .done => failure = errs.head? ∧ (st = .failed ↔ errs ≠ [])

structure Fn (s : Svc) : Prop where
  order : (s.calls.map Call.kind).Pairwise (· < ·)
  bound : ∀ c ∈ s.calls, Call.kind c < maxKind s.pc
  cfgStart : ∀ c ∈ s.calls, Call.kind c = 0 → s.hasStart = true
  cfgRun : ∀ c ∈ s.calls, Call.kind c = 1 → s.hasRun = true
  cfgStop : ∀ c ∈ s.calls, Call.kind c = 2 → s.hasStop = true
  lo : preStart s.pc = true → s.startOk = false
  hi : postStart s.pc = true → s.startOk = true
  stopImp : stopRan s → s.startOk = true
  ran : afterStopCall s.pc = true → s.hasStop = true → stopRan s
  ranDone : s.pc = .done → s.startOk = true → s.hasStop = true → stopRan s
  stopCtx : ∀ b f, Call.stop b f ∈ s.calls → b = true
  ctx : ctxMustBeCancelled s.pc = true → s.ctxC = true
  errs : errsOK s.pc s.st s.errs s.failure

theorem fn_init (a b c : Bool) : Fn (init a b c) := by
  refine ⟨by simp [init], by simp [init], by simp [init], by simp [init], by simp [init], by simp [init],
    by simp [init, postStart], by simp [init, stopRan], by simp [init, afterStopCall], by simp [init],
    by simp [init], by simp [init, ctxMustBeCancelled], by simp [init, errsOK]⟩

/-- a step that changes none of the fields `Fn` talks about, except moving the program counter. -/
theorem fn_congr (s s' : Svc) (hf : Fn s) (h1 : s'.calls = s.calls) (h2 : s'.hasStart = s.hasStart)
    (h3 : s'.hasRun = s.hasRun) (h4 : s'.hasStop = s.hasStop) (h5 : s'.startOk = s.startOk)
    (hb : maxKind s.pc ≤ maxKind s'.pc)
    (hlo : preStart s'.pc = true → s.startOk = false) (hhi : postStart s'.pc = true → s.startOk = true)
    (hran : afterStopCall s'.pc = true → s.hasStop = true → stopRan s)
    (hdone : s'.pc = .done → s.startOk = true → s.hasStop = true → stopRan s)
    (hctx : ctxMustBeCancelled s'.pc = true → s'.ctxC = true)
    (herr : errsOK s'.pc s'.st s'.errs s'.failure) : Fn s' := by
  have hsr : stopRan s' ↔ stopRan s := by simp [stopRan, h1]
  refine ⟨?_, ?_, ?_, ?_, ?_, ?_, ?_, ?_, ?_, ?_, ?_, hctx, herr⟩
  · rw [h1]; exact hf.order
  · rw [h1]; intro c hcm; exact Nat.lt_of_lt_of_le (hf.bound c hcm) hb
  · rw [h1, h2]; exact hf.cfgStart
  · rw [h1, h3]; exact hf.cfgRun
  · rw [h1, h4]; exact hf.cfgStop
  · rw [h5]; exact hlo
  · rw [h5]; exact hhi
  · rw [h5, hsr]; exact hf.stopImp
  · rw [h4, hsr]; exact hran
  · rw [h5, h4, hsr]; exact hdone
  · rw [h1]; exact hf.stopCtx

/-- a step that enters one of the functions: appends a call of kind `k`. -/
theorem fn_call (s s' : Svc) (hf : Fn s) (c : Call) (h1 : s'.calls = s.calls ++ [c]) (h2 : s'.hasStart = s.hasStart)
    (h3 : s'.hasRun = s.hasRun) (h4 : s'.hasStop = s.hasStop) (h5 : s'.startOk = s.startOk)
    (hk1 : maxKind s.pc ≤ Call.kind c) (hk2 : Call.kind c < maxKind s'.pc)
    (hcfg0 : Call.kind c = 0 → s.hasStart = true) (hcfg1 : Call.kind c = 1 → s.hasRun = true)
    (hcfg2 : Call.kind c = 2 → s.hasStop = true)
    (hlo : preStart s'.pc = true → s.startOk = false) (hhi : postStart s'.pc = true → s.startOk = true)
    (hstop : Call.kind c = 2 → s.startOk = true)
    (hran : afterStopCall s'.pc = true → Call.kind c = 2)
    (hdone : s'.pc ≠ .done)
    (hsc : ∀ b f, c = Call.stop b f → b = true)
    (hctx : ctxMustBeCancelled s'.pc = true → s'.ctxC = true)
    (herr : errsOK s'.pc s'.st s'.errs s'.failure) : Fn s' := by
  refine ⟨?_, ?_, ?_, ?_, ?_, ?_, ?_, ?_, ?_, ?_, ?_, hctx, herr⟩
  · rw [h1, List.map_append, List.pairwise_append]
    refine ⟨hf.order, by simp, ?_⟩
    intro a ha b hb
    simp only [List.map_cons, List.map_nil, List.mem_singleton] at hb
    subst hb
    simp only [List.mem_map] at ha
    obtain ⟨x, hx, rfl⟩ := ha
    exact Nat.lt_of_lt_of_le (hf.bound x hx) hk1
  · rw [h1]; intro x hx
    simp only [List.mem_append, List.mem_singleton] at hx
    rcases hx with hx | rfl
    · exact Nat.lt_trans (Nat.lt_of_lt_of_le (hf.bound x hx) hk1) hk2
    · exact hk2
  · rw [h1, h2]; intro x hx
    simp only [List.mem_append, List.mem_singleton] at hx
    rcases hx with hx | rfl
    · exact hf.cfgStart x hx
    · exact hcfg0
  · rw [h1, h3]; intro x hx
    simp only [List.mem_append, List.mem_singleton] at hx
    rcases hx with hx | rfl
    · exact hf.cfgRun x hx
    · exact hcfg1
  · rw [h1, h4]; intro x hx
    simp only [List.mem_append, List.mem_singleton] at hx
    rcases hx with hx | rfl
    · exact hf.cfgStop x hx
    · exact hcfg2
  · rw [h5]; exact hlo
  · rw [h5]; exact hhi
  · rw [h5]
    rintro ⟨x, hx, hk⟩
    rw [h1] at hx
    simp only [List.mem_append, List.mem_singleton] at hx
    rcases hx with hx | rfl
    · exact hf.stopImp ⟨x, hx, hk⟩
    · exact hstop hk
  · intro ha _
    exact ⟨c, by rw [h1]; simp, hran ha⟩
  · intro hd; exact absurd hd hdone
  · rw [h1]; intro b f hx
    simp only [List.mem_append, List.mem_singleton] at hx
    rcases hx with hx | hx
    · exact hf.stopCtx b f hx
    · exact hsc b f hx.symm

theorem fn_tau (s : Svc) (hf : Fn s) : Fn (tau s) := by
  have hlo := hf.lo
  have hhi := hf.hi
  have hran := hf.ran
  have hctx := hf.ctx
  have herr := hf.errs
  unfold tau
  split
  · -- atStart
    rename_i hpc
    rw [hpc] at hlo hhi hran hctx herr
    split
    · rename_i hs
      refine fn_call s _ hf (.start s.ctxC) rfl rfl rfl rfl rfl (by simp [hpc, maxKind, Call.kind])
        (by simp [maxKind, Call.kind]) (fun _ => hs) (by simp [Call.kind]) (by simp [Call.kind])
        (fun _ => hlo rfl) (by simp [postStart]) (by simp [Call.kind]) (by simp [afterStopCall]) (by simp)
        (by simp) (by simp [ctxMustBeCancelled]) (by simpa [errsOK] using herr)
    · refine ⟨hf.order, ?_, hf.cfgStart, hf.cfgRun, hf.cfgStop, by simp [preStart], by simp, ?_, by simp [afterStopCall], by simp,
        hf.stopCtx, by simp [ctxMustBeCancelled], by simpa [errsOK] using herr⟩
      · intro c hc; have := hf.bound c hc; simp [hpc, maxKind] at this
      · intro _; rfl
  · -- gotStart (some e)
    rename_i e hpc
    rw [hpc] at hlo hhi hran hctx herr
    unfold Svc.mustSwitch
    split
    · refine fn_congr s _ hf rfl rfl rfl rfl rfl (by simp [hpc, maxKind]) (by simp [preStart]) (by simp [postStart])
        (by simp [afterStopCall]) ?_ (by simp [ctxMustBeCancelled]) ?_
      · intro _ h; have := hlo rfl; rw [this] at h; cases h
      · simp [errsOK] at herr
        simp [errsOK, Svc.transition, Notif.to, herr.1]
    · exact fn_congr s _ hf rfl rfl rfl rfl rfl (Nat.le_refl _) hf.lo hf.hi hf.ran hf.ranDone hf.ctx hf.errs
  · -- gotStart none
    rename_i hpc
    rw [hpc] at hlo hhi hran hctx herr
    have hok := hhi rfl
    split
    · exact fn_congr s _ hf rfl rfl rfl rfl rfl (by simp [hpc, maxKind]) (by simp [preStart]) (fun _ => hok)
        (by simp [afterStopCall]) (by simp) (by simp [ctxMustBeCancelled]) (by simpa [errsOK] using herr)
    · exact fn_congr s _ hf rfl rfl rfl rfl rfl (by simp [hpc, maxKind]) (by simp [preStart]) (fun _ => hok)
        (by simp [afterStopCall]) (by simp) (by simp [ctxMustBeCancelled]) (by simpa [errsOK] using herr)
  · -- toRunning
    rename_i hpc
    rw [hpc] at hlo hhi hran hctx herr
    have hok := hhi rfl
    unfold Svc.mustSwitch
    split
    · exact fn_congr s _ hf rfl rfl rfl rfl rfl (by simp [hpc, maxKind]) (by simp [preStart]) (fun _ => hok)
        (by simp [afterStopCall]) (by simp) (by simp [ctxMustBeCancelled]) (by simpa [errsOK, Svc.transition] using herr)
    · exact fn_congr s _ hf rfl rfl rfl rfl rfl (Nat.le_refl _) hf.lo hf.hi hf.ran hf.ranDone hf.ctx hf.errs
  · -- atRun
    rename_i hpc
    rw [hpc] at hlo hhi hran hctx herr
    have hok := hhi rfl
    split
    · rename_i hs
      refine fn_call s _ hf (.run s.ctxC) rfl rfl rfl rfl rfl (by simp [hpc, maxKind, Call.kind])
        (by simp [maxKind, Call.kind]) (by simp [Call.kind]) (fun _ => hs) (by simp [Call.kind])
        (by simp [preStart]) (fun _ => hok) (by simp [Call.kind]) (by simp [afterStopCall]) (by simp)
        (by simp) (by simp [ctxMustBeCancelled]) (by simpa [errsOK] using herr)
    · exact fn_congr s _ hf rfl rfl rfl rfl rfl (by simp [hpc, maxKind]) (by simp [preStart]) (fun _ => hok)
        (by simp [afterStopCall]) (by simp) (by simp [ctxMustBeCancelled]) (by simpa [errsOK] using herr)
  · -- toStopping
    rename_i fr f hpc
    rw [hpc] at hlo hhi hran hctx herr
    have hok := hhi rfl
    unfold Svc.mustSwitch
    cases fr
    · simp only [Bool.false_eq_true, if_false]
      split
      · exact fn_congr s _ hf rfl rfl rfl rfl rfl (by simp [hpc, maxKind]) (by simp [preStart]) (fun _ => hok)
          (by simp [afterStopCall]) (by simp) (by simp [ctxMustBeCancelled]) (by simpa [errsOK, Svc.transition] using herr)
      · exact fn_congr s _ hf rfl rfl rfl rfl rfl (Nat.le_refl _) hf.lo hf.hi hf.ran hf.ranDone hf.ctx hf.errs
    · simp only [if_true]
      split
      · exact fn_congr s _ hf rfl rfl rfl rfl rfl (by simp [hpc, maxKind]) (by simp [preStart]) (fun _ => hok)
          (by simp [afterStopCall]) (by simp) (by simp [ctxMustBeCancelled]) (by simpa [errsOK, Svc.transition] using herr)
      · exact fn_congr s _ hf rfl rfl rfl rfl rfl (Nat.le_refl _) hf.lo hf.hi hf.ran hf.ranDone hf.ctx hf.errs
  · -- preCancel
    rename_i f hpc
    rw [hpc] at hlo hhi hran hctx herr
    have hok := hhi rfl
    exact fn_congr s _ hf rfl rfl rfl rfl rfl (by simp [hpc, maxKind]) (by simp [preStart]) (fun _ => hok)
        (by simp [afterStopCall]) (by simp) (by simp) (by simpa [errsOK] using herr)
  · -- atStop
    rename_i f hpc
    rw [hpc] at hlo hhi hran hctx herr
    have hok := hhi rfl
    have hcx := hctx rfl
    split
    · rename_i hs
      refine fn_call s _ hf (.stop s.ctxC f) rfl rfl rfl rfl rfl (by simp [hpc, maxKind, Call.kind])
        (by simp [maxKind, Call.kind]) (by simp [Call.kind]) (by simp [Call.kind]) (fun _ => hs)
        (by simp [preStart]) (fun _ => hok) (fun _ => hok) (by simp [afterStopCall, Call.kind]) (by simp)
        ?_ (fun _ => hcx) (by simpa [errsOK] using herr)
      intro b f' h; cases h; exact hcx
    · rename_i hs
      exact fn_congr s _ hf rfl rfl rfl rfl rfl (by simp [hpc, maxKind]) (by simp [preStart]) (fun _ => hok)
        (fun _ h => by rw [h] at hs; exact absurd rfl hs) (by simp) (fun _ => hcx)
        (by simp [errsOK] at herr; simp [errsOK, herr.1, herr.2])
  · -- toEnd (some e)
    rename_i e hpc
    rw [hpc] at hlo hhi hran hctx herr
    have hok := hhi rfl
    unfold Svc.mustSwitch
    split
    · refine fn_congr s _ hf rfl rfl rfl rfl rfl (by simp [hpc, maxKind]) (by simp [preStart]) (by simp [postStart])
        (by simp [afterStopCall]) (fun _ _ h => hran rfl h) (by simp [ctxMustBeCancelled]) ?_
      simp [errsOK] at herr
      simp [errsOK, Svc.transition, Notif.to, herr.1]
      intro h; rw [h] at herr; simp at herr
    · exact fn_congr s _ hf rfl rfl rfl rfl rfl (Nat.le_refl _) hf.lo hf.hi hf.ran hf.ranDone hf.ctx hf.errs
  · -- toEnd none
    rename_i hpc
    rw [hpc] at hlo hhi hran hctx herr
    have hok := hhi rfl
    unfold Svc.mustSwitch
    split
    · refine fn_congr s _ hf rfl rfl rfl rfl rfl (by simp [hpc, maxKind]) (by simp [preStart]) (by simp [postStart])
        (by simp [afterStopCall]) (fun _ _ h => hran rfl h) (by simp [ctxMustBeCancelled]) ?_
      simp [errsOK] at herr
      simp [errsOK, Svc.transition, Notif.to, herr.1, herr.2]
    · exact fn_congr s _ hf rfl rfl rfl rfl rfl (Nat.le_refl _) hf.lo hf.hi hf.ran hf.ranDone hf.ctx hf.errs
  · exact hf

theorem fn_step (s : Svc) (e : Ev) (hc : Core s) (hf : Fn s) : Fn (step s e) := by
  have hlo := hf.lo
  have hhi := hf.hi
  have hran := hf.ran
  have hctx := hf.ctx
  have herr := hf.errs
  have same : ∀ s' : Svc, s'.calls = s.calls → s'.hasStart = s.hasStart → s'.hasRun = s.hasRun → s'.hasStop = s.hasStop →
      s'.startOk = s.startOk → s'.pc = s.pc → (s.ctxC = true → s'.ctxC = true) → s'.st = s.st → s'.errs = s.errs →
      s'.failure = s.failure → Fn s' := by
    intro s' h1 h2 h3 h4 h5 h6 h7 h8 h9 h10
    refine fn_congr s s' hf h1 h2 h3 h4 h5 (by rw [h6]; exact Nat.le_refl _) (by rw [h6]; exact hlo) (by rw [h6]; exact hhi)
      (by rw [h6]; exact hran) (by rw [h6]; exact hf.ranDone) (by rw [h6]; exact fun h => h7 (hctx h)) (by rw [h6, h8, h9, h10]; exact herr)
  cases e with
  | tau => exact fn_tau s hf
  | startAsync =>
    simp only [step]
    split
    · rename_i hst
      have hpc := pc_of_new s.pc (by rw [← hst]; exact hc.pcst)
      rw [hpc] at hlo hhi hran hctx herr
      exact fn_congr s _ hf rfl rfl rfl rfl rfl (by simp [hpc, maxKind]) (fun _ => hlo rfl) (by simp [postStart])
        (by simp [afterStopCall]) (by simp) (by simp [ctxMustBeCancelled]) (by simpa [errsOK, Svc.transition] using herr)
    · exact hf
  | stopAsync =>
    simp only [step]
    split
    · exact hf
    · exact hf
    · exact hf
    · rename_i hst
      have hpc := pc_of_new s.pc (by rw [← hst]; exact hc.pcst)
      rw [hpc] at hlo hhi hran hctx herr
      exact fn_congr s _ hf rfl rfl rfl rfl rfl (by simp [Svc.transition]) (by simpa [Svc.transition, hpc] using hlo)
        (by simp [Svc.transition, hpc, postStart]) (by simp [Svc.transition, hpc, afterStopCall]) (by simp [Svc.transition, hpc])
        (by simp [Svc.transition, hpc, ctxMustBeCancelled]) (by simpa [errsOK, Svc.transition, hpc] using herr)
    · exact same _ rfl rfl rfl rfl rfl rfl (fun _ => rfl) rfl rfl rfl
  | parentCancel =>
    exact same _ rfl rfl rfl rfl rfl rfl (fun h => by show (s.ctxC || s.started) = true; rw [h]; rfl) rfl rfl rfl
  | startRet r =>
    simp only [step]
    split
    · rename_i hpc
      rw [hpc] at hlo hhi hran hctx herr
      have hb := hf.bound
      have hnostop : ¬ stopRan s := by
        rintro ⟨c, hcm, hk⟩
        have := hb c hcm
        rw [hpc, hk] at this
        simp [maxKind] at this
      simp [errsOK] at herr
      refine ⟨hf.order, ?_, hf.cfgStart, hf.cfgRun, hf.cfgStop, ?_, ?_, ?_, by simp [afterStopCall], by simp,
        hf.stopCtx, by simp [ctxMustBeCancelled], ?_⟩
      · intro c hcm; have := hb c hcm; rw [hpc] at this; simpa [maxKind] using this
      · cases r <;> simp [preStart]
      · cases r <;> simp [postStart]
      · intro h; exact absurd h hnostop
      · simp [errsOK, herr.1, herr.2]
    · exact hf
  | runRet r =>
    simp only [step]
    split
    · rename_i hpc
      rw [hpc] at hlo hhi hran hctx herr
      have hok := hhi rfl
      simp [errsOK] at herr
      exact fn_congr s _ hf rfl rfl rfl rfl rfl (by simp [hpc, maxKind]) (by simp [preStart]) (fun _ => hok)
        (by simp [afterStopCall]) (by simp) (by simp [ctxMustBeCancelled]) (by simp [errsOK, herr.1, herr.2])
    · exact hf
  | stopRet r =>
    simp only [step]
    split
    · rename_i f hpc
      rw [hpc] at hlo hhi hran hctx herr
      have hok := hhi rfl
      simp [errsOK] at herr
      refine fn_congr s _ hf rfl rfl rfl rfl rfl (by simp [hpc, maxKind]) (by simp [preStart]) (fun _ => hok)
        (fun _ h => hran rfl h) (by simp) (fun _ => hctx rfl) ?_
      simp only [errsOK, herr.1, herr.2, and_true]
      cases f <;> cases r <;> simp
    · exact hf
  | addListener =>
    simp only [step]
    split
    · exact same _ rfl rfl rfl rfl rfl rfl (fun h => h) rfl rfl rfl
    · exact same _ rfl rfl rfl rfl rfl rfl (fun h => h) rfl rfl rfl
  | removeListener id => exact same _ rfl rfl rfl rfl rfl rfl (fun h => h) rfl rfl rfl
  | deliver id => exact same _ rfl rfl rfl rfl rfl rfl (fun h => h) rfl rfl rfl
  | deliverEnd id => exact same _ rfl rfl rfl rfl rfl rfl (fun h => h) rfl rfl rfl

/-- both invariants hold in every reachable state. -/
theorem inv_run (a b c : Bool) (evs : List Ev) : Core (run (init a b c) evs) ∧ Fn (run (init a b c) evs) := by
  suffices h : ∀ s, Core s → Fn s → Core (run s evs) ∧ Fn (run s evs) from h _ (core_init a b c) (fn_init a b c)
  induction evs with
  | nil => intro s hc hf; exact ⟨hc, hf⟩
  | cons e es ih => intro s hc hf; exact ih _ (core_step s e hc) (fn_step s e hc hf)

end PfC17
