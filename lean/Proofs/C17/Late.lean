import Proofs.C17.System
/-! C17: a listener added at any point of a history. -/
namespace PfC17
open C17

/-- some registered record carries this id and registration point. -/
def HasLsn (id k : Nat) (ls : List Lsn) : Prop := ∃ l ∈ ls, l.id = id ∧ l.regAt = k

theorem hasLsn_notify (id k : Nat) (n : Notif) (c : Bool) (ls : List Lsn) (h : HasLsn id k ls) :
    HasLsn id k (notify n c ls).1 := by
  induction ls with
  | nil => obtain ⟨l, hl, _⟩ := h; cases hl
  | cons a as ih =>
    obtain ⟨l, hl, h1, h2⟩ := h
    simp only [notify]
    have hsend : (a.send n c).1.id = a.id ∧ (a.send n c).1.regAt = a.regAt := by
      unfold Lsn.send; (repeat' split) <;> exact ⟨rfl, rfl⟩
    simp only [List.mem_cons] at hl
    rcases hl with rfl | hl
    · exact ⟨_, List.mem_cons_self .., by rw [hsend.1, h1], by rw [hsend.2, h2]⟩
    · obtain ⟨l', hl', h1', h2'⟩ := ih ⟨l, hl, h1, h2⟩
      exact ⟨l', List.mem_cons_of_mem _ hl', h1', h2'⟩

theorem hasLsn_removeFrom (id k rid : Nat) (ls : List Lsn) (h : HasLsn id k ls) : HasLsn id k (removeFrom rid ls) := by
  induction ls with
  | nil => obtain ⟨l, hl, _⟩ := h; cases hl
  | cons a as ih =>
    obtain ⟨l, hl, h1, h2⟩ := h
    simp only [removeFrom]
    simp only [List.mem_cons] at hl
    split
    · rcases hl with rfl | hl
      · exact ⟨_, List.mem_cons_self .., h1, h2⟩
      · exact ⟨l, List.mem_cons_of_mem _ hl, h1, h2⟩
    · rcases hl with rfl | hl
      · exact ⟨_, List.mem_cons_self .., h1, h2⟩
      · obtain ⟨l', hl', h1', h2'⟩ := ih ⟨l, hl, h1, h2⟩
        exact ⟨l', List.mem_cons_of_mem _ hl', h1', h2'⟩

theorem hasLsn_deliverTo (id k did : Nat) (ls : List Lsn) (h : HasLsn id k ls) : HasLsn id k (deliverTo did ls) := by
  induction ls with
  | nil => obtain ⟨l, hl, _⟩ := h; cases hl
  | cons a as ih =>
    obtain ⟨l, hl, h1, h2⟩ := h
    simp only [deliverTo]
    simp only [List.mem_cons] at hl
    split
    · split
      · exact ⟨l, by simp [hl], h1, h2⟩
      · split
        · exact ⟨l, by simp [hl], h1, h2⟩
        · rcases hl with rfl | hl
          · exact ⟨_, List.mem_cons_self .., h1, h2⟩
          · exact ⟨l, List.mem_cons_of_mem _ hl, h1, h2⟩
    · rcases hl with rfl | hl
      · exact ⟨_, List.mem_cons_self .., h1, h2⟩
      · obtain ⟨l', hl', h1', h2'⟩ := ih ⟨l, hl, h1, h2⟩
        exact ⟨l', List.mem_cons_of_mem _ hl', h1', h2'⟩

theorem hasLsn_endTo (id k eid : Nat) (ls : List Lsn) (h : HasLsn id k ls) : HasLsn id k (endTo eid ls) := by
  induction ls with
  | nil => obtain ⟨l, hl, _⟩ := h; cases hl
  | cons a as ih =>
    obtain ⟨l, hl, h1, h2⟩ := h
    simp only [endTo]
    simp only [List.mem_cons] at hl
    split
    · split
      · rcases hl with rfl | hl
        · exact ⟨_, List.mem_cons_self .., h1, h2⟩
        · exact ⟨l, List.mem_cons_of_mem _ hl, h1, h2⟩
      · exact ⟨l, by simp [hl], h1, h2⟩
    · rcases hl with rfl | hl
      · exact ⟨_, List.mem_cons_self .., h1, h2⟩
      · obtain ⟨l', hl', h1', h2'⟩ := ih ⟨l, hl, h1, h2⟩
        exact ⟨l', List.mem_cons_of_mem _ hl', h1', h2'⟩

theorem hasLsn_step (id k : Nat) (s : Svc) (e : Ev) (h : HasLsn id k s.lsns) : HasLsn id k (step s e).lsns := by
  rcases step_lsns_cases s e with h1 | ⟨n, c, h1⟩ | ⟨x, h1⟩ | ⟨rid, _, h1⟩ | ⟨did, _, h1⟩ | ⟨eid, h1⟩
  · rw [h1]; exact h
  · rw [h1]; exact hasLsn_notify id k n c _ h
  · rw [h1]; obtain ⟨l, hl, h2⟩ := h; exact ⟨l, by simp [hl], h2⟩
  · rw [h1]; exact hasLsn_removeFrom id k rid _ h
  · rw [h1]; exact hasLsn_deliverTo id k did _ h
  · rw [h1]; exact hasLsn_endTo id k eid _ h

theorem hasLsn_run (id k : Nat) (s : Svc) (evs : List Ev) (h : HasLsn id k s.lsns) : HasLsn id k (run s evs).lsns := by
  induction evs generalizing s with
  | nil => exact h
  | cons e es ih => exact ih _ (hasLsn_step id k s e h)

/-- a listener added when `k` transitions have been made: whatever happens afterwards, its record holds
(callbacks run ++ callbacks queued) = exactly the transitions number k+1, k+2, … made since, in order —
or a prefix of them once it has been removed. -/
theorem late_listener (s : Svc) (hc : Core s) (hnt : s.st.terminal = false) (more : List Ev) :
    let s2 := run (step s .addListener) more
    s.trans <+: s2.trans ∧
    ∃ l ∈ s2.lsns, l.id = s.nextL ∧ l.regAt = s.trans.length ∧
      (l.removed = false → l.seen ++ l.queue = s2.trans.drop s.trans.length) ∧
      (l.removed = true → l.seen <+: s2.trans.drop s.trans.length) := by
  intro s2
  have h1 : (step s .addListener).lsns = s.lsns ++ [{ id := s.nextL, regAt := s.trans.length }] := by
    simp [step, hnt]
  have htr : (step s .addListener).trans = s.trans := by simp [step, hnt]
  have hh : HasLsn s.nextL s.trans.length (step s .addListener).lsns := by
    rw [h1]; exact ⟨{ id := s.nextL, regAt := s.trans.length }, by simp, rfl, rfl⟩
  obtain ⟨l, hl, hid, hreg⟩ := hasLsn_run _ _ _ more hh
  have hc2 := core_run _ more (core_step s .addListener hc)
  have hok := hc2.lsn l hl
  refine ⟨?_, l, hl, hid, hreg, ?_, ?_⟩
  · have := run_trans_prefix (step s .addListener) more
    rw [htr] at this; exact this
  · intro hr; rw [← hreg]; exact (hok.live hr).1
  · intro hr; rw [← hreg]; exact hok.gone hr

end PfC17
