import Model.C17Snap
/-! C17: `ServicesByState()` results are values — the manager never depends on what the caller does with them. -/
namespace PfC17
open C17

theorem snap_step_caller (x : SnapSys) (a : SnapAct) (h : a.onService = false) :
    (x.step a).mgr = x.mgr ∧ (x.step a).svc = x.svc := by
  cases a <;> simp [SnapAct.onService] at h <;> exact ⟨rfl, rfl⟩

theorem snap_step_congr (x y : SnapSys) (a : SnapAct) (hm : x.mgr = y.mgr) (hs : x.svc = y.svc) :
    (x.step a).mgr = (y.step a).mgr ∧ (x.step a).svc = (y.step a).svc := by
  cases a <;> simp [SnapSys.step, SnapSys.feed, hm, hs]

/-- the manager and the services after any action sequence are those after the sequence with every
snapshot action (keep / append / overwrite) erased. -/
theorem snap_run_filter (acts : List SnapAct) : ∀ (x y : SnapSys), x.mgr = y.mgr → x.svc = y.svc →
    (x.run acts).mgr = (y.run (acts.filter SnapAct.onService)).mgr ∧
    (x.run acts).svc = (y.run (acts.filter SnapAct.onService)).svc := by
  induction acts with
  | nil => intro x y hm hs; exact ⟨hm, hs⟩
  | cons a as ih =>
    intro x y hm hs
    cases ha : a.onService with
    | true =>
      have hf : (a :: as).filter SnapAct.onService = a :: as.filter SnapAct.onService := by simp [List.filter, ha]
      rw [hf]
      obtain ⟨h1, h2⟩ := snap_step_congr x y a hm hs
      exact ih (x.step a) (y.step a) h1 h2
    | false =>
      have hf : (a :: as).filter SnapAct.onService = as.filter SnapAct.onService := by simp [List.filter, ha]
      rw [hf]
      obtain ⟨h1, h2⟩ := snap_step_caller x a ha
      exact ih (x.step a) y (h1.trans hm) (h2.trans hs)

/-- every result the caller holds is the manager's `byState` of the moment it was taken, whatever happened since. -/
theorem snap_run_cons (x : SnapSys) (a : SnapAct) (as : List SnapAct) : x.run (a :: as) = (x.step a).run as := rfl

/-- every result the caller holds after `acts` is either one it held before (content unchanged) or the
manager's `byState` of the moment a `keep` was executed — whatever happened since. -/
theorem snap_kept_run (acts : List SnapAct) : ∀ (x : SnapSys), ∀ k ∈ (x.run acts).kept,
    (∃ k0 ∈ x.kept, k.1 = k0.1) ∨
    ∃ pre suf, acts = pre ++ SnapAct.keep :: suf ∧ k.1 = (x.run pre).mgr.byState := by
  induction acts with
  | nil => intro x k hk; exact Or.inl ⟨k, hk, rfl⟩
  | cons a as ih =>
    intro x k hk
    rw [snap_run_cons] at hk
    rcases ih (x.step a) k hk with ⟨k0, hk0, he⟩ | ⟨pre, suf, h1, h2⟩
    · -- held right after `a`: held before `a`, or `a` is the `keep` that took it
      cases a with
      | start i => exact Or.inl ⟨k0, by simpa [SnapSys.step, SnapSys.feed] using hk0, he⟩
      | stop i => exact Or.inl ⟨k0, by simpa [SnapSys.step, SnapSys.feed] using hk0, he⟩
      | keep =>
        simp only [SnapSys.step, List.mem_append, List.mem_singleton] at hk0
        rcases hk0 with hk0 | hk0
        · exact Or.inl ⟨k0, hk0, he⟩
        · exact Or.inr ⟨[], as, rfl, by rw [he, hk0]; rfl⟩
      | append =>
        simp only [SnapSys.step, List.mem_map] at hk0
        obtain ⟨k1, hk1, rfl⟩ := hk0
        exact Or.inl ⟨k1, hk1, he⟩
      | overwrite =>
        simp only [SnapSys.step, List.mem_map] at hk0
        obtain ⟨k1, hk1, rfl⟩ := hk0
        exact Or.inl ⟨k1, hk1, he⟩
    · exact Or.inr ⟨a :: pre, suf, by rw [h1]; rfl, by rw [h2]; rfl⟩

end PfC17
