import Proofs.C17.Fn
/-! C17: facts about reachable service states derived from the invariants `Core` and `Fn`. -/
namespace PfC17
open C17

theorem chain_rank_le (cur e : SState) (l : List Notif) (h : chainEnd cur l = some e) : cur.rank ≤ e.rank := by
  induction l generalizing cur with
  | nil => simp [chainEnd] at h; subst h; exact Nat.le_refl _
  | cons n ns ih =>
    simp only [chainEnd] at h
    split at h
    · rename_i hc
      have := ih _ h
      have := legalEdge_rank _ _ hc.2
      omega
    · cases h

theorem chain_split (cur e : SState) (l m : List Notif) (h : chainEnd cur (l ++ m) = some e) :
    ∃ mid, chainEnd cur l = some mid ∧ chainEnd mid m = some e := by
  induction l generalizing cur with
  | nil => exact ⟨cur, rfl, by simpa using h⟩
  | cons n ns ih =>
    simp only [List.cons_append, chainEnd] at h ⊢
    split at h
    · rename_i hc
      rw [if_pos hc]
      exact ih _ h
    · cases h

theorem chain_legal (cur e : SState) (l : List Notif) (h : chainEnd cur l = some e) :
    ∀ n ∈ l, legalEdge n.frm n.to = true := by
  induction l generalizing cur with
  | nil => simp
  | cons n ns ih =>
    simp only [chainEnd] at h
    split at h
    · rename_i hc
      intro x hx
      simp only [List.mem_cons] at hx
      rcases hx with rfl | hx
      · rw [hc.1]; exact hc.2
      · exact ih _ h x hx
    · cases h

theorem step_trans_prefix (s : Svc) (e : Ev) : s.trans <+: (step s e).trans := by
  cases e <;> simp only [step] <;> (try unfold tau Svc.mustSwitch) <;> (repeat' split) <;>
    (try simp [Svc.transition]) <;> (repeat' split) <;> simp

theorem run_trans_prefix (s : Svc) (evs : List Ev) : s.trans <+: (run s evs).trans := by
  induction evs generalizing s with
  | nil => exact List.prefix_refl _
  | cons e es ih => exact List.IsPrefix.trans (step_trans_prefix s e) (ih _)

/-- a service never moves backwards: the progress rank of its state only grows. -/
theorem rank_mono (s : Svc) (hc : Core s) (evs : List Ev) : s.st.rank ≤ (run s evs).st.rank := by
  obtain ⟨m, hm⟩ := run_trans_prefix s evs
  have h2 := (core_run s evs hc).chain
  rw [← hm] at h2
  obtain ⟨mid, h3, h4⟩ := chain_split _ _ _ _ h2
  rw [hc.chain] at h3
  cases h3
  exact chain_rank_le _ _ _ h4

theorem terminal_pc (pc : PC) (st : SState) (h : pcState pc st = true) (ht : st.terminal = true) :
    pc = .idle ∨ pc = .done := by
  cases pc <;> cases st <;> simp_all [pcState, SState.terminal] <;>
    (rename_i fr _; cases fr <;> simp at h)

theorem nonterminal_pc (pc : PC) (st : SState) (h : pcState pc st = true) (ht : st.terminal = false) :
    pc ≠ .done := by
  intro hd; subst hd; simp [pcState, ht] at h

/-- at `idle` no function has been invoked. -/
theorem idle_no_calls (s : Svc) (hf : Fn s) (hpc : s.pc = .idle) : s.calls = [] := by
  cases hcs : s.calls with
  | nil => rfl
  | cons c cs =>
    have := hf.bound c (by rw [hcs]; simp)
    rw [hpc] at this
    simp [maxKind] at this

theorem failure_facts (s : Svc) (hc : Core s) (hf : Fn s) :
    (s.st.terminal = true → s.failure = s.errs.head? ∧ (s.st = .failed ↔ s.errs ≠ [])) ∧
    (s.st.terminal = false → s.failure = none) := by
  have herr := hf.errs
  have hp := hc.pcst
  refine ⟨?_, ?_⟩
  · intro ht
    rcases terminal_pc _ _ hp ht with h | h
    · rw [h] at herr hp
      simp [errsOK] at herr
      simp [herr.1, herr.2]
      intro hfl; rw [hfl] at hp; simp [pcState] at hp
    · rw [h] at herr
      simpa [errsOK] using herr
  · intro ht
    have hnd := nonterminal_pc _ _ hp ht
    revert herr
    cases hpc : s.pc <;> simp_all [errsOK]

theorem stop_iff_started (s : Svc) (hc : Core s) (hf : Fn s) (ht : s.st.terminal = true) (hs : s.hasStop = true) :
    stopRan s ↔ s.startOk = true := by
  refine ⟨hf.stopImp, ?_⟩
  intro hok
  rcases terminal_pc _ _ hc.pcst ht with h | h
  · have := hf.lo (by rw [h]; rfl)
    rw [this] at hok; cases hok
  · exact hf.ranDone h hok hs

theorem latch_facts (s : Svc) (hc : Core s) :
    (awaitRunning s = none ↔ s.st = .new ∨ s.st = .starting) ∧
    (awaitRunning s = some .ok ↔ s.st = .running) ∧
    (awaitTerminated s = none ↔ s.st.terminal = false) ∧
    (awaitTerminated s = some .ok ↔ s.st = .terminated) := by
  have hr := hc.runC
  have ht := hc.termC
  unfold awaitRunning awaitTerminated
  cases hst : s.st <;> simp_all [SState.rank, SState.terminal]

theorem chain_from_terminal (st e : SState) (m : List Notif) (ht : st.terminal = true)
    (h : chainEnd st m = some e) : m = [] ∧ e = st := by
  cases m with
  | nil => simp [chainEnd] at h; exact ⟨rfl, h.symm⟩
  | cons n ns =>
    simp only [chainEnd] at h
    split at h
    · rename_i hc
      have := legalEdge_nonterminal _ _ hc.2
      rw [ht] at this; cases this
    · cases h

/-- a terminal state is final: nothing that happens later changes it (or adds a transition). -/
theorem terminal_stable (s : Svc) (hc : Core s) (ht : s.st.terminal = true) (evs : List Ev) :
    (run s evs).st = s.st ∧ (run s evs).trans = s.trans := by
  obtain ⟨m, hm⟩ := run_trans_prefix s evs
  have h2 := (core_run s evs hc).chain
  rw [← hm] at h2
  obtain ⟨mid, h3, h4⟩ := chain_split _ _ _ _ h2
  rw [hc.chain] at h3
  cases h3
  obtain ⟨h5, h6⟩ := chain_from_terminal _ _ _ ht h4
  exact ⟨h6, by rw [← hm, h5]; simp⟩

/-- a registered listener's channel never holds more than its capacity (so no send ever blocks). -/
theorem queue_bound (s : Svc) (hc : Core s) :
    ∀ l ∈ s.lsns, l.removed = false → l.seen.length + l.queue.length ≤ listenerCap := by
  intro l hl hr
  have hok := hc.lsn l hl
  have hlen := hc.len
  have h4 := rank_le_four s.st
  have := congrArg List.length (hok.live hr).1
  simp at this
  simp [listenerCap]; omega

/-- what a listener registered before the first transition hands on next is a legal edge out of the
state its previous callbacks led to: exactly what `LegalEv` asks of the manager's input. -/
theorem listener_feed_legal (s : Svc) (hc : Core s) (l : Lsn) (hl : l ∈ s.lsns) (hr : l.removed = false)
    (h0 : l.regAt = 0) (n : Notif) (q : List Notif) (hq : l.queue = n :: q) :
    ∃ cur, chainEnd .new l.seen = some cur ∧ n.frm = cur ∧ legalEdge cur n.to = true := by
  have hok := hc.lsn l hl
  have h1 := (hok.live hr).1
  rw [h0, List.drop_zero, hq] at h1
  have h2 := hc.chain
  rw [← h1] at h2
  obtain ⟨mid, h3, h4⟩ := chain_split _ _ _ _ h2
  refine ⟨mid, h3, ?_⟩
  simp only [chainEnd] at h4
  split at h4
  · rename_i hcnd; exact hcnd
  · cases h4

theorem running_unreachable' (s : Svc) (hc : Core s) (h : 3 ≤ s.st.rank) (more : List Ev) :
    (run s more).st ≠ .running := by
  intro hr
  have := rank_mono s hc more
  rw [hr] at this
  have h2 : SState.running.rank = 2 := rfl
  omega

theorem latch_counts (s : Svc) (hc : Core s) : s.runClosed ≤ 1 ∧ s.termClosed ≤ 1 := by
  refine ⟨?_, ?_⟩
  · rw [hc.runC]; split <;> omega
  · rw [hc.termC]; split <;> omega

theorem waiter_stays (s : Svc) (hc : Core s) (more : List Ev) :
    (awaitRunning s ≠ none → awaitRunning (run s more) ≠ none) ∧
    (awaitTerminated s ≠ none → awaitTerminated (run s more) ≠ none ∧ (run s more).st = s.st) := by
  have hc2 := core_run s more hc
  have l1 := latch_facts s hc
  have l2 := latch_facts _ hc2
  have hm := rank_mono s hc more
  refine ⟨fun h hn => ?_, fun h => ?_⟩
  · rcases l2.1.mp hn with h2 | h2 <;> rw [h2] at hm <;>
      (apply h; rw [l1.1]; revert hm; cases s.st <;> simp [SState.rank])
  · have ht : s.st.terminal = true := by
      cases hx : s.st.terminal
      · exact absurd (l1.2.2.1.mpr hx) h
      · rfl
    obtain ⟨hst, _⟩ := terminal_stable s hc ht more
    refine ⟨fun hn => ?_, hst⟩
    have := l2.2.2.1.mp hn
    rw [hst, ht] at this; cases this

/-- a busy listener's goroutine cannot take the next notification. -/
theorem deliver_busy_noop (ls : List Lsn) (id : Nat) (hb : ∀ l ∈ ls, l.id = id → l.busy = true) :
    deliverTo id ls = ls := by
  induction ls with
  | nil => rfl
  | cons l ls ih =>
    simp only [deliverTo]
    split
    · rename_i hc
      rw [if_pos (hb l (List.mem_cons_self ..) hc.1)]
    · rw [ih (fun x hx => hb x (List.mem_cons_of_mem _ hx))]

end PfC17
