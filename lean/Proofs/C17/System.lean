import Proofs.C17.Svc
import Proofs.C17.Manager
/-! C17: services and their manager together (`System`). -/
namespace PfC17
open C17

theorem chainEnd_last (cur e : SState) (l : List Notif) (h : chainEnd cur l = some e) :
    e = (l.getLast?.map Notif.to).getD cur := by
  induction l generalizing cur with
  | nil => simp [chainEnd] at h; simp [h]
  | cons n ns ih =>
    simp only [chainEnd] at h
    split at h
    · have := ih _ h
      rw [this]
      cases ns with
      | nil => simp
      | cons a t =>
        rw [List.getLast?_cons_cons]
        cases hgl : (a :: t).getLast? with
        | none => simp at hgl
        | some x => simp
    · cases h

/-- the manager's listener is the first listener of the service, registered before any transition, never removed. -/
def HeadOK (sn : List Notif) (ls : List Lsn) : Prop :=
  ∃ l0 rest, ls = l0 :: rest ∧ l0.id = 0 ∧ l0.removed = false ∧ l0.regAt = 0 ∧ l0.seen = sn ∧ l0.busy = false

theorem headOK_notify (sn : List Notif) (n : Notif) (c : Bool) (ls : List Lsn) (h : HeadOK sn ls) :
    HeadOK sn (notify n c ls).1 := by
  obtain ⟨l0, rest, rfl, h1, h2, h3, h4⟩ := h
  simp only [notify]
  refine ⟨(l0.send n c).1, (notify n c rest).1, rfl, ?_⟩
  unfold Lsn.send
  rw [if_neg (by simp [h2])]
  split
  · exact ⟨h1, h2, h3, h4⟩
  · split
    · exact ⟨h1, h2, h3, h4⟩
    · exact ⟨h1, h2, h3, h4⟩

theorem headOK_removeFrom (sn : List Notif) (id : Nat) (hid : id ≠ 0) (ls : List Lsn) (h : HeadOK sn ls) :
    HeadOK sn (removeFrom id ls) := by
  obtain ⟨l0, rest, rfl, h1, h2, h3, h4⟩ := h
  simp only [removeFrom]
  rw [if_neg (by rw [h1]; exact fun h => hid h.symm)]
  exact ⟨l0, _, rfl, h1, h2, h3, h4⟩

theorem headOK_deliverTo (sn : List Notif) (id : Nat) (hid : id ≠ 0) (ls : List Lsn) (h : HeadOK sn ls) :
    HeadOK sn (deliverTo id ls) := by
  obtain ⟨l0, rest, rfl, h1, h2, h3, h4⟩ := h
  simp only [deliverTo]
  rw [if_neg (by rw [h1]; exact fun h => hid h.1.symm)]
  exact ⟨l0, _, rfl, h1, h2, h3, h4⟩

theorem headOK_endTo (sn : List Notif) (id : Nat) (ls : List Lsn) (h : HeadOK sn ls) : HeadOK sn (endTo id ls) := by
  obtain ⟨l0, rest, rfl, h1, h2, h3, h4, h5⟩ := h
  simp only [endTo]
  split
  · rw [if_neg (by simp [h5])]
    exact ⟨l0, _, rfl, h1, h2, h3, h4, h5⟩
  · exact ⟨l0, _, rfl, h1, h2, h3, h4, h5⟩

theorem headOK_append (sn : List Notif) (x : Lsn) (ls : List Lsn) (h : HeadOK sn ls) : HeadOK sn (ls ++ [x]) := by
  obtain ⟨l0, rest, rfl, h1, h2, h3, h4⟩ := h
  exact ⟨l0, rest ++ [x], rfl, h1, h2, h3, h4⟩

/-- how an event can change the list of listeners. -/
theorem step_lsns_cases (s : Svc) (e : Ev) :
    (step s e).lsns = s.lsns ∨ (∃ n c, (step s e).lsns = (notify n c s.lsns).1) ∨
    (∃ x, (step s e).lsns = s.lsns ++ [x]) ∨ (∃ id, e = .removeListener id ∧ (step s e).lsns = removeFrom id s.lsns) ∨
    (∃ id, e = .deliver id ∧ (step s e).lsns = deliverTo id s.lsns) ∨
    (∃ id, (step s e).lsns = endTo id s.lsns) := by
  cases e <;> simp only [step] <;> (try unfold tau Svc.mustSwitch) <;> (repeat' split) <;>
    (try simp only []) <;> (repeat' split) <;>
    first
      | exact Or.inl rfl
      | exact Or.inr (Or.inl ⟨_, _, rfl⟩)
      | exact Or.inr (Or.inr (Or.inl ⟨_, rfl⟩))
      | exact Or.inr (Or.inr (Or.inr (Or.inl ⟨_, rfl, rfl⟩)))
      | exact Or.inr (Or.inr (Or.inr (Or.inr (Or.inl ⟨_, rfl, rfl⟩))))
      | exact Or.inr (Or.inr (Or.inr (Or.inr (Or.inr ⟨_, rfl⟩))))
      | exact Or.inl trivial

theorem step_headOK (s : Svc) (e : Ev) (sn : List Notif) (h : HeadOK sn s.lsns)
    (he : ¬ (e = .deliver 0 ∨ e = .removeListener 0)) : HeadOK sn (step s e).lsns := by
  rcases step_lsns_cases s e with h1 | ⟨n, c, h1⟩ | ⟨x, h1⟩ | ⟨id, he1, h1⟩ | ⟨id, he1, h1⟩ | ⟨id, h1⟩
  · rw [h1]; exact h
  · rw [h1]; exact headOK_notify sn n c _ h
  · rw [h1]; exact headOK_append sn x _ h
  · rw [h1]; exact headOK_removeFrom sn id (fun h0 => he (Or.inr (by rw [he1, h0]))) _ h
  · rw [h1]; exact headOK_deliverTo sn id (fun h0 => he (Or.inl (by rw [he1, h0]))) _ h
  · rw [h1]; exact headOK_endTo sn id _ h

theorem viewOf_of_head (s : Svc) (sn : List Notif) (h : HeadOK sn s.lsns) :
    viewOf s = (sn.getLast?.map Notif.to).getD .new := by
  obtain ⟨l0, rest, hl, _, _, _, h4⟩ := h
  simp [viewOf, hl, h4.1]

/-- what the system invariant says about one service. -/
def SOK (s : Svc) : Prop := Core s ∧ ∃ sn, HeadOK sn s.lsns

structure YInv (y : System) : Prop where
  svcs : ∀ s ∈ y.svcs, SOK s
  mgr : MInv y.mgr (y.svcs.map viewOf)

theorem set_same {α : Type} (l : List α) (i : Nat) (a : α) (h : l[i]? = some a) : l.set i a = l := by
  induction l generalizing i with
  | nil => rfl
  | cons x xs ih =>
    cases i with
    | zero => simp at h; simp [h]
    | succ k => simp at h; simp [ih k h]

theorem sok_step (s : Svc) (e : Ev) (h : SOK s) (he : ¬ (e = .deliver 0 ∨ e = .removeListener 0)) :
    SOK (step s e) ∧ viewOf (step s e) = viewOf s := by
  obtain ⟨hc, sn, hh⟩ := h
  have h2 := step_headOK s e sn hh he
  exact ⟨⟨core_step s e hc, sn, h2⟩, by rw [viewOf_of_head _ sn h2, viewOf_of_head _ sn hh]⟩

/-- what `handover` does to the service: the manager's listener takes the notification, runs
`serviceStateChanged` and returns. -/
def handStep (s : Svc) : Svc := step (step s (.deliver 0)) (.deliverEnd 0)

theorem handStep_lsns (s : Svc) (l0 : Lsn) (rest : List Lsn) (n : Notif) (q : List Notif) (hl : s.lsns = l0 :: rest)
    (h1 : l0.id = 0) (h2 : l0.removed = false) (h5 : l0.busy = false) (hq : l0.queue = n :: q) :
    (handStep s).lsns = { l0 with queue := q, seen := l0.seen ++ [n], busy := false, inCb := l0.inCb + 1 - 1 } :: rest := by
  simp only [handStep, step, hl, deliverTo]
  rw [if_pos ⟨h1, by simp [h2]⟩, if_neg (by simp [h5]), hq]
  simp [endTo, h1]

/-- the hand-over of the next notification: it is a legal edge out of the manager's current view. -/
theorem sok_handover (s : Svc) (n : Notif) (h : SOK s) (hn : nextForManager s = some n) :
    SOK (handStep s) ∧ viewOf (handStep s) = n.to ∧ n.frm = viewOf s ∧ legalEdge n.frm n.to = true := by
  obtain ⟨hc, sn, l0, rest, hl, h1, h2, h3, h4, h5⟩ := h
  have hq : ∃ q, l0.queue = n :: q := by
    simp only [nextForManager, hl] at hn
    rw [if_pos ⟨h1, h2⟩] at hn
    cases hq : l0.queue with
    | nil => rw [hq] at hn; cases hn
    | cons a q => rw [hq] at hn; simp at hn; exact ⟨q, by rw [hn]⟩
  obtain ⟨q, hq⟩ := hq
  obtain ⟨cur, hcur, hfrm, hedge⟩ := listener_feed_legal s hc l0 (by rw [hl]; simp) h2 h3 n q hq
  have hview : viewOf s = cur := by
    rw [chainEnd_last _ _ _ hcur]
    simp [viewOf, hl]
  have hls := handStep_lsns s l0 rest n q hl h1 h2 h5 hq
  refine ⟨⟨core_step _ _ (core_step s _ hc), l0.seen ++ [n], _, rest, hls, h1, h2, h3, rfl, rfl⟩, ?_, ?_, ?_⟩
  · simp [viewOf, hls]
  · rw [hview]; exact hfrm
  · rw [hfrm]; exact hedge

theorem yinv_step (y : System) (e : SysEv) (h : YInv y) : YInv (y.step e) := by
  cases e with
  | svc i e =>
    simp only [System.step]
    split
    · exact h
    · rename_i he
      split
      · rename_i s hs
        have hmem : s ∈ y.svcs := List.mem_of_getElem? hs
        obtain ⟨h1, h2⟩ := sok_step s e (h.svcs s hmem) he
        refine ⟨?_, ?_⟩
        · intro s' hs'
          rcases List.mem_or_eq_of_mem_set hs' with h' | rfl
          · exact h.svcs s' h'
          · exact h1
        · simp only [List.map_set, h2]
          rw [set_same _ i (viewOf s) (by simp [hs])]
          exact h.mgr
      · exact h
  | handover i =>
    simp only [System.step]
    split
    · rename_i s hs
      split
      · rename_i n hn
        have hmem : s ∈ y.svcs := List.mem_of_getElem? hs
        obtain ⟨h1, h2, h3, h4⟩ := sok_handover s n (h.svcs s hmem) hn
        have hlt : i < y.svcs.length := by
          rcases Nat.lt_or_ge i y.svcs.length with h' | h'
          · exact h'
          · rw [List.getElem?_eq_none h'] at hs; cases hs
        have hle : LegalEv (y.svcs.map viewOf) i n :=
          ⟨by simpa using hlt, by simp [hs, h3], h4⟩
        refine ⟨?_, ?_⟩
        · intro s' hs'
          rcases List.mem_or_eq_of_mem_set hs' with h' | rfl
          · exact h.svcs s' h'
          · exact h1
        · have h2' : viewOf (step (step s (.deliver 0)) (.deliverEnd 0)) = n.to := h2
          simp only [List.map_set, h2']
          exact minv_changed _ _ i n h.mgr hle
      · exact h
    · exact h
  | mgrLsn e =>
    simp only [System.step]
    cases e with
    | changed i n => exact h
    | addListener => exact ⟨h.svcs, minv_step _ _ .addListener h.mgr trivial⟩
    | removeListener id => exact ⟨h.svcs, minv_step _ _ (.removeListener id) h.mgr trivial⟩
    | deliver id => exact ⟨h.svcs, minv_step _ _ (.deliver id) h.mgr trivial⟩

theorem yinv_run (y : System) (evs : List SysEv) (h : YInv y) : YInv (y.run evs) := by
  induction evs generalizing y with
  | nil => exact h
  | cons e es ih => exact ih _ (yinv_step y e h)

theorem yinv_init (cfgs : List (Bool × Bool × Bool)) (hne : cfgs ≠ []) : YInv (System.init cfgs) := by
  have hs : ∀ c : Bool × Bool × Bool, SOK (step (init c.1 c.2.1 c.2.2) .addListener) ∧
      viewOf (step (init c.1 c.2.1 c.2.2) .addListener) = .new := by
    intro c
    have hh : HeadOK [] (step (init c.1 c.2.1 c.2.2) .addListener).lsns :=
      ⟨{ id := 0, regAt := 0 }, [], by simp [step, init, SState.terminal], rfl, rfl, rfl, rfl, rfl⟩
    exact ⟨⟨core_step _ _ (core_init _ _ _), [], hh⟩, by rw [viewOf_of_head _ [] hh]; rfl⟩
  have hviews : (System.init cfgs).svcs.map viewOf = List.replicate cfgs.length .new := by
    simp only [System.init, List.map_map]
    induction cfgs with
    | nil => rfl
    | cons c cs ih =>
      simp only [List.map_cons, List.length_cons, List.replicate_succ, Function.comp]
      rw [(hs c).2]
      cases cs with
      | nil => rfl
      | cons c2 cs2 => rw [ih (by simp)]
  refine ⟨?_, ?_⟩
  · intro s hs'
    simp only [System.init, List.mem_map] at hs'
    obtain ⟨c, _, rfl⟩ := hs'
    exact (hs c).1
  · rw [hviews]
    exact minv_init cfgs.length (by cases cfgs with | nil => exact absurd rfl hne | cons c cs => simp)

/-- when the manager's listener on a service has nothing left to hand over, the manager's view of the
service is the service's real state. -/
theorem view_is_state_when_drained (s : Svc) (h : SOK s) (hd : nextForManager s = none) : viewOf s = s.st := by
  obtain ⟨hc, sn, l0, rest, hl, h1, h2, h3, h4⟩ := h
  have hq : l0.queue = [] := by
    simp only [nextForManager, hl] at hd
    rw [if_pos ⟨h1, h2⟩] at hd
    cases hq : l0.queue with
    | nil => rfl
    | cons a q => rw [hq] at hd; cases hd
  have hlive := ((hc.lsn l0 (by rw [hl]; simp)).live h2).1
  rw [h3, hq, List.append_nil, List.drop_zero] at hlive
  have := chainEnd_last _ _ _ hc.chain
  rw [this, ← hlive]
  simp [viewOf, hl]

theorem system_facts (y : System) (hy : YInv y) :
    (y.mgr.state = .healthy ↔ ∀ s ∈ y.svcs, viewOf s = .running) ∧
    (y.mgr.state = .stopped ↔ ∀ s ∈ y.svcs, (viewOf s).terminal = true) ∧
    (∀ j (h : j < y.svcs.length), y.mgr.log.count (.failure j) = if viewOf y.svcs[j] = .failed then 1 else 0) ∧
    (∀ s ∈ y.svcs, nextForManager s = none → viewOf s = s.st) ∧
    y.mgr.bad = [] ∧ y.mgr.healthyCloses ≤ 1 ∧ y.mgr.stoppedCloses ≤ 1 := by
  have hr := hy.mgr.rest
  have hl := latches_of_minv _ _ hy.mgr
  refine ⟨?_, ?_, ?_, fun s hs hd => view_is_state_when_drained s (hy.svcs s hs) hd, hr.bad, hl.1, hl.2.1⟩
  · rw [hr.stH]; simp
  · rw [hr.stZ]; simp
  · intro j h
    have := hr.fail j (by simpa using h)
    simpa using this

theorem system_drained (y : System) (hy : YInv y) (hd : ∀ s ∈ y.svcs, nextForManager s = none) :
    (y.mgr.state = .healthy ↔ ∀ s ∈ y.svcs, s.st = .running) ∧
    (y.mgr.state = .stopped ↔ ∀ s ∈ y.svcs, s.st.terminal = true) := by
  obtain ⟨h1, h2, _, h4, _⟩ := system_facts y hy
  refine ⟨?_, ?_⟩
  · rw [h1]
    exact ⟨fun h s hs => by rw [← h4 s hs (hd s hs)]; exact h s hs, fun h s hs => by rw [h4 s hs (hd s hs)]; exact h s hs⟩
  · rw [h2]
    exact ⟨fun h s hs => by rw [← h4 s hs (hd s hs)]; exact h s hs, fun h s hs => by rw [h4 s hs (hd s hs)]; exact h s hs⟩

end PfC17
