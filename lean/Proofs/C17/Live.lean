import Proofs.C17.System
/-! C17: a service, and the system of services plus manager, can always finish. -/
namespace PfC17
open C17

def pcRank : PC → Nat
  | .idle => 0 | .atStart => 1 | .inStart => 2 | .gotStart _ => 3 | .toRunning => 4 | .atRun => 5 | .inRun => 6
  | .toStopping _ _ => 7 | .preCancel _ => 8 | .atStop _ => 9 | .inStop _ => 10 | .toEnd _ => 11 | .done => 12

theorem pcRank_le (pc : PC) : pcRank pc ≤ 12 := by cases pc <;> simp [pcRank]

/-- the four events of a round never move `main()` backwards … -/
theorem round_step_mono (s : Svc) (hc : Core s) (e : Ev)
    (he : e = .tau ∨ e = .startRet none ∨ e = .runRet none ∨ e = .stopRet none) :
    pcRank s.pc ≤ pcRank (step s e).pc := by
  have hp := hc.pcst
  rcases he with rfl | rfl | rfl | rfl
  · simp only [step]
    unfold tau Svc.mustSwitch
    cases hpc : s.pc <;> rw [hpc] at hp <;> simp only [pcState, beq_iff_eq] at hp <;>
      simp only [hpc] <;> (repeat' split) <;> simp_all [pcRank, Svc.transition]
  · simp only [step]; split <;> simp_all [pcRank]
  · simp only [step]; split <;> simp_all [pcRank]
  · simp only [step]; split <;> simp_all [pcRank]

def waitsForEnv : PC → Bool
  | .idle | .inStart | .inRun | .inStop _ | .done => true
  | _ => false

/-- … `tau` moves it forward whenever it is not inside one of the functions (or finished) … -/
theorem tau_strict (s : Svc) (hc : Core s) (h : waitsForEnv s.pc = false) :
    pcRank s.pc < pcRank (step s .tau).pc := by
  have hp := hc.pcst
  simp only [step]
  unfold tau Svc.mustSwitch
  cases hpc : s.pc
  case gotStart r =>
    cases r <;> rw [hpc] at hp <;> simp only [pcState, beq_iff_eq] at hp <;> (repeat' split) <;>
      simp_all [pcRank, waitsForEnv]
  case toEnd f =>
    cases f <;> rw [hpc] at hp <;> simp only [pcState, beq_iff_eq] at hp <;> (repeat' split) <;>
      simp_all [pcRank, waitsForEnv]
  all_goals (rw [hpc] at hp h <;> simp only [pcState, beq_iff_eq] at hp <;> (repeat' split) <;>
    simp_all [pcRank, waitsForEnv])

/-- … and the return of the function it is in moves it forward otherwise. -/
theorem ret_strict (s : Svc) :
    (s.pc = .inStart → pcRank s.pc < pcRank (step s (.startRet none)).pc) ∧
    (s.pc = .inRun → pcRank s.pc < pcRank (step s (.runRet none)).pc) ∧
    (∀ f, s.pc = .inStop f → pcRank s.pc < pcRank (step s (.stopRet none)).pc) := by
  refine ⟨fun h => ?_, fun h => ?_, fun f h => ?_⟩ <;> simp [step, h, pcRank]

def svcRound : List Ev := [.tau, .startRet none, .runRet none, .stopRet none]

theorem round_strict (s : Svc) (hc : Core s) (h1 : s.pc ≠ .idle) (h2 : s.pc ≠ .done) :
    pcRank s.pc < pcRank (run s svcRound).pc ∧ Core (run s svcRound) := by
  have c1 := core_step s .tau hc
  have c2 := core_step _ (.startRet none) c1
  have c3 := core_step _ (.runRet none) c2
  have c4 := core_step _ (.stopRet none) c3
  have m1 := round_step_mono s hc .tau (Or.inl rfl)
  have m2 := round_step_mono _ c1 (.startRet none) (Or.inr (Or.inl rfl))
  have m3 := round_step_mono _ c2 (.runRet none) (Or.inr (Or.inr (Or.inl rfl)))
  have m4 := round_step_mono _ c3 (.stopRet none) (Or.inr (Or.inr (Or.inr rfl)))
  refine ⟨?_, c4⟩
  show pcRank s.pc < pcRank (step (step (step (step s .tau) (.startRet none)) (.runRet none)) (.stopRet none)).pc
  by_cases hw : waitsForEnv s.pc = false
  · have := tau_strict s hc hw; omega
  · have hw' : waitsForEnv s.pc = true := by cases h : waitsForEnv s.pc <;> simp_all
    -- `tau` is a no-op inside a function
    have ht : step s .tau = s := by
      simp only [step]; unfold tau
      cases hpc : s.pc <;> rw [hpc] at hw' <;> simp_all [waitsForEnv]
    cases hpc : s.pc with
    | inStart =>
      have st := (ret_strict s).1 hpc
      have d2 := core_step s (.startRet none) hc
      have n3 := round_step_mono _ d2 (.runRet none) (Or.inr (Or.inr (Or.inl rfl)))
      have n4 := round_step_mono _ (core_step _ (.runRet none) d2) (.stopRet none) (Or.inr (Or.inr (Or.inr rfl)))
      rw [ht]; rw [hpc] at st; omega
    | inRun =>
      have hs2 : step s (.startRet none) = s := by simp [step, hpc]
      have st := (ret_strict s).2.1 hpc
      have n4 := round_step_mono _ (core_step s (.runRet none) hc) (.stopRet none) (Or.inr (Or.inr (Or.inr rfl)))
      rw [ht, hs2]; rw [hpc] at st; omega
    | inStop f =>
      have hs2 : step s (.startRet none) = s := by simp [step, hpc]
      have hs3 : step s (.runRet none) = s := by simp [step, hpc]
      have st := (ret_strict s).2.2 f hpc
      rw [ht, hs2, hs3]; rw [hpc] at st; exact st
    | idle => exact absurd hpc h1
    | done => exact absurd hpc h2
    | atStart | gotStart _ | toRunning | atRun | toStopping _ _ | preCancel _ | atStop _ | toEnd _ =>
      rw [hpc] at hw'; simp [waitsForEnv] at hw'

theorem run_append' (s : Svc) (a b : List Ev) : run s (a ++ b) = run (run s a) b := by
  simp [run, List.foldl_append]

/-- after `j` rounds `main()` has finished or has made at least `j` steps. -/
theorem rounds_rank (j : Nat) (s : Svc) (hc : Core s) (h1 : s.pc ≠ .idle) :
    let s' := run s (List.replicate j svcRound).flatten
    Core s' ∧ s'.pc ≠ .idle ∧ (s'.pc = .done ∨ pcRank s.pc + j ≤ pcRank s'.pc) := by
  induction j generalizing s with
  | zero => exact ⟨hc, h1, Or.inr (Nat.le_refl _)⟩
  | succ j ih =>
    simp only [List.replicate_succ, List.flatten_cons, run_append']
    by_cases hd : s.pc = .done
    · -- finished: the round changes nothing that matters
      have hr := round_step_mono
      have c4 : Core (run s svcRound) := core_run s _ hc
      have hm : pcRank s.pc ≤ pcRank (run s svcRound).pc := by
        have c1 := core_step s .tau hc
        have c2 := core_step _ (.startRet none) c1
        have c3 := core_step _ (.runRet none) c2
        have m1 := round_step_mono s hc .tau (Or.inl rfl)
        have m2 := round_step_mono _ c1 (.startRet none) (Or.inr (Or.inl rfl))
        have m3 := round_step_mono _ c2 (.runRet none) (Or.inr (Or.inr (Or.inl rfl)))
        have m4 := round_step_mono _ c3 (.stopRet none) (Or.inr (Or.inr (Or.inr rfl)))
        show pcRank s.pc ≤ pcRank (step (step (step (step s .tau) (.startRet none)) (.runRet none)) (.stopRet none)).pc
        omega
      have hdone : (run s svcRound).pc = .done := by
        rw [hd] at hm
        have := pcRank_le (run s svcRound).pc
        cases hpc : (run s svcRound).pc <;> rw [hpc] at hm <;> simp [pcRank] at hm
      obtain ⟨a1, a2, a3⟩ := ih (run s svcRound) c4 (by rw [hdone]; simp)
      refine ⟨a1, a2, ?_⟩
      rcases a3 with a3 | a3
      · exact Or.inl a3
      · rw [hdone] at a3
        have := pcRank_le (run (run s svcRound) (List.replicate j svcRound).flatten).pc
        simp only [pcRank] at a3
        left
        cases hpc : (run (run s svcRound) (List.replicate j svcRound).flatten).pc <;> rw [hpc] at a3 <;>
          simp [pcRank] at a3 <;> omega
    · obtain ⟨hlt, c4⟩ := round_strict s hc h1 hd
      have hni : (run s svcRound).pc ≠ .idle := by
        intro h; rw [h] at hlt; simp [pcRank] at hlt
      obtain ⟨a1, a2, a3⟩ := ih (run s svcRound) c4 hni
      refine ⟨a1, a2, ?_⟩
      rcases a3 with a3 | a3
      · exact Or.inl a3
      · right; omega

/-- **a service can always finish**: from every state satisfying the invariant (every reachable state),
`svcFinish` leaves it Terminated or Failed. -/
theorem svcFinish_terminal (s : Svc) (hc : Core s) : (run s svcFinish).st.terminal = true ∧ Core (run s svcFinish) := by
  have hcf := core_run s svcFinish hc
  refine ⟨?_, hcf⟩
  have hsf : svcFinish = .stopAsync :: (List.replicate 12 svcRound).flatten := rfl
  have hrun : run s svcFinish = run (step s .stopAsync) (List.replicate 12 svcRound).flatten := by
    rw [hsf]; simp only [run, List.foldl_cons]
  rw [hrun]
  have c0 := core_step s .stopAsync hc
  by_cases hi : (step s .stopAsync).pc = .idle
  · -- never started: StopAsync made it Terminated, nothing else happens
    have hp := hc.pcst
    have hidle : s.pc = .idle := by
      have : (step s .stopAsync).pc = s.pc := by
        simp only [step]; split <;> simp [Svc.transition]
      rw [← this]; exact hi
    have hst : (step s .stopAsync).st = .terminated := by
      rw [hidle] at hp
      simp only [pcState, Bool.or_eq_true, beq_iff_eq] at hp
      rcases hp with hp | hp <;> simp [step, hp, Svc.transition, Notif.to]
    have := terminal_stable (step s .stopAsync) c0 (by rw [hst]; rfl) (List.replicate 12 svcRound).flatten
    rw [this.1, hst]; rfl
  · obtain ⟨a1, a2, a3⟩ := rounds_rank 12 (step s .stopAsync) c0 hi
    have hdone : (run (step s .stopAsync) (List.replicate 12 svcRound).flatten).pc = .done := by
      rcases a3 with a3 | a3
      · exact a3
      · have hle := pcRank_le (run (step s .stopAsync) (List.replicate 12 svcRound).flatten).pc
        have hpos : 1 ≤ pcRank (step s .stopAsync).pc := by
          cases hpc : (step s .stopAsync).pc <;> simp_all [pcRank]
        cases hpc : (run (step s .stopAsync) (List.replicate 12 svcRound).flatten).pc <;> rw [hpc] at a3 hle <;>
          simp [pcRank] at a3 hle ⊢ <;> omega
    have := a1.pcst
    rw [hdone] at this
    simpa [pcState] using this

/-! ### the system: services + manager -/

theorem sysrun_append (y : System) (a b : List SysEv) : y.run (a ++ b) = (y.run a).run b := by
  simp [System.run, List.foldl_append]

theorem lt_of_getElem? {α : Type} {l : List α} {i : Nat} {a : α} (h : l[i]? = some a) : i < l.length := by
  rcases Nat.lt_or_ge i l.length with h' | h'
  · exact h'
  · rw [List.getElem?_eq_none h'] at h; cases h

/-- events of service `i` (other than those of the manager's own listener) act on `svcs[i]` only. -/
theorem sys_svc_events (i : Nat) (evs : List Ev) (hall : ∀ e ∈ evs, ¬ (e = .deliver 0 ∨ e = .removeListener 0))
    (y : System) (s : Svc) (hs : y.svcs[i]? = some s) :
    (y.run (evs.map (SysEv.svc i))).svcs = y.svcs.set i (run s evs) ∧ (y.run (evs.map (SysEv.svc i))).mgr = y.mgr := by
  induction evs generalizing y s with
  | nil => exact ⟨by simp [System.run, run, set_same _ i s hs], rfl⟩
  | cons e es ih =>
    have he := hall e (List.mem_cons_self ..)
    have hstep : y.step (.svc i e) = { y with svcs := y.svcs.set i (step s e) } := by
      simp only [System.step]
      rw [if_neg he, hs]
    have hlt := lt_of_getElem? hs
    obtain ⟨h1, h2⟩ := ih (fun e' he' => hall e' (List.mem_cons_of_mem _ he')) (y.step (.svc i e)) (step s e)
      (by rw [hstep]; exact List.getElem?_set_self hlt)
    refine ⟨?_, ?_⟩
    · show ((y.step (.svc i e)).run _).svcs = _
      rw [h1, hstep]
      simp [List.set_set, run]
    · show ((y.step (.svc i e)).run _).mgr = _
      rw [h2, hstep]

/-- number of notifications the manager's listener on this service still has to hand over. -/
def pendingForManager (s : Svc) : Nat :=
  match s.lsns with
  | l :: _ => l.queue.length
  | [] => 0

theorem pending_zero (s : Svc) (h : SOK s) (hp : pendingForManager s = 0) : nextForManager s = none := by
  obtain ⟨_, sn, l0, rest, hl, h1, h2, _, _⟩ := h
  simp only [pendingForManager, hl] at hp
  simp only [nextForManager, hl]
  rw [if_pos ⟨h1, h2⟩]
  cases hq : l0.queue with
  | nil => rfl
  | cons a q => rw [hq] at hp; simp at hp

theorem pending_le (s : Svc) (h : SOK s) : pendingForManager s ≤ 4 := by
  obtain ⟨hc, sn, l0, rest, hl, h1, h2, _, _⟩ := h
  have := queue_bound s hc l0 (by rw [hl]; simp) h2
  simp only [pendingForManager, hl]
  simp [listenerCap] at this
  omega

/-- one hand-over: the service keeps its state, one notification less is pending; nothing else moves. -/
theorem handover_step (y : System) (i : Nat) (s : Svc) (hs : y.svcs[i]? = some s) (hk : SOK s) :
    ∃ s', (y.step (.handover i)).svcs = y.svcs.set i s' ∧ s'.st = s.st ∧ SOK s' ∧
      pendingForManager s' = pendingForManager s - 1 := by
  simp only [System.step, hs]
  cases hn : nextForManager s with
  | none =>
    refine ⟨s, by simp [set_same _ i s hs], rfl, hk, ?_⟩
    obtain ⟨_, sn, l0, rest, hl, h1, h2, _, _⟩ := hk
    simp only [nextForManager, hl] at hn
    rw [if_pos ⟨h1, h2⟩] at hn
    simp only [pendingForManager, hl]
    cases hq : l0.queue with
    | nil => rfl
    | cons a q => rw [hq] at hn; cases hn
  | some n =>
    have hok := (sok_handover s n hk hn).1
    refine ⟨handStep s, rfl, rfl, hok, ?_⟩
    obtain ⟨_, sn, l0, rest, hl, h1, h2, _, _, h5⟩ := hk
    simp only [nextForManager, hl] at hn
    rw [if_pos ⟨h1, h2⟩] at hn
    cases hq : l0.queue with
    | nil => rw [hq] at hn; cases hn
    | cons a q =>
      have hls := handStep_lsns s l0 rest a q hl h1 h2 h5 hq
      simp [pendingForManager, hls, hl, hq]

theorem handovers (k : Nat) (y : System) (i : Nat) (s : Svc) (hs : y.svcs[i]? = some s) (hk : SOK s) :
    ∃ s', (y.run (List.replicate k (SysEv.handover i))).svcs = y.svcs.set i s' ∧ s'.st = s.st ∧ SOK s' ∧
      pendingForManager s' = pendingForManager s - k := by
  induction k generalizing y s with
  | zero => exact ⟨s, by simp [System.run, set_same _ i s hs], rfl, hk, rfl⟩
  | succ k ih =>
    obtain ⟨s1, a1, a2, a3, a4⟩ := handover_step y i s hs hk
    have hlt := lt_of_getElem? hs
    obtain ⟨s2, b1, b2, b3, b4⟩ := ih (y.step (.handover i)) s1 (by rw [a1]; exact List.getElem?_set_self hlt) a3
    refine ⟨s2, ?_, by rw [b2, a2], b3, by rw [b4, a4]; omega⟩
    show ((y.step (.handover i)).run _).svcs = _
    rw [b1, a1, List.set_set]

theorem svcFinish_allowed : ∀ e ∈ svcFinish, ¬ (e = Ev.deliver 0 ∨ e = Ev.removeListener 0) := by
  intro e he
  have : e = .stopAsync ∨ e = .tau ∨ e = .startRet none ∨ e = .runRet none ∨ e = .stopRet none := by
    simp only [svcFinish, List.mem_cons, List.mem_flatten, List.mem_replicate] at he
    rcases he with h | ⟨l, ⟨_, rfl⟩, h⟩
    · exact Or.inl h
    · simp at h; rcases h with h | h | h | h <;> simp [h]
  rcases this with rfl | rfl | rfl | rfl | rfl <;> simp

/-- service `i` is finished and everything about it has been handed to the manager. -/
def Finished (s : Svc) : Prop := s.st.terminal = true ∧ nextForManager s = none

/-- the part of `sysFinish` for service `i`. -/
def finishOne (i : Nat) : List SysEv := svcFinish.map (SysEv.svc i) ++ List.replicate 4 (SysEv.handover i)

theorem finishOne_spec (y : System) (hy : YInv y) (i : Nat) (hi : i < y.svcs.length) :
    ∃ s', (y.run (finishOne i)).svcs = y.svcs.set i s' ∧ Finished s' ∧ SOK s' := by
  have hs : y.svcs[i]? = some y.svcs[i] := List.getElem?_eq_getElem hi
  have hk := hy.svcs _ (List.getElem_mem hi)
  obtain ⟨a1, a2⟩ := sys_svc_events i svcFinish svcFinish_allowed y _ hs
  obtain ⟨hterm, hcore⟩ := svcFinish_terminal _ hk.1
  -- the invariant still holds after the service's own events
  have hy1 := yinv_run y (svcFinish.map (SysEv.svc i)) hy
  have hs1 : (y.run (svcFinish.map (SysEv.svc i))).svcs[i]? = some (run y.svcs[i] svcFinish) := by
    rw [a1]; exact List.getElem?_set_self hi
  have hk1 := hy1.svcs _ (List.mem_of_getElem? hs1)
  obtain ⟨s', b1, b2, b3, b4⟩ := handovers 4 _ i _ hs1 hk1
  refine ⟨s', ?_, ⟨by rw [b2]; exact hterm, pending_zero s' b3 (by have := pending_le _ hk1; omega)⟩, b3⟩
  unfold finishOne
  rw [sysrun_append, b1, a1, List.set_set]

theorem sysFinish_spec (is : List Nat) (y : System) (hy : YInv y) (hnd : is.Nodup) (hlt : ∀ i ∈ is, i < y.svcs.length) :
    let y' := y.run (is.flatMap finishOne)
    y'.svcs.length = y.svcs.length ∧ YInv y' ∧
    (∀ i ∈ is, ∃ s, y'.svcs[i]? = some s ∧ Finished s) ∧
    (∀ j, j ∉ is → y'.svcs[j]? = y.svcs[j]?) := by
  induction is generalizing y with
  | nil => exact ⟨rfl, hy, by simp, fun j _ => rfl⟩
  | cons i rest ih =>
    simp only [List.flatMap_cons, sysrun_append]
    have hi := hlt i (List.mem_cons_self ..)
    obtain ⟨s', a1, a2, _⟩ := finishOne_spec y hy i hi
    have hy1 := yinv_run y (finishOne i) hy
    have hlen1 : (y.run (finishOne i)).svcs.length = y.svcs.length := by rw [a1]; simp
    have hnd' := List.nodup_cons.mp hnd
    obtain ⟨b1, b2, b3, b4⟩ := ih (y.run (finishOne i)) hy1 hnd'.2
      (fun j hj => by rw [hlen1]; exact hlt j (List.mem_cons_of_mem _ hj))
    refine ⟨by rw [b1, hlen1], b2, ?_, ?_⟩
    · intro j hj
      simp only [List.mem_cons] at hj
      rcases hj with rfl | hj
      · refine ⟨s', ?_, a2⟩
        rw [b4 j hnd'.1, a1]
        exact List.getElem?_set_self hi
      · exact b3 j hj
    · intro j hj
      simp only [List.mem_cons, not_or] at hj
      rw [b4 j hj.2, a1]
      exact List.getElem?_set_ne (fun h => hj.1 h.symm)

theorem sysFinish_eq (n : Nat) : sysFinish n = (List.range n).flatMap finishOne := rfl

/-- **the system can always finish**: from every state satisfying the system invariant (every reachable
state) `sysFinish` leaves every service Terminated or Failed and the manager Stopped, its stopped latch
closed exactly once. -/
theorem system_finishes (y : System) (hy : YInv y) :
    let y' := y.run (sysFinish y.svcs.length)
    (∀ s ∈ y'.svcs, s.st.terminal = true) ∧ y'.mgr.state = .stopped ∧ y'.mgr.stoppedCloses = 1 ∧ YInv y' := by
  intro y'
  obtain ⟨h1, h2, h3, _⟩ := sysFinish_spec (List.range y.svcs.length) y hy List.nodup_range
    (fun i hi => List.mem_range.mp hi)
  have hfin : ∀ s ∈ y'.svcs, Finished s := by
    intro s hs
    obtain ⟨j, hj⟩ := List.mem_iff_getElem?.mp hs
    have hjl : j < y.svcs.length := by
      have := lt_of_getElem? hj
      show j < y.svcs.length
      rw [← h1]; exact this
    obtain ⟨s2, hs2, hf⟩ := h3 j (List.mem_range.mpr hjl)
    have : y'.svcs[j]? = some s2 := hs2
    rw [hj] at this
    cases this
    exact hf
  have hd := system_drained y' h2 (fun s hs => (hfin s hs).2)
  have hstopped : y'.mgr.state = .stopped := hd.2.mpr (fun s hs => (hfin s hs).1)
  refine ⟨fun s hs => (hfin s hs).1, hstopped, ?_, h2⟩
  -- the latch: stopped ⇔ all views terminal ⇔ one Stopped notification ⇔ one close
  have hr := h2.mgr.rest
  have hz := hr.zrel.mpr (hr.stZ.mp hstopped)
  have hzc := hr.zc
  show (y.run (List.flatMap finishOne (List.range y.svcs.length))).mgr.stoppedCloses = 1
  rw [hzc, hz]

end PfC17
