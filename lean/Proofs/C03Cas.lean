import Proofs.C03Thm
/-! Proofs for C03, part 4: the change reported by a LOCAL CAS merge (`cas = true`), which contains
the tombstones created for the entries missing from the new value, is sufficient: merged into a
replica holding the pre-state it reproduces the post-CAS state. The tombstones need not be contents of
the universe (only their token lists matter for the absence of collisions), hence the slightly wider
class `Near`. -/
namespace PfC03
open Ring C03

variable {U : String → Int → Bool → Inst}

/-! ## descriptors that are "near" the universe: normalised, positive timestamps, tokens from it -/

/-- the token list of `e` is empty or is the universe's token list of `e.id` at some point -/
def TokOK (U : String → Int → Bool → Inst) (e : Inst) : Prop :=
  e.tokens = [] ∨ ∃ ts l, e.tokens = (U e.id ts l).tokens

theorem no_conflicts_of_tokOK (hU : Univ U) {d : Desc} (hn : (ids d).Nodup) (h : ∀ e ∈ d, TokOK U e) :
    conflictsExist d = false := by
  unfold conflictsExist
  rw [hasDup_false_iff]
  apply nodup_allTokens
  · intro e he
    rcases h e he with h0 | ⟨ts, l, h1⟩
    · rw [h0]; exact List.nodup_nil
    · rw [h1]; exact sortedStrict_nodup (hU.sorted _ _ _)
  · induction d with
    | nil => exact List.Pairwise.nil
    | cons x xs ih =>
      simp only [ids, List.map_cons, List.nodup_cons] at hn
      rw [List.pairwise_cons]
      refine ⟨?_, ih hn.2 (fun e he => h e (by simp [he]))⟩
      intro y hy t ht
      have hne : x.id ≠ y.id := by
        intro e; apply hn.1; rw [e]; exact List.mem_map.2 ⟨y, hy, rfl⟩
      rcases h x (by simp) with h0 | ⟨ts, l, h1⟩
      · rw [h0] at ht; simp at ht
      · rcases h y (by simp [hy]) with h0' | ⟨ts', l', h1'⟩
        · rw [h0']; simp
        · rw [h1] at ht; rw [h1']
          exact hU.noclash _ _ _ _ _ _ hne t ht

structure Near (U : String → Int → Bool → Inst) (d : Desc) : Prop where
  nodup : (ids d).Nodup
  pos : ∀ e ∈ d, e.ts ≥ 1
  norm : ∀ e ∈ d, normInst e = e
  tok : ∀ e ∈ d, TokOK U e

theorem drawn_near (hU : Univ U) {d : Desc} (hd : Drawn U d) : Near U d :=
  ⟨hd.nodup, hd.pos, fun e he => by rw [hd.coh e he]; exact normInst_U hU _ _ _,
   fun e he => Or.inr ⟨e.ts, decide (e.state = .LEFT), congrArg Inst.tokens (hd.coh e he)⟩⟩

theorem normalize_near {d : Desc} (hd : Near U d) : normalize d = d := by
  unfold normalize
  have := hd.norm
  clear hd
  induction d with
  | nil => rfl
  | cons x xs ih =>
    simp only [List.map_cons]
    rw [this x (by simp), ih (fun e he => this e (by simp [he]))]

theorem loop_near {s x : Desc} (hs : Near U s) (hx : Near U x) : Near U (loop s x).this := by
  refine ⟨foldl_nodup x _ hs.nodup, ?_, ?_, ?_⟩
  · intro e he
    rcases foldl_mem x _ e he with h | h
    · exact hs.pos e h
    · exact hx.pos e h
  · intro e he
    rcases foldl_mem x _ e he with h | h
    · exact hs.norm e h
    · exact hx.norm e h
  · intro e he
    rcases foldl_mem x _ e he with h | h
    · exact hs.tok e h
    · exact hx.tok e h

theorem mergeState_eq_loop_near (hU : Univ U) {s x : Desc} (hs : Near U s) (hx : Near U x) :
    mergeState s x = (loop s x).this := by
  have hacc : mergeAcc false 0 s x = loop s x := by
    unfold mergeAcc loop
    simp only [normalize_near hx, Bool.false_eq_true, if_false]
  unfold mergeState merge finish
  rw [hacc]
  by_cases hu : (loop s x).updated.isEmpty = true
  · rw [if_pos hu]
    have : (loop s x).updated = [] := by simpa using hu
    exact ((foldl_updated_nil x _ this).1).symm
  · rw [if_neg hu]
    have hl := loop_near hs hx
    simp only [no_conflicts_of_tokOK hU hl.nodup hl.tok, Bool.false_eq_true, and_false, if_false]

/-- the `get?` view of a gossip merge, for the wider class -/
theorem view_merge_near (hU : Univ U) {s x : Desc} (hs : Near U s) (hx : Near U x) (k : String) :
    get? (mergeState s x) k = maxOpt (get? s k) (get? x k) := by
  rw [mergeState_eq_loop_near hU hs hx]
  unfold loop
  rw [get?_foldl x _ k hx.nodup]
  exact joinOpt_eq_max _ _ (fun e he => hs.pos e (get?_mem he)) (fun e he => hx.pos e (get?_mem he))

/-! ## the local-CAS pass -/

/-- the tombstone a local CAS writes for an entry missing from the new value -/
def tomb (now : Int) (t : Inst) : Inst := { t with state := .LEFT, tokens := [], ts := now }

/-- the entry is missing from the new value and has not left yet -/
def casCond (o : Desc) (t : Inst) : Prop := (get? o t.id).isNone = true ∧ t.state ≠ .LEFT

instance (o : Desc) (t : Inst) : Decidable (casCond o t) := by unfold casCond; exact inferInstance

theorem casEntry_eq (o : Desc) (now : Int) (acc : Acc) (t : Inst) :
    casEntry o now acc t =
      if casCond o t then { acc with this := upsert (tomb now t) acc.this, updated := acc.updated ++ [t.id] } else acc := rfl

theorem get?_casFold (o : Desc) (now : Int) (ts : Desc) (acc : Acc) (k : String) (hn : (ids ts).Nodup) :
    get? (ts.foldl (casEntry o now) acc).this k =
      match get? ts k with
      | some t => if casCond o t then some (tomb now t) else get? acc.this k
      | none => get? acc.this k := by
  induction ts generalizing acc with
  | nil => rfl
  | cons t ts ih =>
    simp only [ids, List.map_cons, List.nodup_cons] at hn
    rw [List.foldl_cons, ih _ hn.2, get?_cons]
    by_cases hk : t.id = k
    · have hnone : get? ts k = none := get?_none_iff.2 (by rw [← hk]; exact hn.1)
      rw [if_pos hk, hnone]
      simp only
      rw [casEntry_eq]
      by_cases hc : casCond o t
      · rw [if_pos hc, if_pos hc]
        simp only
        have : (tomb now t).id = k := hk
        rw [← this]; exact get?_upsert_same _ _
      · rw [if_neg hc, if_neg hc]
    · rw [if_neg hk]
      have hother : get? (casEntry o now acc t).this k = get? acc.this k := by
        rw [casEntry_eq]
        by_cases hc : casCond o t
        · rw [if_pos hc]; simp only
          exact get?_upsert_other _ _ _ (fun e => hk e.symm)
        · rw [if_neg hc]
      rw [hother]

theorem casFold_updated (o : Desc) (now : Int) (ts : Desc) (acc : Acc) :
    (ts.foldl (casEntry o now) acc).updated = acc.updated ++ (ts.filter fun t => casCond o t).map (·.id) := by
  induction ts generalizing acc with
  | nil => simp
  | cons t ts ih =>
    rw [List.foldl_cons, ih, casEntry_eq, List.filter_cons]
    by_cases hc : casCond o t
    · rw [if_pos hc]; simp [hc]
    · rw [if_neg hc]; simp [hc]

theorem casFold_nodup (o : Desc) (now : Int) (ts : Desc) (acc : Acc) (hn : (ids acc.this).Nodup) :
    (ids (ts.foldl (casEntry o now) acc).this).Nodup := by
  induction ts generalizing acc with
  | nil => exact hn
  | cons t ts ih =>
    rw [List.foldl_cons]; apply ih
    rw [casEntry_eq]
    split
    · exact upsert_nodup _ _ hn
    · exact hn

theorem casFold_mem (o : Desc) (now : Int) (ts : Desc) (acc : Acc) (x : Inst)
    (hx : x ∈ (ts.foldl (casEntry o now) acc).this) : x ∈ acc.this ∨ ∃ t ∈ ts, x = tomb now t := by
  induction ts generalizing acc with
  | nil => exact Or.inl hx
  | cons t ts ih =>
    rw [List.foldl_cons] at hx
    rcases ih _ hx with h | ⟨t', ht', h⟩
    · rw [casEntry_eq] at h
      split at h
      · rcases mem_upsert h with h | h
        · exact Or.inr ⟨t, by simp, h⟩
        · exact Or.inl h
      · exact Or.inl h
    · exact Or.inr ⟨t', List.mem_cons_of_mem _ ht', h⟩

theorem normInst_tomb (now : Int) (t : Inst) : normInst (tomb now t) = tomb now t := by
  unfold normInst tomb; simp

/-! ## the post-CAS state and its change -/

/-- the accumulator of a local CAS of `b` over `a` (both drawn from the universe) -/
theorem mergeAcc_cas (hU : Univ U) (now : Int) (a : Desc) {b : Desc} (hb : Drawn U b) :
    mergeAcc true now a b = (loop a b).this.foldl (casEntry b now) (loop a b) := by
  unfold mergeAcc loop
  simp only [normalize_drawn hU hb, if_true]

theorem cas_near (hU : Univ U) {a b : Desc} {now : Int} (ha : Drawn U a) (hb : Drawn U b) (hnow : now ≥ 1) :
    Near U (mergeAcc true now a b).this := by
  rw [mergeAcc_cas hU now a hb]
  have hl := drawn_near hU (loop_drawn ha hb)
  refine ⟨casFold_nodup _ _ _ _ hl.nodup, ?_, ?_, ?_⟩
  · intro e he
    rcases casFold_mem _ _ _ _ e he with h | ⟨t, _, rfl⟩
    · exact hl.pos e h
    · exact hnow
  · intro e he
    rcases casFold_mem _ _ _ _ e he with h | ⟨t, _, rfl⟩
    · exact hl.norm e h
    · exact normInst_tomb now t
  · intro e he
    rcases casFold_mem _ _ _ _ e he with h | ⟨t, _, rfl⟩
    · exact hl.tok e h
    · exact Or.inl rfl

/-- per key, the accumulated map of the gossip loop (the last-writer-wins entry) -/
theorem loop_view (hU : Univ U) {a b : Desc} (ha : Drawn U a) (hb : Drawn U b) (k : String) :
    get? (loop a b).this k = maxOpt (get? a k) (get? b k) := by
  rw [← mergeState_eq_loop hU ha hb]; exact view_merge hU ha hb k

/-- … and of the whole local CAS: the last-writer-wins entry, replaced by a tombstone stamped `now`
when the key is missing from the new value and the entry had not left -/
theorem cas_view (hU : Univ U) {a b : Desc} {now : Int} (ha : Drawn U a) (hb : Drawn U b) (k : String) :
    get? (mergeAcc true now a b).this k =
      match get? a k with
      | some t => if get? b k = none ∧ t.state ≠ .LEFT then some (tomb now t) else maxOpt (get? a k) (get? b k)
      | none => get? b k := by
  rw [mergeAcc_cas hU now a hb, get?_casFold b now _ _ k (loop_drawn ha hb).nodup, loop_view hU ha hb k]
  cases hbk : get? b k with
  | none =>
    have hmax : maxOpt (get? a k) none = get? a k := by
      unfold maxOpt; rw [if_neg]; rw [rkO_none]; have := rkO_nonneg ha k; omega
    rw [hmax]
    cases hak : get? a k with
    | none => rfl
    | some t =>
      simp only
      have hid : t.id = k := get?_id hak
      have hc : casCond b t ↔ (True ∧ t.state ≠ .LEFT) := by
        unfold casCond; rw [hid, hbk]; simp
      by_cases hl : t.state = .LEFT
      · rw [if_neg (by rw [hc]; simp [hl]), if_neg (by simp [hl])]
      · rw [if_pos (by rw [hc]; exact ⟨trivial, hl⟩), if_pos ⟨trivial, hl⟩]
  | some o =>
    have hnc : ∀ t, t.id = k → ¬ casCond b t := by
      intro t hid hc
      unfold casCond at hc
      rw [hid, hbk] at hc
      simp at hc
    cases hak : get? a k with
    | none =>
      have hpos := rk_pos (hb.pos o (get?_mem hbk))
      have hm : maxOpt none (some o) = some o := by
        unfold maxOpt; rw [if_pos (by rw [rkO_none, rkO_some]; omega)]
      rw [hm]
      simp only
      rw [if_neg (hnc o (get?_id hbk))]
    | some t' =>
      have hm : ∃ m, maxOpt (some t') (some o) = some m ∧ m.id = k := by
        unfold maxOpt
        split
        · exact ⟨o, rfl, get?_id hbk⟩
        · exact ⟨t', rfl, get?_id hak⟩
      obtain ⟨m, hm, hid⟩ := hm
      rw [hm]
      simp only
      rw [if_neg (hnc m hid), if_neg (by simp)]

theorem mem_loop_updated_iff {a b : Desc} (ha : Drawn U a) (hb : Drawn U b) (k : String) :
    k ∈ (loop a b).updated ↔ rkO (get? a k) < rkO (get? b k) := by
  rw [mem_loop_updated hb.nodup k]
  constructor
  · rintro ⟨o, hg, hacc⟩
    rw [accept_iff _ o (hb.pos o (get?_mem hg)) (drawn_get?_pos ha k)] at hacc
    rw [hg, rkO_some]; simpa using hacc
  · intro hlt
    cases hg : get? b k with
    | none => rw [hg, rkO_none] at hlt; have := rkO_nonneg ha k; omega
    | some o =>
      refine ⟨o, rfl, ?_⟩
      rw [accept_iff _ o (hb.pos o (get?_mem hg)) (drawn_get?_pos ha k)]
      rw [hg, rkO_some] at hlt; simpa using hlt

theorem maxOpt_none_right {d : Desc} (hd : Drawn U d) (k : String) : maxOpt (get? d k) none = get? d k := by
  unfold maxOpt; rw [if_neg]; rw [rkO_none]; have := rkO_nonneg hd k; omega

/-- which keys a local CAS reports: the accepted incoming entries and the entries it tombstones -/
theorem mem_cas_updated (hU : Univ U) {a b : Desc} (now : Int) (ha : Drawn U a) (hb : Drawn U b) (k : String) :
    k ∈ (mergeAcc true now a b).updated ↔
      (rkO (get? a k) < rkO (get? b k) ∨ ∃ t, get? a k = some t ∧ get? b k = none ∧ t.state ≠ .LEFT) := by
  rw [mergeAcc_cas hU now a hb, casFold_updated, List.mem_append, mem_loop_updated_iff ha hb k]
  have hl := loop_drawn ha hb
  apply or_congr Iff.rfl
  simp only [List.mem_map, List.mem_filter, decide_eq_true_eq]
  constructor
  · rintro ⟨t, ⟨ht, hc⟩, rfl⟩
    have hg := get?_of_mem_nodup hl.nodup ht
    have hbn : get? b t.id = none := by
      have := hc.1; cases h : get? b t.id with
      | none => rfl
      | some x => rw [h] at this; simp at this
    rw [loop_view hU ha hb, hbn, maxOpt_none_right ha] at hg
    exact ⟨t, hg, hbn, hc.2⟩
  · rintro ⟨t, hak, hbn, hl'⟩
    have hid := get?_id hak
    have hg : get? (loop a b).this k = some t := by
      rw [loop_view hU ha hb, hbn, maxOpt_none_right ha]; exact hak
    refine ⟨t, ⟨get?_mem hg, ?_, hl'⟩, hid⟩
    rw [hid, hbn]; rfl

theorem cas_updated_nodup (hU : Univ U) {a b : Desc} (now : Int) (ha : Drawn U a) (hb : Drawn U b) :
    (mergeAcc true now a b).updated.Nodup := by
  rw [mergeAcc_cas hU now a hb, casFold_updated, List.nodup_append]
  have hl := loop_drawn ha hb
  refine ⟨loop_updated_nodup hb.nodup, ?_, ?_⟩
  · exact List.Nodup.sublist (List.Sublist.map _ List.filter_sublist) hl.nodup
  · intro x hx y hy hxy
    subst hxy
    rw [mem_loop_updated_iff ha hb x] at hx
    simp only [List.mem_map, List.mem_filter, decide_eq_true_eq] at hy
    obtain ⟨t, ⟨_, hc⟩, rfl⟩ := hy
    have hbn : get? b t.id = none := by
      have := hc.1; cases h : get? b t.id with
      | none => rfl
      | some x => rw [h] at this; simp at this
    rw [hbn, rkO_none] at hx
    have := rkO_nonneg ha t.id
    omega

/-- a key the local CAS did not report keeps its pre-state entry -/
theorem cas_view_not_updated (hU : Univ U) {a b : Desc} {now : Int} (ha : Drawn U a) (hb : Drawn U b) (k : String)
    (hk : k ∉ (mergeAcc true now a b).updated) : get? (mergeAcc true now a b).this k = get? a k := by
  rw [mem_cas_updated hU now ha hb k, not_or] at hk
  obtain ⟨h1, h2⟩ := hk
  rw [cas_view hU ha hb k]
  cases hak : get? a k with
  | none =>
    simp only
    cases hbk : get? b k with
    | none => rfl
    | some o =>
      exfalso; apply h1
      rw [hak, hbk, rkO_none, rkO_some]; have := rk_pos (hb.pos o (get?_mem hbk)); omega
  | some t =>
    simp only
    rw [if_neg (fun hc => h2 ⟨t, hak, hc.1, hc.2⟩)]
    rw [hak] at h1
    unfold maxOpt; rw [if_neg h1]

/-- what a local CAS returns for descriptors of the universe: no conflict resolution is ever needed -/
theorem merge_cas_out (hU : Univ U) {a b : Desc} {now : Int} (ha : Drawn U a) (hb : Drawn U b) (hnow : now ≥ 1) :
    merge true now a b =
      if (mergeAcc true now a b).updated.isEmpty then { state := a, change := none }
      else { state := (mergeAcc true now a b).this,
             change := some ((mergeAcc true now a b).updated.filterMap (get? (mergeAcc true now a b).this)) } := by
  unfold merge finish
  have hP := cas_near hU ha hb hnow
  simp only [no_conflicts_of_tokOK hU hP.nodup hP.tok, Bool.false_eq_true, and_false, if_false]

theorem cas_change_near (hU : Univ U) {a b ch : Desc} {now : Int} (ha : Drawn U a) (hb : Drawn U b) (hnow : now ≥ 1)
    (hch : (merge true now a b).change = some ch) :
    (merge true now a b).state = (mergeAcc true now a b).this ∧
    ch = (mergeAcc true now a b).updated.filterMap (get? (mergeAcc true now a b).this) ∧ Near U ch := by
  rw [merge_cas_out hU ha hb hnow] at hch ⊢
  split at hch
  · simp at hch
  · rename_i hne
    rw [if_neg hne]
    injection hch with hch
    subst hch
    have hP := cas_near hU ha hb hnow
    refine ⟨rfl, rfl, List.Nodup.sublist (ids_filterMap_sub _ _) (cas_updated_nodup hU now ha hb), ?_, ?_, ?_⟩
    · intro e he
      simp only [List.mem_filterMap] at he
      obtain ⟨n, _, hn⟩ := he
      exact hP.pos e (get?_mem hn)
    · intro e he
      simp only [List.mem_filterMap] at he
      obtain ⟨n, _, hn⟩ := he
      exact hP.norm e (get?_mem hn)
    · intro e he
      simp only [List.mem_filterMap] at he
      obtain ⟨n, _, hn⟩ := he
      exact hP.tok e (get?_mem hn)

/-- **sufficiency of a local CAS's change, into any replica containing the pre-state**: merging the
change (accepted entries and the tombstones the CAS created) gives the same content as merging the
whole post-CAS state. -/
theorem cas_change_sufficient_above_view (hU : Univ U) {a b ch s : Desc} {now : Int} (ha : Drawn U a) (hb : Drawn U b)
    (hs : Drawn U s) (hcontains : ∀ k, rkO (get? a k) ≤ rkO (get? s k)) (hnow : now ≥ 1)
    (hch : (merge true now a b).change = some ch) (k : String) :
    get? (mergeState s ch) k = get? (mergeState s (merge true now a b).state) k := by
  obtain ⟨hst, hce, hcn⟩ := cas_change_near hU ha hb hnow hch
  have hP := cas_near hU ha hb hnow
  have hsn := drawn_near hU hs
  rw [hst, view_merge_near hU hsn hcn, view_merge_near hU hsn hP, hce, get?_filterMap]
  by_cases hk : k ∈ (mergeAcc true now a b).updated
  · rw [if_pos hk]
  · rw [if_neg hk, cas_view_not_updated hU ha hb k hk, maxOpt_none_right hs, maxOpt_of_ge (hcontains k)]

/-- **sufficiency of a local CAS's change, into the pre-state**: it reproduces the post-CAS state,
provided the clock is not behind the entries the CAS removes (their tombstones are stamped `now`). -/
theorem cas_change_sufficient_view (hU : Univ U) {a b ch : Desc} {now : Int} (ha : Drawn U a) (hb : Drawn U b)
    (hnow : now ≥ 1) (hclock : ∀ t ∈ a, t.state ≠ .LEFT → get? b t.id = none → t.ts ≤ now)
    (hch : (merge true now a b).change = some ch) (k : String) :
    get? (mergeState a ch) k = get? (merge true now a b).state k := by
  obtain ⟨hst, hce, hcn⟩ := cas_change_near hU ha hb hnow hch
  rw [hst, view_merge_near hU (drawn_near hU ha) hcn, hce, get?_filterMap]
  by_cases hk : k ∈ (mergeAcc true now a b).updated
  · rw [if_pos hk]
    rw [mem_cas_updated hU now ha hb k] at hk
    rw [cas_view hU ha hb k]
    rcases hk with hlt | ⟨t, hak, hbn, hl⟩
    · cases hak : get? a k with
      | none =>
        simp only
        rw [hak] at hlt
        unfold maxOpt; rw [if_pos hlt]
      | some t =>
        simp only
        have hbne : ¬ (get? b k = none ∧ t.state ≠ .LEFT) := by
          rintro ⟨hbn, _⟩
          rw [hbn, rkO_none] at hlt; have := rkO_nonneg ha k; omega
        rw [if_neg hbne]
        rw [hak] at hlt
        unfold maxOpt; rw [if_pos hlt, if_pos hlt]
    · rw [hak]
      simp only
      rw [if_pos ⟨hbn, hl⟩]
      have hid := get?_id hak
      have hle := hclock t (get?_mem hak) hl (by rw [hid]; exact hbn)
      unfold maxOpt
      rw [if_pos]
      simp only [rkO, rk, tomb, if_neg hl, if_true]
      omega
  · rw [if_neg hk, cas_view_not_updated hU ha hb k hk, maxOpt_none_right ha]

end PfC03
