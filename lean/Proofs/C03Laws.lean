import Proofs.C03
/-! Proofs for C03, part 2: normalisation is the identity on normalised data, absence of
conflicts in clash-free universes, the `get?`-view of a merge, and the CRDT laws. -/
namespace PfC03
open Ring C03

/-! ## sorted token lists -/

theorem sortedStrict_cons {a : Nat} {l : List Nat} (h : sortedStrict (a :: l) = true) :
    sortedStrict l = true ∧ ∀ b ∈ l, a < b := by
  induction l generalizing a with
  | nil => simp [sortedStrict]
  | cons b r ih =>
    simp only [sortedStrict, Bool.and_eq_true, decide_eq_true_eq] at h
    obtain ⟨hab, hr⟩ := h
    refine ⟨hr, ?_⟩
    intro c hc
    rcases List.mem_cons.1 hc with rfl | hc
    · exact hab
    · exact Nat.lt_trans hab ((ih hr).2 c hc)

theorem sortedStrict_nodup {l : List Nat} (h : sortedStrict l = true) : l.Nodup := by
  induction l with
  | nil => exact List.nodup_nil
  | cons a r ih =>
    obtain ⟨hr, hlt⟩ := sortedStrict_cons h
    rw [List.nodup_cons]
    exact ⟨fun hm => Nat.lt_irrefl a (hlt a hm), ih hr⟩

theorem sortNat_sorted {l : List Nat} (h : sortedStrict l = true) : sortNat l = l := by
  induction l with
  | nil => rfl
  | cons a r ih =>
    obtain ⟨hr, hlt⟩ := sortedStrict_cons h
    have : sortNat (a :: r) = insertNat a (sortNat r) := rfl
    rw [this, ih hr]
    cases r with
    | nil => rfl
    | cons b r' =>
      have hab : a ≤ b := Nat.le_of_lt (hlt b (by simp))
      simp [insertNat, hab]

theorem dedupAdj_sorted {l : List Nat} (h : sortedStrict l = true) : dedupAdj l = l := by
  induction l with
  | nil => rfl
  | cons a r ih =>
    obtain ⟨hr, hlt⟩ := sortedStrict_cons h
    cases r with
    | nil => rfl
    | cons b r' =>
      have hab : a ≠ b := Nat.ne_of_lt (hlt b (by simp))
      simp only [dedupAdj, hab, if_false]
      rw [ih hr]

theorem normTokens_sorted {l : List Nat} (h : sortedStrict l = true) : normTokens l = l := by
  unfold normTokens; rw [sortNat_sorted h, dedupAdj_sorted h]

/-! ## duplicates -/

theorem hasDup_false_iff (l : List Nat) : hasDup l = false ↔ l.Nodup := by
  induction l with
  | nil => simp [hasDup]
  | cons a r ih =>
    simp only [hasDup, Bool.or_eq_false_iff, List.nodup_cons, ih]
    constructor
    · rintro ⟨h1, h2⟩; exact ⟨by simpa using h1, h2⟩
    · rintro ⟨h1, h2⟩; exact ⟨by simpa using h1, h2⟩

theorem nodup_allTokens (d : Desc)
    (h1 : ∀ e ∈ d, e.tokens.Nodup)
    (h2 : d.Pairwise (fun a b => ∀ t ∈ a.tokens, t ∉ b.tokens)) : (allTokens d).Nodup := by
  induction d with
  | nil => simp [allTokens]
  | cons x xs ih =>
    have : allTokens (x :: xs) = x.tokens ++ allTokens xs := by simp [allTokens]
    rw [this, List.nodup_append]
    rw [List.pairwise_cons] at h2
    refine ⟨h1 x (by simp), ih (fun e he => h1 e (by simp [he])) h2.2, ?_⟩
    intro a ha b hb hab
    subst hab
    simp only [allTokens, List.mem_flatMap] at hb
    obtain ⟨y, hy, hay⟩ := hb
    exact h2.1 y hy a ha hay

/-! ## the coherent, clash-free universe (the property's provisos) -/

-- `Univ` and `Drawn` are defined in `Model/C03.lean` (statement vocabulary)

theorem normInst_U {U} (hU : Univ U) (id : String) (ts : Int) (l : Bool) : normInst (U id ts l) = U id ts l := by
  unfold normInst
  by_cases h : (U id ts l).state = .LEFT
  · rw [if_pos h]
    have hl : l = true := (hU.left_iff id ts l).1 h
    subst hl
    have := hU.left_tokens id ts
    cases hx : U id ts true
    rw [hx] at this; simp at this; simp [this]
  · rw [if_neg h, normTokens_sorted (hU.sorted id ts l)]

theorem normalize_drawn {U} (hU : Univ U) {d : Desc} (hd : Drawn U d) : normalize d = d := by
  unfold normalize
  have : ∀ e ∈ d, normInst e = e := by
    intro e he; rw [hd.coh e he]; exact normInst_U hU _ _ _
  clear hd
  induction d with
  | nil => rfl
  | cons x xs ih =>
    simp only [List.map_cons]
    rw [this x (by simp), ih (fun e he => this e (by simp [he]))]

theorem drawn_no_conflicts {U} (hU : Univ U) {d : Desc} (hd : Drawn U d) : conflictsExist d = false := by
  unfold conflictsExist
  rw [hasDup_false_iff]
  apply nodup_allTokens
  · intro e he; rw [hd.coh e he]; exact sortedStrict_nodup (hU.sorted _ _ _)
  · have hn := hd.nodup
    have hc := hd.coh
    clear hd
    induction d with
    | nil => exact List.Pairwise.nil
    | cons x xs ih =>
      simp only [ids, List.map_cons, List.nodup_cons] at hn
      rw [List.pairwise_cons]
      refine ⟨?_, ih hn.2 (fun e he => hc e (by simp [he]))⟩
      intro y hy t ht
      have hne : x.id ≠ y.id := by
        intro e; apply hn.1; rw [e]; exact List.mem_map.2 ⟨y, hy, rfl⟩
      rw [hc x (by simp)] at ht
      rw [hc y (by simp [hy])]
      exact hU.noclash _ _ _ _ _ _ hne t ht

/-! ## the merge loop stays inside the universe -/

def loop (a b : Desc) : Acc := b.foldl stepEntry { this := a, updated := [], tokCh := false }

theorem loop_drawn {U} {a b : Desc} (ha : Drawn U a) (hb : Drawn U b) : Drawn U (loop a b).this := by
  refine ⟨foldl_nodup b _ ha.nodup, ?_, ?_⟩
  · intro e he
    rcases foldl_mem b _ e he with h | h
    · exact ha.pos e h
    · exact hb.pos e h
  · intro e he
    rcases foldl_mem b _ e he with h | h
    · exact ha.coh e h
    · exact hb.coh e h

/-- the state produced by a gossip merge of two descriptors of the universe is the loop's map -/
theorem mergeAcc_eq_loop {U} (hU : Univ U) (a : Desc) {b : Desc} (hb : Drawn U b) :
    mergeAcc false 0 a b = loop a b := by
  unfold mergeAcc loop
  simp only [normalize_drawn hU hb, Bool.false_eq_true, if_false]

theorem mergeState_eq_loop {U} (hU : Univ U) {a b : Desc} (ha : Drawn U a) (hb : Drawn U b) :
    mergeState a b = (loop a b).this := by
  unfold mergeState merge finish
  rw [mergeAcc_eq_loop hU a hb]
  by_cases hu : (loop a b).updated.isEmpty = true
  · rw [if_pos hu]
    have : (loop a b).updated = [] := by simpa using hu
    exact ((foldl_updated_nil b _ this).1).symm
  · rw [if_neg hu]
    simp only [drawn_no_conflicts hU (loop_drawn ha hb), Bool.false_eq_true, and_false, if_false]

theorem mergeState_drawn {U} (hU : Univ U) {a b : Desc} (ha : Drawn U a) (hb : Drawn U b) :
    Drawn U (mergeState a b) := by
  rw [mergeState_eq_loop hU ha hb]; exact loop_drawn ha hb

/-! ## the `get?` view of a merge: per key, the entry of larger rank -/

/-- closed form of the per-key join -/
def maxOpt (t o : Option Inst) : Option Inst := if rkO t < rkO o then o else t

theorem rk_pos {e : Inst} (h : e.ts ≥ 1) : rk e ≥ 2 := by
  unfold rk; split <;> omega

theorem rkO_none : rkO none = 0 := rfl
theorem rkO_some (e : Inst) : rkO (some e) = rk e := rfl

theorem joinOpt_eq_max (t o : Option Inst) (ht : ∀ x, t = some x → x.ts ≥ 1) (ho : ∀ x, o = some x → x.ts ≥ 1) :
    joinOpt t o = maxOpt t o := by
  cases o with
  | none =>
    have : ¬ rkO t < 0 := by
      cases t with
      | none => simp [rkO]
      | some x => have := rk_pos (ht x rfl); rw [rkO_some]; omega
    show t = if rkO t < rkO none then none else t
    rw [rkO_none, if_neg this]
  | some x =>
    show (if accept t x then some x else t) = if rkO t < rkO (some x) then some x else t
    rw [accept_iff t x (ho x rfl) ht, rkO_some]
    by_cases h : rkO t < rk x
    · rw [if_pos h]; simp [h]
    · rw [if_neg h]; simp [h]

theorem drawn_get?_pos {U} {d : Desc} (hd : Drawn U d) (k : String) : ∀ x, get? d k = some x → x.ts ≥ 1 :=
  fun x hx => hd.pos x (get?_mem hx)

/-- **view of a merge**: per key, the newer timestamp wins and, at equal timestamps, the removal. -/
theorem view_merge {U} (hU : Univ U) {a b : Desc} (ha : Drawn U a) (hb : Drawn U b) (k : String) :
    get? (mergeState a b) k = maxOpt (get? a k) (get? b k) := by
  rw [mergeState_eq_loop hU ha hb]
  unfold loop
  rw [get?_foldl b _ k hb.nodup]
  exact joinOpt_eq_max _ _ (drawn_get?_pos ha k) (drawn_get?_pos hb k)

/-- coherence: two values of the same key with the same rank are the same entry -/
theorem coherent_opt {U} {a b : Desc} (ha : Drawn U a) (hb : Drawn U b) (k : String)
    (h : rkO (get? a k) = rkO (get? b k)) : get? a k = get? b k := by
  cases hx : get? a k with
  | none =>
    cases hy : get? b k with
    | none => rfl
    | some y =>
      rw [hx, hy] at h; have := rk_pos (hb.pos y (get?_mem hy)); simp only [rkO] at h; omega
  | some x =>
    cases hy : get? b k with
    | none =>
      rw [hx, hy] at h; have := rk_pos (ha.pos x (get?_mem hx)); simp only [rkO] at h; omega
    | some y =>
      rw [hx, hy] at h
      simp only [rkO, rk] at h
      have hxi := get?_id hx
      have hyi := get?_id hy
      have hcx := ha.coh x (get?_mem hx)
      have hcy := hb.coh y (get?_mem hy)
      have hts : x.ts = y.ts := by split at h <;> split at h <;> omega
      have hl : decide (x.state = .LEFT) = decide (y.state = .LEFT) := by
        by_cases h1 : x.state = .LEFT <;> by_cases h2 : y.state = .LEFT <;> simp [h1, h2] at h ⊢ <;> omega
      rw [hcx, hcy, hxi, hyi, hts, hl]

/-! ## the laws on the `get?` view -/

theorem maxOpt_comm_of {x y : Option Inst} (hc : rkO x = rkO y → x = y) : maxOpt x y = maxOpt y x := by
  unfold maxOpt
  by_cases h1 : rkO x < rkO y
  · have : ¬ rkO y < rkO x := by omega
    rw [if_pos h1, if_neg this]
  · by_cases h2 : rkO y < rkO x
    · rw [if_neg h1, if_pos h2]
    · rw [if_neg h1, if_neg h2]; exact hc (by omega)

theorem rkO_maxOpt (x y : Option Inst) : rkO (maxOpt x y) = max (rkO x) (rkO y) := by
  unfold maxOpt
  by_cases h : rkO x < rkO y
  · rw [if_pos h]; omega
  · rw [if_neg h]; omega

theorem maxOpt_assoc (x y z : Option Inst) : maxOpt (maxOpt x y) z = maxOpt x (maxOpt y z) := by
  unfold maxOpt
  by_cases h1 : rkO x < rkO y <;> by_cases h2 : rkO y < rkO z <;> by_cases h3 : rkO x < rkO z <;>
    simp [h1, h2, h3] <;> omega

theorem maxOpt_idem (x : Option Inst) : maxOpt x x = x := by
  unfold maxOpt; simp

end PfC03
